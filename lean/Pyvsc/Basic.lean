def hello := "world"
