import Pyvsc.Proofs.RandSetsInv
/-!
# Soft entries survive the construction of the rand sets

Merging two rand sets (`process_fieldref`) moves fields, hard constraints *and soft constraints*;
nothing else ever removes a soft entry.  Entries are identified by the priority they were given
when visited.
-/
namespace Pyvsc.RandSets
open Pyvsc.Expr

/-- a soft entry with priority `p` is recorded in a live set or in the field-less set -/
def SRec (st : St) (p : Nat) : Prop :=
  (∃ i rs, live st.sets i rs ∧ ∃ d ∈ rs.soft, d.prio = p) ∨ ∃ d ∈ st.noref.soft, d.prio = p

def SKeeps (st st' : St) : Prop := ∀ p, SRec st p → SRec st' p

theorem skeeps_refl (st : St) : SKeeps st st := fun _ h => h
theorem skeeps_trans {a b c : St} (h1 : SKeeps a b) (h2 : SKeeps b c) : SKeeps a c := fun p h => h2 p (h1 p h)

theorem skeeps_of_eq (st st' : St) (hs : st'.sets = st.sets) (hn : st'.noref = st.noref) : SKeeps st st' := by
  intro p h; unfold SRec at *; rw [hs, hn]; exact h

theorem addSoft_has (rs : RandSet) (c : SoftEntry) : ∃ d ∈ (addSoft rs c).soft, d.prio = c.prio := by
  unfold addSoft
  split
  · rename_i h
    obtain ⟨d, hd, he⟩ := List.any_eq_true.mp h
    exact ⟨d, hd, by simpa using he⟩
  · exact ⟨c, by simp, rfl⟩

theorem addSoft_keeps (rs : RandSet) (c d : SoftEntry) (h : d ∈ rs.soft) : d ∈ (addSoft rs c).soft := by
  unfold addSoft; split
  · exact h
  · simp [h]

theorem foldl_addSoft_keeps (cs : List SoftEntry) : ∀ (rs : RandSet) (d : SoftEntry), d ∈ rs.soft →
    d ∈ (cs.foldl addSoft rs).soft := by
  induction cs with
  | nil => intro rs d h; exact h
  | cons x xs ih => intro rs d h; exact ih _ _ (addSoft_keeps _ _ _ h)

theorem foldl_addSoft_has (cs : List SoftEntry) : ∀ (rs : RandSet) (c : SoftEntry), c ∈ cs →
    ∃ d ∈ (cs.foldl addSoft rs).soft, d.prio = c.prio := by
  induction cs with
  | nil => intro rs c h; simp at h
  | cons x xs ih =>
    intro rs c h
    rcases List.mem_cons.mp h with rfl | h
    · obtain ⟨d, hd, he⟩ := addSoft_has rs c
      exact ⟨d, foldl_addSoft_keeps xs _ d hd, he⟩
    · exact ih _ c h

theorem addField_soft (rs : RandSet) (f : Nat) : (addField rs f).soft = rs.soft := by
  unfold addField; split <;> rfl

theorem addHard_soft (rs : RandSet) (c : Nat × Stmt) : (addHard rs c).soft = rs.soft := by
  unfold addHard; split <;> rfl

theorem foldl_addField_soft (fs : List Nat) : ∀ (rs : RandSet), (fs.foldl addField rs).soft = rs.soft := by
  induction fs with
  | nil => intro rs; rfl
  | cons f fs ih => intro rs; simp only [List.foldl_cons]; rw [ih, addField_soft]

theorem foldl_addHard_soft (cs : List (Nat × Stmt)) : ∀ (rs : RandSet), (cs.foldl addHard rs).soft = rs.soft := by
  induction cs with
  | nil => intro rs; rfl
  | cons c cs ih => intro rs; simp only [List.foldl_cons]; rw [ih, addHard_soft]

/-- a change of one set that keeps its soft entries (by priority) keeps every recorded entry -/
theorem skeeps_modify (st st' : St) (k : Nat) (g : RandSet → RandSet)
    (hh : ∀ rs (d : SoftEntry), d ∈ rs.soft → ∃ d' ∈ (g rs).soft, d'.prio = d.prio)
    (hs : st'.sets = modifySet st.sets k g) (hn : st'.noref = st.noref) : SKeeps st st' := by
  intro p h
  unfold SRec at *
  rw [hs, hn]
  rcases h with ⟨i, rs, hl, d, hd, he⟩ | h
  · left
    by_cases hik : i = k
    · subst hik
      obtain ⟨d', hd', he'⟩ := hh rs d hd
      exact ⟨i, g rs, (live_modify_same _ _ _ _).mpr ⟨rs, hl, rfl⟩, d', hd', by rw [he', he]⟩
    · exact ⟨i, rs, (live_modify_other _ _ _ _ _ hik).mpr hl, d, hd, he⟩
  · exact Or.inr h

/-- **A merge loses no soft constraint** (and neither does any other step of `process_fieldref`) -/
theorem processRef_skeeps (st : St) (f : Nat) (h : Inv st) : SKeeps st (processRef st f) := by
  unfold processRef
  cases hown : owner st.sets f with
  | some ex =>
    obtain ⟨ers, hex, _⟩ := owner_some _ _ _ hown
    simp only
    cases hact : st.active with
    | none => exact skeeps_of_eq _ _ rfl rfl
    | some a =>
      simp only
      by_cases hae : a = ex
      · simp only [hae, if_true]; exact skeeps_refl _
      · simp only [hae, if_false]
        obtain ⟨ars, hars⟩ := h.act a hact
        have hars' : st.sets[a]? = some (some ars) := hars
        rw [hars']
        simp only
        let merged : RandSet := ars.soft.foldl addSoft (ars.hard.foldl addHard (ars.fields.foldl addField ers))
        have newget : ∀ j, ((modifySet st.sets ex fun ers =>
              ars.soft.foldl addSoft (ars.hard.foldl addHard (ars.fields.foldl addField ers))).mapIdx
              fun j s => if j = a then none else s)[j]? =
            if j = a then (if j < st.sets.length then some none else none)
            else if j = ex then some (some merged) else st.sets[j]? := by
          intro j
          rw [List.getElem?_mapIdx, modifySet_get]
          by_cases hja : j = a
          · subst hja
            simp only [if_true, hae, if_false, hars']
            have : j < st.sets.length := (List.getElem?_eq_some_iff.mp hars').1
            simp [this]
          · simp only [hja, if_false]
            by_cases hje : j = ex
            · subst hje
              simp only [if_true]
              rw [hex]; simp [merged]
            · simp only [hje, if_false]
              cases st.sets[j]? <;> simp [hja]
        have hexa : ex ≠ a := fun e => hae e.symm
        have liveEx : live ((modifySet st.sets ex fun ers =>
              ars.soft.foldl addSoft (ars.hard.foldl addHard (ars.fields.foldl addField ers))).mapIdx
              fun j s => if j = a then none else s) ex merged := by
          unfold live; rw [newget]; simp [hexa]
        intro p hr
        unfold SRec at *
        rcases hr with ⟨i, rs, hl, d, hd, he⟩ | hr
        · left
          by_cases hia : i = a
          · subst hia
            have : rs = ars := by unfold live at hl hars; rw [hl] at hars; simpa using hars
            subst this
            obtain ⟨d', hd', he'⟩ := foldl_addSoft_has rs.soft (rs.hard.foldl addHard (rs.fields.foldl addField ers)) d hd
            exact ⟨ex, merged, liveEx, d', hd', by rw [he', he]⟩
          · by_cases hie : i = ex
            · subst hie
              have : rs = ers := by unfold live at hl hex; rw [hl] at hex; simpa using hex
              subst this
              refine ⟨i, merged, liveEx, d, ?_, he⟩
              exact foldl_addSoft_keeps _ _ d (by rw [foldl_addHard_soft, foldl_addField_soft]; exact hd)
            · refine ⟨i, rs, ?_, d, hd, he⟩
              unfold live; rw [newget]; simp [hia, hie]; exact hl
        · exact Or.inr hr
  | none =>
    simp only
    cases hact : st.active with
    | none =>
      simp only
      intro p hr
      unfold SRec at *
      rcases hr with ⟨i, rs, hl, d, hd, he⟩ | hr
      · left
        refine ⟨i, rs, ?_, d, hd, he⟩
        unfold live at *
        have : i < st.sets.length := (List.getElem?_eq_some_iff.mp hl).1
        rw [List.getElem?_append_left this]; exact hl
      · exact Or.inr hr
    | some a =>
      simp only
      exact skeeps_modify _ _ a (fun rs => addField rs f)
        (fun rs d hd => ⟨d, by rw [addField_soft]; exact hd, rfl⟩) rfl rfl

theorem processEv_skeeps (n : Nat) (st : St) (e : Ev) (h : Inv st) : SKeeps st (processEv n st e) := by
  cases e with
  | ref i => exact processRef_skeeps st i h
  | soft gs e =>
    unfold processEv
    cases gs with
    | nil => exact skeeps_of_eq _ _ rfl rfl
    | cons g gs =>
      simp only
      cases hact : st.active with
      | none => exact skeeps_of_eq _ _ rfl rfl
      | some a =>
        exact skeeps_modify _ _ a _ (fun rs d hd => ⟨d, addSoft_keeps _ _ _ hd, rfl⟩) rfl rfl

/-- a soft constraint visited under guards, while a rand set is active, is recorded with that set at
    once, under the priority of the visit (and `foldl_processEv_skeeps` / `buildFrom_skeeps` keep it) -/
theorem guarded_soft_recorded (n : Nat) (st : St) (g : Expr) (gs : List Expr) (e : Expr) (a : Nat)
    (h : Inv st) (ha : st.active = some a) :
    SRec (processEv n st (.soft (g :: gs) e)) (st.nsoft + (n + st.nsoft)) := by
  obtain ⟨ars, hars⟩ := h.act a ha
  unfold processEv
  simp only [ha]
  unfold SRec
  left
  obtain ⟨d, hd, he⟩ := addSoft_has ars ⟨st.nsoft + (n + st.nsoft), g :: gs, e⟩
  exact ⟨a, addSoft ars ⟨st.nsoft + (n + st.nsoft), g :: gs, e⟩, (live_modify_same _ _ _ _).mpr ⟨ars, hars, rfl⟩, d, hd, he⟩

theorem foldl_processEv_skeeps (n : Nat) : ∀ (evs : List Ev) (st : St) (seen : List Nat),
    Inv st → Cur st seen → SKeeps st (evs.foldl (processEv n) st) := by
  intro evs
  induction evs with
  | nil => intro st _ _ _; exact skeeps_refl _
  | cons e es ih =>
    intro st seen h hc
    obtain ⟨h1, c1⟩ := processEv_inv n st e seen h hc
    exact skeeps_trans (processEv_skeeps n st e h) (ih _ _ h1 c1)

/-- `nsoft` only moves when a soft constraint is visited -/
theorem processRef_nsoft (st : St) (f : Nat) : (processRef st f).nsoft = st.nsoft := by
  unfold processRef
  cases owner st.sets f with
  | some ex =>
    simp only
    cases st.active with
    | none => rfl
    | some a =>
      simp only
      split
      · rfl
      · cases st.sets[a]? with
        | none => rfl
        | some o => cases o <;> rfl
  | none =>
    simp only
    cases st.active <;> rfl

/-- leaving a top-level statement keeps every soft entry; a top-level soft constraint is recorded
    under the priority computed when it was entered -/
theorem processTop_skeeps (n : Nat) (st : St) (c : Nat × Stmt) (extra : List Nat) (h : Inv st) :
    SKeeps st (processTop n st c extra) ∧
    (∀ e, c.2 = .soft e → SRec (processTop n st c extra) (st.nsoft + (n + st.nsoft))) := by
  unfold processTop
  have h0 : Inv { st with active := none } := ⟨h.disj, h.closed, by simp, h.noref⟩
  have c0 : Cur { st with active := none } [] := by intro f hf; simp at hf
  have k0 : SKeeps st { st with active := none } := skeeps_of_eq _ _ rfl rfl
  have k1 := foldl_processEv_skeeps n (walk c.2 [] ++ extra.map Ev.ref) _ [] h0 c0
  obtain ⟨h1, _⟩ := foldl_processEv_inv n (walk c.2 [] ++ extra.map Ev.ref) _ [] h0 c0
  simp only
  generalize hst1 : (walk c.2 [] ++ extra.map Ev.ref).foldl (processEv n) { st with active := none } = st1 at k1 h1
  have k01 : SKeeps st st1 := skeeps_trans k0 k1
  cases hact : st1.active with
  | none =>
    simp only
    cases hc2 : c.2 with
    | soft e =>
      simp only
      refine ⟨?_, fun e' _ => ?_⟩
      · refine skeeps_trans k01 ?_
        intro p hr
        unfold SRec at *
        rcases hr with hr | ⟨d, hd, he⟩
        · exact Or.inl hr
        · exact Or.inr ⟨d, addSoft_keeps _ _ _ hd, he⟩
      · unfold SRec
        right
        exact addSoft_has st1.noref ⟨st.nsoft + (n + st.nsoft), [], e⟩
    | _ =>
      simp only
      refine ⟨skeeps_trans k01 ?_, fun e' he' => by simp at he'⟩
      intro p hr
      unfold SRec at *
      rcases hr with hr | ⟨d, hd, he⟩
      · exact Or.inl hr
      · exact Or.inr ⟨d, by rw [addHard_soft]; exact hd, he⟩
  | some a =>
    simp only
    obtain ⟨ars, hars⟩ := h1.act a hact
    cases hc2 : c.2 with
    | soft e =>
      simp only
      refine ⟨skeeps_trans k01 (skeeps_modify _ _ a _ (fun rs d hd => ⟨d, addSoft_keeps _ _ _ hd, rfl⟩) rfl rfl),
        fun e' _ => ?_⟩
      unfold SRec
      left
      obtain ⟨d, hd, he⟩ := addSoft_has ars ⟨st.nsoft + (n + st.nsoft), [], e⟩
      exact ⟨a, addSoft ars ⟨st.nsoft + (n + st.nsoft), [], e⟩, (live_modify_same _ _ _ _).mpr ⟨ars, hars, rfl⟩, d, hd, he⟩
    | _ =>
      simp only
      exact ⟨skeeps_trans k01 (skeeps_modify _ _ a _ (fun rs d hd => ⟨d, by rw [addHard_soft]; exact hd, rfl⟩) rfl rfl),
        fun e' he' => by simp at he'⟩

theorem registerDist_skeeps (st : St) (f d : Nat) : SKeeps st (registerDist st f d) := by
  unfold registerDist
  cases hact : st.active with
  | none => exact skeeps_refl _
  | some a =>
    simp only
    exact skeeps_modify _ _ a (fun rs => { rs with dists := rs.dists ++ [(f, d)] }) (fun rs d hd => ⟨d, hd, rfl⟩) rfl rfl

theorem marks_skeeps (ms : List (Nat × Nat × Nat)) : ∀ (st : St), SKeeps st (ms.foldl (fun s m => registerDist s m.2.1 m.2.2) st) := by
  induction ms with
  | nil => intro st; exact skeeps_refl _
  | cons m ms ih => intro st; exact skeeps_trans (registerDist_skeeps st m.2.1 m.2.2) (ih _)

/-- over any further statements every recorded soft entry stays recorded -/
theorem buildFrom_skeeps (n : Nat) (marks : List (Nat × Nat × Nat)) (extra : List (Nat × List Nat)) :
    ∀ (idd : List (Nat × Stmt)) (st : St), Inv st → SKeeps st (buildFrom n marks extra idd st) := by
  intro idd
  induction idd with
  | nil => intro st _; exact skeeps_refl _
  | cons c cs ih =>
    intro st h
    unfold buildFrom
    simp only [List.foldl_cons]
    have k1 := (processTop_skeeps n st c ((extra.filter fun x => x.1 == c.1).flatMap (·.2)) h).1
    have i1 := processTop_inv n st c ((extra.filter fun x => x.1 == c.1).flatMap (·.2)) h
    generalize (processTop n st c ((extra.filter fun x => x.1 == c.1).flatMap (·.2))) = st1 at k1 i1
    have k2 := marks_skeeps (marks.filter fun m => m.1 == c.1) st1
    obtain ⟨_, i2⟩ := marks_keeps [] (marks.filter fun m => m.1 == c.1) st1 i1
    generalize ((marks.filter fun m => m.1 == c.1).foldl (fun s m => registerDist s m.2.1 m.2.2) st1) = st2 at k2 i2
    exact skeeps_trans k1 (skeeps_trans k2 (ih st2 i2))

end Pyvsc.RandSets
