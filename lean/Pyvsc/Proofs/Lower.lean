import Pyvsc.Model.Expr
import Pyvsc.Spec.Sem
import Mathlib.Tactic.Ring
import Mathlib.Tactic.Linarith
import Mathlib.Tactic.Positivity
/-!
# Helper lemmas for the lowering-soundness theorems (C01)
-/
namespace Pyvsc.Lower
open Pyvsc.Bv Pyvsc.Expr Pyvsc.Sem

theorem two_pow_pos' (w : Nat) : (0 : Int) < 2 ^ w := by positivity

theorem pow_split (w : Nat) (hw : 0 < w) : 2 ^ w = 2 * 2 ^ (w - 1) := by
  obtain ⟨k, rfl⟩ : ∃ k, w = k + 1 := ⟨w - 1, by omega⟩
  simp [pow_succ, Nat.mul_comm]

theorem pat_lt (w : Nat) (v : Int) : pat w v < 2 ^ w := by
  unfold pat
  have h0 : 0 ≤ v % (2 ^ w : Int) := Int.emod_nonneg _ (by positivity)
  have h1 : v % (2 ^ w : Int) < 2 ^ w := Int.emod_lt_of_pos _ (by positivity)
  have : ((v % (2 ^ w : Int)).toNat : Int) < ((2 ^ w : Nat) : Int) := by
    rw [Int.toNat_of_nonneg h0]; push_cast; exact h1
  exact_mod_cast this

theorem pat_cast (w : Nat) (v : Int) : ((pat w v : Nat) : Int) = v % (2 ^ w : Int) := by
  unfold pat
  exact Int.toNat_of_nonneg (Int.emod_nonneg _ (by positivity))

theorem pat_natCast (w x : Nat) (h : x < 2 ^ w) : pat w (x : Int) = x := by
  unfold pat
  have : ((x : Int) % (2 ^ w : Int)) = x := by
    apply Int.emod_eq_of_lt (by positivity)
    exact_mod_cast h
  rw [this]; simp

/-- a reading is congruent to its pattern -/
theorem rd_congr (S : Bool) (w x : Nat) : ∃ k : Int, rd S w x = x - k * 2 ^ w := by
  unfold rd sint
  cases S <;> simp
  · exact ⟨0, by simp⟩
  · split
    · exact ⟨0, by simp⟩
    · exact ⟨1, by simp⟩

theorem pat_rd (S : Bool) (w x : Nat) (h : x < 2 ^ w) : pat w (rd S w x) = x := by
  obtain ⟨k, hk⟩ := rd_congr S w x
  rw [hk]
  unfold pat
  have : ((x : Int) - k * 2 ^ w) = (x : Int) + (-k) * 2 ^ w := by ring
  rw [this, Int.add_mul_emod_self_right]
  have : ((x : Int) % (2 ^ w : Int)) = x := by
    apply Int.emod_eq_of_lt (by positivity)
    exact_mod_cast h
  rw [this]; simp

theorem rd_inj (S : Bool) (w x y : Nat) (hx : x < 2 ^ w) (hy : y < 2 ^ w) (h : rd S w x = rd S w y) :
    x = y := by
  have := congrArg (pat w) h
  rwa [pat_rd S w x hx, pat_rd S w y hy] at this

theorem pat_add (W : Nat) (a b : Int) : pat W (a + b) = (pat W a + pat W b) % 2 ^ W := by
  have h : ((pat W (a + b) : Nat) : Int) = (((pat W a + pat W b) % 2 ^ W : Nat) : Int) := by
    rw [pat_cast]; push_cast; rw [pat_cast, pat_cast]
    exact Int.add_emod _ _ _
  exact_mod_cast h

theorem pat_mul (W : Nat) (a b : Int) : pat W (a * b) = (pat W a * pat W b) % 2 ^ W := by
  have h : ((pat W (a * b) : Nat) : Int) = (((pat W a * pat W b) % 2 ^ W : Nat) : Int) := by
    rw [pat_cast]; push_cast; rw [pat_cast, pat_cast]
    exact Int.mul_emod _ _ _
  exact_mod_cast h

theorem pat_sub (W : Nat) (a b : Int) : pat W (a - b) = (pat W a + (2 ^ W - pat W b)) % 2 ^ W := by
  have hb := pat_lt W b
  have h : ((pat W (a - b) : Nat) : Int) = (((pat W a + (2 ^ W - pat W b)) % 2 ^ W : Nat) : Int) := by
    rw [pat_cast]; push_cast [Nat.cast_sub (Nat.le_of_lt hb)]; rw [pat_cast, pat_cast]
    have e : a % 2 ^ W + (2 ^ W - b % 2 ^ W) = (a % 2 ^ W - b % 2 ^ W) + 1 * 2 ^ W := by ring
    rw [e, Int.add_mul_emod_self_right]
    exact Int.sub_emod _ _ _
  exact_mod_cast h

/-! ### evaluation always yields an in-range pattern -/

theorem sext_lt (w n x : Nat) (hx : x < 2 ^ w) :
    (if 2 * x < 2 ^ w then x else x + (2 ^ (w + n) - 2 ^ w)) < 2 ^ (w + n) := by
  have hpow : 2 ^ w ≤ 2 ^ (w + n) := Nat.pow_le_pow_right (by decide) (by omega)
  split <;> omega

theorem arSem_lt (op : ArOp) (w x y : Nat) (hx : x < 2 ^ w) (hy : y < 2 ^ w) :
    arSem op w x y < 2 ^ w := by
  have hp : 0 < 2 ^ w := Nat.pow_pos (by decide)
  cases op <;> simp only [arSem]
  · exact Nat.mod_lt _ hp
  · exact Nat.mod_lt _ hp
  · exact Nat.mod_lt _ hp
  · split
    · omega
    · exact Nat.lt_of_le_of_lt (Nat.div_le_self _ _) hx
  · split
    · exact hx
    · exact Nat.lt_of_le_of_lt (Nat.mod_le _ _) hx
  · exact Nat.and_lt_two_pow _ hy
  · exact Nat.or_lt_two_pow hx hy
  · exact Nat.xor_lt_two_pow hx hy
  · split
    · exact Nat.mod_lt _ hp
    · exact hp
  · split
    · exact Nat.lt_of_le_of_lt (Nat.div_le_self _ _) hx
    · exact hp

theorem b2n_lt (b : Bool) : b2n b < 2 ^ 1 := by cases b <;> simp [b2n]

theorem eval_lt (σ : Nat → Nat) : ∀ (t : Bv) (w x : Nat), eval σ t = some (w, x) → x < 2 ^ w := by
  intro t
  induction t with
  | const v w =>
    intro w' x h
    simp only [eval] at h
    split at h
    · simp at h
    · split at h
      · simp at h; obtain ⟨rfl, rfl⟩ := h; exact pat_lt _ _
      · split at h
        · simp at h; obtain ⟨rfl, rfl⟩ := h
          rename_i h1 h2 h3
          have : ((v.toNat : Nat) : Int) < ((2 ^ w : Nat) : Int) := by
            rw [Int.toNat_of_nonneg (by omega)]; push_cast; exact h3
          exact_mod_cast this
        · simp at h
  | var i w =>
    intro w' x h
    simp only [eval] at h
    split at h
    · simp at h
    · simp at h; obtain ⟨rfl, rfl⟩ := h; exact Nat.mod_lt _ (Nat.pow_pos (by decide))
  | uext t n ih =>
    intro w' x h
    simp only [eval] at h
    cases ht : eval σ t with
    | none => simp [ht] at h
    | some p =>
      obtain ⟨w, y⟩ := p
      simp [ht] at h; obtain ⟨rfl, rfl⟩ := h
      have := ih w y ht
      have hpow : 2 ^ w ≤ 2 ^ (w + n) := Nat.pow_le_pow_right (by decide) (by omega)
      omega
  | sext t n ih =>
    intro w' x h
    simp only [eval] at h
    cases ht : eval σ t with
    | none => simp [ht] at h
    | some p =>
      obtain ⟨w, y⟩ := p
      simp [ht] at h; obtain ⟨rfl, rfl⟩ := h
      exact sext_lt w n y (ih w y ht)
  | slice t hi lo ih =>
    intro w' x h
    simp only [eval] at h
    cases ht : eval σ t with
    | none => simp [ht] at h
    | some p =>
      obtain ⟨w, y⟩ := p
      simp [ht] at h
      obtain ⟨_, rfl, rfl⟩ := h
      exact Nat.mod_lt _ (Nat.pow_pos (by decide))
  | cmp op a b iha ihb =>
    intro w' x h
    simp only [eval] at h
    cases hea : eval σ a with
    | none => simp [hea] at h
    | some p =>
      cases heb : eval σ b with
      | none => simp [hea, heb] at h
      | some q =>
        simp [hea, heb] at h
        obtain ⟨_, rfl, rfl⟩ := h
        exact b2n_lt _
  | ar op a b iha ihb =>
    intro w' x h
    simp only [eval] at h
    cases hea : eval σ a with
    | none => simp [hea] at h
    | some p =>
      cases heb : eval σ b with
      | none => simp [hea, heb] at h
      | some q =>
        obtain ⟨wa, xa⟩ := p
        obtain ⟨wb, xb⟩ := q
        simp [hea, heb] at h
        obtain ⟨rfl, rfl, rfl⟩ := h
        exact arSem_lt op _ _ _ (iha _ _ hea) (ihb _ _ heb)
  | not t ih =>
    intro w' x h
    simp only [eval] at h
    cases ht : eval σ t with
    | none => simp [ht] at h
    | some p =>
      obtain ⟨w, y⟩ := p
      simp [ht] at h; obtain ⟨rfl, rfl⟩ := h
      have := ih w y ht
      omega
  | implies a b iha ihb =>
    intro w' x h
    simp only [eval] at h
    cases hea : eval σ a with
    | none => simp [hea] at h
    | some p =>
      cases heb : eval σ b with
      | none => simp [hea, heb] at h
      | some q =>
        obtain ⟨wa, xa⟩ := p
        obtain ⟨wb, xb⟩ := q
        simp [hea, heb] at h
        obtain ⟨⟨rfl, rfl⟩, rfl, rfl⟩ := h
        have := ihb _ _ heb
        split <;> omega
  | cond c a b ihc iha ihb =>
    intro w' x h
    simp only [eval] at h
    cases hec : eval σ c with
    | none => simp [hec] at h
    | some r =>
      cases hea : eval σ a with
      | none => simp [hec, hea] at h
      | some p =>
        cases heb : eval σ b with
        | none => simp [hec, hea, heb] at h
        | some q =>
          obtain ⟨wa, xa⟩ := p
          obtain ⟨wb, xb⟩ := q
          simp [hec, hea, heb] at h
          obtain ⟨⟨_, rfl⟩, rfl, rfl⟩ := h
          have h1 := iha _ _ hea
          have h2 := ihb _ _ heb
          split <;> assumption

/-- the width a term evaluates at is its syntactic width -/
theorem eval_width (σ : Nat → Nat) : ∀ (t : Bv) (w x : Nat), eval σ t = some (w, x) → bvWidth t = w := by
  intro t
  induction t with
  | const v w =>
    intro w' x h
    simp only [eval] at h
    split at h
    · simp at h
    · split at h
      · simp at h; exact h.1
      · split at h
        · simp at h; exact h.1
        · simp at h
  | var i w =>
    intro w' x h
    simp only [eval] at h
    split at h
    · simp at h
    · simp at h; exact h.1
  | uext t n ih =>
    intro w' x h
    simp only [eval] at h
    cases ht : eval σ t with
    | none => simp [ht] at h
    | some p =>
      obtain ⟨w, y⟩ := p
      simp [ht] at h
      simp [bvWidth, ih w y ht, h.1]
  | sext t n ih =>
    intro w' x h
    simp only [eval] at h
    cases ht : eval σ t with
    | none => simp [ht] at h
    | some p =>
      obtain ⟨w, y⟩ := p
      simp [ht] at h
      simp [bvWidth, ih w y ht, h.1]
  | slice t hi lo ih =>
    intro w' x h
    simp only [eval] at h
    cases ht : eval σ t with
    | none => simp [ht] at h
    | some p =>
      obtain ⟨w, y⟩ := p
      simp [ht] at h
      simp [bvWidth, h.2.1]
  | cmp op a b iha ihb =>
    intro w' x h
    simp only [eval] at h
    cases hea : eval σ a with
    | none => simp [hea] at h
    | some p =>
      cases heb : eval σ b with
      | none => simp [hea, heb] at h
      | some q =>
        simp [hea, heb] at h
        simp [bvWidth, h.2.1]
  | ar op a b iha ihb =>
    intro w' x h
    simp only [eval] at h
    cases hea : eval σ a with
    | none => simp [hea] at h
    | some p =>
      cases heb : eval σ b with
      | none => simp [hea, heb] at h
      | some q =>
        obtain ⟨wa, xa⟩ := p
        obtain ⟨wb, xb⟩ := q
        simp [hea, heb] at h
        simp [bvWidth, iha _ _ hea, h.2.1]
  | not t ih =>
    intro w' x h
    simp only [eval] at h
    cases ht : eval σ t with
    | none => simp [ht] at h
    | some p =>
      obtain ⟨w, y⟩ := p
      simp [ht] at h
      simp [bvWidth, ih w y ht, h.1]
  | implies a b iha ihb =>
    intro w' x h
    simp only [eval] at h
    cases hea : eval σ a with
    | none => simp [hea] at h
    | some p =>
      cases heb : eval σ b with
      | none => simp [hea, heb] at h
      | some q =>
        obtain ⟨wa, xa⟩ := p
        obtain ⟨wb, xb⟩ := q
        simp [hea, heb] at h
        simp [bvWidth, h.2.1]
  | cond c a b ihc iha ihb =>
    intro w' x h
    simp only [eval] at h
    cases hec : eval σ c with
    | none => simp [hec] at h
    | some r =>
      cases hea : eval σ a with
      | none => simp [hec, hea] at h
      | some p =>
        cases heb : eval σ b with
        | none => simp [hec, hea, heb] at h
        | some q =>
          obtain ⟨wa, xa⟩ := p
          obtain ⟨wb, xb⟩ := q
          simp [hec, hea, heb] at h
          simp [bvWidth, iha _ _ hea, h.2.1]

/-- `ExprBinModel.extend` preserves the reading under the node's signedness and lands at the
    context width -/
theorem extend_eval (σ : Nat → Nat) (t : Bv) (w ctx x : Nat) (S : Bool)
    (ht : eval σ t = some (w, x)) (hle : w ≤ ctx) (hw : 0 < w) :
    ∃ x', eval σ (extend t ctx S) = some (ctx, x') ∧ x' < 2 ^ ctx ∧ rd S ctx x' = rd S w x := by
  have hx := eval_lt σ t w x ht
  have hwt := eval_width σ t w x ht
  unfold extend
  rw [hwt]
  by_cases h : ctx > w
  · simp only [h, if_true]
    have hpow : 2 ^ w ≤ 2 ^ ctx := Nat.pow_le_pow_right (by decide) hle
    have hlt : 2 ^ w < 2 ^ ctx := Nat.pow_lt_pow_right (by decide) h
    have e1 : w + (ctx - w) = ctx := by omega
    cases S
    · refine ⟨x, ?_, by omega, ?_⟩
      · simp [eval, ht, e1]
      · simp [rd]
    · by_cases hs : 2 * x < 2 ^ w
      · refine ⟨x, ?_, by omega, ?_⟩
        · simp [eval, ht, hs, e1]
        · have : 2 * x < 2 ^ ctx := by omega
          simp [rd, sint, hs, this]
      · refine ⟨x + (2 ^ ctx - 2 ^ w), ?_, by omega, ?_⟩
        · simp [eval, ht, hs, e1]
        · have : ¬ (2 * (x + (2 ^ ctx - 2 ^ w)) < 2 ^ ctx) := by
            have : 2 * 2 ^ w ≤ 2 ^ ctx := by
              have := Nat.pow_le_pow_right (show 0 < 2 by decide) (show w + 1 ≤ ctx by omega)
              simpa [pow_succ, Nat.mul_comm] using this
            omega
          simp only [rd, sint, hs, this, if_false, if_true]
          push_cast [Nat.cast_sub hpow]
          ring
  · have : ctx = w := by omega
    subst this
    simp only [h, if_false]
    exact ⟨x, ht, hx, rfl⟩

end Pyvsc.Lower
