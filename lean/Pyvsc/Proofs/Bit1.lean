import Pyvsc.Proofs.StmtSound
/-!
# One-bit terms: comparisons, `in` nodes and their Boolean combinations
-/
namespace Pyvsc.Lower
open Pyvsc.Bv Pyvsc.Expr Pyvsc.Sem

variable (Γ : Nat → FieldTy) (ρ : Nat → Int)

/-- terms that are one bit wide in every context: comparisons, `in` nodes, and `&`, `|`, `~` of
    such terms -/
inductive Bit1 : Expr → Prop
  | cmp (op : BinOp) (l r : Expr) : op.isCmp = true → WF Γ l → WF Γ r → Bit1 (.bin op l r)
  | inn (e : Expr) : WF Γ e → cw Γ e 0 = 1 → Bit1 (.reset e)
  | and (a b : Expr) : Bit1 a → Bit1 b → Bit1 (.bin .and a b)
  | or (a b : Expr) : Bit1 a → Bit1 b → Bit1 (.bin .or a b)
  | not (a : Expr) : Bit1 a → Bit1 (.not a)

theorem bit1_facts : ∀ e, Bit1 Γ e → WF Γ e ∧ width Γ e = 1 ∧ (∀ W, W ≤ 1 → cw Γ e W = 1) ∧
    sval Γ ρ e 1 = sval Γ ρ e 0 := by
  intro e h
  induction h with
  | cmp op l r hc hl hr =>
    refine ⟨⟨hl, hr⟩, by simp [width, hc], fun W _ => by simp [cw, hc], ?_⟩
    have := width_pos Γ l hl
    simp only [sval]
    have : max 1 (max (width Γ l) (width Γ r)) = max 0 (max (width Γ l) (width Γ r)) := by omega
    rw [this]
  | inn e he hc => exact ⟨⟨he, hc⟩, by simp [width], fun W _ => by simp [cw, hc], by simp [sval]⟩
  | and a b _ _ iha ihb =>
    obtain ⟨wa, wda, ca, _⟩ := iha
    obtain ⟨wb, wdb, cb, _⟩ := ihb
    refine ⟨⟨wa, wb⟩, by simp [width, BinOp.isCmp, wda, wdb], fun W hW => ?_, ?_⟩
    · simp only [cw, BinOp.isCmp, wda, wdb]; simp; omega
    · simp only [sval, wda, wdb]; rfl
  | or a b _ _ iha ihb =>
    obtain ⟨wa, wda, ca, _⟩ := iha
    obtain ⟨wb, wdb, cb, _⟩ := ihb
    refine ⟨⟨wa, wb⟩, by simp [width, BinOp.isCmp, wda, wdb], fun W hW => ?_, ?_⟩
    · simp only [cw, BinOp.isCmp, wda, wdb]; simp; omega
    · simp only [sval, wda, wdb]; rfl
  | not a _ iha =>
    obtain ⟨wa, wda, ca, sa⟩ := iha
    refine ⟨wa, by simp [width, wda], fun W hW => ?_, ?_⟩
    · simp only [cw, wda]
      have : max W 1 = 1 := by omega
      rw [this]; exact ca 1 (le_refl _)
    · simp only [sval, wda]; rfl

theorem bit1_lt_two (e : Expr) (h : Bit1 Γ e) (σ : Nat → Nat) (hσ : Agree Γ ρ σ) : sval Γ ρ e 0 < 2 := by
  obtain ⟨hw, _, hc, _⟩ := bit1_facts Γ ρ e h
  have h1 := lower_sound Γ ρ σ hσ e 0 hw
  have := eval_lt σ _ _ _ h1
  rw [hc 0 (by decide)] at this
  simpa using this

/-- the environment always has a matching solver assignment (patterns of the values) -/
theorem agree_exists (hnr : ∀ i, (Γ i).rand = false → ρ i < (2 ^ (Γ i).w : Int)) :
    Agree Γ ρ (fun i => pat (Γ i).w (ρ i)) := by
  intro i
  exact ⟨fun _ => Nat.mod_eq_of_lt (pat_lt _ _), hnr i⟩

theorem truthy_and (a b : Expr) (ha : Bit1 Γ a) (hb : Bit1 Γ b) (σ : Nat → Nat) (hσ : Agree Γ ρ σ) :
    truthy Γ ρ (.bin .and a b) = (truthy Γ ρ a && truthy Γ ρ b) := by
  obtain ⟨_, wda, ca, sa⟩ := bit1_facts Γ ρ a ha
  obtain ⟨_, wdb, cb, sb⟩ := bit1_facts Γ ρ b hb
  have la := bit1_lt_two Γ ρ a ha σ hσ
  have lb := bit1_lt_two Γ ρ b hb σ hσ
  simp only [truthy, sval, wda, wdb, opSem]
  have e1 : max 0 (max 1 1) = 1 := by decide
  rw [e1, ca 1 (le_refl _), cb 1 (le_refl _), sa, sb]
  have xa : sval Γ ρ a 0 = 0 ∨ sval Γ ρ a 0 = 1 := by omega
  have xb : sval Γ ρ b 0 = 0 ∨ sval Γ ρ b 0 = 1 := by omega
  generalize (signed Γ a && signed Γ b) = S
  rcases xa with xa | xa <;> rcases xb with xb | xb <;> cases S <;> simp [xa, xb, rd, sint, pat] <;> decide

theorem truthy_or (a b : Expr) (ha : Bit1 Γ a) (hb : Bit1 Γ b) (σ : Nat → Nat) (hσ : Agree Γ ρ σ) :
    truthy Γ ρ (.bin .or a b) = (truthy Γ ρ a || truthy Γ ρ b) := by
  obtain ⟨_, wda, ca, sa⟩ := bit1_facts Γ ρ a ha
  obtain ⟨_, wdb, cb, sb⟩ := bit1_facts Γ ρ b hb
  have la := bit1_lt_two Γ ρ a ha σ hσ
  have lb := bit1_lt_two Γ ρ b hb σ hσ
  simp only [truthy, sval, wda, wdb, opSem]
  have e1 : max 0 (max 1 1) = 1 := by decide
  rw [e1, ca 1 (le_refl _), cb 1 (le_refl _), sa, sb]
  have xa : sval Γ ρ a 0 = 0 ∨ sval Γ ρ a 0 = 1 := by omega
  have xb : sval Γ ρ b 0 = 0 ∨ sval Γ ρ b 0 = 1 := by omega
  generalize (signed Γ a && signed Γ b) = S
  rcases xa with xa | xa <;> rcases xb with xb | xb <;> cases S <;> simp [xa, xb, rd, sint, pat] <;> decide

theorem truthy_not (a : Expr) (ha : Bit1 Γ a) (σ : Nat → Nat) (hσ : Agree Γ ρ σ) :
    truthy Γ ρ (.not a) = !truthy Γ ρ a := by
  obtain ⟨_, wda, ca, sa⟩ := bit1_facts Γ ρ a ha
  have la := bit1_lt_two Γ ρ a ha σ hσ
  simp only [truthy, sval, wda]
  have e1 : max 0 1 = 1 := by decide
  rw [e1, ca 1 (le_refl _), sa]
  have xa : sval Γ ρ a 0 = 0 ∨ sval Γ ρ a 0 = 1 := by omega
  rcases xa with xa | xa <;> simp [xa]

theorem truthy_reset (e : Expr) : truthy Γ ρ (.reset e) = truthy Γ ρ e := by
  simp [truthy, sval]

end Pyvsc.Lower
