import Pyvsc.Model.RandSets
/-!
# Invariants of the rand-set builder (`RandSets.build`)

* the live rand sets have pairwise disjoint field lists (a field is a solve target of one set);
* every statement recorded in a set mentions only fields of that set (so the sets can be solved
  one after the other without sharing a variable);
* a statement that is recorded in the field-less set mentions no field.
-/
namespace Pyvsc.RandSets
open Pyvsc.Expr

def evRefs (evs : List Ev) : List Nat :=
  evs.filterMap fun e => match e with | .ref i => some i | .soft _ _ => none

/-- the fields a statement mentions (in visit order) -/
def sRefs (s : Stmt) : List Nat := evRefs (walk s [])

def live (sets : List (Option RandSet)) (k : Nat) (rs : RandSet) : Prop := sets[k]? = some (some rs)

structure Inv (st : St) : Prop where
  disj : ∀ i j a b, i ≠ j → live st.sets i a → live st.sets j b → ∀ f, f ∈ a.fields → f ∉ b.fields
  closed : ∀ i a, live st.sets i a → ∀ c ∈ a.hard, ∀ f ∈ sRefs c.2, f ∈ a.fields
  act : ∀ a, st.active = some a → ∃ rs, live st.sets a rs
  noref : ∀ c ∈ st.noref.hard, sRefs c.2 = []

/-- the fields seen so far in the current statement all belong to the active set -/
def Cur (st : St) (seen : List Nat) : Prop :=
  ∀ f ∈ seen, ∃ a rs, st.active = some a ∧ live st.sets a rs ∧ f ∈ rs.fields

theorem Inv.congr {st st' : St} (h : Inv st) (hs : st'.sets = st.sets) (ha : st'.active = st.active)
    (hn : st'.noref = st.noref) : Inv st' :=
  ⟨by rw [hs]; exact h.disj, by rw [hs]; exact h.closed, by rw [hs, ha]; exact h.act, by rw [hn]; exact h.noref⟩

theorem Cur.congr {st st' : St} {seen : List Nat} (h : Cur st seen) (hs : st'.sets = st.sets)
    (ha : st'.active = st.active) : Cur st' seen := by
  intro f hf
  obtain ⟨a, rs, h1, h2, h3⟩ := h f hf
  exact ⟨a, rs, by rw [ha]; exact h1, by rw [hs]; exact h2, h3⟩

/-! ### list plumbing -/

theorem modifySet_get (sets : List (Option RandSet)) (k j : Nat) (g : RandSet → RandSet) :
    (modifySet sets k g)[j]? = if j = k then (sets[j]?).map (Option.map g) else sets[j]? := by
  unfold modifySet
  rw [List.getElem?_mapIdx]
  by_cases h : j = k
  · simp [h]
  · simp [h]

theorem live_modify_same (sets : List (Option RandSet)) (k : Nat) (g : RandSet → RandSet) (rs : RandSet) :
    live (modifySet sets k g) k rs ↔ ∃ rs0, live sets k rs0 ∧ rs = g rs0 := by
  unfold live
  rw [modifySet_get]
  simp only [if_true]
  constructor
  · intro h
    cases hk : sets[k]? with
    | none => rw [hk] at h; simp at h
    | some o =>
      rw [hk] at h
      cases o with
      | none => simp at h
      | some r => simp at h; exact ⟨r, rfl, h.symm⟩
  · rintro ⟨r, hr, rfl⟩
    rw [hr]; simp

theorem live_modify_other (sets : List (Option RandSet)) (k j : Nat) (g : RandSet → RandSet) (rs : RandSet)
    (h : j ≠ k) : live (modifySet sets k g) j rs ↔ live sets j rs := by
  unfold live
  rw [modifySet_get]
  simp [h]

theorem owner_some (sets : List (Option RandSet)) (f k : Nat) (h : owner sets f = some k) :
    ∃ rs, live sets k rs ∧ f ∈ rs.fields := by
  unfold owner at h
  have := List.find?_some h
  cases hk : sets[k]? with
  | none => rw [hk] at this; simp at this
  | some o =>
    cases o with
    | none => rw [hk] at this; simp at this
    | some rs =>
      rw [hk] at this
      exact ⟨rs, hk, by simpa using this⟩

theorem owner_none (sets : List (Option RandSet)) (f : Nat) (h : owner sets f = none) :
    ∀ k rs, live sets k rs → f ∉ rs.fields := by
  intro k rs hl hf
  unfold owner at h
  rw [List.find?_eq_none] at h
  have hk : k < sets.length := by
    unfold live at hl
    exact (List.getElem?_eq_some_iff.mp hl).1
  have := h k (by simpa using hk)
  unfold live at hl
  rw [hl] at this
  simp at this
  exact this hf

/-! ### the set operations -/

theorem mem_addField (rs : RandSet) (f g : Nat) : g ∈ (addField rs f).fields ↔ g ∈ rs.fields ∨ g = f := by
  unfold addField
  split
  · rename_i h
    constructor
    · exact Or.inl
    · rintro (h' | rfl)
      · exact h'
      · simpa using h
  · simp

theorem addField_hard (rs : RandSet) (f : Nat) : (addField rs f).hard = rs.hard := by
  unfold addField; split <;> rfl

theorem mem_foldl_addField (fs : List Nat) : ∀ (rs : RandSet) (g : Nat),
    g ∈ (fs.foldl addField rs).fields ↔ g ∈ rs.fields ∨ g ∈ fs := by
  induction fs with
  | nil => intro rs g; simp
  | cons x xs ih =>
    intro rs g
    simp only [List.foldl_cons, ih, mem_addField, List.mem_cons]
    constructor
    · rintro ((h | h) | h)
      · exact Or.inl h
      · exact Or.inr (Or.inl h)
      · exact Or.inr (Or.inr h)
    · rintro (h | h | h)
      · exact Or.inl (Or.inl h)
      · exact Or.inl (Or.inr h)
      · exact Or.inr h

theorem foldl_addField_hard (fs : List Nat) : ∀ (rs : RandSet), (fs.foldl addField rs).hard = rs.hard := by
  induction fs with
  | nil => intro rs; rfl
  | cons x xs ih => intro rs; simp only [List.foldl_cons, ih, addField_hard]

theorem mem_addHard (rs : RandSet) (c d : Nat × Stmt) : d ∈ (addHard rs c).hard → d ∈ rs.hard ∨ d = c := by
  unfold addHard
  split
  · exact Or.inl
  · simp

theorem addHard_fields (rs : RandSet) (c : Nat × Stmt) : (addHard rs c).fields = rs.fields := by
  unfold addHard; split <;> rfl

theorem mem_foldl_addHard (cs : List (Nat × Stmt)) : ∀ (rs : RandSet) (d : Nat × Stmt),
    d ∈ (cs.foldl addHard rs).hard → d ∈ rs.hard ∨ d ∈ cs := by
  induction cs with
  | nil => intro rs d h; exact Or.inl h
  | cons x xs ih =>
    intro rs d h
    simp only [List.foldl_cons] at h
    rcases ih _ _ h with h | h
    · rcases mem_addHard _ _ _ h with h | h
      · exact Or.inl h
      · exact Or.inr (by simp [h])
    · exact Or.inr (by simp [h])

theorem foldl_addHard_fields (cs : List (Nat × Stmt)) : ∀ (rs : RandSet), (cs.foldl addHard rs).fields = rs.fields := by
  induction cs with
  | nil => intro rs; rfl
  | cons x xs ih => intro rs; simp only [List.foldl_cons, ih, addHard_fields]

theorem addSoft_fields (rs : RandSet) (c : SoftEntry) : (addSoft rs c).fields = rs.fields := by
  unfold addSoft; split <;> rfl

theorem addSoft_hard (rs : RandSet) (c : SoftEntry) : (addSoft rs c).hard = rs.hard := by
  unfold addSoft; split <;> rfl

theorem foldl_addSoft_fields (cs : List SoftEntry) : ∀ (rs : RandSet), (cs.foldl addSoft rs).fields = rs.fields := by
  induction cs with
  | nil => intro rs; rfl
  | cons x xs ih => intro rs; simp only [List.foldl_cons, ih, addSoft_fields]

theorem foldl_addSoft_hard (cs : List SoftEntry) : ∀ (rs : RandSet), (cs.foldl addSoft rs).hard = rs.hard := by
  induction cs with
  | nil => intro rs; rfl
  | cons x xs ih => intro rs; simp only [List.foldl_cons, ih, addSoft_hard]

/-- a change of one live set that keeps its fields and hard list keeps the invariant -/
theorem inv_modify_neutral (st : St) (k : Nat) (g : RandSet → RandSet)
    (hf : ∀ rs, (g rs).fields = rs.fields) (hh : ∀ rs, (g rs).hard = rs.hard) (h : Inv st) :
    Inv { st with sets := modifySet st.sets k g } := by
  have back : ∀ j rs, live (modifySet st.sets k g) j rs →
      ∃ rs0, live st.sets j rs0 ∧ rs.fields = rs0.fields ∧ rs.hard = rs0.hard := by
    intro j rs hl
    by_cases hj : j = k
    · subst hj
      obtain ⟨r0, h0, rfl⟩ := (live_modify_same _ _ _ _).mp hl
      exact ⟨r0, h0, hf _, hh _⟩
    · exact ⟨rs, (live_modify_other _ _ _ _ _ hj).mp hl, rfl, rfl⟩
  refine ⟨?_, ?_, ?_, h.noref⟩
  · intro i j a b hij ha hb f hfa
    obtain ⟨a0, ha0, e1, _⟩ := back i a ha
    obtain ⟨b0, hb0, e2, _⟩ := back j b hb
    rw [e2]; exact h.disj i j a0 b0 hij ha0 hb0 f (e1 ▸ hfa)
  · intro i a ha c hc f hfc
    obtain ⟨a0, ha0, e1, e2⟩ := back i a ha
    rw [e1]; exact h.closed i a0 ha0 c (e2 ▸ hc) f hfc
  · intro a ha
    obtain ⟨rs, hrs⟩ := h.act a ha
    by_cases hak : a = k
    · subst hak; exact ⟨g rs, (live_modify_same _ _ _ _).mpr ⟨rs, hrs, rfl⟩⟩
    · exact ⟨rs, (live_modify_other _ _ _ _ _ hak).mpr hrs⟩

theorem cur_modify_neutral (st : St) (k : Nat) (g : RandSet → RandSet)
    (hf : ∀ rs, (g rs).fields = rs.fields) (seen : List Nat) (h : Cur st seen) :
    Cur { st with sets := modifySet st.sets k g } seen := by
  intro f hfs
  obtain ⟨a, rs, ha, hl, hm⟩ := h f hfs
  by_cases hak : a = k
  · subst hak
    exact ⟨a, g rs, ha, (live_modify_same _ _ _ _).mpr ⟨rs, hl, rfl⟩, by rw [hf]; exact hm⟩
  · exact ⟨a, rs, ha, (live_modify_other _ _ _ _ _ hak).mpr hl, hm⟩

/-! ### one field reference -/

theorem processRef_inv (st : St) (f : Nat) (seen : List Nat) (h : Inv st) (hc : Cur st seen) :
    Inv (processRef st f) ∧ Cur (processRef st f) (f :: seen) := by
  unfold processRef
  cases hown : owner st.sets f with
  | some ex =>
    obtain ⟨ers, hex, hfe⟩ := owner_some _ _ _ hown
    simp only
    cases hact : st.active with
    | none =>
      simp only
      refine ⟨⟨h.disj, h.closed, ?_, h.noref⟩, ?_⟩
      · intro a ha; simp at ha; subst ha; exact ⟨ers, hex⟩
      · intro g hg
        rcases List.mem_cons.mp hg with rfl | hg
        · exact ⟨ex, ers, rfl, hex, hfe⟩
        · obtain ⟨a, _, ha, _⟩ := hc g hg
          rw [hact] at ha; cases ha
    | some a =>
      simp only
      by_cases hae : a = ex
      · simp only [hae, if_true]
        refine ⟨h, ?_⟩
        intro g hg
        rcases List.mem_cons.mp hg with rfl | hg
        · exact ⟨ex, ers, by rw [hact, hae], hex, hfe⟩
        · exact hc g hg
      · simp only [hae, if_false]
        obtain ⟨ars, hars⟩ := h.act a hact
        have hars' : st.sets[a]? = some (some ars) := hars
        rw [hars']
        simp only
        -- the merged owner
        let merged : RandSet := ars.soft.foldl addSoft (ars.hard.foldl addHard (ars.fields.foldl addField ers))
        have mfields : ∀ g, g ∈ merged.fields ↔ g ∈ ers.fields ∨ g ∈ ars.fields := by
          intro g
          show g ∈ (ars.soft.foldl addSoft _).fields ↔ _
          rw [foldl_addSoft_fields, foldl_addHard_fields, mem_foldl_addField]
        have mhard : ∀ d, d ∈ merged.hard → d ∈ ers.hard ∨ d ∈ ars.hard := by
          intro d hd
          have hd' : d ∈ (ars.soft.foldl addSoft (ars.hard.foldl addHard (ars.fields.foldl addField ers))).hard := hd
          rw [foldl_addSoft_hard] at hd'
          rcases mem_foldl_addHard _ _ _ hd' with h1 | h1
          · rw [foldl_addField_hard] at h1; exact Or.inl h1
          · exact Or.inr h1
        -- liveness in the new list
        have newget : ∀ j, ((modifySet st.sets ex fun ers =>
              ars.soft.foldl addSoft (ars.hard.foldl addHard (ars.fields.foldl addField ers))).mapIdx
              fun j s => if j = a then none else s)[j]? =
            if j = a then (if j < st.sets.length then some none else none)
            else if j = ex then some (some merged) else st.sets[j]? := by
          intro j
          rw [List.getElem?_mapIdx, modifySet_get]
          by_cases hja : j = a
          · subst hja
            simp only [if_true, hae, if_false, hars']
            have : j < st.sets.length := (List.getElem?_eq_some_iff.mp hars').1
            simp [this]
          · simp only [hja, if_false]
            by_cases hje : j = ex
            · subst hje
              simp only [if_true]
              rw [hex]; simp [hja, merged]
            · simp only [hje, if_false]
              cases st.sets[j]? <;> simp [hja]
        have newlive : ∀ j rs, live ((modifySet st.sets ex fun ers =>
              ars.soft.foldl addSoft (ars.hard.foldl addHard (ars.fields.foldl addField ers))).mapIdx
              fun j s => if j = a then none else s) j rs →
            (j = ex ∧ rs = merged) ∨ (j ≠ ex ∧ j ≠ a ∧ live st.sets j rs) := by
          intro j rs hl
          unfold live at hl
          rw [newget] at hl
          by_cases hja : j = a
          · simp only [hja, if_true] at hl
            split at hl <;> simp at hl
          · simp only [hja, if_false] at hl
            by_cases hje : j = ex
            · simp only [hje, if_true] at hl
              left; exact ⟨hje, by simpa using hl.symm⟩
            · simp only [hje, if_false] at hl
              right; exact ⟨hje, hja, hl⟩
        refine ⟨⟨?_, ?_, ?_, h.noref⟩, ?_⟩
        · intro i j x y hij hx hy g hgx hgy
          rcases newlive i x hx with ⟨rfl, rfl⟩ | ⟨hie, hia, hxl⟩
          · rcases newlive j y hy with ⟨rfl, _⟩ | ⟨hje, hja, hyl⟩
            · exact hij rfl
            · rcases (mfields g).mp hgx with h1 | h1
              · exact h.disj i j ers y hij hex hyl g h1 hgy
              · exact h.disj a j ars y (fun e => hja e.symm) hars hyl g h1 hgy
          · rcases newlive j y hy with ⟨rfl, rfl⟩ | ⟨hje, hja, hyl⟩
            · rcases (mfields g).mp hgy with h1 | h1
              · exact h.disj i j x ers hij hxl hex g hgx h1
              · exact h.disj i a x ars hia hxl hars g hgx h1
            · exact h.disj i j x y hij hxl hyl g hgx hgy
        · intro i x hx c hcx g hg
          rcases newlive i x hx with ⟨rfl, rfl⟩ | ⟨_, _, hxl⟩
          · rcases mhard c hcx with h1 | h1
            · exact (mfields g).mpr (Or.inl (h.closed i ers hex c h1 g hg))
            · exact (mfields g).mpr (Or.inr (h.closed a ars hars c h1 g hg))
          · exact h.closed i x hxl c hcx g hg
        · intro a' ha'
          simp at ha'; subst ha'
          refine ⟨merged, ?_⟩
          unfold live
          rw [newget]
          have : ex ≠ a := fun e => hae e.symm
          simp [this]
        · intro g hg
          refine ⟨ex, merged, rfl, ?_, ?_⟩
          · unfold live
            rw [newget]
            have : ex ≠ a := fun e => hae e.symm
            simp [this]
          · rcases List.mem_cons.mp hg with rfl | hg
            · exact (mfields g).mpr (Or.inl hfe)
            · obtain ⟨a', rs', ha', hl', hm'⟩ := hc g hg
              rw [hact] at ha'; cases ha'
              have : rs' = ars := by
                unfold live at hl' hars; rw [hl'] at hars; simpa using hars
              subst this
              exact (mfields g).mpr (Or.inr hm')
  | none =>
    have hno := owner_none _ _ hown
    simp only
    cases hact : st.active with
    | none =>
      simp only
      have newget : ∀ j, (st.sets ++ [some ({ fields := [f] } : RandSet)])[j]? =
          if j < st.sets.length then st.sets[j]? else if j = st.sets.length then some (some { fields := [f] }) else none := by
        intro j
        by_cases hj : j < st.sets.length
        · simp [hj, List.getElem?_append_left hj]
        · simp only [hj, if_false]
          rw [List.getElem?_append_right (by omega)]
          by_cases hj2 : j = st.sets.length
          · simp [hj2]
          · simp only [hj2, if_false]
            have : j - st.sets.length ≠ 0 := by omega
            cases hk : j - st.sets.length with
            | zero => exact absurd hk this
            | succ n => simp
      have newlive : ∀ j rs, live (st.sets ++ [some ({ fields := [f] } : RandSet)]) j rs →
          (j = st.sets.length ∧ rs = { fields := [f] }) ∨ (j < st.sets.length ∧ live st.sets j rs) := by
        intro j rs hl
        unfold live at hl
        rw [newget] at hl
        by_cases hj : j < st.sets.length
        · simp only [hj, if_true] at hl; exact Or.inr ⟨hj, hl⟩
        · simp only [hj, if_false] at hl
          by_cases hj2 : j = st.sets.length
          · simp only [hj2, if_true] at hl; left; exact ⟨hj2, by simpa using hl.symm⟩
          · simp [hj2] at hl
      refine ⟨⟨?_, ?_, ?_, h.noref⟩, ?_⟩
      · intro i j x y hij hx hy g hgx hgy
        rcases newlive i x hx with ⟨rfl, rfl⟩ | ⟨hi, hxl⟩
        · rcases newlive j y hy with ⟨rfl, _⟩ | ⟨hj, hyl⟩
          · exact hij rfl
          · simp at hgx; subst hgx; exact hno j y hyl hgy
        · rcases newlive j y hy with ⟨rfl, rfl⟩ | ⟨hj, hyl⟩
          · simp at hgy; subst hgy; exact hno i x hxl hgx
          · exact h.disj i j x y hij hxl hyl g hgx hgy
      · intro i x hx c hcx g hg
        rcases newlive i x hx with ⟨rfl, rfl⟩ | ⟨_, hxl⟩
        · simp at hcx
        · exact h.closed i x hxl c hcx g hg
      · intro a' ha'
        simp at ha'; subst ha'
        exact ⟨{ fields := [f] }, by unfold live; rw [newget]; simp⟩
      · intro g hg
        rcases List.mem_cons.mp hg with rfl | hg
        · exact ⟨st.sets.length, { fields := [g] }, rfl, by unfold live; rw [newget]; simp, by simp⟩
        · obtain ⟨a, _, ha, _⟩ := hc g hg
          rw [hact] at ha; cases ha
    | some a =>
      simp only
      obtain ⟨ars, hars⟩ := h.act a hact
      have back : ∀ j rs, live (modifySet st.sets a fun rs => addField rs f) j rs →
          (j = a ∧ rs = addField ars f) ∨ (j ≠ a ∧ live st.sets j rs) := by
        intro j rs hl
        by_cases hj : j = a
        · subst hj
          obtain ⟨r0, h0, rfl⟩ := (live_modify_same _ _ _ _).mp hl
          have : r0 = ars := by unfold live at h0 hars; rw [h0] at hars; simpa using hars
          subst this
          exact Or.inl ⟨rfl, rfl⟩
        · exact Or.inr ⟨hj, (live_modify_other _ _ _ _ _ hj).mp hl⟩
      refine ⟨⟨?_, ?_, ?_, h.noref⟩, ?_⟩
      · intro i j x y hij hx hy g hgx hgy
        rcases back i x hx with ⟨rfl, rfl⟩ | ⟨hi, hxl⟩
        · rcases back j y hy with ⟨rfl, _⟩ | ⟨hj, hyl⟩
          · exact hij rfl
          · rcases (mem_addField _ _ _).mp hgx with h1 | rfl
            · exact h.disj i j ars y hij hars hyl g h1 hgy
            · exact hno j y hyl hgy
        · rcases back j y hy with ⟨rfl, rfl⟩ | ⟨hj, hyl⟩
          · rcases (mem_addField _ _ _).mp hgy with h1 | rfl
            · exact h.disj i j x ars hij hxl hars g hgx h1
            · exact hno i x hxl hgx
          · exact h.disj i j x y hij hxl hyl g hgx hgy
      · intro i x hx c hcx g hg
        rcases back i x hx with ⟨rfl, rfl⟩ | ⟨_, hxl⟩
        · rw [addField_hard] at hcx
          exact (mem_addField _ _ _).mpr (Or.inl (h.closed i ars hars c hcx g hg))
        · exact h.closed i x hxl c hcx g hg
      · intro a' ha'
        have : a' = a := by simpa [hact] using ha'.symm
        subst this
        exact ⟨addField ars f, (live_modify_same _ _ _ _).mpr ⟨ars, hars, rfl⟩⟩
      · intro g hg
        refine ⟨a, addField ars f, rfl, (live_modify_same _ _ _ _).mpr ⟨ars, hars, rfl⟩, ?_⟩
        rcases List.mem_cons.mp hg with rfl | hg
        · exact (mem_addField _ _ _).mpr (Or.inr rfl)
        · obtain ⟨a', rs', ha', hl', hm'⟩ := hc g hg
          rw [hact] at ha'; cases ha'
          have : rs' = ars := by unfold live at hl' hars; rw [hl'] at hars; simpa using hars
          subst this
          exact (mem_addField _ _ _).mpr (Or.inl hm')

/-! ### events, statements, the whole build -/

theorem processEv_inv (n : Nat) (st : St) (e : Ev) (seen : List Nat) (h : Inv st) (hc : Cur st seen) :
    Inv (processEv n st e) ∧ Cur (processEv n st e) (evRefs [e] ++ seen) := by
  cases e with
  | ref i => simpa [processEv, evRefs] using processRef_inv st i seen h hc
  | soft gs e =>
    simp only [evRefs, List.filterMap_cons, List.filterMap_nil, List.nil_append]
    have base : Inv { st with nsoft := st.nsoft + 1 } ∧ Cur { st with nsoft := st.nsoft + 1 } seen :=
      ⟨⟨h.disj, h.closed, h.act, h.noref⟩, hc⟩
    unfold processEv
    cases gs with
    | nil => exact base
    | cons g gs =>
      simp only
      cases hact : st.active with
      | none =>
        simp only [hact]
        exact ⟨⟨h.disj, h.closed, by simp [hact], h.noref⟩, by
          intro f hf; obtain ⟨a, _, ha, _⟩ := hc f hf; rw [hact] at ha; cases ha⟩
      | some a =>
        simp only [hact]
        have i1 := inv_modify_neutral st a
          (fun rs => addSoft rs ⟨st.nsoft + (n + st.nsoft), g :: gs, e⟩)
          (fun rs => addSoft_fields _ _) (fun rs => addSoft_hard _ _) h
        have c1 := cur_modify_neutral st a
          (fun rs => addSoft rs ⟨st.nsoft + (n + st.nsoft), g :: gs, e⟩)
          (fun rs => addSoft_fields _ _) seen hc
        exact ⟨Inv.congr i1 rfl hact.symm rfl, Cur.congr c1 rfl hact.symm⟩

theorem foldl_processEv_inv (n : Nat) : ∀ (evs : List Ev) (st : St) (seen : List Nat), Inv st → Cur st seen →
    Inv (evs.foldl (processEv n) st) ∧ Cur (evs.foldl (processEv n) st) ((evRefs evs).reverse ++ seen) := by
  intro evs
  induction evs with
  | nil => intro st seen h hc; simpa [evRefs] using ⟨h, hc⟩
  | cons e es ih =>
    intro st seen h hc
    obtain ⟨h1, c1⟩ := processEv_inv n st e seen h hc
    have := ih _ _ h1 c1
    simp only [List.foldl_cons]
    refine ⟨this.1, ?_⟩
    intro f hf
    apply this.2 f
    have e1 : evRefs (e :: es) = evRefs [e] ++ evRefs es := by
      simp [evRefs, List.filterMap_cons]
      cases e <;> simp
    rw [e1] at hf
    simp only [List.reverse_append, List.append_assoc, List.mem_append, List.mem_reverse] at hf ⊢
    exact hf

theorem evRefs_append (a b : List Ev) : evRefs (a ++ b) = evRefs a ++ evRefs b := by
  simp [evRefs, List.filterMap_append]

theorem processTop_inv (n : Nat) (st : St) (c : Nat × Stmt) (extra : List Nat) (h : Inv st) :
    Inv (processTop n st c extra) := by
  unfold processTop
  have h0 : Inv { st with active := none } := ⟨h.disj, h.closed, by simp, h.noref⟩
  have c0 : Cur { st with active := none } [] := by intro f hf; simp at hf
  obtain ⟨h1, c1⟩ := foldl_processEv_inv n (walk c.2 [] ++ extra.map Ev.ref) _ [] h0 c0
  simp only
  generalize (List.foldl (processEv n) { st with active := none } (walk c.2 [] ++ extra.map Ev.ref)) = st1 at h1 c1
  have allrefs : ∀ f ∈ sRefs c.2, ∃ a rs, st1.active = some a ∧ live st1.sets a rs ∧ f ∈ rs.fields := by
    intro f hf
    apply c1 f
    rw [evRefs_append]
    simp only [List.append_nil, List.mem_reverse, List.mem_append]
    exact Or.inl hf
  cases hact : st1.active with
  | none =>
    simp only
    have nr : sRefs c.2 = [] := by
      cases hr : sRefs c.2 with
      | nil => rfl
      | cons f fs =>
        obtain ⟨a, _, ha, _⟩ := allrefs f (by rw [hr]; simp)
        rw [hact] at ha; cases ha
    cases hs : c.2 with
    | soft e =>
      simp only
      exact ⟨h1.disj, h1.closed, by intro a ha; exact absurd ha (by simp), by simpa [addSoft_hard] using h1.noref⟩
    | _ =>
      simp only
      refine ⟨h1.disj, h1.closed, by intro a ha; exact absurd ha (by simp), ?_⟩
      intro d hd
      rcases mem_addHard _ _ _ hd with hd | rfl
      · exact h1.noref d hd
      · exact nr
  | some a =>
    simp only
    cases hs : c.2 with
    | soft e =>
      simp only
      exact Inv.congr (inv_modify_neutral st1 a _ (fun rs => addSoft_fields _ _) (fun rs => addSoft_hard _ _) h1)
        rfl hact.symm rfl
    | _ =>
      simp only
      obtain ⟨ars, hars⟩ := h1.act a hact
      have back : ∀ j rs, live (modifySet st1.sets a fun rs => addHard rs c) j rs →
          (j = a ∧ rs = addHard ars c) ∨ (j ≠ a ∧ live st1.sets j rs) := by
        intro j rs hl
        by_cases hj : j = a
        · subst hj
          obtain ⟨r0, h0', rfl⟩ := (live_modify_same _ _ _ _).mp hl
          have : r0 = ars := by unfold live at h0' hars; rw [h0'] at hars; simpa using hars
          subst this
          exact Or.inl ⟨rfl, rfl⟩
        · exact Or.inr ⟨hj, (live_modify_other _ _ _ _ _ hj).mp hl⟩
      refine ⟨?_, ?_, ?_, h1.noref⟩
      · intro i j x y hij hx hy g hgx hgy
        rcases back i x hx with ⟨rfl, rfl⟩ | ⟨hi, hxl⟩
        · rcases back j y hy with ⟨rfl, _⟩ | ⟨hj, hyl⟩
          · exact hij rfl
          · rw [addHard_fields] at hgx; exact h1.disj i j ars y hij hars hyl g hgx hgy
        · rcases back j y hy with ⟨rfl, rfl⟩ | ⟨hj, hyl⟩
          · rw [addHard_fields] at hgy; exact h1.disj i j x ars hij hxl hars g hgx hgy
          · exact h1.disj i j x y hij hxl hyl g hgx hgy
      · intro i x hx d hdx g hg
        rcases back i x hx with ⟨rfl, rfl⟩ | ⟨_, hxl⟩
        · rw [addHard_fields]
          rcases mem_addHard _ _ _ hdx with hd | rfl
          · exact h1.closed i ars hars d hd g hg
          · obtain ⟨a', rs', ha', hl', hm'⟩ := allrefs g hg
            rw [hact] at ha'; cases ha'
            have : rs' = ars := by unfold live at hl' hars; rw [hl'] at hars; simpa using hars
            subst this; exact hm'
        · exact h1.closed i x hxl d hdx g hg
      · intro a' ha'
        have : a' = a := by simpa [hact] using ha'.symm
        subst this
        exact ⟨addHard ars c, (live_modify_same _ _ _ _).mpr ⟨ars, hars, rfl⟩⟩

theorem registerDist_inv (st : St) (f d : Nat) (h : Inv st) : Inv (registerDist st f d) := by
  unfold registerDist
  cases hact : st.active with
  | none => simpa [hact] using h
  | some a =>
    simp only
    exact Inv.congr (inv_modify_neutral st a (fun rs => { rs with dists := rs.dists ++ [(f, d)] })
      (fun _ => rfl) (fun _ => rfl) h) rfl hact.symm rfl

theorem build_inv (tops : List Stmt) (marks : List (Nat × Nat × Nat)) (extra : List (Nat × List Nat)) :
    Inv (build tops marks extra) := by
  unfold build
  simp only
  generalize (List.range tops.length).zip tops = idd
  have h0 : Inv ({} : St) := ⟨by intro i j a b _ ha; simp [live] at ha, by intro i a ha; simp [live] at ha,
    by intro a ha; simp at ha, by intro c hc; simp at hc⟩
  generalize ({} : St) = st0 at h0
  induction idd generalizing st0 with
  | nil => simpa using h0
  | cons c cs ih =>
    simp only [List.foldl_cons]
    apply ih
    have h1 := processTop_inv ((tops.map countSoft).sum) st0 c ((extra.filter fun x => x.1 == c.1).flatMap (·.2)) h0
    generalize (processTop ((tops.map countSoft).sum) st0 c ((extra.filter fun x => x.1 == c.1).flatMap (·.2))) = st1 at h1
    generalize (marks.filter fun m => m.1 == c.1) = ms
    induction ms generalizing st1 with
    | nil => simpa using h1
    | cons m ms ihm =>
      simp only [List.foldl_cons]
      exact ihm _ (registerDist_inv st1 m.2.1 m.2.2 h1)

/-! ### no hard statement is dropped -/

/-- a hard entry with id `k` is recorded in a live set or in the field-less set -/
def Rec (st : St) (k : Nat) : Prop :=
  (∃ i rs, live st.sets i rs ∧ ∃ d ∈ rs.hard, d.1 = k) ∨ ∃ d ∈ st.noref.hard, d.1 = k

/-- every recorded hard entry is one of the given statements -/
def From (idd : List (Nat × Stmt)) (st : St) : Prop :=
  (∀ i rs, live st.sets i rs → ∀ d ∈ rs.hard, d ∈ idd) ∧ ∀ d ∈ st.noref.hard, d ∈ idd

theorem addHard_has (rs : RandSet) (c : Nat × Stmt) : ∃ d ∈ (addHard rs c).hard, d.1 = c.1 := by
  unfold addHard
  split
  · rename_i h
    obtain ⟨d, hd, he⟩ := List.any_eq_true.mp h
    exact ⟨d, hd, by simpa using he⟩
  · exact ⟨c, by simp, rfl⟩

theorem addHard_keeps (rs : RandSet) (c d : Nat × Stmt) (h : d ∈ rs.hard) : d ∈ (addHard rs c).hard := by
  unfold addHard; split
  · exact h
  · simp [h]

theorem foldl_addHard_keeps (cs : List (Nat × Stmt)) : ∀ (rs : RandSet) (d : Nat × Stmt), d ∈ rs.hard →
    d ∈ (cs.foldl addHard rs).hard := by
  induction cs with
  | nil => intro rs d h; exact h
  | cons x xs ih => intro rs d h; exact ih _ _ (addHard_keeps _ _ _ h)

theorem foldl_addHard_has (cs : List (Nat × Stmt)) : ∀ (rs : RandSet) (c : Nat × Stmt), c ∈ cs →
    ∃ d ∈ (cs.foldl addHard rs).hard, d.1 = c.1 := by
  induction cs with
  | nil => intro rs c h; simp at h
  | cons x xs ih =>
    intro rs c h
    rcases List.mem_cons.mp h with rfl | h
    · obtain ⟨d, hd, he⟩ := addHard_has rs c
      exact ⟨d, foldl_addHard_keeps xs _ d hd, he⟩
    · exact ih _ c h

/-- a state transformer that keeps every hard entry (by id) and adds only given ones -/
structure Keeps (idd : List (Nat × Stmt)) (st st' : St) : Prop where
  recd : ∀ k, Rec st k → Rec st' k
  frm : From idd st → From idd st'

theorem keeps_refl (idd : List (Nat × Stmt)) (st : St) : Keeps idd st st := ⟨fun _ h => h, fun h => h⟩

theorem keeps_trans {idd : List (Nat × Stmt)} {a b c : St} (h1 : Keeps idd a b) (h2 : Keeps idd b c) : Keeps idd a c :=
  ⟨fun k h => h2.recd k (h1.recd k h), fun h => h2.frm (h1.frm h)⟩

theorem keeps_of_eq (idd : List (Nat × Stmt)) (st st' : St) (hs : st'.sets = st.sets) (hn : st'.noref = st.noref) :
    Keeps idd st st' := by
  constructor
  · intro k h; unfold Rec at *; rw [hs, hn]; exact h
  · intro h; unfold From at *; rw [hs, hn]; exact h

theorem keeps_modify_neutral (idd : List (Nat × Stmt)) (st st' : St) (k : Nat) (g : RandSet → RandSet)
    (hh : ∀ rs, (g rs).hard = rs.hard) (hs : st'.sets = modifySet st.sets k g) (hn : st'.noref = st.noref) :
    Keeps idd st st' := by
  constructor
  · intro id h
    unfold Rec at *
    rw [hs, hn]
    rcases h with ⟨i, rs, hl, d, hd, he⟩ | h
    · left
      by_cases hik : i = k
      · subst hik
        exact ⟨i, g rs, (live_modify_same _ _ _ _).mpr ⟨rs, hl, rfl⟩, d, by rw [hh]; exact hd, he⟩
      · exact ⟨i, rs, (live_modify_other _ _ _ _ _ hik).mpr hl, d, hd, he⟩
    · exact Or.inr h
  · intro h
    unfold From at *
    rw [hs, hn]
    refine ⟨?_, h.2⟩
    intro i rs hl d hd
    by_cases hik : i = k
    · subst hik
      obtain ⟨r0, h0, rfl⟩ := (live_modify_same _ _ _ _).mp hl
      rw [hh] at hd
      exact h.1 i r0 h0 d hd
    · exact h.1 i rs ((live_modify_other _ _ _ _ _ hik).mp hl) d hd

theorem processRef_keeps (idd : List (Nat × Stmt)) (st : St) (f : Nat) (h : Inv st) : Keeps idd st (processRef st f) := by
  unfold processRef
  cases hown : owner st.sets f with
  | some ex =>
    obtain ⟨ers, hex, _⟩ := owner_some _ _ _ hown
    simp only
    cases hact : st.active with
    | none => exact keeps_of_eq _ _ _ rfl rfl
    | some a =>
      simp only
      by_cases hae : a = ex
      · simp only [hae, if_true]; exact keeps_refl _ _
      · simp only [hae, if_false]
        obtain ⟨ars, hars⟩ := h.act a hact
        have hars' : st.sets[a]? = some (some ars) := hars
        rw [hars']
        simp only
        let merged : RandSet := ars.soft.foldl addSoft (ars.hard.foldl addHard (ars.fields.foldl addField ers))
        have mh : merged.hard = (ars.hard.foldl addHard (ars.fields.foldl addField ers)).hard := foldl_addSoft_hard _ _
        have newget : ∀ j, ((modifySet st.sets ex fun ers =>
              ars.soft.foldl addSoft (ars.hard.foldl addHard (ars.fields.foldl addField ers))).mapIdx
              fun j s => if j = a then none else s)[j]? =
            if j = a then (if j < st.sets.length then some none else none)
            else if j = ex then some (some merged) else st.sets[j]? := by
          intro j
          rw [List.getElem?_mapIdx, modifySet_get]
          by_cases hja : j = a
          · subst hja
            simp only [if_true, hae, if_false, hars']
            have : j < st.sets.length := (List.getElem?_eq_some_iff.mp hars').1
            simp [this]
          · simp only [hja, if_false]
            by_cases hje : j = ex
            · subst hje
              simp only [if_true]
              rw [hex]; simp [merged]
            · simp only [hje, if_false]
              cases st.sets[j]? <;> simp [hja]
        have hexa : ex ≠ a := fun e => hae e.symm
        have liveEx : live ((modifySet st.sets ex fun ers =>
              ars.soft.foldl addSoft (ars.hard.foldl addHard (ars.fields.foldl addField ers))).mapIdx
              fun j s => if j = a then none else s) ex merged := by
          unfold live; rw [newget]; simp [hexa]
        constructor
        · intro id hr
          unfold Rec at *
          rcases hr with ⟨i, rs, hl, d, hd, he⟩ | hr
          · left
            by_cases hia : i = a
            · subst hia
              have : rs = ars := by unfold live at hl hars; rw [hl] at hars; simpa using hars
              subst this
              obtain ⟨d', hd', he'⟩ := foldl_addHard_has rs.hard (rs.fields.foldl addField ers) d hd
              exact ⟨ex, merged, liveEx, d', by rw [mh]; exact hd', by rw [he', he]⟩
            · by_cases hie : i = ex
              · subst hie
                have : rs = ers := by unfold live at hl hex; rw [hl] at hex; simpa using hex
                subst this
                refine ⟨i, merged, liveEx, d, ?_, he⟩
                rw [mh]
                exact foldl_addHard_keeps _ _ d (by rw [foldl_addField_hard]; exact hd)
              · refine ⟨i, rs, ?_, d, hd, he⟩
                unfold live; rw [newget]; simp [hia, hie]; exact hl
          · exact Or.inr hr
        · intro hf
          unfold From at *
          refine ⟨?_, hf.2⟩
          intro i rs hl d hd
          unfold live at hl
          rw [newget] at hl
          by_cases hia : i = a
          · simp only [hia, if_true] at hl
            split at hl <;> simp at hl
          · simp only [hia, if_false] at hl
            by_cases hie : i = ex
            · simp only [hie, if_true] at hl
              have : rs = merged := by simpa using hl.symm
              subst this
              rw [mh] at hd
              rcases mem_foldl_addHard _ _ _ hd with h1 | h1
              · rw [foldl_addField_hard] at h1; exact hf.1 ex ers hex d h1
              · exact hf.1 a ars hars d h1
            · simp only [hie, if_false] at hl
              exact hf.1 i rs hl d hd
  | none =>
    simp only
    cases hact : st.active with
    | none =>
      simp only
      constructor
      · intro id hr
        unfold Rec at *
        rcases hr with ⟨i, rs, hl, d, hd, he⟩ | hr
        · left
          refine ⟨i, rs, ?_, d, hd, he⟩
          unfold live at *
          have : i < st.sets.length := (List.getElem?_eq_some_iff.mp hl).1
          rw [List.getElem?_append_left this]; exact hl
        · exact Or.inr hr
      · intro hf
        unfold From at *
        refine ⟨?_, hf.2⟩
        intro i rs hl d hd
        unfold live at hl
        by_cases hi : i < st.sets.length
        · rw [List.getElem?_append_left hi] at hl; exact hf.1 i rs hl d hd
        · rw [List.getElem?_append_right (by omega)] at hl
          cases hk : i - st.sets.length with
          | zero => rw [hk] at hl; simp at hl; subst hl; simp at hd
          | succ n => rw [hk] at hl; simp at hl
    | some a =>
      simp only
      exact keeps_modify_neutral idd _ _ a (fun rs => addField rs f) (fun rs => addField_hard _ _) rfl rfl

theorem processEv_keeps (idd : List (Nat × Stmt)) (n : Nat) (st : St) (e : Ev) (h : Inv st) :
    Keeps idd st (processEv n st e) := by
  cases e with
  | ref i => exact processRef_keeps idd st i h
  | soft gs e =>
    unfold processEv
    cases gs with
    | nil => exact keeps_of_eq _ _ _ rfl rfl
    | cons g gs =>
      simp only
      cases hact : st.active with
      | none => exact keeps_of_eq _ _ _ rfl rfl
      | some a =>
        exact keeps_modify_neutral idd _ _ a _ (fun rs => addSoft_hard _ _) rfl rfl

theorem foldl_processEv_keeps (idd : List (Nat × Stmt)) (n : Nat) : ∀ (evs : List Ev) (st : St) (seen : List Nat),
    Inv st → Cur st seen → Keeps idd st (evs.foldl (processEv n) st) := by
  intro evs
  induction evs with
  | nil => intro st _ _ _; exact keeps_refl _ _
  | cons e es ih =>
    intro st seen h hc
    obtain ⟨h1, c1⟩ := processEv_inv n st e seen h hc
    exact keeps_trans (processEv_keeps idd n st e h) (ih _ _ h1 c1)

/-- leaving a top-level hard statement records it -/
theorem processTop_keeps (idd : List (Nat × Stmt)) (n : Nat) (st : St) (c : Nat × Stmt) (extra : List Nat)
    (h : Inv st) (hc : c ∈ idd) :
    Keeps idd st (processTop n st c extra) ∧ ((∀ e, c.2 ≠ .soft e) → Rec (processTop n st c extra) c.1) := by
  unfold processTop
  have h0 : Inv { st with active := none } := ⟨h.disj, h.closed, by simp, h.noref⟩
  have c0 : Cur { st with active := none } [] := by intro f hf; simp at hf
  have k0 : Keeps idd st { st with active := none } := keeps_of_eq _ _ _ rfl rfl
  have k1 := foldl_processEv_keeps idd n (walk c.2 [] ++ extra.map Ev.ref) _ [] h0 c0
  obtain ⟨h1, _⟩ := foldl_processEv_inv n (walk c.2 [] ++ extra.map Ev.ref) _ [] h0 c0
  simp only
  generalize (List.foldl (processEv n) { st with active := none } (walk c.2 [] ++ extra.map Ev.ref)) = st1 at h1 k1
  have k01 := keeps_trans k0 k1
  cases hact : st1.active with
  | none =>
    simp only
    cases hs : c.2 with
    | soft e =>
      simp only
      refine ⟨keeps_trans k01 ?_, fun hne => absurd rfl (hne e)⟩
      constructor
      · intro id hr; unfold Rec at *; simpa [addSoft_hard] using hr
      · intro hf; unfold From at *; simpa [addSoft_hard] using hf
    | _ =>
      simp only
      refine ⟨keeps_trans k01 ⟨?_, ?_⟩, fun _ => ?_⟩
      · intro id hr
        unfold Rec at *
        rcases hr with hr | ⟨d, hd, he⟩
        · exact Or.inl hr
        · exact Or.inr ⟨d, addHard_keeps _ _ _ hd, he⟩
      · intro hf
        unfold From at *
        refine ⟨hf.1, ?_⟩
        intro d hd
        rcases mem_addHard _ _ _ hd with hd | rfl
        · exact hf.2 d hd
        · exact hc
      · unfold Rec
        right
        exact addHard_has _ _
  | some a =>
    simp only
    obtain ⟨ars, hars⟩ := h1.act a hact
    cases hs : c.2 with
    | soft e =>
      simp only
      exact ⟨keeps_trans k01 (keeps_modify_neutral idd _ _ a _ (fun rs => addSoft_hard _ _) rfl rfl),
        fun hne => absurd rfl (hne e)⟩
    | _ =>
      simp only
      refine ⟨keeps_trans k01 ⟨?_, ?_⟩, fun _ => ?_⟩
      · intro id hr
        unfold Rec at *
        rcases hr with ⟨i, rs, hl, d, hd, he⟩ | hr
        · left
          by_cases hia : i = a
          · subst hia
            exact ⟨i, addHard rs c, (live_modify_same _ _ _ _).mpr ⟨rs, hl, rfl⟩, d, addHard_keeps _ _ _ hd, he⟩
          · exact ⟨i, rs, (live_modify_other _ _ _ _ _ hia).mpr hl, d, hd, he⟩
        · exact Or.inr hr
      · intro hf
        unfold From at *
        refine ⟨?_, hf.2⟩
        intro i rs hl d hd
        by_cases hia : i = a
        · subst hia
          obtain ⟨r0, h0', rfl⟩ := (live_modify_same _ _ _ _).mp hl
          rcases mem_addHard _ _ _ hd with hd | rfl
          · exact hf.1 i r0 h0' d hd
          · exact hc
        · exact hf.1 i rs ((live_modify_other _ _ _ _ _ hia).mp hl) d hd
      · unfold Rec
        left
        obtain ⟨d, hd, he⟩ := addHard_has ars c
        exact ⟨a, addHard ars c, (live_modify_same _ _ _ _).mpr ⟨ars, hars, rfl⟩, d, hd, he⟩

theorem registerDist_keeps (idd : List (Nat × Stmt)) (st : St) (f d : Nat) : Keeps idd st (registerDist st f d) := by
  unfold registerDist
  cases hact : st.active with
  | none => exact keeps_refl _ _
  | some a =>
    simp only
    exact keeps_modify_neutral idd _ _ a (fun rs => { rs with dists := rs.dists ++ [(f, d)] }) (fun _ => rfl) rfl rfl

/-- the fold of `build` over a suffix of the statements -/
def buildFrom (n : Nat) (marks : List (Nat × Nat × Nat)) (extra : List (Nat × List Nat))
    (idd : List (Nat × Stmt)) (st : St) : St :=
  idd.foldl (fun st c =>
    let st := processTop n st c ((extra.filter fun x => x.1 == c.1).flatMap (·.2))
    (marks.filter fun m => m.1 == c.1).foldl (fun s m => registerDist s m.2.1 m.2.2) st) st

theorem marks_keeps (idd : List (Nat × Stmt)) (ms : List (Nat × Nat × Nat)) : ∀ (st : St), Inv st →
    Keeps idd st (ms.foldl (fun s m => registerDist s m.2.1 m.2.2) st) ∧
    Inv (ms.foldl (fun s m => registerDist s m.2.1 m.2.2) st) := by
  induction ms with
  | nil => intro st h; exact ⟨keeps_refl _ _, h⟩
  | cons m ms ih =>
    intro st h
    obtain ⟨k2, i2⟩ := ih _ (registerDist_inv st m.2.1 m.2.2 h)
    exact ⟨keeps_trans (registerDist_keeps idd st m.2.1 m.2.2) k2, i2⟩

theorem buildFrom_spec (all : List (Nat × Stmt)) (n : Nat) (marks : List (Nat × Nat × Nat))
    (extra : List (Nat × List Nat)) : ∀ (idd : List (Nat × Stmt)) (st : St), (∀ c ∈ idd, c ∈ all) → Inv st →
    Keeps all st (buildFrom n marks extra idd st) ∧
    ∀ c ∈ idd, (∀ e, c.2 ≠ .soft e) → Rec (buildFrom n marks extra idd st) c.1 := by
  intro idd
  induction idd with
  | nil => intro st _ _; exact ⟨keeps_refl _ _, by simp⟩
  | cons c cs ih =>
    intro st hsub h
    unfold buildFrom
    simp only [List.foldl_cons]
    have hc : c ∈ all := hsub c (by simp)
    obtain ⟨k1, r1⟩ := processTop_keeps all n st c ((extra.filter fun x => x.1 == c.1).flatMap (·.2)) h hc
    have i1 := processTop_inv n st c ((extra.filter fun x => x.1 == c.1).flatMap (·.2)) h
    generalize (processTop n st c ((extra.filter fun x => x.1 == c.1).flatMap (·.2))) = st1 at k1 r1 i1
    obtain ⟨k2, i2⟩ := marks_keeps all (marks.filter fun m => m.1 == c.1) st1 i1
    generalize ((marks.filter fun m => m.1 == c.1).foldl (fun s m => registerDist s m.2.1 m.2.2) st1) = st2 at k2 i2
    obtain ⟨k3, r3⟩ := ih st2 (fun d hd => hsub d (by simp [hd])) i2
    refine ⟨keeps_trans k1 (keeps_trans k2 k3), ?_⟩
    intro d hd hne
    rcases List.mem_cons.mp hd with rfl | hd
    · exact k3.recd _ (k2.recd _ (r1 hne))
    · exact r3 d hd hne

end Pyvsc.RandSets
