import Pyvsc.Model.Wildcard
/-!
# The scan and scatter steps of `WildcardBinFactory.valmask2binlist`

`groups mask` are exactly the runs of zero bits of `mask` below its highest set bit, in ascending
order and pairwise disjoint; `scatter base ds` maps the counters `0 .. 2^total - 1` onto exactly the
numbers that agree with `base` outside those runs.
-/
namespace Pyvsc.Scatter
open Pyvsc.Wildcard

/-- bit position `p` lies inside one of the groups -/
def InG (ds : List (Nat × Nat)) (p : Nat) : Prop := ∃ g ∈ ds, g.1 ≤ p ∧ p < g.1 + g.2

/-- ascending and disjoint -/
def Ordered (ds : List (Nat × Nat)) : Prop := ds.Pairwise (fun g h => g.1 + g.2 ≤ h.1)

theorem inG_nil (p : Nat) : ¬ InG [] p := by simp [InG]

theorem inG_cons (g : Nat × Nat) (ds : List (Nat × Nat)) (p : Nat) :
    InG (g :: ds) p ↔ (g.1 ≤ p ∧ p < g.1 + g.2) ∨ InG ds p := by
  simp [InG]

theorem testBit_shl_small (a s n p : Nat) (ha : a < 2 ^ n) (hp : ¬ (s ≤ p ∧ p < s + n)) :
    (a <<< s).testBit p = false := by
  rw [Nat.testBit_shiftLeft]
  by_cases h : s ≤ p
  · have hn : n ≤ p - s := by omega
    have : a.testBit (p - s) = false :=
      Nat.testBit_lt_two_pow (Nat.lt_of_lt_of_le ha (Nat.pow_le_pow_right (by decide) hn))
    simp [this]
  · simp [h]

theorem testBit_shl_in (v s n p : Nat) (hp : s ≤ p ∧ p < s + n) :
    (((v >>> s) % 2 ^ n) <<< s).testBit p = v.testBit p := by
  rw [Nat.testBit_shiftLeft, Nat.testBit_mod_two_pow, Nat.testBit_shiftRight]
  have h1 : p - s < n := by omega
  have h2 : s + (p - s) = p := by omega
  simp [hp.1, h1, h2]

/-- outside the groups the scattered number keeps the bits of `base` -/
theorem scatter_out (ds : List (Nat × Nat)) : ∀ (base vi p : Nat), ¬ InG ds p →
    (scatter base ds vi).testBit p = base.testBit p := by
  induction ds with
  | nil => intro base vi p _; rfl
  | cons g ds ih =>
    obtain ⟨s, n⟩ := g
    intro base vi p hp
    rw [inG_cons] at hp
    simp only [scatter]
    rw [ih _ _ p (fun h => hp (Or.inr h)), Nat.testBit_or,
      testBit_shl_small (vi % 2 ^ n) s n p (Nat.mod_lt _ (Nat.two_pow_pos n)) (fun h => hp (Or.inl h))]
    simp

/-- every number that agrees with `base` outside the groups is reached by some counter -/
theorem scatter_onto (ds : List (Nat × Nat)) : Ordered ds → ∀ (base v : Nat),
    (∀ p, InG ds p → base.testBit p = false) →
    (∀ p, ¬ InG ds p → v.testBit p = base.testBit p) →
    ∃ vi, vi < 2 ^ (ds.map (·.2)).sum ∧ scatter base ds vi = v := by
  induction ds with
  | nil =>
    intro _ base v _ hv
    refine ⟨0, by simp, ?_⟩
    simp only [scatter]
    exact Nat.eq_of_testBit_eq (fun p => (hv p (inG_nil p)).symm)
  | cons g ds ih =>
    obtain ⟨s, n⟩ := g
    intro ho base v hb hv
    have ho' := List.pairwise_cons.1 ho
    have hp2 : 0 < 2 ^ n := Nat.two_pow_pos n
    have ha : (v >>> s) % 2 ^ n < 2 ^ n := Nat.mod_lt _ hp2
    have hdisj : ∀ p, InG ds p → ¬ (s ≤ p ∧ p < s + n) := by
      rintro p ⟨g', hg', h1, _⟩ ⟨_, h3⟩
      have := ho'.1 g' hg'
      simp only [] at this
      omega
    obtain ⟨vi', hlt, hsc⟩ := ih ho'.2 (base ||| ((v >>> s) % 2 ^ n) <<< s) v
      (fun p hp => by
        rw [Nat.testBit_or, hb p ((inG_cons _ _ _).2 (Or.inr hp)),
          testBit_shl_small _ s n p ha (hdisj p hp)]; rfl)
      (fun p hp => by
        rw [Nat.testBit_or]
        by_cases hin : s ≤ p ∧ p < s + n
        · rw [testBit_shl_in v s n p hin, hb p ((inG_cons _ _ _).2 (Or.inl hin))]; simp
        · rw [testBit_shl_small _ s n p ha hin,
            hv p (fun h => by rcases (inG_cons _ _ _).1 h with h | h; exact hin h; exact hp h)]
          simp)
    refine ⟨(v >>> s) % 2 ^ n + 2 ^ n * vi', ?_, ?_⟩
    · simp only [List.map_cons, List.sum_cons]
      rw [Nat.pow_add]
      have : 2 ^ n * (vi' + 1) ≤ 2 ^ n * 2 ^ (ds.map (·.2)).sum := Nat.mul_le_mul_left _ hlt
      rw [Nat.mul_add, Nat.mul_one] at this
      omega
    · simp only [scatter]
      rw [Nat.add_mul_mod_self_left, Nat.mod_eq_of_lt ha, Nat.add_mul_div_left _ _ hp2,
        Nat.div_eq_of_lt ha, Nat.zero_add]
      exact hsc

/-- the image of the counters under `scatter` -/
theorem scatter_range (ds : List (Nat × Nat)) (ho : Ordered ds) (base v : Nat)
    (hb : ∀ p, InG ds p → base.testBit p = false) :
    v ∈ (List.range (2 ^ (ds.map (·.2)).sum)).map (scatter base ds) ↔
      ∀ p, ¬ InG ds p → v.testBit p = base.testBit p := by
  rw [List.mem_map]
  constructor
  · rintro ⟨vi, _, rfl⟩ p hp
    exact scatter_out ds base vi p hp
  · intro hv
    obtain ⟨vi, hlt, hsc⟩ := scatter_onto ds ho base v hb hv
    exact ⟨vi, List.mem_range.2 hlt, hsc⟩

/-! ### the scan -/

/-- bit `k` of `m` is a zero below the highest set bit -/
def Z (m k : Nat) : Prop := m.testBit k = false ∧ m >>> k ≠ 0

theorem Z_zero (m : Nat) : Z m 0 ↔ m % 2 = 0 ∧ m ≠ 0 := by
  unfold Z
  rw [Nat.testBit_zero]
  simp only [Nat.shiftRight_zero, decide_eq_false_iff_not]
  constructor
  · rintro ⟨h1, h2⟩; exact ⟨by omega, h2⟩
  · rintro ⟨h1, h2⟩; exact ⟨by omega, h2⟩

theorem Z_succ (m k : Nat) : Z m (k + 1) ↔ Z (m / 2) k := by
  unfold Z
  rw [Nat.testBit_succ, Nat.shiftRight_eq_div_pow, Nat.shiftRight_eq_div_pow, Nat.div_div_eq_div_mul,
    Nat.pow_succ, Nat.mul_comm]

theorem exZ_split (m i p : Nat) :
    (∃ k, p = i + k ∧ Z m k) ↔ (p = i ∧ Z m 0) ∨ (∃ k, p = i + 1 + k ∧ Z (m / 2) k) := by
  constructor
  · rintro ⟨k, rfl, hz⟩
    cases k with
    | zero => exact Or.inl ⟨rfl, hz⟩
    | succ k => exact Or.inr ⟨k, by omega, (Z_succ m k).1 hz⟩
  · rintro (⟨rfl, hz⟩ | ⟨k, rfl, hz⟩)
    · exact ⟨0, rfl, hz⟩
    · exact ⟨k + 1, by omega, (Z_succ m k).2 hz⟩

/-- start of the lowest group the scan can still emit -/
def lb (i : Nat) : Option (Nat × Nat) → Nat
  | some c => c.1
  | none => i

theorem groupsF_spec : ∀ (fuel m i : Nat) (cur : Option (Nat × Nat)), m < 2 ^ fuel →
    (∀ g, cur = some g → g.1 + g.2 = i ∧ m ≠ 0) →
    (∀ p, InG (groupsF fuel m i cur) p ↔
      (∃ g, cur = some g ∧ g.1 ≤ p ∧ p < i) ∨ (∃ k, p = i + k ∧ Z m k)) ∧
    Ordered (groupsF fuel m i cur) ∧ (∀ g ∈ groupsF fuel m i cur, lb i cur ≤ g.1) := by
  intro fuel
  induction fuel with
  | zero =>
    intro m i cur hm hc
    have hm0 : m = 0 := by simp at hm; exact hm
    cases cur with
    | some g => exact absurd hm0 (hc g rfl).2
    | none =>
      simp only [groupsF]
      refine ⟨fun p => ?_, List.Pairwise.nil, by simp⟩
      constructor
      · intro h; exact absurd h (inG_nil p)
      · rintro (⟨g, h, _⟩ | ⟨k, _, hz⟩)
        · simp at h
        · subst hm0; exact absurd (by simp) hz.2
  | succ fuel ih =>
    intro m i cur hm hc
    by_cases hm0 : m = 0
    · cases cur with
      | some g => exact absurd hm0 (hc g rfl).2
      | none =>
        simp only [groupsF, hm0, if_true]
        refine ⟨fun p => ?_, List.Pairwise.nil, by simp⟩
        constructor
        · intro h; exact absurd h (inG_nil p)
        · rintro (⟨g, h, _⟩ | ⟨k, _, hz⟩)
          · simp at h
          · exact absurd (by simp) hz.2
    · have hhalf : m / 2 < 2 ^ fuel := by rw [Nat.pow_succ] at hm; omega
      by_cases hev : m % 2 = 0
      · -- a zero bit: the current group grows (or starts)
        have hne : m / 2 ≠ 0 := by omega
        have hz0 : Z m 0 := (Z_zero m).2 ⟨hev, hm0⟩
        cases cur with
        | some c =>
          obtain ⟨s, n⟩ := c
          have hsn : s + n = i := (hc (s, n) rfl).1
          simp only [groupsF, hm0, hev, if_true, if_false]
          obtain ⟨h1, h2, h3⟩ := ih (m / 2) (i + 1) (some (s, n + 1)) hhalf
            (fun g hg => by cases hg; exact ⟨by simp only []; omega, hne⟩)
          refine ⟨fun p => ?_, h2, fun g hg => by simpa [lb] using h3 g hg⟩
          rw [h1 p, exZ_split m i p]
          constructor
          · rintro (⟨g, hg, a, b⟩ | h)
            · cases hg
              simp only [] at a
              by_cases hpi : p = i
              · exact Or.inr (Or.inl ⟨hpi, hz0⟩)
              · exact Or.inl ⟨(s, n), rfl, a, by omega⟩
            · exact Or.inr (Or.inr h)
          · rintro (⟨g, hg, a, b⟩ | ⟨hpi, _⟩ | h)
            · cases hg
              exact Or.inl ⟨(s, n + 1), rfl, a, by omega⟩
            · exact Or.inl ⟨(s, n + 1), rfl, by simp only []; omega, by omega⟩
            · exact Or.inr h
        | none =>
          simp only [groupsF, hm0, hev, if_true, if_false]
          obtain ⟨h1, h2, h3⟩ := ih (m / 2) (i + 1) (some (i, 1)) hhalf
            (fun g hg => by cases hg; exact ⟨rfl, hne⟩)
          refine ⟨fun p => ?_, h2, fun g hg => by simpa [lb] using h3 g hg⟩
          rw [h1 p, exZ_split m i p]
          constructor
          · rintro (⟨g, hg, a, b⟩ | h)
            · cases hg
              simp only [] at a
              exact Or.inr (Or.inl ⟨by omega, hz0⟩)
            · exact Or.inr (Or.inr h)
          · rintro (⟨g, hg, _⟩ | ⟨hpi, _⟩ | h)
            · simp at hg
            · exact Or.inl ⟨(i, 1), rfl, by simp only []; omega, by omega⟩
            · exact Or.inr h
      · -- a one bit: the current group (if any) is emitted
        have hnz0 : ¬ Z m 0 := fun h => hev ((Z_zero m).1 h).1
        cases cur with
        | some c =>
          obtain ⟨s, n⟩ := c
          have hsn : s + n = i := (hc (s, n) rfl).1
          simp only [groupsF, hm0, hev, if_false]
          obtain ⟨h1, h2, h3⟩ := ih (m / 2) (i + 1) none hhalf (fun g hg => by simp at hg)
          refine ⟨fun p => ?_, ?_, ?_⟩
          · rw [inG_cons, h1 p, exZ_split m i p]
            simp only []
            constructor
            · rintro (⟨a, b⟩ | ⟨g, hg, _⟩ | h)
              · exact Or.inl ⟨(s, n), rfl, a, by omega⟩
              · simp at hg
              · exact Or.inr (Or.inr h)
            · rintro (⟨g, hg, a, b⟩ | ⟨_, hz⟩ | h)
              · cases hg; exact Or.inl ⟨a, by simp only [] at *; omega⟩
              · exact absurd hz hnz0
              · exact Or.inr (Or.inr h)
          · unfold Ordered
            rw [List.pairwise_cons]
            refine ⟨fun g hg => ?_, h2⟩
            have := h3 g hg
            simp only [lb] at this ⊢
            omega
          · intro g hg
            rcases List.mem_cons.1 hg with rfl | hg
            · simp [lb]
            · have := h3 g hg
              simp only [lb] at this ⊢
              omega
        | none =>
          simp only [groupsF, hm0, hev, if_false]
          obtain ⟨h1, h2, h3⟩ := ih (m / 2) (i + 1) none hhalf (fun g hg => by simp at hg)
          refine ⟨fun p => ?_, h2, fun g hg => by have := h3 g hg; simp only [lb] at this ⊢; omega⟩
          rw [h1 p, exZ_split m i p]
          constructor
          · rintro (⟨g, hg, _⟩ | h)
            · simp at hg
            · exact Or.inr (Or.inr h)
          · rintro (⟨g, hg, _⟩ | ⟨_, hz⟩ | h)
            · simp at hg
            · exact absurd hz hnz0
            · exact Or.inr h

/-- **the scan finds exactly the zero bits below the highest set bit**, as ascending disjoint runs -/
theorem groups_spec (mask : Nat) :
    (∀ p, InG (groups mask) p ↔ Z mask p) ∧ Ordered (groups mask) := by
  have hlt : mask < 2 ^ (mask + 1) := Nat.lt_trans (Nat.lt_succ_self mask) Nat.lt_two_pow_self
  obtain ⟨h1, h2, _⟩ := groupsF_spec (mask + 1) mask 0 none hlt (fun g hg => by simp at hg)
  refine ⟨fun p => ?_, h2⟩
  unfold groups
  rw [h1 p]
  constructor
  · rintro (⟨g, hg, _⟩ | ⟨k, rfl, hz⟩)
    · simp at hg
    · simpa using hz
  · intro hz
    exact Or.inr ⟨p, by simp, hz⟩

end Pyvsc.Scatter
