import Pyvsc.Proofs.Lower
/-!
# Lowering soundness for expressions: the circuit pyvsc builds computes the reference value
-/
namespace Pyvsc.Lower
open Pyvsc.Bv Pyvsc.Expr Pyvsc.Sem

variable (Γ : Nat → FieldTy) (ρ : Nat → Int)

/-- Well-formed expressions: the region in which the lowering never makes Boolector raise.
    * widths are positive, a non-negative literal fits its own declared width (else F15);
    * a part-select lies inside its operand;
    * the expansion wrapped by an `in` node is 1 bit wide. -/
def WF : Expr → Prop
  | .lit v _ w => 0 < w ∧ v < (2 ^ w : Int)
  | .fld i => 0 < (Γ i).w
  | .bin _ l r => WF l ∧ WF r
  | .not e => WF e
  | .psel e hi lo => WF e ∧ lo ≤ hi ∧ hi < cw Γ e 0
  | .reset e => WF e ∧ cw Γ e 0 = 1

/-- the solver assignment `σ` and the environment `ρ` describe the same values: random fields
    through their variable, non-random fields by being representable as a constant -/
def Agree (σ : Nat → Nat) : Prop :=
  ∀ i, ((Γ i).rand = true → σ i % 2 ^ (Γ i).w = pat (Γ i).w (ρ i)) ∧
       ((Γ i).rand = false → ρ i < (2 ^ (Γ i).w : Int))

theorem width_pos : ∀ e, WF Γ e → 0 < width Γ e
  | .lit _ _ w, h => h.1
  | .fld i, h => h
  | .bin op l r, h => by
      simp only [width]
      split
      · omega
      · have := width_pos l h.1; omega
  | .not e, h => by simp only [width]; exact width_pos e h
  | .psel _ hi lo, h => by simp only [width]; have := h.2.1; omega
  | .reset _, _ => by simp [width]

theorem cw_bounds : ∀ e W, WF Γ e → 0 < cw Γ e W ∧ cw Γ e W ≤ max W (width Γ e)
  | .lit _ _ w, W, h => by simp only [cw, width]; have := h.1; omega
  | .fld i, W, h => by simp only [cw, width]; have : 0 < (Γ i).w := h; omega
  | .bin op l r, W, h => by
      have := width_pos Γ l h.1
      simp only [cw, width]
      split <;> omega
  | .not e, W, h => by
      have := cw_bounds e (max W (width Γ e)) h
      simp only [cw, width]; omega
  | .psel _ hi lo, W, h => by simp only [cw, width]; have := h.2.1; omega
  | .reset e, W, h => by simp only [cw, width]; have := h.2; omega

theorem b2n_decide_eq (p q : Prop) [Decidable p] [Decidable q] (h : p ↔ q) :
    b2n (decide p) = b2n (decide q) := by
  by_cases hp : p
  · have hq := h.mp hp; simp [hp, hq]
  · have hq : ¬ q := fun hq => hp (h.mpr hq); simp [hp, hq]

/-- the operator table: on operands already extended to `W`, the Boolector operator computes
    the reference meaning on the operands' readings -/
theorem binNode_eval (σ : Nat → Nat) (op : BinOp) (S : Bool) (W x y : Nat) (a b : Bv)
    (ha : eval σ a = some (W, x)) (hb : eval σ b = some (W, y)) (hx : x < 2 ^ W) (hy : y < 2 ^ W) :
    eval σ (binNode op S a b) = some (if op.isCmp then 1 else W, opSem op W (rd S W x) (rd S W y)) := by
  have px := pat_rd S W x hx
  have py := pat_rd S W y hy
  have inj : rd S W x = rd S W y ↔ x = y := ⟨rd_inj S W x y hx hy, fun h => by rw [h]⟩
  cases op
  case eq =>
    simp only [binNode, eval, ha, hb, BinOp.isCmp, opSem, cmpSem, if_true]
    by_cases hxy : x = y
    · have := inj.mpr hxy; simp [hxy, this]
    · have : ¬ rd S W x = rd S W y := fun h => hxy (inj.mp h)
      simp [hxy, this]
  case ne =>
    simp only [binNode, eval, ha, hb, BinOp.isCmp, opSem, cmpSem, if_true]
    by_cases hxy : x = y
    · have := inj.mpr hxy; simp [hxy, this]
    · have : ¬ rd S W x = rd S W y := fun h => hxy (inj.mp h)
      simp [hxy, this]
  case gt =>
    cases S <;> simp [binNode, eval, ha, hb, BinOp.isCmp, opSem, cmpSem, rd]
  case ge =>
    cases S <;> simp [binNode, eval, ha, hb, BinOp.isCmp, opSem, cmpSem, rd]
  case lt =>
    cases S <;> simp [binNode, eval, ha, hb, BinOp.isCmp, opSem, cmpSem, rd]
  case le =>
    cases S <;> simp [binNode, eval, ha, hb, BinOp.isCmp, opSem, cmpSem, rd]
  case add =>
    simp only [binNode, eval, ha, hb, BinOp.isCmp, opSem, arSem, if_true]
    rw [pat_add, px, py]; simp
  case sub =>
    simp only [binNode, eval, ha, hb, BinOp.isCmp, opSem, arSem, if_true]
    rw [pat_sub, px, py]; simp
  case mul =>
    simp only [binNode, eval, ha, hb, BinOp.isCmp, opSem, arSem, if_true]
    rw [pat_mul, px, py]; simp
  case div => simp [binNode, eval, ha, hb, BinOp.isCmp, opSem, arSem, px, py]
  case mod => simp [binNode, eval, ha, hb, BinOp.isCmp, opSem, arSem, px, py]
  case and => simp [binNode, eval, ha, hb, BinOp.isCmp, opSem, arSem, px, py]
  case or => simp [binNode, eval, ha, hb, BinOp.isCmp, opSem, arSem, px, py]
  case sll => simp [binNode, eval, ha, hb, BinOp.isCmp, opSem, arSem, px, py]
  case srl => simp [binNode, eval, ha, hb, BinOp.isCmp, opSem, arSem, px, py]
  case xor => simp [binNode, eval, ha, hb, BinOp.isCmp, opSem, arSem, px, py]

/-- **Lowering soundness (expressions).**  For every well-formed expression, every context
    width, every typing of the fields and every environment, the term built by
    `Expr*Model.build` evaluates — under any solver assignment that agrees with the environment —
    to the reference value of the expression, at the computed width. -/
theorem lower_sound (σ : Nat → Nat) (hσ : Agree Γ ρ σ) :
    ∀ e W, WF Γ e → eval σ (lower Γ ρ e W) = some (cw Γ e W, sval Γ ρ e W) := by
  intro e
  induction e with
  | lit v s w =>
    intro W h
    obtain ⟨hw, hv⟩ := h
    simp only [lower, eval, cw, sval]
    have hm : max W w ≠ 0 := by omega
    simp only [hm, if_false]
    by_cases hn : v < 0
    · simp [hn]
    · simp only [hn, if_false]
      have hle : (2 ^ w : Int) ≤ 2 ^ (max W w) := by
        exact_mod_cast Nat.pow_le_pow_right (by decide) (by omega)
      have hlt : v < (2 ^ (max W w) : Int) := lt_of_lt_of_le hv hle
      simp only [hlt, if_true]
      congr 2
      unfold pat
      rw [Int.emod_eq_of_lt (by omega) hlt]
  | fld i =>
    intro W h
    have hw : (Γ i).w ≠ 0 := by have : 0 < (Γ i).w := h; omega
    obtain ⟨h1, h2⟩ := hσ i
    simp only [lower, cw, sval]
    cases hr : (Γ i).rand
    · simp only [Bool.false_eq_true, if_false, eval, hw]
      have hlt := h2 hr
      by_cases hn : ρ i < 0
      · simp [hn]
      · simp only [hn, if_false, hlt, if_true]
        congr 2
        unfold pat
        rw [Int.emod_eq_of_lt (by omega) hlt]
    · simp [eval, hw, h1 hr]
  | bin op l r ihl ihr =>
    intro W h
    obtain ⟨hl, hr⟩ := h
    have hWl : width Γ l ≤ max W (max (width Γ l) (width Γ r)) := by omega
    have hWr : width Γ r ≤ max W (max (width Γ l) (width Γ r)) := by omega
    obtain ⟨cl2, cl1⟩ := cw_bounds Γ l (max W (max (width Γ l) (width Γ r))) hl
    obtain ⟨cr2, cr1⟩ := cw_bounds Γ r (max W (max (width Γ l) (width Γ r))) hr
    obtain ⟨x', ex, hx', rx⟩ := extend_eval σ _ _ (max W (max (width Γ l) (width Γ r))) _
      (signed Γ l && signed Γ r) (ihl _ hl) (by omega) cl2
    obtain ⟨y', ey, hy', ry⟩ := extend_eval σ _ _ (max W (max (width Γ l) (width Γ r))) _
      (signed Γ l && signed Γ r) (ihr _ hr) (by omega) cr2
    have := binNode_eval σ op (signed Γ l && signed Γ r) _ x' y' _ _ ex ey hx' hy'
    simp only [lower, cw, sval]
    rw [this, rx, ry]
  | not e ih =>
    intro W h
    simp only [lower, cw, sval, eval, ih _ h]
    simp
  | psel e hi lo ih =>
    intro W h
    obtain ⟨he, h1, h2⟩ := h
    simp only [lower, cw, sval, eval, ih _ he]
    simp [h1, h2]
  | reset e ih =>
    intro W h
    simp only [lower, cw, sval, ih _ h.1]

end Pyvsc.Lower
