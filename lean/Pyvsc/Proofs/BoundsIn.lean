import Pyvsc.Model.Bounds
import Mathlib.Tactic.Linarith
/-!
# The `in` propagator (`VariableBoundInPropagator`): sort, merge, two-pointer intersection

`inProp l items` keeps every value that lies both in the domain `l` and in one of the `items`.
-/
namespace Pyvsc.Bounds

def DenR (l : RL) (v : Int) : Prop := ∃ r ∈ l, r.1 ≤ v ∧ v ≤ r.2

def AscR (l : RL) : Prop := l.Pairwise fun a b => a.2 < b.1
def SortedLo (l : RL) : Prop := l.Pairwise fun a b => a.1 ≤ b.1
def WfR (l : RL) : Prop := ∀ r ∈ l, r.1 ≤ r.2

/-! ### sorting -/

theorem mem_insertLo (x : Int × Int) : ∀ (l : RL) (y : Int × Int), y ∈ insertLo x l ↔ y = x ∨ y ∈ l
  | [], y => by simp [insertLo]
  | z :: zs, y => by
      simp only [insertLo]
      split
      · simp
      · simp only [List.mem_cons, mem_insertLo x zs y]
        constructor
        · rintro (h | h | h)
          · exact Or.inr (Or.inl h)
          · exact Or.inl h
          · exact Or.inr (Or.inr h)
        · rintro (h | h | h)
          · exact Or.inr (Or.inl h)
          · exact Or.inl h
          · exact Or.inr (Or.inr h)

theorem sorted_insertLo (x : Int × Int) : ∀ (l : RL), SortedLo l → SortedLo (insertLo x l)
  | [], _ => by simp [insertLo, SortedLo]
  | z :: zs, h => by
      unfold SortedLo at *
      simp only [insertLo]
      have hz := List.pairwise_cons.mp h
      split
      · rename_i hle
        refine List.pairwise_cons.mpr ⟨?_, h⟩
        intro y hy
        rcases List.mem_cons.mp hy with rfl | hy
        · exact hle
        · exact Int.le_trans hle (hz.1 y hy)
      · rename_i hgt
        refine List.pairwise_cons.mpr ⟨?_, sorted_insertLo x zs hz.2⟩
        intro y hy
        rcases (mem_insertLo x zs y).mp hy with rfl | hy
        · omega
        · exact hz.1 y hy

theorem mem_sortLo (l : RL) (y : Int × Int) : y ∈ sortLo l ↔ y ∈ l := by
  unfold sortLo
  induction l with
  | nil => simp
  | cons x xs ih => simp only [List.foldr_cons, mem_insertLo, ih, List.mem_cons]

theorem sorted_sortLo (l : RL) : SortedLo (sortLo l) := by
  unfold sortLo
  induction l with
  | nil => simp [SortedLo]
  | cons x xs ih => simpa using sorted_insertLo x _ ih

/-! ### merging -/

/-- invariant of the merge loop: `acc` (newest first) is separated and well-formed, `rest` is sorted
    by lower bound, well-formed, and starts no lower than the newest merged range -/
structure MergeInv (acc rest : RL) : Prop where
  accAsc : acc.Pairwise fun a b => b.2 < a.1
  accWf : WfR acc
  restSorted : SortedLo rest
  restWf : WfR rest
  link : ∀ a, acc.head? = some a → ∀ r ∈ rest, a.1 ≤ r.1

theorem inMerge_spec : ∀ (rest acc : RL), MergeInv acc rest →
    AscR (inMerge acc rest) ∧ WfR (inMerge acc rest) ∧
    ∀ v, (DenR acc v ∨ DenR rest v) → DenR (inMerge acc rest) v := by
  intro rest
  induction rest with
  | nil =>
    intro acc h
    cases acc with
    | nil => simp [inMerge, AscR, WfR, DenR]
    | cons a acc =>
      simp only [inMerge]
      refine ⟨?_, ?_, ?_⟩
      · unfold AscR; exact List.pairwise_reverse.mpr h.accAsc
      · intro r hr; exact h.accWf r (List.mem_reverse.mp hr)
      · intro v hv
        rcases hv with ⟨r, hr, h1⟩ | ⟨r, hr, _⟩
        · exact ⟨r, List.mem_reverse.mpr hr, h1⟩
        · simp at hr
  | cons r rs ih =>
    intro acc h
    have hrs := List.pairwise_cons.mp h.restSorted
    have hrwf : r.1 ≤ r.2 := h.restWf r (by simp)
    have hrswf : WfR rs := fun x hx => h.restWf x (by simp [hx])
    cases acc with
    | nil =>
      simp only [inMerge]
      have inv : MergeInv [r] rs := ⟨by simp, by intro x hx; simp at hx; subst hx; exact hrwf, hrs.2, hrswf,
        by intro a ha x hx; simp at ha; subst ha; exact hrs.1 x hx⟩
      obtain ⟨i1, i2, i3⟩ := ih [r] inv
      refine ⟨i1, i2, ?_⟩
      intro v hv
      rcases hv with ⟨x, hx, _⟩ | ⟨x, hx, h1⟩
      · simp at hx
      · rcases List.mem_cons.mp hx with rfl | hx
        · exact i3 v (Or.inl ⟨x, by simp, h1⟩)
        · exact i3 v (Or.inr ⟨x, hx, h1⟩)
    | cons a acc =>
      have hacc := List.pairwise_cons.mp h.accAsc
      have hawf : a.1 ≤ a.2 := h.accWf a (by simp)
      have hlink : ∀ x ∈ r :: rs, a.1 ≤ x.1 := h.link a rfl
      simp only [inMerge]
      by_cases hm : a.2 + 1 ≥ r.1
      · simp only [hm, if_true]
        have inv : MergeInv ((a.1, if r.2 > a.2 then r.2 else a.2) :: acc) rs := by
          refine ⟨List.pairwise_cons.mpr ⟨fun b hb => hacc.1 b hb, hacc.2⟩, ?_, hrs.2, hrswf, ?_⟩
          · intro x hx
            rcases List.mem_cons.mp hx with rfl | hx
            · simp only; split <;> omega
            · exact h.accWf x (by simp [hx])
          · intro a' ha' x hx
            simp at ha'; subst ha'
            exact hlink x (by simp [hx])
        obtain ⟨i1, i2, i3⟩ := ih _ inv
        refine ⟨i1, i2, ?_⟩
        intro v hv
        rcases hv with ⟨x, hx, h1, h2⟩ | ⟨x, hx, h1, h2⟩
        · rcases List.mem_cons.mp hx with rfl | hx
          · refine i3 v (Or.inl ⟨_, List.mem_cons_self .., h1, ?_⟩)
            simp only; split <;> omega
          · exact i3 v (Or.inl ⟨x, List.mem_cons_of_mem _ hx, h1, h2⟩)
        · rcases List.mem_cons.mp hx with rfl | hx
          · have := hlink x (by simp)
            refine i3 v (Or.inl ⟨_, List.mem_cons_self .., by simp only; omega, ?_⟩)
            simp only; split <;> omega
          · exact i3 v (Or.inr ⟨x, hx, h1, h2⟩)
      · simp only [hm, if_false]
        have inv : MergeInv (r :: a :: acc) rs := by
          refine ⟨List.pairwise_cons.mpr ⟨?_, h.accAsc⟩, ?_, hrs.2, hrswf, ?_⟩
          · intro b hb
            rcases List.mem_cons.mp hb with rfl | hb
            · omega
            · have := hacc.1 b hb
              have := hlink r (by simp)
              omega
          · intro x hx
            rcases List.mem_cons.mp hx with rfl | hx
            · exact hrwf
            · exact h.accWf x hx
          · intro a' ha' x hx
            simp at ha'; subst ha'
            exact hrs.1 x hx
        obtain ⟨i1, i2, i3⟩ := ih _ inv
        refine ⟨i1, i2, ?_⟩
        intro v hv
        rcases hv with ⟨x, hx, h1⟩ | ⟨x, hx, h1⟩
        · exact i3 v (Or.inl ⟨x, List.mem_cons_of_mem _ hx, h1⟩)
        · rcases List.mem_cons.mp hx with rfl | hx
          · exact i3 v (Or.inl ⟨x, List.mem_cons_self .., h1⟩)
          · exact i3 v (Or.inr ⟨x, hx, h1⟩)

/-! ### intersection -/

theorem inIntersect_complete : ∀ (fuel : Nat) (is ds : RL), is.length + ds.length ≤ fuel → AscR is → AscR ds →
    ∀ v, DenR is v → DenR ds v → DenR (inIntersect fuel is ds) v := by
  intro fuel
  induction fuel with
  | zero =>
    intro is ds hf _ _ v hi hd
    have : is = [] := by cases is with | nil => rfl | cons _ _ => simp at hf
    subst this
    obtain ⟨r, hr, _⟩ := hi; simp at hr
  | succ fuel ih =>
    intro is ds hf hai had v hi hd
    cases is with
    | nil => obtain ⟨r, hr, _⟩ := hi; simp at hr
    | cons i is =>
      cases ds with
      | nil => obtain ⟨r, hr, _⟩ := hd; simp at hr
      | cons d ds =>
        have hai' := List.pairwise_cons.mp hai
        have had' := List.pairwise_cons.mp had
        simp only [inIntersect]
        obtain ⟨ri, hri, hi1, hi2⟩ := hi
        obtain ⟨rd, hrd, hd1, hd2⟩ := hd
        -- membership in the tail of the result suffices
        have tail : ∀ (rest : RL), DenR rest v →
            DenR (if (if i.1 > d.1 then i.1 else d.1) ≤ (if i.2 < d.2 then i.2 else d.2)
              then ((if i.1 > d.1 then i.1 else d.1), (if i.2 < d.2 then i.2 else d.2)) :: rest else rest) v := by
          intro rest hrest
          generalize (if i.1 > d.1 then i.1 else d.1) = L
          generalize (if i.2 < d.2 then i.2 else d.2) = R
          by_cases hc : L ≤ R
          · simp only [hc, if_true]
            obtain ⟨x, hx, h⟩ := hrest; exact ⟨x, List.mem_cons_of_mem _ hx, h⟩
          · simp only [hc, if_false]; exact hrest
        have headCase : ri = i → rd = d →
            DenR (if (if i.1 > d.1 then i.1 else d.1) ≤ (if i.2 < d.2 then i.2 else d.2)
              then ((if i.1 > d.1 then i.1 else d.1), (if i.2 < d.2 then i.2 else d.2)) ::
                (if i.2 < d.2 then inIntersect fuel is (d :: ds) else inIntersect fuel (i :: is) ds)
              else (if i.2 < d.2 then inIntersect fuel is (d :: ds) else inIntersect fuel (i :: is) ds)) v := by
          intro e1 e2
          subst e1; subst e2
          have hl : (if ri.1 > rd.1 then ri.1 else rd.1) ≤ v := by split <;> omega
          have hr : v ≤ (if ri.2 < rd.2 then ri.2 else rd.2) := by split <;> omega
          have : (if ri.1 > rd.1 then ri.1 else rd.1) ≤ (if ri.2 < rd.2 then ri.2 else rd.2) := Int.le_trans hl hr
          simp only [this, if_true]
          exact ⟨_, List.mem_cons_self .., hl, hr⟩
        by_cases hlt : i.2 < d.2
        · simp only [hlt, if_true] at tail headCase ⊢
          rcases List.mem_cons.mp hri with rfl | hri
          · rcases List.mem_cons.mp hrd with rfl | hrd
            · exact headCase rfl rfl
            · -- v lies in a later range of the domain: beyond d, hence beyond i
              exfalso
              have := had'.1 rd hrd
              omega
          · apply tail
            exact ih is (d :: ds) (by simp at hf ⊢; omega) hai'.2 had v ⟨ri, hri, hi1, hi2⟩ ⟨rd, hrd, hd1, hd2⟩
        · simp only [hlt, if_false] at tail headCase ⊢
          rcases List.mem_cons.mp hrd with rfl | hrd
          · rcases List.mem_cons.mp hri with rfl | hri
            · exact headCase rfl rfl
            · exfalso
              have := hai'.1 ri hri
              omega
          · apply tail
            exact ih (i :: is) ds (by simp at hf ⊢; omega) hai had'.2 v ⟨ri, hri, hi1, hi2⟩ ⟨rd, hrd, hd1, hd2⟩

/-- **The `in` propagator is sound.**  Every value that lies in the (ascending) domain and in one of
    the listed ranges is kept. -/
theorem inProp_keeps_aux (l items : RL) (hl : AscR l) (hwf : WfR items) (v : Int)
    (hd : DenR l v) (hi : DenR items v) : DenR (inProp l items).1 v := by
  unfold inProp
  simp only
  have inv : MergeInv [] (sortLo items) :=
    ⟨by simp, by intro r hr; simp at hr, sorted_sortLo items,
     by intro r hr; exact hwf r ((mem_sortLo items r).mp hr), by intro a ha; simp at ha⟩
  obtain ⟨m1, _, m3⟩ := inMerge_spec (sortLo items) [] inv
  apply inIntersect_complete _ _ _ (by omega) m1 hl v _ hd
  apply m3 v
  right
  obtain ⟨r, hr, h⟩ := hi
  exact ⟨r, (mem_sortLo items r).mpr hr, h⟩

end Pyvsc.Bounds
