import Pyvsc.Model.Paths
/-!
# Path resolution is injective and stays inside the sub-object it enters
-/
namespace Pyvsc.Paths

mutual
theorem Shape.resolveIn_range : ∀ (s : Shape) (base : Nat) (ps : List String) (i : Nat),
    s.resolveIn base ps = some i → base ≤ i ∧ i < base + s.nsc
  | .scalar, base, [], i, h => by simp [Shape.resolveIn] at h; simp [Shape.nsc]; omega
  | .scalar, _, _ :: _, i, h => by simp [Shape.resolveIn] at h
  | .obj _, _, [], i, h => by simp [Shape.resolveIn] at h
  | .obj ms, base, p :: ps, i, h => by
      simp only [Shape.resolveIn] at h
      simpa [Shape.nsc] using Members.resolve_range ms base p ps i h
theorem Members.resolve_range : ∀ (ms : Members) (base : Nat) (p : String) (ps : List String) (i : Nat),
    ms.resolve base p ps = some i → base ≤ i ∧ i < base + ms.nsc
  | .nil, _, _, _, i, h => by simp [Members.resolve] at h
  | .cons n s rest, base, p, ps, i, h => by
      simp only [Members.resolve] at h
      simp only [Members.nsc]
      split at h
      · have := Shape.resolveIn_range s base ps i h; omega
      · have := Members.resolve_range rest (base + s.nsc) p ps i h; omega
end

mutual
/-- two paths that name the same scalar are the same path -/
theorem Shape.resolveIn_inj : ∀ (s : Shape) (base : Nat) (ps qs : List String) (i : Nat),
    s.resolveIn base ps = some i → s.resolveIn base qs = some i → ps = qs
  | .scalar, base, [], [], _, _, _ => rfl
  | .scalar, _, [], _ :: _, _, _, h => by simp [Shape.resolveIn] at h
  | .scalar, _, _ :: _, _, _, h, _ => by simp [Shape.resolveIn] at h
  | .obj _, _, [], _, _, h, _ => by simp [Shape.resolveIn] at h
  | .obj _, _, _ :: _, [], _, _, h => by simp [Shape.resolveIn] at h
  | .obj ms, base, p :: ps, q :: qs, i, h1, h2 => by
      simp only [Shape.resolveIn] at h1 h2
      obtain ⟨a, b⟩ := Members.resolve_inj ms base p ps q qs i h1 h2
      rw [a, b]
theorem Members.resolve_inj : ∀ (ms : Members) (base : Nat) (p : String) (ps : List String) (q : String)
    (qs : List String) (i : Nat), ms.resolve base p ps = some i → ms.resolve base q qs = some i → p = q ∧ ps = qs
  | .nil, _, _, _, _, _, _, h, _ => by simp [Members.resolve] at h
  | .cons n s rest, base, p, ps, q, qs, i, h1, h2 => by
      simp only [Members.resolve] at h1 h2
      split at h1
      · rename_i c1
        split at h2
        · rename_i c2
          exact ⟨c1.1.symm.trans c2.1, Shape.resolveIn_inj s base ps qs i h1 h2⟩
        · have r1 := Shape.resolveIn_range s base ps i h1
          have r2 := Members.resolve_range rest (base + s.nsc) q qs i h2
          omega
      · split at h2
        · have r1 := Members.resolve_range rest (base + s.nsc) p ps i h1
          have r2 := Shape.resolveIn_range s base qs i h2
          omega
        · exact Members.resolve_inj rest (base + s.nsc) p ps q qs i h1 h2
end

end Pyvsc.Paths
