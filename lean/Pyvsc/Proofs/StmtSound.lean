import Pyvsc.Proofs.LowerSound
/-!
# Lowering soundness for constraint statements
-/
namespace Pyvsc.Lower
open Pyvsc.Bv Pyvsc.Expr Pyvsc.Sem

variable (Γ : Nat → FieldTy) (ρ : Nat → Int)

def IsScope : Stmt → Prop
  | .nil => True
  | .cons _ rest => IsScope rest
  | _ => False

def IsIf : Stmt → Prop
  | .ifThen _ _ => True
  | .ifElse _ _ _ => True
  | _ => False

/-- statements as the facade builds them: the branches of an `if`/`implies` are scopes, an
    `else` branch is a scope or a chained `if` -/
def WFStmt (soft : Bool) : Stmt → Prop
  | .expr e => WF Γ e
  | .soft e => WF Γ e
  | .unique es => ∀ e ∈ es, WF Γ e
  | .nil => True
  | .cons s rest => WFStmt soft s ∧ WFStmt soft rest ∧ IsScope rest
  | .ifThen c t => WF Γ c ∧ WFStmt soft t ∧ IsScope t
  | .ifElse c t f => WF Γ c ∧ WFStmt soft t ∧ IsScope t ∧ WFStmt soft f ∧ (IsScope f ∨ IsIf f)
  | .implies c body => WF Γ c ∧ WFStmt soft body ∧ IsScope body

theorem b2n_and (p q : Bool) : b2n p &&& b2n q = b2n (p && q) := by
  cases p <;> cases q <;> decide

theorem b2n_b2n_eq (d : Bool) : b2n (b2n d == 1) = b2n d := by cases d <;> simp [b2n]

theorem b2n_eq_one (p : Bool) : (b2n p = 1) = (p = true) := by cases p <;> simp [b2n]

theorem eval_const11 (σ : Nat → Nat) : eval σ (.const 1 1) = some (1, 1) := by
  simp [eval]

theorem eval_and (σ : Nat → Nat) (a b : Bv) (p q : Bool)
    (ha : eval σ a = some (1, b2n p)) (hb : eval σ b = some (1, b2n q)) :
    eval σ (.ar .and a b) = some (1, b2n (p && q)) := by
  simp [eval, ha, hb, arSem, b2n_and]

theorem eval_implies (σ : Nat → Nat) (a b : Bv) (p q : Bool)
    (ha : eval σ a = some (1, b2n p)) (hb : eval σ b = some (1, b2n q)) :
    eval σ (.implies a b) = some (1, b2n (!p || q)) := by
  cases p <;> cases q <;> simp [eval, ha, hb, b2n]

theorem eval_cond (σ : Nat → Nat) (c a b : Bv) (r p q : Bool)
    (hc : eval σ c = some (1, b2n r)) (ha : eval σ a = some (1, b2n p)) (hb : eval σ b = some (1, b2n q)) :
    eval σ (.cond c a b) = some (1, b2n (if r then p else q)) := by
  cases r <;> simp [eval, hc, ha, hb, b2n]

/-- `ExprModel.toBool` turns a value into the 1-bit "is non-zero" -/
theorem toBool_eval (σ : Nat → Nat) (t : Bv) (w x : Nat) (ht : eval σ t = some (w, x)) (hw : 0 < w) :
    eval σ (Expr.toBool t) = some (1, b2n (x != 0)) := by
  have hwid := eval_width σ t w x ht
  have hx := eval_lt σ t w x ht
  unfold Expr.toBool
  rw [hwid]
  by_cases h1 : w = 1
  · subst h1
    simp only [if_true, ht]
    have : x = 0 ∨ x = 1 := by omega
    rcases this with rfl | rfl <;> simp [b2n]
  · simp only [h1, if_false, eval, ht]
    have hw0 : w ≠ 0 := by omega
    have hp : (0 : Int) < 2 ^ w := by positivity
    simp [hw0, hp, cmpSem]
    by_cases hx0 : x = 0 <;> simp [hx0, b2n]

theorem cond_eval (σ : Nat → Nat) (hσ : Agree Γ ρ σ) (c : Expr) (hc : WF Γ c) :
    eval σ (Expr.toBool (lower Γ ρ c 0)) = some (1, b2n (truthy Γ ρ c)) := by
  have := lower_sound Γ ρ σ hσ c 0 hc
  exact toBool_eval σ _ _ _ this (cw_bounds Γ c 0 hc).1

theorem isScope_lower_some (soft : Bool) : ∀ s, IsScope s → (lowerStmt Γ ρ soft s).isSome
  | .nil, _ => by simp [lowerStmt]
  | .cons _ _, _ => by simp [lowerStmt]
  | .expr _, h => by simp [IsScope] at h
  | .soft _, h => by simp [IsScope] at h
  | .unique _, h => by simp [IsScope] at h
  | .ifThen _ _, h => by simp [IsScope] at h
  | .ifElse _ _ _, h => by simp [IsScope] at h
  | .implies _ _, h => by simp [IsScope] at h

theorem wf_lower_some (soft : Bool) : ∀ s, WFStmt Γ soft s → (IsScope s ∨ IsIf s) →
    (lowerStmt Γ ρ soft s).isSome := by
  intro s
  induction s with
  | expr e => intro _ h; rcases h with h | h <;> simp [IsScope, IsIf] at h
  | soft e => intro _ h; rcases h with h | h <;> simp [IsScope, IsIf] at h
  | unique es => intro _ h; rcases h with h | h <;> simp [IsScope, IsIf] at h
  | nil => intro _ _; simp [lowerStmt]
  | cons s rest _ _ => intro _ _; simp [lowerStmt]
  | implies c b _ => intro _ h; rcases h with h | h <;> simp [IsScope, IsIf] at h
  | ifThen c t _ =>
    intro h _
    have := isScope_lower_some Γ ρ soft t h.2.2
    simp only [lowerStmt]
    cases hl : lowerStmt Γ ρ soft t with
    | none => rw [hl] at this; simp at this
    | some _ => simp
  | ifElse c t f _ ihf =>
    intro h _
    obtain ⟨_, _, hsc, hf, hfk⟩ := h
    have h1 := isScope_lower_some Γ ρ soft t hsc
    have h2 := ihf hf hfk
    simp only [lowerStmt]
    cases hl : lowerStmt Γ ρ soft t with
    | none => rw [hl] at h1; simp at h1
    | some _ =>
      cases hl2 : lowerStmt Γ ρ soft f with
      | none => rw [hl2] at h2; simp at h2
      | some _ => simp

/-! ### unique -/

theorem ne_eval (σ : Nat → Nat) (hσ : Agree Γ ρ σ) (a b : Expr) (ha : WF Γ a) (hb : WF Γ b) :
    eval σ (lower Γ ρ (.bin .ne a b) 0) = some (1, b2n (neHolds Γ ρ a b)) := by
  have := lower_sound Γ ρ σ hσ (.bin .ne a b) 0 ⟨ha, hb⟩
  rw [this]
  simp only [cw, BinOp.isCmp, if_true, neHolds]
  congr 2
  simp only [sval, opSem]
  exact (b2n_b2n_eq _).symm

theorem uniqueFold_eval (σ : Nat → Nat) (hσ : Agree Γ ρ σ) :
    ∀ (ps : List (Expr × Expr)) (acc : Option Bv) (P : Bool),
      (∀ p ∈ ps, WF Γ p.1 ∧ WF Γ p.2) →
      (match acc with | none => P = true | some a => eval σ a = some (1, b2n P)) →
      match uniqueFold acc (ps.map fun p => lower Γ ρ (.bin .ne p.1 p.2) 0) with
      | none => (P && ps.all fun p => neHolds Γ ρ p.1 p.2) = true
      | some b => eval σ b = some (1, b2n (P && ps.all fun p => neHolds Γ ρ p.1 p.2)) := by
  intro ps
  induction ps with
  | nil =>
    intro acc P _ h
    cases acc with
    | none => simpa [uniqueFold] using h
    | some a => simpa [uniqueFold] using h
  | cons p ps ih =>
    intro acc P hwf h
    have hp := hwf p (List.mem_cons_self ..)
    have hrest : ∀ q ∈ ps, WF Γ q.1 ∧ WF Γ q.2 := fun q hq => hwf q (List.mem_cons_of_mem _ hq)
    have hne := ne_eval Γ ρ σ hσ p.1 p.2 hp.1 hp.2
    cases acc with
    | none =>
      simp only [List.map, uniqueFold]
      have := ih (some (lower Γ ρ (.bin .ne p.1 p.2) 0)) (neHolds Γ ρ p.1 p.2) hrest hne
      simp only at h
      subst h
      simpa [List.all_cons] using this
    | some a =>
      simp only [List.map, uniqueFold]
      simp only at h
      have hand := eval_and σ _ _ _ _ hne h
      have := ih (some (.ar .and (lower Γ ρ (.bin .ne p.1 p.2) 0) a)) (neHolds Γ ρ p.1 p.2 && P) hrest hand
      have e : (neHolds Γ ρ p.1 p.2 && P && ps.all fun p => neHolds Γ ρ p.1 p.2)
          = (P && (p :: ps).all fun p => neHolds Γ ρ p.1 p.2) := by
        simp only [List.all_cons]
        cases neHolds Γ ρ p.1 p.2 <;> cases P <;> simp
      rw [e] at this
      exact this

theorem all_pairs_map (e : Expr) (fs : List Expr) :
    ((fs.map fun f => (e, f)).all fun p => neHolds Γ ρ p.1 p.2) = allNe Γ ρ e fs := by
  induction fs with
  | nil => simp [allNe]
  | cons f fs ih => simp only [List.map, List.all_cons, allNe, ih]

theorem uniquePairs_all : ∀ es : List Expr,
    ((uniquePairs es).all fun p => neHolds Γ ρ p.1 p.2) = pairwiseNe Γ ρ es
  | [] => by simp [uniquePairs, pairwiseNe]
  | e :: es => by
      simp only [uniquePairs, pairwiseNe, List.all_append, all_pairs_map, uniquePairs_all es]

theorem uniquePairs_wf : ∀ es : List Expr, (∀ e ∈ es, WF Γ e) →
    ∀ p ∈ uniquePairs es, WF Γ p.1 ∧ WF Γ p.2
  | [], _, p, hp => by simp [uniquePairs] at hp
  | e :: es, h, p, hp => by
      simp only [uniquePairs, List.mem_append, List.mem_map] at hp
      rcases hp with ⟨f, hf, rfl⟩ | hp
      · exact ⟨h e (List.mem_cons_self ..), h f (List.mem_cons_of_mem _ hf)⟩
      · exact uniquePairs_wf es (fun x hx => h x (List.mem_cons_of_mem _ hx)) p hp

theorem pairwiseNe_short (es : List Expr) (h : ¬ es.length > 1) : pairwiseNe Γ ρ es = true := by
  match es, h with
  | [], _ => simp [pairwiseNe]
  | [e], _ => simp [pairwiseNe, allNe]
  | _ :: _ :: _, h => simp at h

theorem unique_eval (σ : Nat → Nat) (hσ : Agree Γ ρ σ) (es : List Expr) (h : ∀ e ∈ es, WF Γ e) :
    eval σ (lowerUnique Γ ρ es) = some (1, b2n (pairwiseNe Γ ρ es)) := by
  unfold lowerUnique
  by_cases hl : es.length > 1
  · simp only [hl, if_true]
    have := uniqueFold_eval Γ ρ σ hσ (uniquePairs es) none true (uniquePairs_wf Γ es h) rfl
    rw [uniquePairs_all] at this
    cases hf : uniqueFold none ((uniquePairs es).map fun p => lower Γ ρ (.bin .ne p.1 p.2) 0) with
    | none =>
      rw [hf] at this
      simp only [Bool.true_and] at this
      simp [this, eval_const11, b2n]
    | some b =>
      rw [hf] at this
      simpa using this
  · simp only [hl, if_false]
    rw [pairwiseNe_short Γ ρ es hl]
    simp [eval_const11, b2n]

/-! ### statements -/

/-- what is known about the accumulator of `ConstraintScopeModel.build` -/
def AccOk (σ : Nat → Nat) (acc : Option Bv) (P : Bool) : Prop :=
  match acc with
  | none => P = true
  | some a => eval σ a = some (1, b2n P)

/-- what a statement build establishes: a node that evaluates to the statement's meaning, or
    `None` for a statement whose meaning in this pass is "nothing" -/
def StmtOk (σ : Nat → Nat) (soft : Bool) (s : Stmt) : Prop :=
  match lowerStmt Γ ρ soft s with
  | none => mholds Γ ρ soft s = true
  | some b => eval σ b = some (1, b2n (mholds Γ ρ soft s))

def ScopeOk (σ : Nat → Nat) (soft : Bool) (rest : Stmt) : Prop :=
  ∀ acc P, AccOk σ acc P → AccOk σ (lowerScope Γ ρ soft acc rest) (P && mholds Γ ρ soft rest)

theorem scopeStep_ok (σ : Nat → Nat) (soft : Bool) (s : Stmt) (acc : Option Bv) (P : Bool)
    (hacc : AccOk σ acc P) (hs : StmtOk Γ ρ σ soft s) :
    AccOk σ (scopeStep acc (lowerStmt Γ ρ soft s)) (P && mholds Γ ρ soft s) := by
  unfold StmtOk at hs
  cases acc with
  | none =>
    simp only [AccOk] at hacc
    subst hacc
    cases hl : lowerStmt Γ ρ soft s with
    | none => rw [hl] at hs; simpa [scopeStep, AccOk] using hs
    | some b => rw [hl] at hs; simpa [scopeStep, AccOk] using hs
  | some a =>
    simp only [AccOk] at hacc
    cases hl : lowerStmt Γ ρ soft s with
    | none => rw [hl] at hs; simp [scopeStep, AccOk, hs, hacc]
    | some b => rw [hl] at hs; simpa [scopeStep, AccOk] using eval_and σ _ _ _ _ hacc hs

theorem stmt_scope_sound (σ : Nat → Nat) (hσ : Agree Γ ρ σ) (soft : Bool) :
    ∀ s, WFStmt Γ soft s → StmtOk Γ ρ σ soft s ∧ (IsScope s → ScopeOk Γ ρ σ soft s) := by
  intro s
  induction s with
  | expr e =>
    intro h
    refine ⟨?_, fun hs => by simp [IsScope] at hs⟩
    simp only [StmtOk, lowerStmt, mholds]
    exact cond_eval Γ ρ σ hσ e h
  | soft e =>
    intro h
    refine ⟨?_, fun hs => by simp [IsScope] at hs⟩
    cases soft with
    | false => simp [StmtOk, lowerStmt, mholds]
    | true =>
      simp only [StmtOk, lowerStmt, mholds, if_true]
      exact cond_eval Γ ρ σ hσ e h
  | unique es =>
    intro h
    refine ⟨?_, fun hs => by simp [IsScope] at hs⟩
    simp only [StmtOk, lowerStmt, mholds]
    exact unique_eval Γ ρ σ hσ es h
  | nil =>
    intro _
    refine ⟨?_, fun _ => ?_⟩
    · simp [StmtOk, lowerStmt, mholds, eval_const11, b2n]
    · intro acc P hacc
      simpa [lowerScope, mholds] using hacc
  | cons s rest ihs ihr =>
    intro h
    obtain ⟨hs, hr, hsc⟩ := h
    have hsok := (ihs hs).1
    have hrok := (ihr hr).2 hsc
    have hscope : ScopeOk Γ ρ σ soft (.cons s rest) := by
      intro acc P hacc
      simp only [lowerScope, mholds]
      have := hrok _ _ (scopeStep_ok Γ ρ σ soft s acc P hacc hsok)
      rw [Bool.and_assoc] at this
      exact this
    refine ⟨?_, fun _ => hscope⟩
    have := hscope none true rfl
    simp only [lowerScope, Bool.true_and] at this
    simp only [StmtOk, lowerStmt]
    cases hl : lowerScope Γ ρ soft (scopeStep none (lowerStmt Γ ρ soft s)) rest with
    | none =>
      rw [hl] at this
      simp only [AccOk] at this
      simp [this, eval_const11, b2n]
    | some b =>
      rw [hl] at this
      simpa [AccOk] using this
  | ifThen c t iht =>
    intro h
    obtain ⟨hc, ht, hsc⟩ := h
    refine ⟨?_, fun hs => by simp [IsScope] at hs⟩
    have htok := (iht ht).1
    have hsome := isScope_lower_some Γ ρ soft t hsc
    simp only [StmtOk, lowerStmt, mholds] at htok ⊢
    cases hl : lowerStmt Γ ρ soft t with
    | none => rw [hl] at hsome; simp at hsome
    | some tb =>
      rw [hl] at htok
      simp only
      exact eval_implies σ _ _ _ _ (cond_eval Γ ρ σ hσ c hc) htok
  | ifElse c t f iht ihf =>
    intro h
    obtain ⟨hc, ht, hsc, hf, hfk⟩ := h
    refine ⟨?_, fun hs => by simp [IsScope] at hs⟩
    have htok := (iht ht).1
    have hfok := (ihf hf).1
    have hsome := isScope_lower_some Γ ρ soft t hsc
    simp only [StmtOk, lowerStmt, mholds] at htok hfok ⊢
    cases hl : lowerStmt Γ ρ soft t with
    | none => rw [hl] at hsome; simp at hsome
    | some tb =>
      rw [hl] at htok
      cases hlf : lowerStmt Γ ρ soft f with
      | none =>
        have := wf_lower_some Γ ρ soft f hf hfk
        rw [hlf] at this; simp at this
      | some fb =>
        rw [hlf] at hfok
        simp only
        exact eval_cond σ _ _ _ _ _ _ (cond_eval Γ ρ σ hσ c hc) htok hfok
  | implies c body ihb =>
    intro h
    obtain ⟨hc, hb, hsc⟩ := h
    refine ⟨?_, fun hs => by simp [IsScope] at hs⟩
    have hbok := (ihb hb).1
    have hsome := isScope_lower_some Γ ρ soft body hsc
    simp only [StmtOk, lowerStmt, mholds] at hbok ⊢
    cases hl : lowerStmt Γ ρ soft body with
    | none => rw [hl] at hsome; simp at hsome
    | some bb =>
      rw [hl] at hbok
      simp only
      exact eval_implies σ _ _ _ _ (cond_eval Γ ρ σ hσ c hc) hbok

end Pyvsc.Lower
