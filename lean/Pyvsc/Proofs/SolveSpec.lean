import Pyvsc.Model.Solve
/-!
# What the solve loop guarantees when the solver answers soundly and completely (C01, C02, C05,
and the "drawn target is returned when feasible" engine of C14/C15/C20)

Core Lean only.
-/
namespace Pyvsc.Solve
variable {F A : Type}

/-- an answer is valid for a query: SAT comes with a model of every formula, UNSAT means
    there is none -/
def Valid (holds : A → F → Prop) (q : List F) : Ans A → Prop
  | .sat a => ∀ f ∈ q, holds a f
  | .unsat => ∀ a, ¬ ∀ f ∈ q, holds a f

def Satisfiable (holds : A → F → Prop) (q : List F) : Prop := ∃ a, ∀ f ∈ q, holds a f

def LogValid (holds : A → F → Prop) (log : Log F A) : Prop := ∀ p ∈ log, Valid holds p.1 p.2

theorem sat_mono (holds : A → F → Prop) (q1 q2 : List F) (h : ∀ f ∈ q1, f ∈ q2) :
    Satisfiable holds q2 → Satisfiable holds q1 := by
  rintro ⟨a, ha⟩
  exact ⟨a, fun f hf => ha f (h f hf)⟩

theorem logValid_cons (holds : A → F → Prop) (p : List F × Ans A) (l : Log F A) :
    LogValid holds (p :: l) ↔ Valid holds p.1 p.2 ∧ LogValid holds l := by
  simp [LogValid]

theorem logValid_append (holds : A → F → Prop) (l1 l2 : Log F A) :
    LogValid holds (l1 ++ l2) ↔ LogValid holds l1 ∧ LogValid holds l2 := by
  simp only [LogValid, List.mem_append]
  constructor
  · intro h; exact ⟨fun p hp => h p (Or.inl hp), fun p hp => h p (Or.inr hp)⟩
  · rintro ⟨h1, h2⟩ p (hp | hp)
    · exact h1 p hp
    · exact h2 p hp

/-- the exact greedy reference: walking the candidates in order, a candidate is kept iff it is
    satisfiable together with what was asserted before and the candidates kept so far -/
inductive GreedyRef (holds : A → F → Prop) : List F → List F → List F → List F → Prop
  | nil (as : List F) : GreedyRef holds as [] [] []
  | keep (as : List F) (c : F) (cs k r : List F) :
      Satisfiable holds (c :: as) → GreedyRef holds (c :: as) cs k r → GreedyRef holds as (c :: cs) (c :: k) r
  | drop (as : List F) (c : F) (cs k r : List F) :
      ¬ Satisfiable holds (c :: as) → GreedyRef holds as cs k r → GreedyRef holds as (c :: cs) k (c :: r)

/-- everything the greedy loop guarantees -/
theorem greedy_spec (holds : A → F → Prop) :
    ∀ (cs asserted : List F) (ans : List (Ans A)) (g : Greedy F A),
      greedy asserted cs ans = some g → LogValid holds g.log →
      GreedyRef holds asserted cs g.kept g.rejected ∧
      (∀ f, f ∈ g.asserted ↔ f ∈ g.kept ∨ f ∈ asserted) ∧
      (Satisfiable holds asserted → Satisfiable holds g.asserted) ∧
      (∀ c ∈ g.rejected, ¬ Satisfiable holds (c :: g.asserted)) ∧
      g.log.length = cs.length ∧ ans.length = cs.length + g.rest.length := by
  intro cs
  induction cs with
  | nil =>
    intro asserted ans g h _
    simp only [greedy, Option.some.injEq] at h
    subst h
    exact ⟨.nil _, by simp, id, by simp, rfl, by simp⟩
  | cons c cs ih =>
    intro asserted ans g h hv
    cases ans with
    | nil => simp [greedy] at h
    | cons x ans =>
      cases x with
      | sat m =>
        simp only [greedy] at h
        cases hg : greedy (c :: asserted) cs ans with
        | none => simp [hg] at h
        | some g' =>
          simp only [hg, Option.some.injEq] at h
          subst h
          simp only at hv ⊢
          rw [logValid_cons] at hv
          obtain ⟨hv0, hv'⟩ := hv
          obtain ⟨h1, h2, h3, h4, h5, h6⟩ := ih (c :: asserted) ans g' hg hv'
          have hsat : Satisfiable holds (c :: asserted) := ⟨m, hv0⟩
          refine ⟨.keep _ _ _ _ _ hsat h1, ?_, fun _ => h3 hsat, h4, by simp [h5], by simp [h6]; omega⟩
          intro f
          rw [h2 f]
          simp only [List.mem_cons]
          constructor
          · rintro (h | h | h)
            · exact Or.inl (Or.inr h)
            · exact Or.inl (Or.inl h)
            · exact Or.inr h
          · rintro ((h | h) | h)
            · exact Or.inr (Or.inl h)
            · exact Or.inl h
            · exact Or.inr (Or.inr h)
      | unsat =>
        simp only [greedy] at h
        cases hg : greedy asserted cs ans with
        | none => simp [hg] at h
        | some g' =>
          simp only [hg, Option.some.injEq] at h
          subst h
          simp only at hv ⊢
          rw [logValid_cons] at hv
          obtain ⟨hv0, hv'⟩ := hv
          obtain ⟨h1, h2, h3, h4, h5, h6⟩ := ih asserted ans g' hg hv'
          have hunsat : ¬ Satisfiable holds (c :: asserted) := fun ⟨a, ha⟩ => hv0 a ha
          refine ⟨.drop _ _ _ _ _ hunsat h1, h2, h3, ?_, by simp [h5], by simp [h6]; omega⟩
          intro c' hc'
          rcases List.mem_cons.mp hc' with rfl | hc'
          · intro hs
            apply hunsat
            refine sat_mono holds _ _ ?_ hs
            intro f hf
            rcases List.mem_cons.mp hf with rfl | hf
            · exact List.mem_cons_self ..
            · exact List.mem_cons_of_mem _ ((h2 f).mpr (Or.inr hf))
          · exact h4 c' hc'

/-- enough answers ⇒ the greedy loop does not run dry -/
theorem greedy_some : ∀ (cs asserted : List F) (ans : List (Ans A)), cs.length ≤ ans.length →
    ∃ g, greedy asserted cs ans = some g
  | [], asserted, ans, _ => ⟨_, rfl⟩
  | c :: cs, asserted, [], h => by simp at h
  | c :: cs, asserted, .sat m :: ans, h => by
      obtain ⟨g, hg⟩ := greedy_some cs (c :: asserted) ans (by simpa using h)
      simp only [greedy, hg]; exact ⟨_, rfl⟩
  | c :: cs, asserted, .unsat :: ans, h => by
      obtain ⟨g, hg⟩ := greedy_some cs asserted ans (by simpa using h)
      simp only [greedy, hg]; exact ⟨_, rfl⟩

/-- the greedy loop consumes exactly one answer per candidate -/
theorem greedy_len : ∀ (cs asserted : List F) (ans : List (Ans A)) (g : Greedy F A),
    greedy asserted cs ans = some g → ans.length = cs.length + g.rest.length := by
  intro cs
  induction cs with
  | nil => intro as ans g h; simp only [greedy, Option.some.injEq] at h; subst h; simp
  | cons c cs ih =>
    intro as ans g h
    cases ans with
    | nil => simp [greedy] at h
    | cons x ans =>
      cases x with
      | sat m =>
        simp only [greedy] at h
        cases hg : greedy (c :: as) cs ans with
        | none => simp [hg] at h
        | some g' =>
          simp only [hg, Option.some.injEq] at h; subst h
          have := ih _ _ _ hg; simp; omega
      | unsat =>
        simp only [greedy] at h
        cases hg : greedy as cs ans with
        | none => simp [hg] at h
        | some g' =>
          simp only [hg, Option.some.injEq] at h; subst h
          have := ih _ _ _ hg; simp; omega

/-- if one assignment satisfies what is asserted and every candidate, nothing is rejected:
    the engine behind "a feasible drawn target value is the value returned" -/
theorem greedy_all_accepted (holds : A → F → Prop) :
    ∀ (cs asserted : List F) (ans : List (Ans A)) (g : Greedy F A),
      (∃ a, (∀ f ∈ asserted, holds a f) ∧ ∀ f ∈ cs, holds a f) →
      greedy asserted cs ans = some g → LogValid holds g.log →
      g.rejected = [] ∧ g.kept = cs := by
  intro cs
  induction cs with
  | nil =>
    intro asserted ans g _ h _
    simp only [greedy, Option.some.injEq] at h; subst h; simp
  | cons c cs ih =>
    intro asserted ans g ⟨a, ha, hc⟩ h hv
    cases ans with
    | nil => simp [greedy] at h
    | cons x ans =>
      cases x with
      | sat m =>
        simp only [greedy] at h
        cases hg : greedy (c :: asserted) cs ans with
        | none => simp [hg] at h
        | some g' =>
          simp only [hg, Option.some.injEq] at h
          subst h
          simp only at hv ⊢
          rw [logValid_cons] at hv
          have := ih (c :: asserted) ans g'
            ⟨a, fun f hf => by
                rcases List.mem_cons.mp hf with rfl | hf
                · exact hc _ (List.mem_cons_self ..)
                · exact ha f hf,
              fun f hf => hc f (List.mem_cons_of_mem _ hf)⟩ hg hv.2
          simp [this.1, this.2]
      | unsat =>
        exfalso
        simp only [greedy] at h
        cases hg : greedy asserted cs ans with
        | none => simp [hg] at h
        | some g' =>
          simp only [hg, Option.some.injEq] at h
          subst h
          simp only at hv
          rw [logValid_cons] at hv
          exact hv.1 a (fun f hf => by
            rcases List.mem_cons.mp hf with rfl | hf
            · exact hc _ (List.mem_cons_self ..)
            · exact ha f hf)

theorem greedyRef_all (holds : A → F → Prop) :
    ∀ (cs asserted : List F), Satisfiable holds (cs ++ asserted) → GreedyRef holds asserted cs cs []
  | [], asserted, _ => .nil _
  | c :: cs, asserted, h => by
      refine .keep _ _ _ _ _ (sat_mono holds _ _ ?_ h) (greedyRef_all holds cs (c :: asserted) (sat_mono holds _ _ ?_ h))
      · intro f hf
        rcases List.mem_cons.mp hf with rfl | hf
        · simp
        · simp [hf]
      · intro f hf
        simp only [List.mem_append, List.mem_cons] at hf ⊢
        rcases hf with hf | rfl | hf
        · exact Or.inl (Or.inr hf)
        · exact Or.inl (Or.inl rfl)
        · exact Or.inr hf

/-! ### soft phase -/

theorem softPhase_spec (holds : A → F → Prop) (asserted soft : List F) (ans : List (Ans A))
    (s : SoftRes F A) (h : softPhase asserted soft ans = some s) (hv : LogValid holds s.log)
    (hs : Satisfiable holds asserted) :
    GreedyRef holds asserted soft s.kept s.rejected ∧
    (∀ f, f ∈ s.asserted ↔ f ∈ s.kept ∨ f ∈ asserted) ∧
    Satisfiable holds s.asserted ∧
    (∀ c ∈ s.rejected, ¬ Satisfiable holds (c :: s.asserted)) := by
  cases soft with
  | nil =>
    simp only [softPhase, Option.some.injEq] at h; subst h
    exact ⟨.nil _, by simp, hs, by simp⟩
  | cons c cs =>
    cases ans with
    | nil => simp [softPhase] at h
    | cons x rest =>
      cases x with
      | sat m =>
        simp only [softPhase, Option.some.injEq] at h; subst h
        simp only [LogValid, List.mem_singleton, forall_eq, Valid] at hv
        have hsat : Satisfiable holds ((c :: cs) ++ asserted) := ⟨m, hv⟩
        exact ⟨greedyRef_all holds _ _ hsat, by intro f; simp [or_assoc], hsat, by simp⟩
      | unsat =>
        simp only [softPhase] at h
        cases hg : greedy asserted (c :: cs) rest with
        | none => simp [hg] at h
        | some g =>
          simp only [hg, Option.some.injEq] at h; subst h
          simp only at hv ⊢
          rw [logValid_cons] at hv
          obtain ⟨h1, h2, h3, h4, _, _⟩ := greedy_spec holds _ _ _ g hg hv.2
          exact ⟨h1, h2, h3 hs, h4⟩

theorem softPhase_some (asserted soft : List F) (ans : List (Ans A)) (h : soft.length + 1 ≤ ans.length) :
    ∃ s, softPhase asserted soft ans = some s ∧ ans.length ≤ s.rest.length + soft.length + 1 := by
  cases soft with
  | nil => exact ⟨_, rfl, by simp⟩
  | cons c cs =>
    cases ans with
    | nil => simp at h
    | cons x rest =>
      cases x with
      | sat m => exact ⟨_, rfl, by simp⟩
      | unsat =>
        obtain ⟨g, hg⟩ := greedy_some (c :: cs) asserted rest (by simp at h ⊢; omega)
        have := greedy_len _ _ _ _ hg
        simp only [softPhase, hg]
        refine ⟨_, rfl, ?_⟩
        simp at this ⊢; omega

/-! ### swizzle phase -/

def groupsCost : List (Option (List F)) → Nat
  | [] => 0
  | none :: gs => groupsCost gs
  | some c :: gs => c.length + 1 + groupsCost gs

theorem swizzle_spec (holds : A → F → Prop) :
    ∀ (groups : List (Option (List F))) (asserted : List F) (last : Option (Ans A)) (ans : List (Ans A))
      (z : SwzRes F A),
      swizzleGroups asserted last groups ans = some z → LogValid holds z.log →
      Satisfiable holds asserted →
      (match last with | some (.sat m) => ∀ f ∈ asserted, holds m f | some .unsat => False | none => True) →
      z.failed = false ∧ Satisfiable holds z.asserted ∧ (∀ f ∈ asserted, f ∈ z.asserted) ∧
      (match z.last with | some (.sat m) => ∀ f ∈ z.asserted, holds m f | some .unsat => False | none => True) := by
  intro groups
  induction groups with
  | nil =>
    intro asserted last ans z h _ hs hl
    simp only [swizzleGroups, Option.some.injEq] at h; subst h
    exact ⟨rfl, hs, fun f hf => hf, hl⟩
  | cons g gs ih =>
    intro asserted last ans z h hv hs hl
    cases g with
    | none =>
      simp only [swizzleGroups] at h
      exact ih asserted last ans z h hv hs hl
    | some cands =>
      simp only [swizzleGroups] at h
      cases hg : greedy asserted cands ans with
      | none => simp [hg] at h
      | some g =>
        simp only [hg] at h
        cases hr : g.rest with
        | nil => simp [hr] at h
        | cons x rest =>
          cases x with
          | unsat =>
            simp only [hr, Option.some.injEq] at h; subst h
            simp only at hv
            rw [logValid_append] at hv
            obtain ⟨_, _, h3, _⟩ := greedy_spec holds _ _ _ g hg hv.1
            have hu : Valid holds g.asserted (Ans.unsat : Ans A) := hv.2 _ (List.mem_singleton.mpr rfl)
            obtain ⟨a, ha⟩ := h3 hs
            exact absurd ha (hu a)
          | sat m =>
            simp only [hr] at h
            cases hz : swizzleGroups g.asserted (some (.sat m)) gs rest with
            | none => simp [hz] at h
            | some r =>
              simp only [hz, Option.some.injEq] at h; subst h
              simp only at hv ⊢
              rw [logValid_append, logValid_cons] at hv
              obtain ⟨_, h2, h3, _⟩ := greedy_spec holds _ _ _ g hg hv.1
              have := ih g.asserted (some (.sat m)) rest r hz hv.2.2 (h3 hs) hv.2.1
              exact ⟨this.1, this.2.1, fun f hf => this.2.2.1 f ((h2 f).mpr (Or.inr hf)), this.2.2.2⟩

theorem swizzle_some : ∀ (groups : List (Option (List F))) (asserted : List F) (last : Option (Ans A))
    (ans : List (Ans A)), groupsCost groups ≤ ans.length →
    ∃ z, swizzleGroups asserted last groups ans = some z ∧ ans.length ≤ z.rest.length + groupsCost groups
  | [], asserted, last, ans, _ => ⟨_, rfl, by simp [groupsCost]⟩
  | none :: gs, asserted, last, ans, h => by
      obtain ⟨z, hz, hl⟩ := swizzle_some gs asserted last ans (by simpa [groupsCost] using h)
      exact ⟨z, by simp [swizzleGroups, hz], by simpa [groupsCost] using hl⟩
  | some c :: gs, asserted, last, ans, h => by
      simp only [groupsCost] at h
      obtain ⟨g, hg⟩ := greedy_some c asserted ans (by omega)
      have hlen : ans.length = c.length + g.rest.length := greedy_len _ _ _ _ hg
      cases hr : g.rest with
      | nil => rw [hr] at hlen; simp at hlen; omega
      | cons x rest =>
        cases x with
        | unsat =>
          rw [hr] at hlen
          simp only [swizzleGroups, hg, hr]
          refine ⟨_, rfl, ?_⟩
          simp [groupsCost] at hlen ⊢; omega
        | sat m =>
          rw [hr] at hlen
          obtain ⟨z, hz, hl⟩ := swizzle_some gs g.asserted (some (.sat m)) rest (by simp at hlen; omega)
          simp only [swizzleGroups, hg, hr, hz]
          refine ⟨_, rfl, ?_⟩
          simp [groupsCost] at hlen ⊢; omega

end Pyvsc.Solve

namespace Pyvsc.Solve
variable {F A : Type}

/-- **The solve loop, specified.**  If every answer the loop consumed was valid for the query it
    was given, then:
    1. `SolveFailure` is raised only when the hard system is unsatisfiable, and never when it is
       satisfiable;
    2. on success the returned model satisfies everything asserted, which includes every hard
       formula and every soft formula kept;
    3. the soft formulas kept are exactly those the greedy-by-priority reference keeps, and every
       rejected one is unsatisfiable together with the hard formulas and the kept ones;
    4. with at least `maxQueries` answers available the loop never ends in an internal error. -/
theorem solve_spec (holds : A → F → Prop) (pre hard soft : List F) (groups : List (Option (List F)))
    (ans : List (Ans A)) (hv : LogValid holds (solve pre hard soft groups ans).log) :
    ((solve pre hard soft groups ans).out = .solveFailure ↔
        (¬ Satisfiable holds (hard ++ pre) ∧ ans ≠ [])) ∧
    (∀ m, (solve pre hard soft groups ans).out = .ok m →
        (∀ f ∈ (solve pre hard soft groups ans).asserted, holds m f) ∧
        (∀ f ∈ hard ++ pre, f ∈ (solve pre hard soft groups ans).asserted) ∧
        (∀ f ∈ (solve pre hard soft groups ans).softKept, f ∈ (solve pre hard soft groups ans).asserted) ∧
        GreedyRef holds (hard ++ pre) soft (solve pre hard soft groups ans).softKept
          (solve pre hard soft groups ans).softRejected ∧
        (∀ c ∈ (solve pre hard soft groups ans).softRejected,
          ¬ Satisfiable holds (c :: ((solve pre hard soft groups ans).softKept ++ (hard ++ pre))))) ∧
    (soft.length + groupsCost groups + 3 ≤ ans.length →
        (solve pre hard soft groups ans).out ≠ .internalError) := by
  cases ans with
  | nil => simp [solve]
  | cons x ans1 =>
    cases x with
    | unsat =>
      simp only [solve, LogValid, List.mem_singleton, forall_eq, Valid] at hv ⊢
      refine ⟨⟨fun _ => ⟨fun ⟨a, ha⟩ => hv a ha, by simp⟩, fun _ => trivial⟩, by simp, by simp⟩
    | sat m0 =>
      have hsat0 : LogValid holds (solve pre hard soft groups (.sat m0 :: ans1)).log →
          Satisfiable holds (hard ++ pre) := by
        intro hv
        refine ⟨m0, ?_⟩
        have : ((hard ++ pre, Ans.sat m0) : List F × Ans A) ∈ (solve pre hard soft groups (.sat m0 :: ans1)).log := by
          simp only [solve]
          split
          · simp
          · split
            · simp
            · split
              · simp
              · split <;> (try split) <;> simp
        exact hv _ this
      have hs0 := hsat0 hv
      simp only [solve] at hv ⊢
      cases hsp : softPhase (hard ++ pre) soft ans1 with
      | none =>
        simp only [hsp] at hv ⊢
        refine ⟨by simp [hs0], by simp, ?_⟩
        intro hlen
        obtain ⟨s, hs, _⟩ := softPhase_some (hard ++ pre) soft ans1 (by simp at hlen; omega)
        rw [hsp] at hs; simp at hs
      | some s =>
        simp only [hsp] at hv ⊢
        cases hsw : swizzleGroups s.asserted none groups s.rest with
        | none =>
          simp only [hsw] at hv ⊢
          refine ⟨by simp [hs0], by simp, ?_⟩
          intro hlen
          obtain ⟨s', hs', hl'⟩ := softPhase_some (hard ++ pre) soft ans1 (by simp at hlen; omega)
          rw [hsp] at hs'; simp only [Option.some.injEq] at hs'; subst hs'
          obtain ⟨z, hz, _⟩ := swizzle_some groups s.asserted none s.rest (by simp at hlen; omega)
          rw [hsw] at hz; simp at hz
        | some z =>
          simp only [hsw] at hv ⊢
          -- validity of the three log segments
          have hvs : LogValid holds s.log ∧ LogValid holds z.log := by
            split at hv
            · rw [logValid_append, logValid_append] at hv; exact ⟨hv.1.2, hv.2⟩
            · split at hv
              · rw [logValid_append, logValid_append] at hv; exact ⟨hv.1.2, hv.2⟩
              · rw [logValid_append, logValid_append] at hv; exact ⟨hv.1.2, hv.2⟩
              · split at hv
                · rw [logValid_append, logValid_append, logValid_append] at hv; exact ⟨hv.1.1.2, hv.1.2⟩
                · rw [logValid_append, logValid_append, logValid_append] at hv; exact ⟨hv.1.1.2, hv.1.2⟩
                · rw [logValid_append, logValid_append] at hv; exact ⟨hv.1.2, hv.2⟩
          obtain ⟨sp1, sp2, sp3, sp4⟩ := softPhase_spec holds _ _ _ s hsp hvs.1 hs0
          obtain ⟨zf, zsat, zsub, zlast⟩ := swizzle_spec holds groups s.asserted none s.rest z hsw hvs.2 sp3 trivial
          have hrej : ∀ c ∈ s.rejected, ¬ Satisfiable holds (c :: (s.kept ++ (hard ++ pre))) := by
            intro c hc hs
            apply sp4 c hc
            refine sat_mono holds _ _ ?_ hs
            intro f hf
            rcases List.mem_cons.mp hf with rfl | hf
            · simp
            · have := (sp2 f).mp hf
              simp only [List.mem_cons, List.mem_append]
              rcases this with h | h
              · exact Or.inr (Or.inl h)
              · exact Or.inr (Or.inr (List.mem_append.mp h))
          have hsubA : ∀ f ∈ hard ++ pre, f ∈ z.asserted := fun f hf => zsub f ((sp2 f).mpr (Or.inr hf))
          have hsubK : ∀ f ∈ s.kept, f ∈ z.asserted := fun f hf => zsub f ((sp2 f).mpr (Or.inl hf))
          simp only [zf, Bool.false_eq_true, if_false] at hv ⊢
          cases hzl : z.last with
          | some a =>
            cases a with
            | sat m =>
              simp only [hzl] at zlast hv ⊢
              refine ⟨by simp [hs0], ?_, by simp⟩
              intro m' hm'
              simp only [Outcome.ok.injEq] at hm'; subst hm'
              exact ⟨zlast, hsubA, hsubK, sp1, hrej⟩
            | unsat => simp [hzl] at zlast
          | none =>
            simp only [hzl] at hv ⊢
            cases hzr : z.rest with
            | nil =>
              simp only [hzr]
              refine ⟨by simp [hs0], by simp, ?_⟩
              intro hlen
              obtain ⟨s', hs', hl'⟩ := softPhase_some (hard ++ pre) soft ans1 (by simp at hlen; omega)
              rw [hsp] at hs'; simp only [Option.some.injEq] at hs'; subst hs'
              obtain ⟨z', hz', hlz⟩ := swizzle_some groups s.asserted none s.rest (by simp at hlen; omega)
              rw [hsw] at hz'; simp only [Option.some.injEq] at hz'; subst hz'
              rw [hzr] at hlz; simp at hlen hlz; omega
            | cons y rest =>
              cases y with
              | sat m =>
                simp only [hzr] at hv ⊢
                refine ⟨by simp [hs0], ?_, by simp⟩
                intro m' hm'
                simp only [Outcome.ok.injEq] at hm'; subst hm'
                rw [logValid_append] at hv
                have : Valid holds z.asserted (Ans.sat m) := hv.2 _ (List.mem_singleton.mpr rfl)
                exact ⟨this, hsubA, hsubK, sp1, hrej⟩
              | unsat =>
                exfalso
                simp only [hzr] at hv
                rw [logValid_append] at hv
                have : Valid holds z.asserted (Ans.unsat : Ans A) := hv.2 _ (List.mem_singleton.mpr rfl)
                obtain ⟨a, ha⟩ := zsat
                exact this a ha

end Pyvsc.Solve
