/-!
# Shared construction state: the process-wide stacks and every push/pop site (C16)

Mirrors `impl/ctor.py` (`constraint_scope_stack`, `expr_l`, `foreach_arr_s`, `srcinfo_mode_s`),
`impl/expr_mode.py` (`_expr_mode`, `_raw_mode`), and the control-flow shape of every site that
pushes or pops them: `rand_obj.py` `randobj_interposer.__init__` / `build_field_model` /
`__enter__` / `__exit__` (after repair 2c22c50), the context managers of `constraints.py`
(`if_then`, `else_if`, `else_then`, `implies`, `foreach`: `__exit__` runs on the exception path as
well), `randomizer.py` `do_randomize` (override rollback and variable disposal in `finally`).

User code is a `Body`: a sequence of expression statements, scoped statements and, at most
once, a `raise` (the fault position is part of the body).
-/
namespace Pyvsc.Ctor

structure Stacks where
  scope : Nat := 0        -- len(constraint_scope_stack)
  exprs : Nat := 0        -- len(expr_l)
  foreachS : Nat := 0     -- len(foreach_arr_s)
  srcinfo : Nat := 0      -- len(srcinfo_mode_s)
  exprMode : Nat := 0     -- len(_expr_mode)
  rawMode : Nat := 0      -- len(_raw_mode)
  overrides : Nat := 0    -- ConstraintOverrideModel nodes left in the object's tree
  staleVars : Bool := false  -- some field still holds a solver variable
  deriving DecidableEq, Repr

inductive Body
  | nil
  | stmt (rest : Body)                   -- an expression statement
  | raise                                -- user code raises here
  | block (inner : Body) (rest : Body)  -- with if_then / else_if / else_then / implies / foreach: ...
  deriving Repr

/-- run a body inside the current scope; returns the stacks and whether an exception is
    propagating.  An expression statement leaves its expression on `expr_l`; creating a scoped
    statement pops its condition and flushes the pending expressions into the current scope
    (`push_constraint_stmt`); `__enter__` pushes the new scope, `__exit__` flushes and pops it —
    on both paths. -/
def exec : Body → Stacks → Stacks × Bool
  | .nil, st => (st, false)
  | .stmt rest, st => exec rest { st with exprs := st.exprs + 1 }
  | .raise, st => (st, true)
  | .block inner rest, st =>
      let st1 := { st with exprs := 0, scope := st.scope + 1 }      -- cond popped, pending flushed, scope pushed
      let (st2, r) := exec inner st1
      let st3 := { st2 with exprs := 0, scope := st2.scope - 1 }    -- __exit__: flush, pop
      if r then (st3, true) else exec rest st3

/-- one constraint block during `build_field_model` (after repair): `clear_exprs`, push the
    block, run the body, pop it (flushing) — also when the body raises -/
def elabBlock (b : Body) (st : Stacks) : Stacks × Bool :=
  let st1 := { st with exprs := 0, scope := st.scope + 1 }
  let (st2, r) := exec b st1
  ({ st2 with exprs := 0, scope := st2.scope - 1 }, r)

def elabBlocks : List Body → Stacks → Stacks × Bool
  | [], st => (st, false)
  | b :: bs, st =>
      let (st1, r) := elabBlock b st
      if r then (st1, true) else elabBlocks bs st1

/-- constructing a randobj: source-info mode pushed, user `__init__` (may raise), then with
    expression mode on every block is elaborated; everything pushed is popped on every path -/
def construct (initRaises : Bool) (blocks : List Body) (st : Stacks) : Stacks × Bool :=
  let st1 := { st with srcinfo := st.srcinfo + 1 }
  if initRaises then ({ st1 with srcinfo := st1.srcinfo - 1 }, true)
  else
    let st2 := { st1 with exprMode := st1.exprMode + 1 }
    let (st3, r) := elabBlocks blocks st2
    ({ st3 with exprMode := st3.exprMode - 1, srcinfo := st3.srcinfo - 1 }, r)

/-- where a randomize call can be made to fail -/
inductive Fault
  | none | pre | unsat | internal | post
  | analysis      -- an exception while the expanded model is analysed: after the builders, before the solve
  deriving DecidableEq, Repr

/-- `Randomizer.do_randomize`: pre_randomize; builders install `n` overrides; the solve creates
    solver variables; `finally`: rollback + dispose; post_randomize.  After repair b89875b the
    `finally` covers everything from the builders on. -/
def doRandomize (f : Fault) (nOverrides : Nat) (st : Stacks) : Stacks × Bool :=
  match f with
  | .pre => (st, true)                                   -- raised before anything was installed
  | _ =>
    let st1 := { st with overrides := st.overrides + nOverrides }
    -- the solve: on SolveFailure the randomizer disposes itself; on an internal exception it does not
    let st2 := if f = .internal then { st1 with staleVars := true } else st1
    -- finally
    let st3 := { st2 with overrides := st2.overrides - nOverrides, staleVars := false }
    match f with
    | .unsat | .internal | .analysis => (st3, true)
    | .post => (st3, true)
    | _ => (st3, false)

/-- `with obj.randomize_with() as it: body` : `__enter__`, body, `__exit__` (which runs the solve
    even when the body raised) -/
def randomizeWith (body : Body) (f : Fault) (nOverrides : Nat) (st : Stacks) : Stacks × Bool :=
  let st1 := { st with exprMode := st.exprMode + 1, srcinfo := st.srcinfo + 1, scope := st.scope + 1 }
  let (st2, r) := exec body st1
  let st3 := { st2 with exprs := 0, scope := st2.scope - 1, exprMode := st2.exprMode - 1, srcinfo := st2.srcinfo - 1 }
  let (st4, r2) := doRandomize f nOverrides st3
  (st4, r || r2)

inductive Op
  | construct (initRaises : Bool) (blocks : List Body)
  | randomize (f : Fault) (nOverrides : Nat)
  | randomizeWith (body : Body) (f : Fault) (nOverrides : Nat)
  deriving Repr

def step (st : Stacks) : Op → Stacks × Bool
  | .construct i bs => construct i bs st
  | .randomize f n => doRandomize f n st
  | .randomizeWith b f n => randomizeWith b f n st

end Pyvsc.Ctor
