/-
  In-place rewriting of constraint statements for the duration of a call, and its rollback.

  `ArrayConstraintBuilder` (foreach) and `DistConstraintBuilder` (dist) do not build a copy of the
  constraint tree: they replace a statement *in place*, in the `constraint_l` of the scope that
  holds it, by a `ConstraintOverrideModel(orig, new)` with `depth = 1`
  (`ConstraintOverrideVisitor.override_constraint`).  `Randomizer.do_randomize` undoes this in its
  `finally` clause with `ConstraintOverrideRollbackVisitor`: every override met while walking the
  scopes has its depth decremented and, at depth <= 0, is replaced by its original.

  The statement tree is modelled with the body of an expandable statement kept (the builders leave
  it alone) and the replacement abstracted to a tag (what the replacement contains is the business
  of Model/Lists.lean and Model/Dist.lean; here only *where* overrides sit matters).
-/
namespace Pyvsc.Ovr

mutual
  inductive Stmt where
    /-- expression, soft, unique, solve_order ... : nothing a call rewrites -/
    | atom (n : Nat)
    /-- foreach / dist: replaced by an override for the duration of a call -/
    | expandable (body : Stmts)
    /-- a constraint block, a branch of if/else, the body of implies -/
    | scope (body : Stmts)
    /-- `ConstraintOverrideModel(orig_constraint, new_constraint)` with its depth counter -/
    | override (orig : Stmt) (new : Nat) (depth : Nat)
  inductive Stmts where
    | nil
    | cons (s : Stmt) (r : Stmts)
end

mutual
  /-- no override anywhere: the state of a tree no call is working on -/
  def Stmt.clean : Stmt → Bool
    | .atom _ => true
    | .expandable b => b.clean
    | .scope b => b.clean
    | .override _ _ _ => false
  def Stmts.clean : Stmts → Bool
    | .nil => true
    | .cons s r => s.clean && r.clean
end

mutual
  /-- the builders' walk (`g` = tag of the replacement built now): an expandable statement is
      overridden where it stands (its body is not visited: nested foreach statements are flattened
      into the replacement), scopes are walked, an override that is already there is left in place
      (`ModelVisitor.visit_constraint_override` walks its replacement, which holds nothing
      expandable) -/
  def Stmt.expand (g : Nat) : Stmt → Stmt
    | .atom n => .atom n
    | .expandable b => .override (.expandable b) g 1
    | .scope b => .scope (b.expand g)
    | .override o n d => .override o n d
  def Stmts.expand (g : Nat) : Stmts → Stmts
    | .nil => .nil
    | .cons s r => .cons (s.expand g) (r.expand g)
end

mutual
  /-- `ConstraintOverrideRollbackVisitor`: `c.depth -= 1; if c.depth <= 0: scope[i] = c.orig` -/
  def Stmt.rollback : Stmt → Stmt
    | .atom n => .atom n
    | .expandable b => .expandable b
    | .scope b => .scope b.rollback
    | .override o n d => if d ≤ 1 then o else .override o n (d - 1)
  def Stmts.rollback : Stmts → Stmts
    | .nil => .nil
    | .cons s r => .cons s.rollback r.rollback
end

/-- a complete call, successful or not: the rewrite, whatever happens in between, the rollback of
    the `finally` clause -/
def Stmt.call (g : Nat) (t : Stmt) : Stmt := (t.expand g).rollback

mutual
  /-- the replacement tags a solve would use, in statement order (an override contributes its
      replacement, never its original) -/
  def Stmt.active : Stmt → List Nat
    | .atom _ => []
    | .expandable _ => []
    | .scope b => b.active
    | .override _ n _ => [n]
  def Stmts.active : Stmts → List Nat
    | .nil => []
    | .cons s r => s.active ++ r.active
end

end Pyvsc.Ovr
