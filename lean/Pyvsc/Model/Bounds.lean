import Pyvsc.Model.Expr
import Pyvsc.Model.Ranges
/-!
# Inferred value ranges: `VariableBoundVisitor`, the propagators, the fixed point

Mirrors `visitors/variable_bound_visitor.py` (which statements create which propagator),
`visitors/is_nonrand_expr_visitor.py` (after repair cbd1766), `model/variable_bound_*` (initial
domains and every propagator, after repairs daad4cb, a1d4bb3, 9f58bfc), and the evaluation of the
non-random side on Python integers (`Expr*Model.val()` with `ValueScalar` arithmetic).

A domain is a list of `(lo, hi)` pairs (`RangelistModel.range_l`).
-/
namespace Pyvsc.Bounds
open Pyvsc.Expr

abbrev RL := List (Int × Int)

/-- `VariableBoundScalarModel` -/
def initScalar (w : Nat) (s : Bool) : RL :=
  if s then [(-(2 ^ (w - 1) : Int), (2 ^ (w - 1) : Int) - 1)] else [(0, (2 ^ w : Int) - 1)]

def insertLo (x : Int × Int) : RL → RL
  | [] => [x]
  | y :: ys => if x.1 ≤ y.1 then x :: y :: ys else y :: insertLo x ys

/-- stable sort by lower bound (`range_l.sort(key=lambda e: e[0])`) -/
def sortLo (l : RL) : RL := l.foldr insertLo []

/-- `VariableBoundEnumModel` -/
def initEnum (es : List Int) : RL := sortLo (es.map fun v => (v, v))

/-! ### Python-integer evaluation of a non-random expression (`val()`) -/

/-- Python `&`, `|`, `^` on unbounded ints: two's complement at a width large enough for both -/
def pyBitwise (f : Nat → Nat → Nat) (a b : Int) : Int :=
  let W := Nat.log2 (a.natAbs + b.natAbs + 1) + 3
  let pa := (a % (2 ^ W : Int)).toNat
  let pb := (b % (2 ^ W : Int)).toNat
  let r := f pa pb % 2 ^ W
  if 2 * r ≥ 2 ^ W then (r : Int) - (2 ^ W : Int) else (r : Int)

def pyFloorDiv (a b : Int) : Int := Int.fdiv a b
def pyMod (a b : Int) : Int := Int.fmod a b

/-- `None` = Python raises (division by zero, negative shift count, no `val()` on this node) -/
def pyEval (ρ : Nat → Int) : Expr → Option Int
  | .lit v _ _ => some v
  | .fld i => some (ρ i)
  | .bin op l r =>
      match pyEval ρ l, pyEval ρ r with
      | some a, some b =>
        match op with
        | .eq => some (if a = b then 1 else 0)
        | .ne => some (if a ≠ b then 1 else 0)
        | .gt => some (if a > b then 1 else 0)
        | .ge => some (if a ≥ b then 1 else 0)
        | .lt => some (if a < b then 1 else 0)
        | .le => some (if a ≤ b then 1 else 0)
        | .add => some (a + b)
        | .sub => some (a - b)
        | .mul => some (a * b)
        | .div => if b = 0 then none else some (pyFloorDiv a b)
        | .mod => if b = 0 then none else some (pyMod a b)
        | .and => some (pyBitwise (· &&& ·) a b)
        | .or => some (pyBitwise (· ||| ·) a b)
        | .xor => some (pyBitwise (· ^^^ ·) a b)
        -- Python ints: a shift count beyond 2^16 is not materialised — `x >> n` is 0 or -1 once `n`
        -- exceeds the length of `x` (no power is formed), `x << n` with `x != 0` raises
        | .sll => if b < 0 then none
                  else if b.toNat > 65536 then (if a = 0 then some 0 else none)
                  else some (a * 2 ^ b.toNat)
        | .srl => if b < 0 then none
                  else if b.toNat > Nat.log2 a.natAbs + 1 then some (if a < 0 then -1 else 0)
                  else some (Int.fdiv a (2 ^ b.toNat))
      | _, _ => none
  | .psel e hi lo =>
      match pyEval ρ e with
      | some v => some ((Int.fdiv v (2 ^ lo)) % (2 ^ (hi + 1 - lo) : Int))
      | none => none
  | .not _ => none
  | .reset _ => none

variable (Γ : Nat → FieldTy)

/-- `IsNonRandExprVisitor.is_nonrand` -/
def isNonRand : Expr → Bool
  | .lit _ _ _ => true
  | .fld i => !(Γ i).rand
  | .bin _ l r => isNonRand l && isNonRand r
  | .not e => isNonRand e
  | .psel e _ _ => isNonRand e
  | .reset e => isNonRand e

/-! ### propagators -/

inductive Pg
  | exprMax (t : Nat) (v : Int)
  | exprMin (t : Nat) (v : Int)
  | eqConst (t : Nat) (v : Int)
  | boundsMax (t o : Nat) (off : Int)
  | boundsMin (t o : Nat) (off : Int)
  | varEq (t o : Nat)
  | inP (t : Nat) (items : RL)
  deriving Repr

def setHi (l : RL) (i : Nat) (v : Int) : RL := l.mapIdx fun j r => if j = i then (r.1, v) else r
def setLo (l : RL) (i : Nat) (v : Int) : RL := l.mapIdx fun j r => if j = i then (v, r.2) else r

/-- the `while i > 0` loop of `VariableBoundMaxPropagator.propagate`, on the ranges after the
    first: trailing ranges whose lower bound exceeds the limit are dropped -/
def trimEnd (mx : Int) : RL → RL
  | [] => []
  | r :: rs =>
    match trimEnd mx rs with
    | [] => if r.1 > mx then [] else [r]
    | t => r :: t

/-- cap the upper bound of the last range -/
def capLast (mx : Int) : RL → RL
  | [] => []
  | [r] => [(r.1, if r.2 > mx then mx else r.2)]
  | r :: rs => r :: capLast mx rs

/-- `VariableBoundMaxPropagator.propagate` on a domain -/
def maxProp (l : RL) (mx : Int) : RL × Bool :=
  match l with
  | [] => (l, false)
  | r0 :: rs =>
    if mx < r0.1 then ([], true)
    else
      let k := capLast mx (r0 :: trimEnd mx rs)
      (k, k != l)

/-- `VariableBoundMinPropagator.propagate` on a domain (including the aliasing of the old list:
    after slicing, the lower bound of the new first range is left as it was) -/
def minProp (l : RL) (mn : Int) : RL × Bool :=
  match l.getLast? with
  | none => (l, false)
  | some rl =>
    if mn > rl.2 then ([], true)
    else
      -- last index whose lower bound is < mn, if any
      match (List.range l.length).reverse.find? fun j => decide ((l.getD j (0, 0)).1 < mn) with
      | none => (l, false)
      | some i =>
        if i > 0 then (l.drop i, true)
        else (setLo l 0 mn, true)

/-- merge step of `VariableBoundInPropagator` on the sorted item list -/
def inMerge : RL → RL → RL
  | acc, [] => acc.reverse
  | [], r :: rs => inMerge [r] rs
  | a :: acc, r :: rs =>
      if a.2 + 1 ≥ r.1 then inMerge ((a.1, if r.2 > a.2 then r.2 else a.2) :: acc) rs
      else inMerge (r :: a :: acc) rs

/-- the two-pointer intersection of `VariableBoundInPropagator` -/
def inIntersect : Nat → RL → RL → RL
  | 0, _, _ => []
  | _, [], _ => []
  | _, _, [] => []
  | fuel + 1, i :: is, d :: ds =>
      let left := if i.1 > d.1 then i.1 else d.1
      let right := if i.2 < d.2 then i.2 else d.2
      let rest := if i.2 < d.2 then inIntersect fuel is (d :: ds) else inIntersect fuel (i :: is) ds
      if left ≤ right then (left, right) :: rest else rest

def inProp (l : RL) (items : RL) : RL × Bool :=
  let merged := inMerge [] (sortLo items)
  let res := inIntersect (merged.length + l.length + 1) merged l
  (res, res != l)

structure St where
  doms : Array RL
  attached : Array (List Pg)      -- `VariableBoundModel.propagators`
  global : List Pg := []          -- `VariableBoundVisitor.propagators`
  err : Bool := false               -- Python raised while evaluating a non-random expression

def dom (st : St) (i : Nat) : RL := st.doms.getD i []
def setDom (st : St) (i : Nat) (l : RL) : St := { st with doms := st.doms.setIfInBounds i l }

/-- one `propagate()`; `fuel` bounds the re-entrance of `VariableBoundInPropagator` through
    `target.propagate()` -/
def runProp : Nat → St → Pg → St × Bool
  | 0, st, _ => (st, false)
  | fuel + 1, st, p =>
    match p with
    | .exprMax t v => let r := maxProp (dom st t) v; (setDom st t r.1, r.2)
    | .exprMin t v => let r := minProp (dom st t) v; (setDom st t r.1, r.2)
    | .eqConst t v =>
        let l := dom st t
        if l.length ≥ 1 ∧ l != [(v, v)] then (setDom st t [(v, v)], true) else (st, false)
    | .boundsMax t o off =>
        match (dom st t).getLast? with
        | none => (st, false)
        | some tl =>
          let mx := match (dom st o).getLast? with | some ol => ol.2 + off | none => tl.2
          let r := maxProp (dom st t) mx; (setDom st t r.1, r.2)
    | .boundsMin t o off =>
        match (dom st t).head? with
        | none => (st, false)
        | some th =>
          let mn := match (dom st o).head? with | some oh => oh.1 + off | none => th.1
          let r := minProp (dom st t) mn; (setDom st t r.1, r.2)
    | .varEq t o =>
        let (s1, c1) := runProp fuel st (.boundsMax t o 0)
        let (s2, c2) := runProp fuel s1 (.boundsMax o t 0)
        let (s3, c3) := runProp fuel s2 (.boundsMin t o 0)
        let (s4, c4) := runProp fuel s3 (.boundsMin o t 0)
        (s4, c1 || c2 || c3 || c4)
    | .inP t items =>
        let r := inProp (dom st t) items
        let st := setDom st t r.1
        if r.2 then
          -- `self.target.propagate()`: every propagator attached to the target, results ignored
          ((st.attached.getD t []).foldl (fun s q => (runProp fuel s q).1) st, false)
        else (st, false)

def attach (st : St) (i : Nat) (p : Pg) : St :=
  { st with attached := st.attached.setIfInBounds i (st.attached.getD i [] ++ [p]) }

/-- what the visitor sees of a top-level statement (depth 0) -/
inductive BTop
  | cmp (op : BinOp) (l r : Expr)
  | inn (lhs : Expr) (items : List RangeItem)
  | other

def fieldOf : Expr → Option Nat
  | .fld i => some i
  | _ => none

variable (ρ : Nat → Int)

/-- `lhsvar_rhsnre_propagator` / `lhsnre_rhsvar_propagator` (with `flip` for the latter) -/
def nrePropagator (t : Nat) (op : BinOp) (e : Expr) (flip : Bool) : Option (Option Pg) :=
  -- outer none = no propagator for this operator; inner none = evaluation raised
  let one : Expr := .lit 1 false 4
  let mk (f : Int → Pg) (x : Expr) : Option (Option Pg) := some ((pyEval ρ x).map f)
  match op, flip with
  | .lt, false => mk (.exprMax t) (.bin .sub e one)
  | .le, false => mk (.exprMax t) e
  | .gt, false => mk (.exprMin t) (.bin .add e one)
  | .ge, false => mk (.exprMin t) e
  | .lt, true => mk (.exprMin t) (.bin .add e one)
  | .le, true => mk (.exprMin t) e
  | .gt, true => mk (.exprMax t) (.bin .sub e one)
  | .ge, true => mk (.exprMax t) e
  | .eq, _ => mk (.eqConst t) e
  | _, _ => none

def itemRange : RangeItem → Option (Int × Int)
  | .single e => (pyEval ρ e).map fun v => (v, v)
  | .range lo hi => match pyEval ρ lo, pyEval ρ hi with
      | some a, some b => some (a, b)
      | _, _ => none

def itemNonRand : RangeItem → Bool
  | .single (.fld _) => false      -- a bare field reference (possibly a list) never qualifies
  | .single e => isNonRand Γ e
  | .range lo hi => isNonRand Γ lo && isNonRand Γ hi

/-- `visit_expr_bin` / `visit_expr_in` in phase 1 at depth 0 -/
def visitTop (st : St) : BTop → St
  | .other => st
  | .cmp op l r =>
      match fieldOf l, fieldOf r with
      | some a, some b =>
          let p : Option Pg := match op with
            | .lt => some (.boundsMax a b (-1))
            | .le => some (.boundsMax a b 0)
            | .gt => some (.boundsMin a b 1)
            | .ge => some (.boundsMin a b 0)
            | .eq => some (.varEq a b)
            | _ => none
          match p with
          | some p =>
              -- the propagator registers with the other side (constructor) and with the lhs
              let st := match p with
                | .varEq _ _ => attach (attach (attach (attach st b (.boundsMax a b 0)) a (.boundsMax b a 0)) b (.boundsMin a b 0)) a (.boundsMin b a 0)
                | q => attach st b q
              let st := attach st a p
              { st with global := st.global ++ [p] }
          | none => st
      | some a, none =>
          if isNonRand Γ r then
            match nrePropagator ρ a op r false with
            | some (some p) => let st := attach st a p; { st with global := st.global ++ [p] }
            | some none => { st with err := true }
            | none => st
          else st
      | none, some b =>
          if isNonRand Γ l then
            match nrePropagator ρ b op l true with
            | some (some p) => let st := attach st b p; { st with global := st.global ++ [p] }
            | some none => { st with err := true }
            | none => st
          else st
      | none, none => st
  | .inn lhs items =>
      match fieldOf lhs with
      | none => st
      | some a =>
        if items.all (itemNonRand Γ) then
          match items.mapM (itemRange ρ) with
          | some rs =>
              let p := Pg.inP a rs
              let st := attach st a p
              (runProp 6 st p).1
          | none => { st with err := true }
        else st

/-- the fixed-point loop of `process` (at most 100 rounds) -/
def fixpoint : Nat → St → St
  | 0, st => st
  | n + 1, st =>
      let (st', changed) := st.global.foldl (fun (acc : St × Bool) p =>
        let r := runProp 6 acc.1 p; (r.1, acc.2 || r.2)) (st, false)
      if changed then fixpoint n st' else st'

/-- `VariableBoundVisitor.process` -/
def process (init : Array RL) (tops : List BTop) : St :=
  let st : St := { doms := init, attached := init.map fun _ => [] }
  let st := tops.foldl (visitTop Γ ρ) st
  fixpoint 100 st

/-! ### use of the domains: `SolveGroupSwizzlerPartsel` -/

/-- `VariableBoundModel.isEmpty` -/
def isEmpty (l : RL) : Bool :=
  match l with
  | [] => true
  | [r] => r.2 - r.1 == 0
  | _ => false

def bitLength : Nat → Nat
  | 0 => 0
  | n + 1 => Nat.log2 (n + 1) + 1

/-- `_build_swizzle_constraints` -/
def swizzleExprs (f : Nat) (bp : Int) (dw : Nat) : List Expr :=
  if dw > 6 then
    let iw := dw / 6
    (List.range 6).map fun i =>
      let low := i * iw
      let high := if i + 1 = 6 then dw - 1 else (i + 1) * iw - 1
      let width := if i + 1 = 6 then dw - low else iw
      .bin .eq (.psel (.fld f) high low) (.lit ((Int.fdiv bp (2 ^ low)) % (2 ^ width : Int)) false width)
  else
    (List.range dw).map fun i =>
      .bin .eq (.psel (.fld f) i i) (.lit ((Int.fdiv bp (2 ^ i)) % 2) false 1)

end Pyvsc.Bounds
