import Pyvsc.Model.Expr
/-!
# dist constraints and weighted selection

Mirrors `visitors/dist_constraint_builder.py` (`visit_constraint_dist`: the per-call rewrite into a
membership constraint plus exclusions for zero weights, the weight list sorted ascending, the
total), `model/constraint_dist_scope_model.py` (`next_target_range`: the cumulative walk), the dist
branch of `solvegroup_swizzler_partsel.py` `swizzle_field`, and `methods.py` `distselect` /
`randselect` (the same walk over all weights).
-/
namespace Pyvsc.Dist
open Pyvsc.Expr

/-- one `vsc.weight(...)`: a value or a range, and its weight expression -/
structure Weight where
  lo : Expr
  hi : Option Expr
  w : Expr
  deriving Repr

/-- `visit_constraint_dist`: the statements that replace `dist(lhs, weights)` for one call -/
def rewrite (lhs : Expr) (ws : List Weight) : List Stmt :=
  let items : List RangeItem := ws.map fun x => match x.hi with
    | some h => .range x.lo h
    | none => .single x.lo
  let inC : Stmt := .expr (mkIn lhs items)
  let excl : List Stmt := ws.map fun x =>
    let guard : Expr := .bin .eq x.w (.lit 0 false 8)
    let body : Expr := match x.hi with
      | some h => .not (.bin .and (.bin .ge lhs x.lo) (.bin .le lhs h))
      | none => .not (.bin .eq lhs x.lo)
    .implies guard (.cons (.expr body) .nil)
  inC :: excl

/-- insertion into a list sorted ascending by weight (stable) -/
def insertW (x : Nat × Nat) : List (Nat × Nat) → List (Nat × Nat)
  | [] => [x]
  | y :: ys => if x.1 ≤ y.1 then x :: y :: ys else y :: insertW x ys

def sortW (l : List (Nat × Nat)) : List (Nat × Nat) := l.foldr insertW []

/-- `weight_list`: the non-zero weights with their index, sorted ascending by weight -/
def weightList (ws : List Nat) : List (Nat × Nat) :=
  sortW (((List.range ws.length).zip ws).filterMap fun p => if p.2 > 0 then some (p.2, p.1) else none)

/-- the cumulative walk: subtract weights until the seed value is used up -/
def walk : List (Nat × Nat) → Int → Option Nat
  | [], _ => none
  | (w, i) :: rest, v => if v - (w : Int) ≤ 0 then some i else walk rest (v - w)

/-- `next_target_range` for a drawn `seed_v` in `1..total` -/
def nextTarget (wl : List (Nat × Nat)) (seedV : Int) : Option Nat :=
  match walk wl seedV with
  | some i => some i
  | none => wl.getLast?.map (·.2)

/-- `distselect`: the walk over *all* weights (zero weights included), sorted ascending -/
def distselect (ws : List Nat) (r : Int) : Option Nat :=
  nextTarget (sortW (((List.range ws.length).zip ws).map fun p => (p.2, p.1))) r

end Pyvsc.Dist
