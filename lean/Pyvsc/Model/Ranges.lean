/-!
# Model of `RangelistModel` (`src/vsc/model/rangelist_model.py`)

Mirrors the code after the `fix:` commits for F09 (`compact`) and F10 (`intersect`).
A range list is a Python list of `[low, high]` pairs in list order.
-/
namespace Pyvsc.Ranges

abbrev Range := Int × Int
abbrev RL := List Range

/-- `val in rangelist` (`__contains__`) -/
def contains (l : RL) (v : Int) : Bool := l.any (fun r => r.1 ≤ v && v ≤ r.2)

/-- stable insertion by `low` (Python's `sort(key=lambda e: e[0])` is stable) -/
def insertByLow (r : Range) : RL → RL
  | [] => [r]
  | x :: xs => if r.1 < x.1 then r :: x :: xs else x :: insertByLow r xs

def sortByLow (l : RL) : RL := l.foldl (fun acc r => insertByLow r acc) []

/-- the `while i < len-1` loop of `compact` on a list sorted by low, seen from the range at
    position `i` (`cur`): an overlapping successor is merged into it (keeping the larger upper
    bound), otherwise `cur` is final and the loop moves on -/
def mergeGo (cur : Range) : RL → RL
  | [] => [cur]
  | y :: rest => if y.1 ≤ cur.2 then mergeGo (cur.1, max cur.2 y.2) rest else cur :: mergeGo y rest

def mergeSorted : RL → RL
  | [] => []
  | x :: xs => mergeGo x xs

/-- `RangelistModel.compact` -/
def compact (l : RL) : RL := mergeSorted (sortByLow l)

/-- outcome of one `_intersect(target, trim)` step -/
inductive Trim
  | removed
  | split (a b : Range)
  | keep (a : Range)

/-- `RangelistModel._intersect` on one target range `t` and one trim range `r` -/
def trimOne (t r : Range) : Trim :=
  if t.1 ≥ r.1 ∧ t.2 ≤ r.2 then .removed
  else if r.1 > t.1 ∧ r.2 < t.2 then .split (t.1, r.1 - 1) (r.2 + 1, t.2)
  else if r.1 > t.1 ∧ r.1 ≤ t.2 then .keep (t.1, r.1 - 1)
  else if r.2 ≥ t.1 ∧ r.2 < t.2 then .keep (r.2 + 1, t.2)
  else .keep t

/-- the `for r in other.range_l` loop on the target at `rng_i`: what remains of the target
    (`none` = popped) and the pieces inserted right after it, in list order -/
def trimAll (t : Range) : RL → Option Range × RL
  | [] => (some t, [])
  | r :: rs =>
    match trimOne t r with
    | .removed => (none, [])
    | .keep t' => trimAll t' rs
    | .split a b => let (t', ins) := trimAll a rs; (t', ins ++ [b])

/-- the outer `while rng_i < len(self.range_l)` loop; `none` = fuel exhausted (never on the
    inputs the correspondence runs; the theorems are conditional on `some`) -/
def subtractGo (other : RL) : Nat → RL → Option RL
  | 0, _ => none
  | _ + 1, [] => some []
  | fuel + 1, t :: rest =>
    match trimAll t other with
    | (none, ins) => subtractGo other fuel (ins ++ rest)
    | (some t', ins) => (subtractGo other fuel (ins ++ rest)).map (t' :: ·)

/-- `RangelistModel.intersect(other)`: removes from `self` every value of `other`
    (the method's name notwithstanding) -/
def subtract (l other : RL) : Option RL :=
  if l.isEmpty || other.isEmpty then some l
  else subtractGo other (2 * (l.length + 1) * (other.length + 1) + 2) l

end Pyvsc.Ranges
