/-!
# Bit-vector terms: the Boolector operations pyvsc issues, and their semantics

`Bv.eval σ t = some (w, x)` : the term has width `w` and value (bit pattern, `x < 2^w`) `x`
under the assignment `σ` of solver variables.  `none` = the binding raises
(`BoolectorException`): width mismatch, a constant that does not fit, a slice out of range,
a non-1-bit condition.

Facts about the installed binding encoded here (each one is re-measured by the
correspondence run of C01, `kernel` section, through the real `pyboolector`):
* `Const(v, w)` wraps a negative `v` modulo `2^w`, raises for `v ≥ 2^w`;
* `Udiv(x, 0) = 2^w - 1`, `Urem(x, 0) = x`;
* `Sll`/`Srl` take two operands of the same width, shifting by `≥ w` gives `0`;
* `And/Or/Xor/Add/...`, comparisons need equal widths; `Implies` and `Cond` need a 1-bit
  condition; `Not` is bitwise; `Uext/Sext(x, n)` add `n` bits.
-/
namespace Pyvsc.Bv

inductive CmpOp | eq | ne | ult | ulte | ugt | ugte | slt | slte | sgt | sgte
  deriving DecidableEq, Repr
inductive ArOp | add | sub | mul | udiv | urem | and | or | xor | sll | srl
  deriving DecidableEq, Repr

inductive Bv
  | const (v : Int) (w : Nat)
  | var (i : Nat) (w : Nat)
  | uext (t : Bv) (n : Nat)
  | sext (t : Bv) (n : Nat)
  | slice (t : Bv) (hi lo : Nat)
  | cmp (op : CmpOp) (a b : Bv)
  | ar (op : ArOp) (a b : Bv)
  | not (t : Bv)
  | implies (a b : Bv)
  | cond (c a b : Bv)
  deriving Repr

/-- signed reading of a `w`-bit pattern -/
def sint (w : Nat) (x : Nat) : Int := if 2 * x < 2 ^ w then (x : Int) else (x : Int) - (2 ^ w : Int)

/-- bit pattern of an integer at width `w` (two's complement) -/
def pat (w : Nat) (v : Int) : Nat := (v % (2 ^ w : Int)).toNat

def b2n (b : Bool) : Nat := if b then 1 else 0

def cmpSem (op : CmpOp) (w x y : Nat) : Bool :=
  match op with
  | .eq => decide (x = y)
  | .ne => decide (x ≠ y)
  | .ult => decide (x < y)
  | .ulte => decide (x ≤ y)
  | .ugt => decide (y < x)
  | .ugte => decide (y ≤ x)
  | .slt => decide (sint w x < sint w y)
  | .slte => decide (sint w x ≤ sint w y)
  | .sgt => decide (sint w y < sint w x)
  | .sgte => decide (sint w y ≤ sint w x)

def arSem (op : ArOp) (w x y : Nat) : Nat :=
  match op with
  | .add => (x + y) % 2 ^ w
  | .sub => (x + (2 ^ w - y)) % 2 ^ w
  | .mul => (x * y) % 2 ^ w
  | .udiv => if y = 0 then 2 ^ w - 1 else x / y
  | .urem => if y = 0 then x else x % y
  | .and => x &&& y
  | .or => x ||| y
  | .xor => x ^^^ y
  | .sll => if y < w then (x * 2 ^ y) % 2 ^ w else 0
  | .srl => if y < w then x / 2 ^ y else 0

def eval (σ : Nat → Nat) : Bv → Option (Nat × Nat)
  | .const v w =>
      if w = 0 then none
      else if v < 0 then some (w, pat w v)
      else if v < (2 ^ w : Int) then some (w, v.toNat) else none
  | .var i w => if w = 0 then none else some (w, σ i % 2 ^ w)
  | .uext t n => (eval σ t).map fun (w, x) => (w + n, x)
  | .sext t n => (eval σ t).map fun (w, x) =>
      (w + n, if 2 * x < 2 ^ w then x else x + (2 ^ (w + n) - 2 ^ w))
  | .slice t hi lo =>
      match eval σ t with
      | some (w, x) => if lo ≤ hi ∧ hi < w then some (hi - lo + 1, (x / 2 ^ lo) % 2 ^ (hi - lo + 1)) else none
      | none => none
  | .cmp op a b =>
      match eval σ a, eval σ b with
      | some (wa, x), some (wb, y) => if wa = wb then some (1, b2n (cmpSem op wa x y)) else none
      | _, _ => none
  | .ar op a b =>
      match eval σ a, eval σ b with
      | some (wa, x), some (wb, y) => if wa = wb then some (wa, arSem op wa x y) else none
      | _, _ => none
  | .not t => (eval σ t).map fun (w, x) => (w, 2 ^ w - 1 - x)
  | .implies a b =>
      match eval σ a, eval σ b with
      | some (wa, x), some (wb, y) => if wa = 1 ∧ wb = 1 then some (1, if x = 1 then y else 1) else none
      | _, _ => none
  | .cond c a b =>
      match eval σ c, eval σ a, eval σ b with
      | some (wc, z), some (wa, x), some (wb, y) =>
          if wc = 1 ∧ wa = wb then some (wa, if z = 1 then x else y) else none
      | _, _, _ => none

/-- the formula holds under `σ`: it evaluates to the 1-bit value 1 -/
def holds (σ : Nat → Nat) (t : Bv) : Bool := eval σ t == some (1, 1)

/-! ### printing, in the vocabulary of the harness' recording Boolector proxy -/

def CmpOp.name : CmpOp → String
  | .eq => "eq" | .ne => "ne" | .ult => "ult" | .ulte => "ulte" | .ugt => "ugt" | .ugte => "ugte"
  | .slt => "slt" | .slte => "slte" | .sgt => "sgt" | .sgte => "sgte"
def ArOp.name : ArOp → String
  | .add => "add" | .sub => "sub" | .mul => "mul" | .udiv => "udiv" | .urem => "urem"
  | .and => "and" | .or => "or" | .xor => "xor" | .sll => "sll" | .srl => "srl"

def toSexp (vn : Nat → String) : Bv → String
  | .const v w => s!"(const {v} {w})"
  | .var i _ => vn i
  | .uext t n => s!"(uext {toSexp vn t} {n})"
  | .sext t n => s!"(sext {toSexp vn t} {n})"
  | .slice t hi lo => s!"(slice {toSexp vn t} {hi} {lo})"
  | .cmp op a b => s!"({op.name} {toSexp vn a} {toSexp vn b})"
  | .ar op a b => s!"({op.name} {toSexp vn a} {toSexp vn b})"
  | .not t => s!"(not {toSexp vn t})"
  | .implies a b => s!"(implies {toSexp vn a} {toSexp vn b})"
  | .cond c a b => s!"(cond {toSexp vn c} {toSexp vn a} {toSexp vn b})"

end Pyvsc.Bv
