import Pyvsc.Model.Expr
/-!
# Lists: what list constructs stand for at solve time

Mirrors `model/field_array_model.py` (`get_sum_expr`, `get_sum_width`, `get_product_expr`),
`model/expr_in_model.py` (membership in a non-random-size list), `model/constraint_unique_model.py`
(`_add_list_elems`), `visitors/array_constraint_builder.py` + `visitors/foreach_ref_expander.py`
(foreach unrolling: the index becomes a signed 32-bit literal, element references become references
to the concrete element fields), and the `list_t` facade (`size`, `len`, indexing, iteration).

A list is given by the ids of its element fields in order (`field_l`) and of its size field.
-/
namespace Pyvsc.Lists
open Pyvsc.Expr

/-- `get_sum_width`: the element width plus the bits needed to count `size - 1` -/
def sumBits (w size : Nat) : Nat :=
  let rec go (fuel v acc : Nat) : Nat :=
    match fuel with
    | 0 => acc
    | fuel + 1 => if v > 0 then go fuel (v / 2) (acc + 1) else acc
  go 64 (size - 1) w

/-- `get_sum_expr`: `((0 + e0) + e1) + …` over the first `size` elements, starting from a literal of
    the result width and the elements' signedness -/
def sumChain (w : Nat) (s : Bool) (elems : List Nat) : Expr :=
  elems.foldl (fun acc e => .bin .add acc (.fld e)) (.lit 0 s (sumBits w elems.length))

/-- `get_product_expr` -/
def productChain (s : Bool) (elems : List Nat) : Expr :=
  elems.foldl (fun acc e => .bin .mul acc (.fld e)) (.lit (if elems.isEmpty then 0 else 1) s 64)

/-- `ExprInModel.build` for `lhs in list` (non-random-size list): an OR of equalities over the
    first `size` elements; nothing is in an empty list (literal 0) -/
def inList (lhs : Expr) (elems : List Nat) : Expr :=
  match elems with
  | [] => .reset (.lit 0 false 1)
  | e :: rest => .reset (rest.foldl (fun acc x => .bin .or acc (.bin .eq lhs (.fld x))) (.bin .eq lhs (.fld e)))

/-- `ExprInModel.build` for `lhs in list` when the list has a random size (`if arr.is_rand_sz: pass`):
    the list contributes nothing and the remaining term is the constant … see known finding F45.
    After the repair of the empty case this is the literal 0 as well: the test is unsatisfiable. -/
def inRandsz : Expr := .reset (.lit 0 false 1)

/-- `ConstraintUniqueVecModel._mkVecNotEq`: two vectors differ in some position
    (`Or(ne_i, …Or(ne_1, ne_0))`); `none` for empty vectors -/
def vecNe (a b : List Nat) : Option Expr :=
  (a.zip b).foldl (fun acc p =>
    let ne : Expr := .reset (.bin .ne (.fld p.1) (.fld p.2))
    match acc with
    | none => some ne
    | some r => some (.bin .or ne r)) none

/-- `ConstraintUniqueVecModel.build`: every pair of vectors differs (`And` over the pairs, in order) -/
def uniqueVec (vs : List (List Nat)) : Option Expr :=
  let rec pairs : List (List Nat) → List (List Nat × List Nat)
    | [] => []
    | v :: rest => rest.map (fun w => (v, w)) ++ pairs rest
  (pairs vs).foldl (fun acc p =>
    match acc, vecNe p.1 p.2 with
    | none, x => x
    | some a, some x => some (.bin .and a x)
    | some a, none => some a) none

/-- a flat scope holding the given statements (`ConstraintInlineScopeModel`) -/
def scopeOf (ss : List Stmt) : Stmt := ss.foldr .cons .nil

/-- what the user sees of a list: the first `size` element fields -/
def exposed (fieldL : List Nat) (size : Nat) : List Nat := fieldL.take size

end Pyvsc.Lists
