import Pyvsc.Model.Bv
/-!
# Expression and constraint-statement models and their lowering to bit-vector terms

Mirrors `src/vsc/model/expr_*_model.py` (`width`, `is_signed`, `build`) and
`constraint_*_model.py` (`build`), after the `fix:` commits f4f0903 (`ExprUnaryModel.is_signed`) and ac24245 (soft constraints go
through `toBool`).

Conventions: Python's default context width `-1` is `0` here (all widths are `≥ 1`, and the
code only ever takes `max` with it); a field is a number `i` with type `Γ i`; its current
value is `ρ i`; a field that is random in the call becomes a solver variable, any other a
constant of its current value (`FieldScalarModel.build`).
-/
namespace Pyvsc.Expr
open Pyvsc.Bv

inductive BinOp
  | eq | ne | gt | ge | lt | le | add | sub | div | mul | mod | and | or | sll | srl | xor
  deriving DecidableEq, Repr

def BinOp.isCmp : BinOp → Bool
  | .eq | .ne | .gt | .ge | .lt | .le => true
  | _ => false

structure FieldTy where
  w : Nat
  s : Bool
  rand : Bool      -- `is_used_rand` in this call
  deriving Repr, DecidableEq

inductive Expr
  | lit (v : Int) (s : Bool) (w : Nat)     -- ExprLiteralModel
  | fld (i : Nat)                          -- ExprFieldRefModel / ExprIndexedFieldRefModel (resolved)
  | bin (op : BinOp) (l r : Expr)          -- ExprBinModel
  | not (e : Expr)                         -- ExprUnaryModel(Not)
  | psel (e : Expr) (hi lo : Nat)          -- ExprPartselectModel
  | reset (e : Expr)                       -- ExprInModel: a 1-bit unsigned node whose expansion is built with no context
  deriving Repr

variable (Γ : Nat → FieldTy)

/-- `Expr*Model.width()` -/
def width : Expr → Nat
  | .lit _ _ w => w
  | .fld i => (Γ i).w
  | .bin op l r => if op.isCmp then 1 else max (width l) (width r)
  | .not e => width e
  | .psel _ hi lo => hi + 1 - lo
  | .reset _ => 1

/-- `Expr*Model.is_signed()` -/
def signed : Expr → Bool
  | .lit _ s _ => s
  | .fld i => (Γ i).s
  | .bin _ l r => signed l && signed r
  | .not e => signed e
  | .psel _ _ _ => false
  | .reset _ => false

/-- syntactic width of a term (`BoolectorNode.width`) -/
def bvWidth : Bv → Nat
  | .const _ w => w
  | .var _ w => w
  | .uext t n => bvWidth t + n
  | .sext t n => bvWidth t + n
  | .slice _ hi lo => hi - lo + 1
  | .cmp _ _ _ => 1
  | .ar _ a _ => bvWidth a
  | .not t => bvWidth t
  | .implies _ _ => 1
  | .cond _ a _ => bvWidth a

/-- `ExprBinModel.extend` -/
def extend (t : Bv) (ctx : Nat) (sgn : Bool) : Bv :=
  if ctx > bvWidth t then (if sgn then .sext t (ctx - bvWidth t) else .uext t (ctx - bvWidth t)) else t

/-- the operator table of `ExprBinModel.build` -/
def binNode (op : BinOp) (sgn : Bool) (a b : Bv) : Bv :=
  match op with
  | .eq => .cmp .eq a b
  | .ne => .cmp .ne a b
  | .gt => .cmp (if sgn then .sgt else .ugt) a b
  | .ge => .cmp (if sgn then .sgte else .ugte) a b
  | .lt => .cmp (if sgn then .slt else .ult) a b
  | .le => .cmp (if sgn then .slte else .ulte) a b
  | .add => .ar .add a b
  | .sub => .ar .sub a b
  | .div => .ar .udiv a b
  | .mul => .ar .mul a b
  | .mod => .ar .urem a b
  | .and => .ar .and a b
  | .or => .ar .or a b
  | .sll => .ar .sll a b
  | .srl => .ar .srl a b
  | .xor => .ar .xor a b

variable (ρ : Nat → Int)

/-- `Expr*Model.build(btor, ctx_width)` -/
def lower : Expr → Nat → Bv
  | .lit v _ w, W => .const v (max W w)
  | .fld i, _ => if (Γ i).rand then .var i (Γ i).w else .const (ρ i) (Γ i).w
  | .bin op l r, W =>
      let W' := max W (max (width Γ l) (width Γ r))
      let sgn := signed Γ l && signed Γ r
      binNode op sgn (extend (lower l W') W' sgn) (extend (lower r W') W' sgn)
  | .not e, W => .not (lower e (max W (width Γ e)))
  | .psel e hi lo, _ => .slice (lower e 0) hi lo
  | .reset e, _ => lower e 0

/-- `ExprModel.toBool` -/
def toBool (t : Bv) : Bv := if bvWidth t = 1 then t else .cmp .ne t (.const 0 (bvWidth t))

/-! ### `ExprInModel.build`: expansion of `e in rangelist(...)` -/

inductive RangeItem
  | single (e : Expr)
  | range (lo hi : Expr)
  deriving Repr

def inTerm (lhs : Expr) : RangeItem → Expr
  | .single e => .bin .eq lhs e
  | .range lo hi => .bin .and (.bin .ge lhs lo) (.bin .le lhs hi)

def inFold (lhs : Expr) : Option Expr → List RangeItem → Option Expr
  | acc, [] => acc
  | none, r :: rs => inFold lhs (some (inTerm lhs r)) rs
  | some acc, r :: rs => inFold lhs (some (.bin .or acc (inTerm lhs r))) rs

/-- `ExprInModel(lhs, rl)` as an expression node -/
def mkIn (lhs : Expr) (rl : List RangeItem) : Expr :=
  .reset ((inFold lhs none rl).getD (.lit 0 false 1))      -- nothing is in an empty range list

/-! ### constraint statements -/

inductive Stmt
  | expr (e : Expr)                 -- ConstraintExprModel
  | soft (e : Expr)                 -- ConstraintSoftModel
  | unique (es : List Expr)         -- ConstraintUniqueModel (array arguments already expanded)
  | nil                             -- ConstraintScopeModel, empty
  | cons (s : Stmt) (rest : Stmt)   -- ConstraintScopeModel, `s` followed by the scope `rest`
  | ifThen (c : Expr) (t : Stmt)    -- ConstraintIfElseModel without else
  | ifElse (c : Expr) (t f : Stmt)  -- ConstraintIfElseModel with else (scope or chained if)
  | implies (c : Expr) (body : Stmt) -- ConstraintImpliesModel
  deriving Repr

/-- pairs `(i, j)`, `i < j`, in the order of the double loop of `ConstraintUniqueModel.build` -/
def uniquePairs : List Expr → List (Expr × Expr)
  | [] => []
  | e :: es => es.map (fun f => (e, f)) ++ uniquePairs es

def uniqueFold : Option Bv → List Bv → Option Bv
  | acc, [] => acc
  | none, t :: ts => uniqueFold (some t) ts
  | some acc, t :: ts => uniqueFold (some (.ar .and t acc)) ts

/-- `ConstraintUniqueModel.build` -/
def lowerUnique (es : List Expr) : Bv :=
  if es.length > 1 then
    (uniqueFold none ((uniquePairs es).map fun p => lower Γ ρ (.bin .ne p.1 p.2) 0)).getD (.const 1 1)
  else .const 1 1

/-- the accumulator step of `ConstraintScopeModel.build` -/
def scopeStep (acc : Option Bv) (b : Option Bv) : Option Bv :=
  match acc, b with
  | none, b => b
  | some a, some b => some (.ar .and a b)
  | some a, none => some a

mutual
/-- `Constraint*Model.build(btor, soft)`; `none` = Python `None` (a soft constraint in the
    hard pass).  Ill-formed trees the facade cannot produce (a non-scope where the code expects a
    built node) give `none` as well; see `WFStmt`. -/
def lowerStmt (soft : Bool) : Stmt → Option Bv
  | .expr e => some (toBool (lower Γ ρ e 0))
  | .soft e => if soft then some (toBool (lower Γ ρ e 0)) else none
  | .unique es => some (lowerUnique Γ ρ es)
  | .nil => some (.const 1 1)
  | .cons s rest => some ((lowerScope soft (scopeStep none (lowerStmt soft s)) rest).getD (.const 1 1))
  | .ifThen c t =>
      match lowerStmt soft t with
      | some tb => some (.implies (toBool (lower Γ ρ c 0)) tb)
      | none => none
  | .ifElse c t f =>
      match lowerStmt soft t, lowerStmt soft f with
      | some tb, some fb => some (.cond (toBool (lower Γ ρ c 0)) tb fb)
      | _, _ => none
  | .implies c body =>
      match lowerStmt soft body with
      | some bb => some (.implies (toBool (lower Γ ρ c 0)) bb)
      | none => none
/-- the loop of `ConstraintScopeModel.build` over the remaining statements of a scope -/
def lowerScope (soft : Bool) (acc : Option Bv) : Stmt → Option Bv
  | .nil => acc
  | .cons s rest => lowerScope soft (scopeStep acc (lowerStmt soft s)) rest
  | _ => acc
end

end Pyvsc.Expr
