/-!
# The solve loop of `Randomizer.randomize` for one rand set, over an answer stream

Mirrors `randomizer.py` `Randomizer.randomize` (hard phase, soft phase with greedy fallback)
and `solvegroup_swizzler_partsel.py` `swizzle` / `swizzle_field_l` (greedy bit-pattern
equalities, final `Sat()` per group).

The solver is a parameter: every `Sat()` consumes the next element of an answer stream
(`Ans.sat model` or `Ans.unsat`).  The model emits the log of queries it issued together with
the answers it consumed, so that "the solver was sound and complete on the queries actually
asked" is a predicate over the log (`LogValid`), and so that the harness can compare the query
sequence with the `Assume`/`Assert`/`Sat` calls recorded on the real library.

`F` = formulas, `A` = assignments; the instance used for pyvsc is `F = Bv`, `A = Nat → Nat`.
-/
namespace Pyvsc.Solve

inductive Ans (A : Type) | sat (a : A) | unsat

inductive Outcome (A : Type)
  | ok (a : A)
  | solveFailure
  | internalError      -- stream exhausted, or "failed to add in randomization (2)"

variable {F A : Type}

/-- A query is the list of formulas asserted or assumed when `Sat()` is called. -/
abbrev Log (F A : Type) := List (List F × Ans A)

structure Greedy (F A : Type) where
  asserted : List F
  kept : List F
  rejected : List F
  log : Log F A
  rest : List (Ans A)

/-- `for c in cands: Assume(c); if Sat() == SAT: Assert(c)` -/
def greedy : List F → List F → List (Ans A) → Option (Greedy F A)
  | asserted, [], ans => some ⟨asserted, [], [], [], ans⟩
  | _, _ :: _, [] => none
  | asserted, c :: cs, .sat m :: ans =>
      match greedy (c :: asserted) cs ans with
      | some g => some { g with kept := c :: g.kept, log := (c :: asserted, .sat m) :: g.log }
      | none => none
  | asserted, c :: cs, .unsat :: ans =>
      match greedy asserted cs ans with
      | some g => some { g with rejected := c :: g.rejected, log := (c :: asserted, .unsat) :: g.log }
      | none => none

structure SoftRes (F A : Type) where
  asserted : List F
  kept : List F
  rejected : List F
  log : Log F A
  rest : List (Ans A)

/-- soft phase: all softs assumed together; on UNSAT the greedy fallback in list order
    (the list is sorted by descending priority) -/
def softPhase (asserted soft : List F) (ans : List (Ans A)) : Option (SoftRes F A) :=
  match soft with
  | [] => some ⟨asserted, [], [], [], ans⟩
  | _ :: _ =>
    match ans with
    | [] => none
    | .sat m :: rest => some ⟨soft ++ asserted, soft, [], [(soft ++ asserted, .sat m)], rest⟩
    | .unsat :: rest =>
      match greedy asserted soft rest with
      | some g => some ⟨g.asserted, g.kept, g.rejected, (soft ++ asserted, .unsat) :: g.log, g.rest⟩
      | none => none

structure SwzRes (F A : Type) where
  asserted : List F
  last : Option (Ans A)      -- answer of the last `Sat()` issued
  log : Log F A
  rest : List (Ans A)
  failed : Bool              -- a group's final `Sat()` was not SAT

/-- `swizzle_field_l` per group (`none` = empty field list: nothing happens, not even a `Sat()`) -/
def swizzleGroups (asserted : List F) (last : Option (Ans A)) :
    List (Option (List F)) → List (Ans A) → Option (SwzRes F A)
  | [], ans => some ⟨asserted, last, [], ans, false⟩
  | none :: gs, ans => swizzleGroups asserted last gs ans
  | some cands :: gs, ans =>
    match greedy asserted cands ans with
    | none => none
    | some g =>
      match g.rest with
      | [] => none
      | .unsat :: rest => some ⟨g.asserted, some .unsat, g.log ++ [(g.asserted, .unsat)], rest, true⟩
      | .sat m :: rest =>
        match swizzleGroups g.asserted (some (.sat m)) gs rest with
        | some r => some { r with log := g.log ++ (g.asserted, .sat m) :: r.log }
        | none => none

structure Res (F A : Type) where
  out : Outcome A
  asserted : List F
  softKept : List F
  softRejected : List F
  log : Log F A

/-- one rand set: `pre` are the formulas asserted while the variables are built (enum domains),
    `hard` the built hard constraints, `soft` the built soft list sorted by descending priority,
    `groups` the swizzle candidates per ordered group in the order they are tried -/
def solve (pre hard soft : List F) (groups : List (Option (List F))) (ans : List (Ans A)) : Res F A :=
  match ans with
  | [] => ⟨.internalError, pre, [], [], []⟩
  | .unsat :: _ => ⟨.solveFailure, pre, [], [], [(hard ++ pre, .unsat)]⟩
  | .sat m0 :: ans1 =>
    let log0 : Log F A := [(hard ++ pre, .sat m0)]
    match softPhase (hard ++ pre) soft ans1 with
    | none => ⟨.internalError, hard ++ pre, [], [], log0⟩
    | some s =>
      match swizzleGroups s.asserted none groups s.rest with
      | none => ⟨.internalError, s.asserted, s.kept, s.rejected, log0 ++ s.log⟩
      | some z =>
        if z.failed then ⟨.internalError, z.asserted, s.kept, s.rejected, log0 ++ s.log ++ z.log⟩
        else
          match z.last with
          | some (.sat m) => ⟨.ok m, z.asserted, s.kept, s.rejected, log0 ++ s.log ++ z.log⟩
          | some .unsat => ⟨.internalError, z.asserted, s.kept, s.rejected, log0 ++ s.log ++ z.log⟩
          | none =>
            -- no field was swizzled: `swizzle` issues one plain `Sat()`
            match z.rest with
            | .sat m :: _ => ⟨.ok m, z.asserted, s.kept, s.rejected, log0 ++ s.log ++ z.log ++ [(z.asserted, .sat m)]⟩
            | .unsat :: _ => ⟨.internalError, z.asserted, s.kept, s.rejected, log0 ++ s.log ++ z.log ++ [(z.asserted, .unsat)]⟩
            | [] => ⟨.internalError, z.asserted, s.kept, s.rejected, log0 ++ s.log ++ z.log⟩

/-- number of `Sat()` calls the loop can issue at most -/
def maxQueries (soft : List F) (groups : List (Option (List F))) : Nat :=
  2 + soft.length + 1 + (groups.map fun g => match g with | none => 0 | some c => c.length + 1).sum

end Pyvsc.Solve
