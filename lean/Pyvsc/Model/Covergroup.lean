import Pyvsc.Model.Bins
/-!
# Model of covergroups: crosses, instance/type aggregation, coverage, save visitor

Mirrors `model/covergroup_model.py`, `model/coverpoint_cross_model.py`,
`impl/coverage_registry.py`, the coverage getters of `coverpoint_model.py` (after the F11/F14
repairs) and `visitors/coverage_save_visitor.py`.
-/
namespace Pyvsc.Cg
open Pyvsc.Bins Pyvsc.Ranges

structure CpDef where
  name : String
  cp : Cp
  atLeast : Nat
  weight : Nat
  deriving Repr

structure CrossDef where
  name : String
  cps : List Nat          -- positions of the crossed coverpoints in the covergroup
  atLeast : Nat
  weight : Nat
  deriving Repr

structure Shape where
  cps : List CpDef
  crosses : List CrossDef
  deriving Repr

/-- hit data of one covergroup model (instance or type) -/
structure St where
  cp : List Hits
  cross : List (List Nat)
  deriving Repr, BEq

def cpNBins (d : CpDef) : Nat := (totalBins d.cp.bins).toNat

def crossDims (sh : Shape) (c : CrossDef) : List Nat :=
  c.cps.map (fun i => match sh.cps[i]? with | some d => cpNBins d | none => 0)

/-- product of the crossed coverpoints' bin counts -/
def prodL : List Nat → Nat
  | [] => 1
  | d :: ds => d * prodL ds

def crossNBins (sh : Shape) (c : CrossDef) : Nat := prodL (crossDims sh c)

def Shape.init (sh : Shape) : St :=
  { cp := sh.cps.map (·.cp.init),
    cross := sh.crosses.map (fun c => List.replicate (crossNBins sh c) 0) }

/-- `CoverpointCrossModel.sample`: flat index of the first top-level bin model that reports a hit -/
def firstHit : List BinM → Int → Int → Option Int
  | [], _, _ => none
  | b :: bs, off, v =>
    match b.hitIdx v with
    | some i => some (off + i)
    | none => firstHit bs (off + b.nBins) v

/-- key tuple of a cross for one sample: `none` when some crossed coverpoint is gated off or hit no bin -/
def crossKey (sh : Shape) (inp : List (Bool × Int)) : List Nat → Option (List Nat)
  | [] => some []
  | i :: is =>
    match sh.cps[i]?, inp[i]? with
    | some d, some (iff, v) =>
      if iff then
        match firstHit d.cp.bins 0 v with
        | some k => (crossKey sh inp is).map (k.toNat :: ·)
        | none => none
      else none
    | _, _ => none

/-- row-major index (`_build_hit_map`: first coverpoint outermost) -/
def flatIdx : List Nat → List Nat → Nat → Nat
  | d :: ds, k :: ks, acc => flatIdx ds ks (acc * d + k)
  | _, _, acc => acc

def bumpNat (l : List Nat) (i : Nat) : List Nat := l.modify i (· + 1)

/-- `CoverpointCrossModel.sample()` for one cross: its hit vector after this sample -/
def crossStep (sh : Shape) (c : CrossDef) (h : List Nat) (inp : List (Bool × Int)) (iff : Bool) : List Nat :=
  if iff then
    match crossKey sh inp c.cps with
    | some key => bumpNat h (flatIdx (crossDims sh c) key 0)
    | none => h
  else h

/-- `CovergroupModel.sample()` of one model, given this sample's (iff, value) per coverpoint and the
    iff value per cross -/
def sampleSt (sh : Shape) (s : St) (inp : List (Bool × Int)) (xiff : List Bool) : St :=
  { cp := (sh.cps.zip (s.cp.zip inp)).map (fun (d, h, i) => d.cp.sample h i.1 i.2),
    cross := (sh.crosses.zip (s.cross.zip xiff)).map (fun (c, h, iff) => crossStep sh c h inp iff) }

/-- cross bin name `<a,b,…>` -/
def keyOf : List Nat → Nat → List Nat
  | [], _ => []
  | _ :: ds, idx => (idx / prodL ds) :: keyOf ds (idx % prodL ds)

def crossBinName (sh : Shape) (c : CrossDef) (idx : Nat) : String :=
  let key := keyOf (crossDims sh c) idx
  let parts := (c.cps.zip key).map (fun (i, k) =>
    match sh.cps[i]? with
    | some d => (binNameAt d.cp.bins 0 (k : Nat)).getD "?"
    | none => "?")
  "<" ++ ",".intercalate parts ++ ">"

/-! ### structural equality used by the registry (`equals`) -/

def leafEq : Leaf → Leaf → Bool
  | .arr n lo hi, .arr n' lo' hi' => n == n' && lo == lo' && hi == hi'
  | .bag _ rl, .bag _ rl' => rl == rl'
  | .rng _ lo hi, .rng _ lo' hi' => lo == lo' && hi == hi'
  | .val _ v, .val _ v' => v == v'
  | .enm _ v, .enm _ v' => v == v'
  | .wild _ s, .wild _ s' => s == s'
  | _, _ => false

def listEq (f : α → α → Bool) : List α → List α → Bool
  | [], [] => true
  | a :: as, b :: bs => f a b && listEq f as bs
  | _, _ => false

def binEq : BinM → BinM → Bool
  | .leaf a, .leaf b => leafEq a b
  | .coll n as, .coll n' bs => n == n' && listEq leafEq as bs
  | _, _ => false

def cpEq (a b : CpDef) : Bool :=
  a.name == b.name && listEq binEq a.cp.bins b.cp.bins && listEq binEq a.cp.ignore b.cp.ignore &&
    listEq binEq a.cp.illegal b.cp.illegal

/-- `CovergroupModel.equals` -/
def shapeEq (a b : Shape) : Bool :=
  listEq cpEq a.cps b.cps &&
  listEq (fun (x y : CrossDef) =>
    listEq (fun i j => match a.cps[i]?, b.cps[j]? with
      | some p, some q => cpEq p q
      | _, _ => false) x.cps y.cps) a.crosses b.crosses

/-! ### registry -/

structure TypeE where
  tname : String
  name : String
  shape : Shape
  st : St
  deriving Repr

structure Inst where
  tidx : Nat            -- index of its type covergroup in `Reg.types`
  name : String
  shape : Shape
  st : St
  deriving Repr

structure Reg where
  types : List TypeE
  insts : List Inst
  deriving Repr

def Reg.empty : Reg := { types := [], insts := [] }

/-- `CoverageRegistry.register_cg` -/
def Reg.newInst (r : Reg) (tname iname : String) (sh : Shape) : Reg :=
  let idxd := (List.range r.types.length).zip r.types
  let cands := idxd.filter (fun p => p.2.tname == tname)
  match cands.find? (fun p => shapeEq p.2.shape sh) with
  | some p => { r with insts := r.insts ++ [{ tidx := p.1, name := iname, shape := sh, st := sh.init }] }
  | none =>
    let k := cands.length
    let nm := if k == 0 then tname else tname ++ "_" ++ toString (k + 1)
    { types := r.types ++ [{ tname := tname, name := nm, shape := sh, st := sh.init }],
      insts := r.insts ++ [{ tidx := r.types.length, name := iname, shape := sh, st := sh.init }] }

/-- `covergroup.sample(...)` on instance `i`: the instance samples itself, then forwards the cached
    values and iff results to its type covergroup -/
def Reg.sample (r : Reg) (i : Nat) (inp : List (Bool × Int)) (xiff : List Bool) : Reg :=
  match r.insts[i]? with
  | none => r
  | some inst =>
    let inst' := { inst with st := sampleSt inst.shape inst.st inp xiff }
    { types := r.types.modify inst.tidx (fun t => { t with st := sampleSt t.shape t.st inp xiff }),
      insts := r.insts.set i inst' }

/-- `covergroup.set_name(name)` on instance `i`: the instance model takes the new name; nothing else moves -/
def Reg.rename (r : Reg) (i : Nat) (nm : String) : Reg :=
  { r with insts := r.insts.modify i (fun x => { x with name := nm }) }

/-! ### coverage (exact rationals as numerator / denominator pairs) -/

def covered (atLeast : Nat) (hits : List Nat) : Nat := (hits.filter (fun h => decide (h ≥ atLeast))).length

/-- coverpoint coverage = 100 * covered / n, returned as (covered, n) -/
def cpCov (d : CpDef) (h : Hits) : Nat × Nat := (covered d.atLeast h.hit, h.hit.length)
def crossCov (c : CrossDef) (h : List Nat) : Nat × Nat := (covered c.atLeast h, h.length)

/-- items (covered, n, weight) of a covergroup model -/
def cgItems (sh : Shape) (s : St) : List (Nat × Nat × Nat) :=
  (sh.cps.zip s.cp).map (fun (d, h) => ((cpCov d h).1, (cpCov d h).2, d.weight)) ++
  (sh.crosses.zip s.cross).map (fun (c, h) => ((crossCov c h).1, (crossCov c h).2, c.weight))

/-! ### save visitor -/

structure UBin where
  name : String
  atLeast : Nat
  count : Nat
  kind : String     -- "cvg" | "ignore" | "illegal"
  deriving Repr

structure UCp where
  name : String
  weight : Nat
  bins : List UBin
  deriving Repr

structure UCross where
  name : String
  weight : Nat
  bins : List UBin
  deriving Repr

structure UCg where
  name : String
  cps : List UCp
  crosses : List UCross
  deriving Repr

structure UType where
  cg : UCg
  insts : List UCg
  deriving Repr

def binsOf (bs : List BinM) (hits : List Nat) (atLeast : Nat) (kind : String) : List UBin :=
  (List.range (totalBins bs).toNat).map (fun i =>
    { name := (binNameAt bs 0 (i : Nat)).getD "?", atLeast := atLeast, count := hits[i]?.getD 0, kind := kind })

def saveCg (name : String) (sh : Shape) (s : St) : UCg :=
  { name := name,
    cps := (sh.cps.zip s.cp).map (fun (d, h) =>
      { name := d.name, weight := d.weight,
        bins := binsOf d.cp.bins h.hit d.atLeast "cvg" ++ binsOf d.cp.ignore h.ign d.atLeast "ignore" ++
                binsOf d.cp.illegal h.ill d.atLeast "illegal" }),
    crosses := (sh.crosses.zip s.cross).map (fun (c, h) =>
      { name := c.name, weight := c.weight,
        bins := (List.range h.length).map (fun i =>
          { name := crossBinName sh c i, atLeast := c.atLeast, count := h[i]?.getD 0, kind := "cvg" }) }) }

/-- `get_cg_instname`: de-duplicate instance scope names with `_k` suffixes across the whole save -/
def dedupName (used : List String) (nm : String) : String :=
  if !used.contains nm then nm
  else
    let rec go : Nat → Nat → String
      | 0, _ => nm
      | fuel + 1, i => if !used.contains (nm ++ "_" ++ toString i) then nm ++ "_" ++ toString i else go fuel (i + 1)
    go 1000 1

/-- `CoverageSaveVisitor.save` over `CoverageRegistry.covergroup_types()`: types grouped by typename
    in first-registration order, each followed by its instances -/
def Reg.save (r : Reg) : List UType :=
  let tnames := (r.types.map (·.tname)).eraseDups
  let order := tnames.flatMap (fun n => ((List.range r.types.length).zip r.types).filter (fun p => p.2.tname == n))
  let rec go : List (Nat × TypeE) → List String → List UType
    | [], _ => []
    | (ti, t) :: rest, used =>
      let myInsts := r.insts.filter (fun i => i.tidx == ti)
      let (used', saved) := myInsts.foldl (fun (acc : List String × List UCg) i =>
        let nm := dedupName acc.1 i.name
        (acc.1 ++ [nm], acc.2 ++ [saveCg nm i.shape i.st])) (used, [])
      { cg := saveCg t.name t.shape t.st, insts := saved } :: go rest used'
  go order []

end Pyvsc.Cg
