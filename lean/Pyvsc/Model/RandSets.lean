import Pyvsc.Model.Expr
/-!
# Rand sets: `RandInfoBuilder` pass 1, `RandSet.add_field/add_constraint`, soft priorities

A call's constraint blocks (class blocks of the object and of its random sub-objects in visit
order, then the inline block) are walked statement by statement.  Every top-level statement
starts with no active rand set; every field reference either joins the active set, makes the set
that already owns the field the active one, or merges the active set *into* the owner.  When the
top-level statement is left it is added to the active set (hard or soft list); a statement that
referenced no field is added nowhere.  A soft constraint nested under guards adds, when it is
visited, an entry "guards → soft" to the set active at that moment.

Priorities: `visit_constraint_soft` numbers soft constraints in visit order (both passes add to
the same counter, so the k-th soft of n gets `k + (n + k)`); only the order matters and the
soft list of a rand set is sorted by descending priority in `Randomizer.randomize`.
-/
namespace Pyvsc.RandSets
open Pyvsc.Expr

inductive Ev
  | ref (i : Nat)
  | soft (guards : List Expr) (e : Expr)     -- a soft constraint visited (guards = [] at top level)
  deriving Repr

/-- field references of an expression in visit order (`ModelVisitor.visit_expr_*`) -/
def refs : Expr → List Nat
  | .lit _ _ _ => []
  | .fld i => [i]
  | .bin _ l r => refs l ++ refs r
  | .not e => refs e
  | .psel e _ _ => refs e
  | .reset e => refs e

/-- replace the top of the guard stack (`self._soft_cond_l[-1] = Not(cond)`) -/
def setTop (gs : List Expr) (g : Expr) : List Expr := gs.dropLast ++ [g]

/-- events of a statement in visit order, under the guard stack `gs` -/
def walk : Stmt → List Expr → List Ev
  | .expr e, _ => (refs e).map .ref
  | .soft e, gs => .soft gs e :: (refs e).map .ref
  | .unique es, _ => (es.flatMap refs).map .ref
  | .nil, _ => []
  | .cons s rest, gs => walk s gs ++ walk rest gs
  | .ifThen c t, gs => (refs c).map .ref ++ walk t (gs ++ [c])
  | .ifElse c t f, gs => (refs c).map .ref ++ walk t (gs ++ [c]) ++ walk f (gs ++ [.not c])
  | .implies c b, gs => (refs c).map .ref ++ walk b (gs ++ [c])

structure SoftEntry where
  prio : Nat
  guards : List Expr
  e : Expr
  deriving Repr

structure RandSet where
  fields : List Nat := []
  hard : List (Nat × Stmt) := []      -- (id of the top-level statement, statement)
  soft : List SoftEntry := []
  dists : List (Nat × Nat) := []      -- `dist_field_m`: (field, dist id) registered with this set
  deriving Repr

structure St where
  sets : List (Option RandSet) := []
  active : Option Nat := none
  nsoft : Nat := 0                     -- soft constraints visited so far in this pass
  err : Option String := none
  noref : RandSet := {}                -- statements that reference no field (`_noref_constraint_l`)
  deriving Repr

def owner (sets : List (Option RandSet)) (f : Nat) : Option Nat :=
  (List.range sets.length).find? fun k =>
    match sets[k]? with
    | some (some rs) => rs.fields.contains f
    | _ => false

def addField (rs : RandSet) (f : Nat) : RandSet :=
  if rs.fields.contains f then rs else { rs with fields := rs.fields ++ [f] }

def addHard (rs : RandSet) (c : Nat × Stmt) : RandSet :=
  if rs.hard.any (fun d => d.1 == c.1) then rs else { rs with hard := rs.hard ++ [c] }

def addSoft (rs : RandSet) (c : SoftEntry) : RandSet :=
  if rs.soft.any (fun d => d.prio == c.prio) then rs else { rs with soft := rs.soft ++ [c] }

def modifySet (sets : List (Option RandSet)) (k : Nat) (f : RandSet → RandSet) : List (Option RandSet) :=
  sets.mapIdx fun j s => if j = k then s.map f else s

/-- `RandInfoBuilder.process_fieldref` -/
def processRef (st : St) (f : Nat) : St :=
  match owner st.sets f with
  | some ex =>
    match st.active with
    | none => { st with active := some ex }
    | some a =>
      if a = ex then st
      else
        -- merge the active set into the owner, drop the active set
        match st.sets[a]? with
        | some (some ars) =>
          let sets := modifySet st.sets ex fun ers =>
            let ers := ars.fields.foldl addField ers
            let ers := ars.hard.foldl addHard ers
            ars.soft.foldl addSoft ers
          let sets := sets.mapIdx fun j s => if j = a then none else s
          { st with sets := sets, active := some ex }
        | _ => { st with err := some "active rand set missing" }
  | none =>
    match st.active with
    | none =>
      { st with sets := st.sets ++ [some { fields := [f] }], active := some st.sets.length }
    | some a => { st with sets := modifySet st.sets a fun rs => addField rs f }

def processEv (n : Nat) (st : St) : Ev → St
  | .ref i => processRef st i
  | .soft gs e =>
    let p := st.nsoft + (n + st.nsoft)
    let st := { st with nsoft := st.nsoft + 1 }
    match gs with
    | [] => st          -- added when the statement is left
    | _ =>
      match st.active with
      | some a => { st with sets := modifySet st.sets a fun rs => addSoft rs ⟨p, gs, e⟩ }
      | none => { st with err := some "soft constraint under guards with no active rand set" }

/-- number of soft constraints in a statement -/
def countSoft : Stmt → Nat
  | .soft _ => 1
  | .cons s r => countSoft s + countSoft r
  | .ifThen _ t => countSoft t
  | .ifElse _ t f => countSoft t + countSoft f
  | .implies _ b => countSoft b
  | _ => 0

/-- one top-level statement: enter (no active set), walk, leave (add to the active set) -/
def processTop (n : Nat) (st : St) (c : Nat × Stmt) (extra : List Nat := []) : St :=
  let st := { st with active := none }
  let p := st.nsoft + (n + st.nsoft)     -- priority, should the statement itself be a soft constraint
  -- `extra`: fields the statement mentions in a position that contributes no term (the left-hand
  -- side of a membership test in a list that has nothing to offer)
  let st := (walk c.2 [] ++ extra.map Ev.ref).foldl (processEv n) st
  match st.active with
  | none =>
    -- a statement that references no field is kept for the field-less rand set
    match c.2 with
    | .soft e => { st with noref := addSoft st.noref ⟨p, [], e⟩ }
    | _ => { st with noref := addHard st.noref c }
  | some a =>
    match c.2 with
    | .soft e => { st with sets := modifySet st.sets a fun rs => addSoft rs ⟨p, [], e⟩ }
    | _ => { st with sets := modifySet st.sets a fun rs => addHard rs c }

/-- `visit_constraint_dist_scope`: after the statements of a rewritten dist were visited, the dist is
    registered with the rand set that is active then.  (A later merge of that set *into* another
    one does not carry the registration along: `process_fieldref` moves fields and constraints only.) -/
def registerDist (st : St) (f d : Nat) : St :=
  match st.active with
  | some a => { st with sets := modifySet st.sets a fun rs => { rs with dists := rs.dists ++ [(f, d)] } }
  | none => st

/-- all enabled blocks of the call, flattened to their top-level statements in visit order;
    `marks` = (index of the last statement of a rewritten dist, its field, its id) -/
def build (tops : List Stmt) (marks : List (Nat × Nat × Nat) := []) (extra : List (Nat × List Nat) := []) : St :=
  let n := (tops.map countSoft).sum
  let idd := (List.range tops.length).zip tops
  idd.foldl (fun st c =>
    let st := processTop n st c ((extra.filter fun x => x.1 == c.1).flatMap (·.2))
    (marks.filter fun m => m.1 == c.1).foldl (fun s m => registerDist s m.2.1 m.2.2) st) {}

/-- the rand sets of the call in solve order; statements that reference no field form a
    field-less rand set solved last, so that an unsatisfiable one fails the call -/
def randSets (st : St) : List RandSet :=
  st.sets.filterMap id ++ (if st.noref.hard.isEmpty && st.noref.soft.isEmpty then [] else [st.noref])

/-- fields no statement references, in declaration order -/
def unconstrained (allFields : List Nat) (st : St) : List Nat :=
  allFields.filter fun f => (owner st.sets f).isNone

/-! ### the soft list of a rand set as `Randomizer.randomize` sees it -/

def insertDesc (x : SoftEntry) : List SoftEntry → List SoftEntry
  | [] => [x]
  | y :: ys => if x.prio > y.prio then x :: y :: ys else y :: insertDesc x ys

def sortDesc : List SoftEntry → List SoftEntry
  | [] => []
  | x :: xs => insertDesc x (sortDesc xs)

def andGuards : List Expr → Option Expr
  | [] => none
  | g :: gs => some (gs.foldl (fun acc h => .bin .and acc h) g)

/-- the statement a soft entry stands for in the soft list -/
def softStmt (s : SoftEntry) : Stmt :=
  match andGuards s.guards with
  | none => .soft s.e
  | some g => .implies g (.cons (.soft s.e) .nil)

/-! ### solve_order: ordered groups of a rand set -/

/-- toposort levels: repeatedly take the nodes all of whose dependencies are done -/
def levels (keys nodes : List Nat) (depsOf : Nat → List Nat) :
    Nat → List Nat → List Nat → List (List Nat) → List (List Nat)
  | 0, _, _, acc => acc
  | fuel + 1, remaining, done, acc =>
    if remaining.isEmpty then acc
    else
      let lvl := remaining.filter fun n =>
        (if keys.contains n then depsOf n else []).all fun d => done.contains d || !nodes.contains d
      if lvl.isEmpty then acc
      else levels keys nodes depsOf fuel (remaining.filter fun n => !lvl.contains n) (done ++ lvl) (acc ++ [lvl])

/-- repair 5c7e970: the fields of the set that are in no ordered group form a last group -/
def withRest (rsFields : List Nat) (groups : List (List Nat)) : List (List Nat) :=
  let rest := rsFields.filter fun f => !groups.flatten.contains f
  if rest.isEmpty then groups else groups ++ [rest]

/-- `RandInfoBuilder.build`: ordered groups of a rand set from the solve_order pairs
    `(before, after)`: toposort levels restricted to the set's fields in field order; after repair
    5c7e970 the fields no directive mentions form a last group.  `none` = no directive applies. -/
def orderGroups (rsFields : List Nat) (pairs : List (Nat × Nat)) : Option (List (List Nat)) :=
  let depsOf : Nat → List Nat := fun a => (pairs.filter (fun p => p.2 == a && p.1 != a)).map (·.1)
  let keys := rsFields.filter fun f => pairs.any (fun p => p.2 == f)
  if keys.isEmpty then none
  else
    let nodes := (keys ++ keys.flatMap depsOf).eraseDups
    let lv := levels keys nodes depsOf (nodes.length + 1) nodes [] []
    let groups := (lv.map fun fs => rsFields.filter fun f => fs.contains f).filter fun g => !g.isEmpty
    some (withRest rsFields groups)

end Pyvsc.RandSets
