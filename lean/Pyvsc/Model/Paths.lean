/-!
# Member paths of an object tree (`FieldCompositeModel.field_l`, `rand_obj.build_field_model`,
`ExprIndexedFieldRefModel.get_target`)

A random object is a composite of named members: scalars and sub-objects (a list of objects is a
composite of its `size` scalar and its elements `name[k]`).  Scalars are numbered in the order
construction visits them (members in `dir()` order, depth first).  A constraint names a field by the
attribute path from the object the constraint belongs to.
-/
namespace Pyvsc.Paths

mutual
inductive Shape
  | scalar
  | obj (ms : Members)
inductive Members
  | nil
  | cons (name : String) (s : Shape) (rest : Members)
end

instance : Inhabited Members := ⟨.nil⟩
instance : Inhabited Shape := ⟨.scalar⟩

mutual
/-- number of scalars below a shape -/
def Shape.nsc : Shape → Nat
  | .scalar => 1
  | .obj ms => ms.nsc
def Members.nsc : Members → Nat
  | .nil => 0
  | .cons _ s rest => s.nsc + rest.nsc
end

/-- the member lookup by name *and kind* (`kids.find?`): a scalar is wanted for the last path
    component, a composite for every other -/
def kindOk : Shape → List String → Bool
  | .scalar, [] => true
  | .obj _, _ :: _ => true
  | _, _ => false

mutual
/-- id of the scalar the path `ps` names below shape `s` whose first scalar has id `base` -/
def Shape.resolveIn : Shape → Nat → List String → Option Nat
  | .scalar, base, [] => some base
  | .scalar, _, _ :: _ => none
  | .obj _, _, [] => none
  | .obj ms, base, p :: ps => ms.resolve base p ps
/-- id of the scalar named by `p :: ps` among the members `ms`, the first of which starts at `base` -/
def Members.resolve : Members → Nat → String → List String → Option Nat
  | .nil, _, _, _ => none
  | .cons n s rest, base, p, ps =>
      if n = p ∧ kindOk s ps = true then s.resolveIn base ps else rest.resolve (base + s.nsc) p ps
end

mutual
/-- all scalar paths below a shape, in id order -/
def Shape.paths : Shape → List (List String)
  | .scalar => [[]]
  | .obj ms => ms.paths
def Members.paths : Members → List (List String)
  | .nil => []
  | .cons n s rest => (s.paths.map (n :: ·)) ++ rest.paths
end

end Pyvsc.Paths
