import Pyvsc.Model.Ranges
/-!
# Model of wildcard bins (`impl/wildcard_bin_factory.py`, `coverage.py` wildcard_bin[_array],
`model/coverpoint_bin_single_wildcard_model.py`)
-/
namespace Pyvsc.Wildcard

def isWild (c : Char) : Bool := c == 'x' || c == 'X' || c == '?'

/-- value of one ASCII hex digit character -/
def digitRaw (c : Char) : Option Nat :=
  if '0' ≤ c ∧ c ≤ '9' then some (c.toNat - '0'.toNat)
  else if 'a' ≤ c ∧ c ≤ 'f' then some (c.toNat - 'a'.toNat + 10)
  else if 'A' ≤ c ∧ c ≤ 'F' then some (c.toNat - 'A'.toNat + 10)
  else none

/-- Python `int(c, base)` for one ASCII character; `none` = ValueError -/
def digitVal (base : Nat) (c : Char) : Option Nat :=
  match digitRaw c with
  | some v => if v < base then some v else none
  | none => none

/-- the per-character loop of `str2bin` for digits of `bits` bits each -/
def parseDigits (bits : Nat) : List Char → Nat → Nat → Option (Nat × Nat)
  | [], value, mask => some (value, mask)
  | c :: cs, value, mask =>
    if c == '_' then parseDigits bits cs value mask
    else
      let value := value <<< bits
      let mask := mask <<< bits
      if isWild c then parseDigits bits cs value mask
      else match digitVal (2 ^ bits) c with
        | none => none
        | some d => parseDigits bits cs (value ||| d) (mask ||| (2 ^ bits - 1))

/-- base prefix of a pattern string: bits per digit and the digit characters -/
def basePrefix : List Char → Option (Nat × List Char)
  | '0' :: 'o' :: cs | '0' :: 'O' :: cs => some (3, cs)
  | '0' :: 'x' :: cs | '0' :: 'X' :: cs => some (4, cs)
  | '0' :: 'b' :: cs | '0' :: 'B' :: cs => some (1, cs)
  | _ => none

/-- `WildcardBinFactory.str2bin`; `none` = exception -/
def str2bin (s : String) : Option (Nat × Nat) :=
  match basePrefix s.toList with
  | some (bits, cs) => parseDigits bits cs 0 0
  | none => none

/-- the `while mask_t != 0` scan of `valmask2binlist`: groups `(start_bit, n_bits)` of consecutive
    zero bits of the mask below its highest set bit, lowest group first.  `fuel` bounds the number of
    bit positions scanned (`mask_t` halves every step, so `mask + 1` is always enough). -/
def groupsF : Nat → Nat → Nat → Option (Nat × Nat) → List (Nat × Nat)
  | 0, _, _, cur => (match cur with | some g => [g] | none => [])
  | fuel + 1, m, i, cur =>
    if m = 0 then (match cur with | some g => [g] | none => [])
    else if m % 2 = 0 then
      groupsF fuel (m / 2) (i + 1) (match cur with | some (s, n) => some (s, n + 1) | none => some (i, 1))
    else
      match cur with
      | some g => g :: groupsF fuel (m / 2) (i + 1) none
      | none => groupsF fuel (m / 2) (i + 1) none

def groups (mask : Nat) : List (Nat × Nat) := groupsF (mask + 1) mask 0 none

/-- scatter the counter `vi` into the wildcard groups on top of `base` -/
def scatter (base : Nat) : List (Nat × Nat) → Nat → Nat
  | [], _ => base
  | (s, n) :: ds, vi => scatter (base ||| ((vi % 2 ^ n) <<< s)) ds (vi / 2 ^ n)

/-- append a value to the range list, merging with the last range when adjacent
    (`ranges` is kept reversed: head = last range) -/
def pushVal (rev : List (Nat × Nat)) (v : Nat) : List (Nat × Nat) :=
  match rev with
  | (lo, hi) :: rest => if hi + 1 = v then (lo, v) :: rest else (v, v) :: (lo, hi) :: rest
  | [] => [(v, v)]

/-- `WildcardBinFactory.valmask2binlist`; `none` = "limited to 20 mask bits" exception -/
def valmask2binlist (value mask : Nat) : Option (List (Nat × Nat)) :=
  let ds := groups mask
  let total := (ds.map (·.2)).sum
  if total > 20 then none
  else
    let vals := (List.range (2 ^ total)).map (scatter (value &&& mask) ds)
    some (vals.foldl pushVal []).reverse

/-- overlap collapse of `wildcard_bin_array.__init__` on a list sorted by low (after the F27 repair:
    the merged range keeps the larger upper bound), seen from the range at position `i` -/
def collapseGo (cur : Ranges.Range) : Ranges.RL → Ranges.RL
  | [] => [cur]
  | y :: rest =>
    if cur.2 + 1 ≥ y.1 then collapseGo (cur.1, max cur.2 y.2) rest else cur :: collapseGo y rest

def collapse : Ranges.RL → Ranges.RL
  | [] => []
  | x :: xs => collapseGo x xs

/-- a wildcard pattern argument: a digit string or a `(value, mask)` pair -/
inductive Pat
  | str (s : String)
  | vm (value mask : Nat)

def Pat.valmask : Pat → Option (Nat × Nat)
  | .str s => str2bin s
  | .vm v m => some (v, m)

/-- the range list `wildcard_bin_array.__init__` ends with: expansion of every pattern,
    stable sort by low, overlap collapse -/
def wildArrayRanges (pats : List Pat) : Option Ranges.RL := do
  let rls ← pats.mapM (fun p => do
    let (v, m) ← p.valmask
    valmask2binlist v m)
  let all : Ranges.RL := rls.flatten.map (fun r => ((r.1 : Int), (r.2 : Int)))
  pure (collapse (Ranges.sortByLow all))

/-- `CoverpointBinSingleWildcardModel.sample` hit test (after the F28 repair: the value is
    compared on the care bits only) -/
def wcHit (specs : List (Nat × Nat)) (v : Nat) : Bool :=
  specs.any (fun s => (v &&& s.2) == (s.1 &&& s.2))

end Pyvsc.Wildcard
