import Pyvsc.Model.Ranges
import Pyvsc.Model.Wildcard
/-!
# Model of coverpoint bins (`coverage.py` bin / bin_array / wildcard bins / auto-bins,
`model/coverpoint_bin_*_model.py`, `model/coverpoint_model.py`)
-/
namespace Pyvsc.Bins
open Pyvsc.Ranges

/-- leaf bin models -/
inductive Leaf
  | arr (name : String) (lo hi : Int)            -- CoverpointBinArrayModel: one bin per value
  | bag (name : String) (rl : RL)                -- CoverpointBinSingleBagModel
  | rng (name : String) (lo hi : Int)            -- CoverpointBinSingleRangeModel
  | val (name : String) (v : Int)                -- CoverpointBinSingleValModel
  | enm (name : String) (v : Int)                -- CoverpointBinEnumModel
  | wild (name : String) (specs : List (Nat × Nat))  -- CoverpointBinSingleWildcardModel
  deriving Repr

/-- top-level bin models of a coverpoint -/
inductive BinM
  | leaf (l : Leaf)
  | coll (name : String) (bins : List Leaf)       -- CoverpointBinCollectionModel
  deriving Repr

def Leaf.nBins : Leaf → Int
  | .arr _ lo hi => hi - lo + 1
  | _ => 1

def BinM.nBins : BinM → Int
  | .leaf l => l.nBins
  | .coll _ bs => (bs.map Leaf.nBins).sum

/-- local hit index of a leaf for sampled value `v` (`hit_bin_idx`), `none` = -1 -/
def Leaf.hit (l : Leaf) (v : Int) : Option Int :=
  match l with
  | .arr _ lo hi => if lo ≤ v ∧ v ≤ hi then some (v - lo) else none
  | .bag _ rl => if contains rl v then some 0 else none
  | .rng _ lo hi => if lo ≤ v ∧ v ≤ hi then some 0 else none
  | .val _ t => if v = t then some 0 else none
  | .enm _ t => if v = t then some 0 else none
  | .wild _ specs => if 0 ≤ v ∧ Wildcard.wcHit specs v.toNat then some 0 else none

/-- bin name of local index `i` of a leaf whose `bin_idx_base` is `base` -/
def Leaf.name (l : Leaf) (base i : Int) : String :=
  match l with
  | .arr n _ _ => n ++ "[" ++ toString (base + i) ++ "]"
  | .bag n _ | .rng n _ _ | .val n _ | .enm n _ | .wild n _ => n

/-- flat indices (relative to `base`) hit by `v` in a list of leaves laid out consecutively
    (each leaf's `sample` calls `coverage_ev(bin_idx_base + local)`) -/
def leavesHits : List Leaf → Int → Int → List Int
  | [], _, _ => []
  | l :: ls, base, v =>
    (match l.hit v with | some i => [base + i] | none => []) ++ leavesHits ls (base + l.nBins) v

def BinM.hits (b : BinM) (base v : Int) : List Int :=
  match b with
  | .leaf l => leavesHits [l] base v
  | .coll _ bs => leavesHits bs base v

def binsHits : List BinM → Int → Int → List Int
  | [], _, _ => []
  | b :: bs, base, v => b.hits base v ++ binsHits bs (base + b.nBins) v

/-- the `hit_idx()` a cross reads from a top-level bin model: for a collection, the *last*
    sub-bin that hit (offset by the preceding sub-bins) -/
def leavesHitIdx : List Leaf → Int → Int → Option Int → Option Int
  | [], _, _, acc => acc
  | l :: ls, off, v, acc =>
    leavesHitIdx ls (off + l.nBins) v (match l.hit v with | some i => some (off + i) | none => acc)

def BinM.hitIdx (b : BinM) (v : Int) : Option Int :=
  match b with
  | .leaf l => l.hit v
  | .coll _ bs => leavesHitIdx bs 0 v none

/-- name lookup loop (`_get_target_bin` / collection `get_bin_name`): first model whose
    `n_bins > idx`, else the last one -/
def leafNameAt : List Leaf → Int → Int → Option String
  | [], _, _ => none
  | [l], base, i => some (l.name base i)
  | l :: l2 :: ls, base, i =>
    if l.nBins > i then some (l.name base i) else leafNameAt (l2 :: ls) (base + l.nBins) (i - l.nBins)

/-- array bins are numbered from the start of the enclosing top-level bin model (F32 repair), so
    the coverpoint-wide base is not used -/
def BinM.nameAt (b : BinM) (_base i : Int) : Option String :=
  match b with
  | .leaf l => some (l.name 0 i)
  | .coll _ bs => leafNameAt bs 0 i

def binNameAt : List BinM → Int → Int → Option String
  | [], _, _ => none
  | [b], base, i => b.nameAt base i
  | b :: b2 :: bs, base, i =>
    if b.nBins > i then b.nameAt base i else binNameAt (b2 :: bs) (base + b.nBins) (i - b.nBins)

/-! ### `CoverpointBinCollectionModel.mk_collection` -/

def nValues (rl : RL) : Int := (rl.map (fun r => if r.1 = r.2 then 1 else r.2 - r.1 + 1)).sum

/-- the inner `while n_remaining > 0` loop: ranges collected into the bag, remaining range list.
    `none` = IndexError (ran out of ranges) -/
def takeN : Nat → Int → RL → RL → Option (RL × RL)
  | 0, _, _, _ => none
  | fuel + 1, n, rem, acc =>
    if n ≤ 0 then some (acc, rem)
    else match rem with
      | [] => none
      | r :: rest =>
        if r.2 - r.1 < n then takeN fuel (n - (r.2 - r.1 + 1)) rest (acc ++ [r])
        else some (acc ++ [(r.1, r.1 + n - 1)], (r.1 + n, r.2) :: rest)

/-- the `for bin_i in range(n_bins)` loop; state: remaining ranges (head possibly trimmed),
    name index, bins so far -/
def partLoop (name : String) (vpb : Int) (haveLeft : Bool) (nBins : Nat) :
    Nat → RL → Nat → List Leaf → Option (RL × List Leaf)
  | 0, rem, _, bins => some (rem, bins)
  | k + 1, rem, idx, bins =>
    let binI := nBins - (k + 1)
    match rem with
    | [] => none
    | r :: rest =>
      let nm := name ++ "[" ++ toString idx ++ "]"
      let size := r.2 - r.1 + 1
      if size ≥ vpb then
        let b := if binI + 1 < nBins || !haveLeft then Leaf.rng nm r.1 (r.1 + vpb - 1)
                 else Leaf.bag nm [(r.1, r.2)]
        let rem' := if size > vpb then (r.1 + vpb, r.2) :: rest else rest
        partLoop name vpb haveLeft nBins k rem' (idx + 1) (bins ++ [b])
      else
        match takeN (rest.length + 2) (vpb - size) rest [(r.1, r.2)] with
        | none => none
        | some (acc, rem') => partLoop name vpb haveLeft nBins k rem' (idx + 1) (bins ++ [Leaf.bag nm acc])

/-- append the leftover ranges to the last bin's `binspec`; `none` = AttributeError/IndexError -/
def addLeftover (bins : List Leaf) (rem : RL) : Option (List Leaf) :=
  if rem.isEmpty then some bins
  else match bins.reverse with
    | Leaf.bag n rl :: before => some (before.reverse ++ [Leaf.bag n (rl ++ rem)])
    | _ => none

/-- `mk_collection(name, rangelist, n_bins)` (after the F29 repair: integer division) -/
def mkCollection (name : String) (rl : RL) (nBins : Int) : Option BinM :=
  let nv := nValues rl
  if nBins < nv then
    if nBins ≤ 0 then none   -- ZeroDivisionError / nothing sensible
    else
      let vpb := nv / nBins
      let haveLeft := nv % nBins != 0
      match partLoop name vpb haveLeft nBins.toNat nBins.toNat rl 0 [] with
      | none => none
      | some (rem, bins) => (addLeftover bins rem).map (BinM.coll name ·)
  else
    let rec noPart : RL → Int → List Leaf
      | [], _ => []
      | r :: rs, idx =>
        if r.1 = r.2 then Leaf.val (name ++ "[" ++ toString idx ++ "]") r.1 :: noPart rs (idx + 1)
        else Leaf.arr name r.1 r.2 :: noPart rs (idx + (r.2 - r.1 + 1))
    some (BinM.coll name (noPart rl 0))

/-! ### bin specifications of `coverage.py` -/

/-- `bin(*args).build_cov_model(parent, name, exclude)`; `none` in the option = bin dropped -/
def buildBin (name : String) (ranges : RL) (exclude : RL) : Option (Option BinM) :=
  let rl := compact ranges
  match (if exclude.isEmpty then some rl else subtract rl exclude) with
  | none => none
  | some rl => some (if rl.isEmpty then none else some (BinM.leaf (Leaf.bag name rl)))

/-- `bin_array(nbins, *args).build_cov_model`; `nbins = -1` means "one bin per value" -/
def buildBinArray (name : String) (nbins : Int) (ranges : RL) (exclude : RL) : Option BinM :=
  let rl0 := compact ranges
  match (if exclude.isEmpty then some rl0 else subtract rl0 exclude) with
  | none => none
  | some rl =>
    if nbins = -1 then
      match rl with
      | [r] => some (BinM.leaf (Leaf.arr name r.1 r.2))
      | _ =>
        let rec go : RL → Int → List Leaf
          | [], _ => []
          | r :: rs, idx =>
            if r.1 ≠ r.2 then Leaf.arr name r.1 r.2 :: go rs (idx + (r.2 - r.1 + 1))
            else Leaf.val (name ++ "[" ++ toString idx ++ "]") r.1 :: go rs (idx + 1)
        some (BinM.coll name (go rl 0))
    else mkCollection name rl nbins

/-- `wildcard_bin_array(nbins, …).build_cov_model` from the already collapsed range list -/
def buildWildArray (name : String) (nbins : Int) (rl : RL) : Option BinM :=
  if nbins = -1 then
    match rl with
    | [r] => some (BinM.leaf (Leaf.arr name r.1 r.2))
    | _ =>
      let rec go : RL → Int → List Leaf
        | [], _ => []
        | r :: rs, idx =>
          if r.1 ≠ r.2 then Leaf.arr name r.1 r.2 :: go rs (idx + (r.2 - r.1 + 1))
          else Leaf.val (name ++ "[" ++ toString idx ++ "]") r.1 :: go rs (idx + 1)
      some (BinM.coll name (go rl 0))
  else mkCollection name rl nbins

/-- auto-bins of an integer coverpoint type -/
def buildAuto (name : String) (w : Nat) (s : Bool) (exclude : RL) (autoBinMax : Int) : Option BinM :=
  let full : RL := if s then [(-(2 ^ (w - 1) : Int), (2 ^ (w - 1) : Int) - 1)] else [(0, (2 ^ w : Int) - 1)]
  match (if exclude.isEmpty then some full else subtract full (compact exclude)) with
  | none => none
  | some rl => mkCollection name rl autoBinMax

/-- auto-bins of an enum coverpoint: one bin per remaining enumerator value, names supplied -/
def buildEnumAuto (vals : List (Int × String)) (exclude : RL) : Option (List BinM) :=
  let rl := compact (vals.map (fun p => (p.1, p.1)))
  match (if exclude.isEmpty then some rl else subtract rl exclude) with
  | none => none
  | some rl =>
    some (rl.map (fun r =>
      -- `ei.v2e_m[v[0]]`: the dict keeps the last enumerator written for a value
      let nm := match (vals.filter (fun p => p.1 == r.1)).getLast? with | some p => p.2 | none => "?"
      BinM.leaf (Leaf.enm nm r.1)))

/-! ### coverpoint state machine -/

structure Cp where
  bins : List BinM
  ignore : List BinM
  illegal : List BinM
  deriving Repr

structure Hits where
  hit : List Nat
  ign : List Nat
  ill : List Nat
  deriving Repr, BEq

def totalBins (bs : List BinM) : Int := (bs.map BinM.nBins).sum

def Cp.init (c : Cp) : Hits :=
  { hit := List.replicate (totalBins c.bins).toNat 0,
    ign := List.replicate (totalBins c.ignore).toNat 0,
    ill := List.replicate (totalBins c.illegal).toNat 0 }

def bump (l : List Nat) (i : Int) : List Nat :=
  if i < 0 then l else l.modify i.toNat (· + 1)

/-- `CoverpointModel.sample()` with the iff value and the target value of this sample -/
def Cp.sample (c : Cp) (h : Hits) (iff : Bool) (v : Int) : Hits :=
  if iff then
    { hit := (binsHits c.bins 0 v).foldl bump h.hit,
      ign := (binsHits c.ignore 0 v).foldl bump h.ign,
      ill := (binsHits c.illegal 0 v).foldl bump h.ill }
  else h

def Cp.run (c : Cp) (samples : List (Bool × Int)) : Hits :=
  samples.foldl (fun h s => c.sample h s.1 s.2) c.init

end Pyvsc.Bins
