import Pyvsc.Model.Expr
/-!
# Object trees: instantiation, field paths, used-as-random propagation, enabled blocks, callbacks

Mirrors
* `rand_obj.py` `build_field_model` (members and blocks discovered through `dir()`: sorted by
  name, most-derived definition of a name wins), `field_composite_model.py` `add_field`
  (`field_id_m`), `types.py` `to_expr` / `expr.__getattr__` (paths of member names);
* `field_composite_model.py` / `field_scalar_model.py` `set_used_rand`
  (root of the call at level 0; below it: declared random and `rand_mode` on, under a composite
  that is itself used as random);
* `constraints.py` `constraint_t` / `impl/constraint_proxy.py` / `constraint_block_model.py`
  (per-instance `enabled` flag), `rand_info_builder.py` `visit_constraint_block` /
  `visit_composite_field` (disabled blocks and blocks of composites that are not used as random
  are skipped);
* `field_composite_model.py` `pre_randomize` / `post_randomize` (pre-order, only composites that
  are used as random).

A tree is a `Node`; the children of an object are a `seq` chain (same encoding as `Stmt` scopes).
Every scalar and every object carries a unique id given by instantiation order.
-/
namespace Pyvsc.World

inductive Node
  | scalar (id : Nat) (declRand randMode : Bool)
  | obj (id : Nat) (declRand randMode : Bool) (children : Node)
  | nil
  | seq (head : Node) (tail : Node)
  deriving Repr

/-- `set_used_rand(is_rand, level)` over a subtree: the list of `(scalar id, is_used_rand)` and
    `(object id, is_used_rand)` it leaves behind, in visit order -/
def used : Node → Bool → Bool → List (Nat × Bool) × List (Nat × Bool)
  | .scalar id d m, parentUsed, isRoot => ([(id, parentUsed && ((d && m) || isRoot))], [])
  | .obj id d m ch, parentUsed, isRoot =>
      let u := parentUsed && ((d && m) || isRoot)
      let r := used ch u false
      (r.1, (id, u) :: r.2)
  | .nil, _, _ => ([], [])
  | .seq h t, parentUsed, isRoot =>
      let a := used h parentUsed isRoot
      let b := used t parentUsed isRoot
      (a.1 ++ b.1, a.2 ++ b.2)

/-- the call `target.randomize()`: `set_used_rand(True, 0)` on the target -/
def usedInCall (target : Node) : List (Nat × Bool) × List (Nat × Bool) := used target true true

/-- `pre_randomize` / `post_randomize` propagation: ids of the objects whose callback fires, in
    order (`usedObj` = the object part of `usedInCall`) -/
def callbacks (usedObj : List (Nat × Bool)) : List Nat := (usedObj.filter (·.2)).map (·.1)

/-- scalar ids of a subtree in visit order -/
def scalars : Node → List Nat
  | .scalar id _ _ => [id]
  | .obj _ _ _ ch => scalars ch
  | .nil => []
  | .seq h t => scalars h ++ scalars t

/-- object ids of a subtree in pre-order -/
def objects : Node → List Nat
  | .scalar _ _ _ => []
  | .obj id _ _ ch => id :: objects ch
  | .nil => []
  | .seq h t => objects h ++ objects t

/-! ### per-instance constraint_mode flags -/

/-- history of `obj.block.constraint_mode(en)` calls: (object id, block name, value) -/
abbrev Toggles := List (Nat × String × Bool)

/-- the flag of block `name` of object `o` after the history (default: on) -/
def enabled (h : Toggles) (o : Nat) (name : String) : Bool :=
  match h.reverse.find? (fun t => t.1 == o && t.2.1 == name) with
  | some t => t.2.2
  | none => true

/-- blocks of a class after inheritance: definitions are listed base class first; a later
    definition of a name replaces the earlier one (attribute lookup), and `dir()` yields the
    names sorted -/
def mostDerived (defs : List (String × α)) : List (String × α) :=
  let names := (defs.map (·.1)).eraseDups
  names.filterMap fun n => (defs.reverse.find? (fun d => d.1 == n))

def usedOf (l : List (Nat × Bool)) (id : Nat) : Bool :=
  match l.find? (fun p => p.1 == id) with | some p => p.2 | none => false

/-- a block of object `o` enters the call iff its flag is on and `o` is used as random
    (`RandInfoBuilder.visit_constraint_block` / `visit_composite_field`) -/
def blockActive (h : Toggles) (usedObj : List (Nat × Bool)) (o : Nat) (name : String) : Bool :=
  enabled h o name && usedOf usedObj o

def insertSorted (x : String × α) : List (String × α) → List (String × α)
  | [] => [x]
  | y :: ys => if x.1 < y.1 then x :: y :: ys else y :: insertSorted x ys

def sortByName (l : List (String × α)) : List (String × α) := l.foldr insertSorted []

end Pyvsc.World
