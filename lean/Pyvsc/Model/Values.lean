/-!
# Model of pyvsc's scalar value paths (property C18)

Mirrors, after the `fix:` commits for F03/F04:
* `types.py` `type_base.set_val` / `val.setter` / `get_val` / `__getitem__` / `__setitem__`
* `types.py` `list_t.append` / `__setitem__` / `__getitem__` / `__iter__`
* `field_scalar_model.py` `post_randomize` (two's-complement read-back)
* `impl/enum_info.py` `EnumInfo`

Python facts used as modelling conventions (validated exhaustively by the correspondence
sweep, not assumed silently): for unbounded ints `x & ((1 << w) - 1) = x mod 2^w`
(Euclidean), `~x = -x - 1`, `x >> k = ⌊x / 2^k⌋`, `x << k = x * 2^k`, and `1 << k` raises
`ValueError` for negative `k`.
-/
namespace Pyvsc.Values

/-- Python `x & ((1 << w) - 1)` -/
def pyMask (w : Nat) (x : Int) : Int := x % (2 ^ w : Int)

/-- Python `(x & (1 << k)) != 0` -/
def pyBit (x : Int) (k : Nat) : Bool := (x / (2 ^ k : Int)) % 2 == 1

/-- `-((~v & mask) + 1)`: the sign conversion used by `list_t.__getitem__`, `__iter__`
    and `FieldScalarModel.post_randomize` -/
def negConv (w : Nat) (v : Int) : Int := -((pyMask w (-v - 1)) + 1)

/-- `type_base.set_val` / `val.setter` / attribute assignment / constructor `i=`:
    the integer stored in the model for a user value `v`. -/
def scalarWrite (w : Nat) (s : Bool) (v : Int) : Int :=
  let m := pyMask w v
  if s then (if pyBit m (w - 1) then m - (2 ^ w : Int) else m) else m

/-- `type_base.get_val` / `.val` / attribute read: the stored integer, as is. -/
def scalarRead (stored : Int) : Int := stored

/-- `list_t.append` / `__setitem__` / list `init`: always masked. -/
def listWrite (w : Nat) (v : Int) : Int := pyMask w v

/-- `list_t.__getitem__` / `__iter__`: sign conversion on read. -/
def listRead (w : Nat) (s : Bool) (stored : Int) : Int :=
  if s then (if pyBit stored (w - 1) then negConv w stored else stored) else stored

/-- `FieldScalarModel.post_randomize`: integer written back from a `w`-bit solver pattern. -/
def readBack (w : Nat) (s : Bool) (pattern : Nat) : Int :=
  let val : Int := pattern
  if s && pyBit val (w - 1) then negConv w val else val

/-- `type_base.__getitem__` with a slice `[hi:lo]` outside expression mode.
    `none` = Python raises (negative shift count). -/
def partRead (cur : Int) (hi lo : Int) : Option Int :=
  if lo < 0 ∨ hi - lo + 1 < 0 then none
  else some ((cur / (2 ^ lo.toNat : Int)) % (2 ^ (hi - lo + 1).toNat : Int))

/-- `type_base.__getitem__` with a single index. -/
def bitRead (cur : Int) (k : Int) : Option Int :=
  if k < 0 then none else some ((cur / (2 ^ k.toNat : Int)) % 2)

/-- `type_base.__setitem__` with a slice (after the F04 repair):
    `msk = ((1 << (hi-lo+1))-1) << lo; curr = (curr & ~msk) | ((val << lo) & msk)`. -/
def partWrite (cur : Int) (hi lo : Int) (val : Int) : Option Int :=
  if lo < 0 ∨ hi - lo + 1 < 0 then none
  else
    let n := (hi - lo + 1).toNat
    let p : Int := 2 ^ lo.toNat
    some (cur - ((cur / p) % (2 ^ n : Int)) * p + (val % (2 ^ n : Int)) * p)

/-- `type_base.__setitem__` with a single index (after the F04 repair):
    `curr = (curr & ~(1 << k)) | ((val & 1) << k)`. -/
def bitWrite (cur : Int) (k : Int) (val : Int) : Option Int :=
  if k < 0 then none
  else
    let p : Int := 2 ^ k.toNat
    some (cur - ((cur / p) % 2) * p + (val % 2) * p)

/-! ### Enums (`EnumInfo`) -/

/-- `EnumInfo.__init__`: the value list, given for each member `some v` (IntEnum: `int(en)`)
    or `none` (plain Enum: running counter). -/
def enumValues : List (Option Int) → Int → List Int
  | [], _ => []
  | some v :: rest, _ => v :: enumValues rest (v + 1)
  | none :: rest, i => i :: enumValues rest (i + 1)

/-- `e2v`: member index ↦ value -/
def e2v (vals : List Int) (idx : Nat) : Option Int := vals[idx]?

/-- `v2e`: value ↦ member index; the dict keeps the *last* member written for a value -/
def v2e (vals : List Int) (v : Int) : Option Nat :=
  let rec go : List Int → Nat → Option Nat → Option Nat
    | [], _, acc => acc
    | x :: xs, i, acc => go xs (i + 1) (if x == v then some i else acc)
  go vals 0 none

/-- `type_base.__setitem__` with a slice, as the field stores it (after the repair 'part-select
    assignment stores the result in the field's declared type'): the combined integer goes
    through `set_val`. -/
def partWriteField (w : Nat) (s : Bool) (cur : Int) (hi lo : Int) (val : Int) : Option Int :=
  (partWrite cur hi lo val).map (scalarWrite w s)

/-- `type_base.__setitem__` with a single index, as the field stores it -/
def bitWriteField (w : Nat) (s : Bool) (cur : Int) (k : Int) (val : Int) : Option Int :=
  (bitWrite cur k val).map (scalarWrite w s)

end Pyvsc.Values
