/-!
# Reference semantics for C18: the value of a field of declared type `(w, s)`
-/
namespace Pyvsc.Spec

/-- the integer a field of width `w` and signedness `s` holds after being assigned `v`:
    `v` reduced modulo `2^w` and, for signed types, re-read as two's complement -/
def wrap (w : Nat) (s : Bool) (v : Int) : Int :=
  let m := v % (2 ^ w : Int)
  if s = true ∧ (2 ^ (w - 1) : Int) ≤ m then m - (2 ^ w : Int) else m

/-- membership in the declared type -/
def InType (w : Nat) (s : Bool) (x : Int) : Prop :=
  if s then -(2 ^ (w - 1) : Int) ≤ x ∧ x < (2 ^ (w - 1) : Int) else 0 ≤ x ∧ x < (2 ^ w : Int)

instance (w : Nat) (s : Bool) (x : Int) : Decidable (InType w s x) := by
  unfold InType; split <;> infer_instance

/-- bits `[hi:lo]` of `x` (infinite two's complement), as a non-negative integer -/
def bits (x : Int) (hi lo : Nat) : Int := (x / (2 ^ lo : Int)) % (2 ^ (hi - lo + 1) : Int)

end Pyvsc.Spec
