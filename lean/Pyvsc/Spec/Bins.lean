import Pyvsc.Model.Ranges
import Pyvsc.Model.Wildcard
/-!
# Reference semantics for C10 / C19: what a bin specification *means*

The text of the properties, as definitions over explicit value lists.
-/
namespace Pyvsc.Spec
open Pyvsc.Ranges

/-- the values of a range, ascending -/
def rangeVals (r : Range) : List Int := (List.range (r.2 - r.1 + 1).toNat).map (fun (k : Nat) => r.1 + (k : Int))

/-- ascending duplicate-free list of the values a range list denotes, minus the excluded ones -/
def specVals (l excl : RL) : List Int :=
  (((l.flatMap rangeVals).filter (fun v => !contains excl v)).mergeSort (· ≤ ·)).eraseDups

/-- "splits its ascending value list into the requested number of consecutive equal-size bins with
    the remainder in the last one (one bin per value when no count is given)"; a count that is not
    smaller than the number of values also gives one bin per value -/
def chunks (vals : List Int) (n : Int) : List (List Int) :=
  if n = -1 ∨ n ≥ vals.length then vals.map ([·])
  else
    let n' := n.toNat
    let q := vals.length / n'
    (List.range (n' - 1)).map (fun i => (vals.drop (i * q)).take q) ++ [vals.drop ((n' - 1) * q)]

/-- number of samples (taken while iff held) whose value lies in the bin -/
def countHits (bin : List Int) (samples : List (Bool × Int)) : Nat :=
  (samples.filter (fun s => s.1 && bin.contains s.2)).length

/-! ### wildcard patterns -/

/-- digits of a pattern string, most significant first; `none` = wildcard digit -/
def patDigits (bits : Nat) : List Char → Option (List (Option Nat))
  | [] => some []
  | c :: cs =>
    if c == '_' then patDigits bits cs
    else if Wildcard.isWild c then (patDigits bits cs).map (none :: ·)
    else match Wildcard.digitVal (2 ^ bits) c with
      | none => none
      | some d => (patDigits bits cs).map (some d :: ·)

/-- digit `d` (`none` = wildcard) accepts the digit value `y mod 2^bits` -/
def digitOk (bits : Nat) (d : Option Nat) (y : Nat) : Bool :=
  match d with
  | none => true
  | some x => y % 2 ^ bits == x

/-- `v` agrees with the digits (given least significant first) on every non-wildcard digit;
    bits of `v` above the pattern are not constrained -/
def matchRev (bits : Nat) : List (Option Nat) → Nat → Bool
  | [], _ => true
  | d :: ds, v => digitOk bits d v && matchRev bits ds (v / 2 ^ bits)

/-- `v` matches the pattern string -/
def matchStr (s : String) (v : Nat) : Option Bool :=
  match Wildcard.basePrefix s.toList with
  | some (bits, cs) => (patDigits bits cs).map (fun ds => matchRev bits ds.reverse v)
  | none => none

/-- `v` agrees with `(value, mask)` on every non-wildcard (mask = 1) bit -/
def agrees (value mask v : Nat) : Bool := (v &&& mask) == (value &&& mask)

end Pyvsc.Spec
