import Pyvsc.Model.Expr
/-!
# Reference semantics of constraint expressions and statements (the Spec side of C01/C02/C05)

SystemVerilog-style meaning, as DESIGN.md section 5 fixes it: an operator node is evaluated at
the context width `W' = max(context, width of its operands)`; both operands are read as
integers — signed (two's complement) iff **both** operands are signed, unsigned otherwise — the
operator is applied on integers and the result is reduced modulo `2^W'`; comparisons compare the
integer readings; `/`, `%`, bitwise operators and shifts act on the operands' `W'`-bit
two's-complement patterns (SC2, SC3).  A field denotes its stored integer, a literal its
mathematical integer.  Nothing here mentions solver terms.
-/
namespace Pyvsc.Sem
open Pyvsc.Bv Pyvsc.Expr

/-- integer reading of a `w`-bit pattern under signedness `S` -/
def rd (S : Bool) (w x : Nat) : Int := if S then sint w x else (x : Int)

variable (Γ : Nat → FieldTy) (ρ : Nat → Int)

/-- width at which a node is computed in context `W` (SC6) -/
def cw : Expr → Nat → Nat
  | .lit _ _ w, W => max W w
  | .fld i, _ => (Γ i).w
  | .bin op l r, W => if op.isCmp then 1 else max W (max (width Γ l) (width Γ r))
  | .not e, W => cw e (max W (width Γ e))
  | .psel _ hi lo, _ => hi - lo + 1
  | .reset e, _ => cw e 0

/-- meaning of a binary operator at width `W` on the integer readings `a`, `b` -/
def opSem (op : BinOp) (W : Nat) (a b : Int) : Nat :=
  match op with
  | .eq => b2n (decide (a = b))
  | .ne => b2n (decide (a ≠ b))
  | .gt => b2n (decide (b < a))
  | .ge => b2n (decide (b ≤ a))
  | .lt => b2n (decide (a < b))
  | .le => b2n (decide (a ≤ b))
  | .add => pat W (a + b)
  | .sub => pat W (a - b)
  | .mul => pat W (a * b)
  | .div => if pat W b = 0 then 2 ^ W - 1 else pat W a / pat W b
  | .mod => if pat W b = 0 then pat W a else pat W a % pat W b
  | .and => pat W a &&& pat W b
  | .or => pat W a ||| pat W b
  | .xor => pat W a ^^^ pat W b
  | .sll => if pat W b < W then (pat W a * 2 ^ pat W b) % 2 ^ W else 0
  | .srl => if pat W b < W then pat W a / 2 ^ pat W b else 0

/-- value (bit pattern at `cw e W`) of `e` in context width `W` -/
def sval : Expr → Nat → Nat
  | .lit v _ w, W => pat (max W w) v
  | .fld i, _ => pat (Γ i).w (ρ i)
  | .bin op l r, W =>
      let W' := max W (max (width Γ l) (width Γ r))
      let S := signed Γ l && signed Γ r
      opSem op W' (rd S (cw Γ l W') (sval l W')) (rd S (cw Γ r W') (sval r W'))
  | .not e, W =>
      let W' := max W (width Γ e)
      2 ^ cw Γ e W' - 1 - sval e W'
  | .psel e hi lo, _ => (sval e 0 / 2 ^ lo) % 2 ^ (hi - lo + 1)
  | .reset e, _ => sval e 0

/-- an expression used as a condition / constraint holds iff its value is non-zero -/
def truthy (e : Expr) : Bool := sval Γ ρ e 0 != 0

/-- `a != b` in the sense of the language -/
def neHolds (a b : Expr) : Bool := sval Γ ρ (.bin .ne a b) 0 == 1

def allNe (e : Expr) : List Expr → Bool
  | [] => true
  | f :: fs => neHolds Γ ρ e f && allNe e fs

/-- pairwise distinct -/
def pairwiseNe : List Expr → Bool
  | [] => true
  | e :: es => allNe Γ ρ e es && pairwiseNe es

/-- meaning of a statement.  `soft = false`: the hard meaning, soft constraints contribute
    nothing.  `soft = true`: the meaning of an entry of the soft list (a soft constraint, or a
    soft constraint under its guards), where the soft expression itself must hold. -/
def mholds (soft : Bool) : Stmt → Bool
  | .expr e => truthy Γ ρ e
  | .soft e => if soft then truthy Γ ρ e else true
  | .unique es => pairwiseNe Γ ρ es
  | .nil => true
  | .cons s rest => mholds soft s && mholds soft rest
  | .ifThen c t => !truthy Γ ρ c || mholds soft t
  | .ifElse c t f => if truthy Γ ρ c then mholds soft t else mholds soft f
  | .implies c body => !truthy Γ ρ c || mholds soft body

/-- hard meaning of a statement -/
abbrev sholds : Stmt → Bool := mholds Γ ρ false

end Pyvsc.Sem
