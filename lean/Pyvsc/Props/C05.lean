import Pyvsc.Props.C01
/-!
# C05 — soft constraints: never fatal, honoured maximally, later ones win
-/
namespace Pyvsc.C05
open Pyvsc.Bv Pyvsc.Expr Pyvsc.Sem Pyvsc.Lower Pyvsc.Solve Pyvsc.C01

/-- **Never fatal.**  If the hard formulas are satisfiable the outcome is not `SolveFailure`,
    whatever the soft formulas are. -/
theorem soft_never_fatal (pre hard soft : List Bv) (groups : List (Option (List Bv)))
    (ans : List (Ans (Nat → Nat))) (hv : LogValid BvHolds (solve pre hard soft groups ans).log)
    (hs : Satisfiable BvHolds (hard ++ pre)) :
    (solve pre hard soft groups ans).out ≠ .solveFailure := by
  intro h
  exact ((solve_spec BvHolds pre hard soft groups ans hv).1.mp h).1 hs

/-- **Maximal.**  On success the model satisfies the hard formulas and every soft formula kept,
    and no rejected soft formula could have been honoured together with them. -/
theorem soft_maximal (pre hard soft : List Bv) (groups : List (Option (List Bv)))
    (ans : List (Ans (Nat → Nat))) (hv : LogValid BvHolds (solve pre hard soft groups ans).log)
    (σ : Nat → Nat) (hok : (solve pre hard soft groups ans).out = .ok σ) :
    (∀ f ∈ hard ++ pre, holds σ f = true) ∧
    (∀ f ∈ (solve pre hard soft groups ans).softKept, holds σ f = true) ∧
    (∀ c ∈ (solve pre hard soft groups ans).softRejected,
      ¬ Satisfiable BvHolds (c :: ((solve pre hard soft groups ans).softKept ++ (hard ++ pre)))) := by
  obtain ⟨hall, hsub, hk, _, hrej⟩ := (solve_spec BvHolds pre hard soft groups ans hv).2.1 σ hok
  exact ⟨fun f hf => hall f (hsub f hf), fun f hf => hall f (hk f hf), hrej⟩

/-- **Exact greedy by priority.**  The kept/rejected split is the one the reference greedy
    procedure makes walking the soft list (descending priority): a soft formula is kept iff it is
    satisfiable together with the hard formulas and the higher-priority soft formulas kept. -/
theorem soft_exact (pre hard soft : List Bv) (groups : List (Option (List Bv)))
    (ans : List (Ans (Nat → Nat))) (hv : LogValid BvHolds (solve pre hard soft groups ans).log)
    (σ : Nat → Nat) (hok : (solve pre hard soft groups ans).out = .ok σ) :
    GreedyRef BvHolds (hard ++ pre) soft (solve pre hard soft groups ans).softKept
      (solve pre hard soft groups ans).softRejected :=
  ((solve_spec BvHolds pre hard soft groups ans hv).2.1 σ hok).2.2.2.1

/-- in the reference greedy the first (highest-priority) soft formula wins whenever it is
    satisfiable with the hard formulas — whatever the lower-priority ones demand -/
theorem first_wins (holds : (Nat → Nat) → Bv → Prop) (as : List Bv) (c : Bv) (cs k r : List Bv)
    (h : GreedyRef holds as (c :: cs) k r) (hs : Satisfiable holds (c :: as)) : c ∈ k := by
  cases h with
  | keep _ _ _ k' _ _ _ => exact List.mem_cons_self ..
  | drop _ _ _ _ _ hn _ => exact absurd hs hn

/-! ### priorities: `ClearSoftPriorityVisitor`, `RandInfoBuilder.visit_constraint_soft`, the sort -/

/-- priority of the `k`-th soft constraint visited (0-based) when `n` are visited per pass:
    pass 0 adds `k`, pass 1 adds `n + k` -/
def prio (n k : Nat) : Nat := k + (n + k)

/-- insertion into a list sorted by descending priority (stable: after equal keys) -/
def insertDesc (x : Nat × α) : List (Nat × α) → List (Nat × α)
  | [] => [x]
  | y :: ys => if x.1 > y.1 then x :: y :: ys else y :: insertDesc x ys

def sortDesc : List (Nat × α) → List (Nat × α)
  | [] => []
  | x :: xs => insertDesc x (sortDesc xs)

def withPrio (n : Nat) : Nat → List α → List (Nat × α)
  | _, [] => []
  | k, c :: cs => (prio n k, c) :: withPrio n (k + 1) cs

theorem insertDesc_append (x : Nat × α) : ∀ (l : List (Nat × α)), (∀ y ∈ l, y.1 > x.1) →
    insertDesc x l = l ++ [x]
  | [], _ => rfl
  | y :: ys, h => by
      have hy := h y (List.mem_cons_self ..)
      have : ¬ x.1 > y.1 := by omega
      simp only [insertDesc, this, if_false, List.cons_append]
      rw [insertDesc_append x ys (fun z hz => h z (List.mem_cons_of_mem _ hz))]

theorem withPrio_lb (n : Nat) : ∀ (cs : List α) (k : Nat), ∀ y ∈ withPrio n k cs, y.1 ≥ prio n k
  | [], _, y, hy => by simp [withPrio] at hy
  | c :: cs, k, y, hy => by
      simp only [withPrio, List.mem_cons] at hy
      rcases hy with rfl | hy
      · exact Nat.le_refl _
      · have := withPrio_lb n cs (k + 1) y hy
        simp only [prio] at this ⊢; omega

theorem mem_sortDesc (l : List (Nat × α)) : ∀ y, y ∈ sortDesc l ↔ y ∈ l := by
  have hins : ∀ (x : Nat × α) (l : List (Nat × α)) y, y ∈ insertDesc x l ↔ y = x ∨ y ∈ l := by
    intro x l
    induction l with
    | nil => intro y; simp [insertDesc]
    | cons z zs ih =>
      intro y
      simp only [insertDesc]
      split
      · simp
      · simp only [List.mem_cons, ih]
        constructor
        · rintro (h | h | h)
          · exact Or.inr (Or.inl h)
          · exact Or.inl h
          · exact Or.inr (Or.inr h)
        · rintro (h | h | h)
          · exact Or.inr (Or.inl h)
          · exact Or.inl h
          · exact Or.inr (Or.inr h)
  induction l with
  | nil => intro y; simp [sortDesc]
  | cons x xs ih => intro y; simp only [sortDesc, hins, ih, List.mem_cons]

/-- **Later wins.**  Sorting the soft constraints of a call by descending priority yields the
    reverse of the order in which they were visited (class blocks in order, inline block last):
    the last-stated soft constraint is tried first. -/
theorem sort_is_reverse (n : Nat) : ∀ (cs : List α) (k : Nat),
    sortDesc (withPrio n k cs) = (withPrio n k cs).reverse
  | [], _ => rfl
  | c :: cs, k => by
      simp only [withPrio, sortDesc, List.reverse_cons]
      rw [sort_is_reverse n cs (k + 1)]
      apply insertDesc_append
      intro y hy
      have := withPrio_lb n cs (k + 1) y (List.mem_reverse.mp hy)
      simp only [prio] at this ⊢; omega

/-! ### guards: a soft constraint under if/else/implies is `guards → soft` -/

variable (Γ : Nat → FieldTy) (ρ : Nat → Int)

/-- **Guarded soft.**  The soft-list entry built for a soft constraint under guards
    (`ConstraintImpliesModel(and of guards, [soft])`, built in the soft pass) is true exactly when
    the guard is false or the soft expression holds. -/
theorem soft_guard (σ : Nat → Nat) (hσ : Agree Γ ρ σ) (g e : Expr)
    (hg : WF Γ g) (he : WF Γ e) :
    ∃ b, lowerStmt Γ ρ true (.implies g (.cons (.soft e) .nil)) = some b ∧
      (holds σ b = true ↔ (truthy Γ ρ g = true → truthy Γ ρ e = true)) := by
  have hwf : WFStmt Γ true (.implies g (.cons (.soft e) .nil)) :=
    ⟨hg, ⟨he, trivial, trivial⟩, trivial⟩
  have := (stmt_scope_sound Γ ρ σ hσ true _ hwf).1
  unfold StmtOk at this
  cases hl : lowerStmt Γ ρ true (.implies g (.cons (.soft e) .nil)) with
  | none => simp [lowerStmt] at hl
  | some b =>
    rw [hl] at this
    refine ⟨b, rfl, ?_⟩
    simp only [holds, this, mholds, if_true, Bool.and_true]
    cases truthy Γ ρ g <;> cases truthy Γ ρ e <;> simp [b2n]

/-- a plain soft constraint in the soft list means its expression -/
theorem soft_plain (σ : Nat → Nat) (hσ : Agree Γ ρ σ) (e : Expr) (he : WF Γ e) :
    holds σ (Expr.toBool (lower Γ ρ e 0)) = true ↔ truthy Γ ρ e = true := by
  have := (stmt_scope_sound Γ ρ σ hσ true (.soft e) he).1
  simp only [StmtOk, lowerStmt, if_true, mholds] at this
  simp only [holds, this]
  cases truthy Γ ρ e <;> simp [b2n]

/-! non-vacuity: two conflicting softs over a satisfiable hard system -/
example : GreedyRef BvHolds [Bv.cmp .ult (.var 0 4) (.const 8 4)]
    [Bv.cmp .eq (.var 0 4) (.const 9 4), Bv.cmp .eq (.var 0 4) (.const 3 4)]
    [Bv.cmp .eq (.var 0 4) (.const 3 4)] [Bv.cmp .eq (.var 0 4) (.const 9 4)] := by
  apply GreedyRef.drop
  · rintro ⟨σ, h⟩
    have h1 := h _ (List.mem_cons_self ..)
    have h2 := h _ (List.mem_cons_of_mem _ (List.mem_cons_self ..))
    simp [BvHolds, holds, eval, cmpSem, b2n] at h1 h2
    omega
  · apply GreedyRef.keep
    · refine ⟨fun _ => 3, ?_⟩
      intro f hf
      simp at hf
      rcases hf with rfl | rfl <;> simp [BvHolds, holds, eval, cmpSem, b2n]
    · exact GreedyRef.nil _

end Pyvsc.C05
