import Pyvsc.Model.World
import Mathlib.Data.List.Induction
/-!
# C07 — enforced blocks = most-derived, enabled, of this very instance
-/
namespace Pyvsc.C07
open Pyvsc.World

theorem default_on (o : Nat) (n : String) : enabled [] o n = true := by simp [enabled]

/-- the flag of `(o, n)` after a toggle on `(o, n)` is the toggled value -/
theorem toggle_sets (h : Toggles) (o : Nat) (n : String) (v : Bool) :
    enabled (h ++ [(o, n, v)]) o n = v := by
  simp [enabled, List.reverse_append, List.find?]

/-- **Isolation.**  A toggle on `(o, n)` leaves the flag of every other (instance, block) pair as it
    was — other instances of the same class, list elements, sub-objects, instances created later -/
theorem toggle_isolated (h : Toggles) (o o' : Nat) (n n' : String) (v : Bool)
    (hne : ¬ (o' = o ∧ n' = n)) :
    enabled (h ++ [(o, n, v)]) o' n' = enabled h o' n' := by
  have : ((o == o') && (n == n')) = false := by
    cases ho : (o == o') <;> cases hn : (n == n') <;> simp
    exact hne ⟨(beq_iff_eq.mp ho).symm, (beq_iff_eq.mp hn).symm⟩
  simp [enabled, List.reverse_append, List.find?, this]

/-- **Any sequence of toggles.**  The flag is the value of the last toggle on that pair, or on if
    there was none: switching off holds for all later calls until switched on again -/
theorem flag_is_last (h : Toggles) (o : Nat) (n : String) :
    enabled h o n = match (h.filter fun t => t.1 == o && t.2.1 == n).getLast? with
      | some t => t.2.2
      | none => true := by
  induction h using List.reverseRecOn with
  | nil => simp [enabled]
  | append_singleton h t ih =>
    obtain ⟨o', n', v⟩ := t
    by_cases hm : o' = o ∧ n' = n
    · obtain ⟨rfl, rfl⟩ := hm
      rw [toggle_sets]
      simp [List.filter_append, List.getLast?_append]
    · rw [toggle_isolated h o' o n' n v (fun ⟨a, b⟩ => hm ⟨a.symm, b.symm⟩), ih]
      have : ((o' == o) && (n' == n)) = false := by
        cases ho : (o' == o) <;> cases hn : (n' == n) <;> simp
        exact hm ⟨beq_iff_eq.mp ho, beq_iff_eq.mp hn⟩
      simp [List.filter_append, this]

/-- a block enters a call iff it is enabled on this instance and the instance is random in the
    call -/
theorem active_iff (h : Toggles) (usedObj : List (Nat × Bool)) (o : Nat) (n : String) :
    blockActive h usedObj o n = true ↔ enabled h o n = true ∧ usedOf usedObj o = true := by
  simp [blockActive]

/-! ### most-derived by name -/

/-- the definition kept for a name is the last one in base-to-derived order: the derived
    class's block replaces the base block of the same name -/
theorem mostDerived_is_last (defs : List (String × α)) (n : String) (x : α)
    (h : (n, x) ∈ mostDerived defs) :
    ∃ d, defs.reverse.find? (fun d => d.1 == n) = some d ∧ d.2 = x := by
  simp only [mostDerived, List.mem_filterMap] at h
  obtain ⟨m, _, hf⟩ := h
  have hk := List.find?_some hf
  simp only [beq_iff_eq] at hk
  have : m = n := by rw [← hk]
  subst this
  exact ⟨(m, x), hf, rfl⟩

example : (mostDerived [("c0", 1), ("c1", 2), ("c0", 3)]) = [("c0", 3), ("c1", 2)] := by decide
example : enabled [(1, "c0", false), (2, "c0", true), (1, "c0", true), (1, "c0", false)] 1 "c0" = false := by decide
example : enabled [(1, "c0", false)] 2 "c0" = true := by decide

end Pyvsc.C07
