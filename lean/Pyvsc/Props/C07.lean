import Pyvsc.Model.World
import Mathlib.Data.List.Induction
/-!
# C07 — enforced blocks = most-derived, enabled, of this very instance
-/
namespace Pyvsc.C07
open Pyvsc.World

theorem default_on (o : Nat) (n : String) : enabled [] o n = true := by simp [enabled]

/-- the flag of `(o, n)` after a toggle on `(o, n)` is the toggled value -/
theorem toggle_sets (h : Toggles) (o : Nat) (n : String) (v : Bool) :
    enabled (h ++ [(o, n, v)]) o n = v := by
  simp [enabled, List.reverse_append, List.find?]

/-- **Isolation.**  A toggle on `(o, n)` leaves the flag of every other (instance, block) pair as it
    was — other instances of the same class, list elements, sub-objects, instances created later -/
theorem toggle_isolated (h : Toggles) (o o' : Nat) (n n' : String) (v : Bool)
    (hne : ¬ (o' = o ∧ n' = n)) :
    enabled (h ++ [(o, n, v)]) o' n' = enabled h o' n' := by
  have : ((o == o') && (n == n')) = false := by
    cases ho : (o == o') <;> cases hn : (n == n') <;> simp
    exact hne ⟨(beq_iff_eq.mp ho).symm, (beq_iff_eq.mp hn).symm⟩
  simp [enabled, List.reverse_append, List.find?, this]

/-- **Any sequence of toggles.**  The flag is the value of the last toggle on that pair, or on if
    there was none: switching off holds for all later calls until switched on again -/
theorem flag_is_last (h : Toggles) (o : Nat) (n : String) :
    enabled h o n = match (h.filter fun t => t.1 == o && t.2.1 == n).getLast? with
      | some t => t.2.2
      | none => true := by
  induction h using List.reverseRecOn with
  | nil => simp [enabled]
  | append_singleton h t ih =>
    obtain ⟨o', n', v⟩ := t
    by_cases hm : o' = o ∧ n' = n
    · obtain ⟨rfl, rfl⟩ := hm
      rw [toggle_sets]
      simp [List.filter_append, List.getLast?_append]
    · rw [toggle_isolated h o' o n' n v (fun ⟨a, b⟩ => hm ⟨a.symm, b.symm⟩), ih]
      have : ((o' == o) && (n' == n)) = false := by
        cases ho : (o' == o) <;> cases hn : (n' == n) <;> simp
        exact hm ⟨beq_iff_eq.mp ho, beq_iff_eq.mp hn⟩
      simp [List.filter_append, this]

/-- a block enters a call iff it is enabled on this instance and the instance is random in the
    call -/
theorem active_iff (h : Toggles) (usedObj : List (Nat × Bool)) (o : Nat) (n : String) :
    blockActive h usedObj o n = true ↔ enabled h o n = true ∧ usedOf usedObj o = true := by
  simp [blockActive]

/-! ### most-derived by name -/

/-- the definition kept for a name is the last one in base-to-derived order: the derived
    class's block replaces the base block of the same name -/
theorem mostDerived_is_last (defs : List (String × α)) (n : String) (x : α)
    (h : (n, x) ∈ mostDerived defs) :
    ∃ d, defs.reverse.find? (fun d => d.1 == n) = some d ∧ d.2 = x := by
  simp only [mostDerived, List.mem_filterMap] at h
  obtain ⟨m, _, hf⟩ := h
  have hk := List.find?_some hf
  simp only [beq_iff_eq] at hk
  have : m = n := by rw [← hk]
  subst this
  exact ⟨(m, x), hf, rfl⟩

/-- every block name defined anywhere in the hierarchy is enforced through exactly one definition:
    it appears once among the most-derived blocks -/
theorem mostDerived_complete (defs : List (String × α)) (n : String) (h : n ∈ defs.map (·.1)) :
    ∃ x, (n, x) ∈ mostDerived defs := by
  simp only [mostDerived, List.mem_filterMap]
  obtain ⟨d, hd, rfl⟩ := List.mem_map.1 h
  cases hf : defs.reverse.find? (fun e => e.1 == d.1) with
  | none =>
    have := List.find?_eq_none.1 hf d (List.mem_reverse.2 hd)
    simp at this
  | some e =>
    have hk := List.find?_some hf
    simp only [beq_iff_eq] at hk
    refine ⟨e.2, d.1, List.mem_eraseDups.2 h, ?_⟩
    rw [hf]
    congr 1
    exact Prod.ext hk rfl

theorem nodup_eraseDups (l : List String) : l.eraseDups.Nodup := by
  generalize hn : l.length = n
  induction n using Nat.strongRecOn generalizing l with
  | _ n ih =>
    cases l with
    | nil => simp
    | cons a as =>
      rw [List.eraseDups_cons, List.nodup_cons]
      refine ⟨fun hm => ?_, ih _ ?_ _ rfl⟩
      · have := List.mem_eraseDups.1 hm
        simp at this
      · have := List.length_filter_le (fun b => !b == a) as
        simp at hn; omega

theorem mostDerived_names_nodup (defs : List (String × α)) : ((mostDerived defs).map (·.1)).Nodup := by
  simp only [mostDerived]
  have hnd : (defs.map (·.1)).eraseDups.Nodup := nodup_eraseDups _
  have key : ∀ (names : List String), names.Nodup →
      ((names.filterMap fun n => defs.reverse.find? (fun d => d.1 == n)).map (·.1)).Nodup ∧
      ∀ m ∈ (names.filterMap fun n => defs.reverse.find? (fun d => d.1 == n)).map (·.1), m ∈ names := by
    intro names
    induction names with
    | nil => intro _; simp
    | cons n ns ih =>
      intro hn
      rw [List.nodup_cons] at hn
      obtain ⟨i1, i2⟩ := ih hn.2
      cases hf : defs.reverse.find? (fun d => d.1 == n) with
      | none =>
        simp only [List.filterMap_cons, hf]
        exact ⟨i1, fun m hm => List.mem_cons_of_mem _ (i2 m hm)⟩
      | some e =>
        have hk := List.find?_some hf
        simp only [beq_iff_eq] at hk
        simp only [List.filterMap_cons, hf, List.map_cons, List.nodup_cons]
        refine ⟨⟨fun hm => hn.1 (hk ▸ i2 _ hm), i1⟩, fun m hm => ?_⟩
        rcases List.mem_cons.1 hm with rfl | hm
        · rw [hk]; exact List.mem_cons_self ..
        · exact List.mem_cons_of_mem _ (i2 m hm)
  exact (key _ hnd).1

example : (mostDerived [("c0", 1), ("c1", 2), ("c0", 3)]) = [("c0", 3), ("c1", 2)] := by decide
example : enabled [(1, "c0", false), (2, "c0", true), (1, "c0", true), (1, "c0", false)] 1 "c0" = false := by decide
example : enabled [(1, "c0", false)] 2 "c0" = true := by decide

end Pyvsc.C07
