import Pyvsc.Model.World
import Pyvsc.Props.C01
/-!
# C03 — a call changes only what is random in it; everything else acts as a constant
-/
namespace Pyvsc.C03
open Pyvsc.World Pyvsc.Expr

/-- below a composite that is not used as random nothing is used as random -/
theorem used_false : ∀ (t : Node) (r : Bool),
    (∀ p ∈ (used t false r).1, p.2 = false) ∧ (∀ p ∈ (used t false r).2, p.2 = false) := by
  intro t
  induction t with
  | scalar id d m => intro r; simp [used]
  | obj id d m ch ih =>
    intro r
    have := ih false
    simp only [used, Bool.false_and]
    refine ⟨this.1, ?_⟩
    intro p hp
    rcases List.mem_cons.mp hp with rfl | hp
    · rfl
    · exact this.2 p hp
  | nil => intro r; simp [used]
  | seq h t ihh iht =>
    intro r
    simp only [used, List.mem_append]
    exact ⟨fun p hp => hp.elim ((ihh r).1 p) ((iht r).1 p), fun p hp => hp.elim ((ihh r).2 p) ((iht r).2 p)⟩

/-- every scalar of the subtree gets exactly one flag, in visit order -/
theorem used_scalars : ∀ (t : Node) (p r : Bool), (used t p r).1.map (·.1) = scalars t := by
  intro t
  induction t with
  | scalar id d m => intro p r; simp [used, scalars]
  | obj id d m ch ih => intro p r; simp [used, scalars, ih]
  | nil => intro p r; simp [used, scalars]
  | seq h t ihh iht => intro p r; simp [used, scalars, ihh, iht]

/-- every object of the subtree gets exactly one flag, in pre-order -/
theorem used_objects : ∀ (t : Node) (p r : Bool), (used t p r).2.map (·.1) = objects t := by
  intro t
  induction t with
  | scalar id d m => intro p r; simp [used, objects]
  | obj id d m ch ih => intro p r; simp [used, objects, ih]
  | nil => intro p r; simp [used, objects]
  | seq h t ihh iht => intro p r; simp [used, objects, ihh, iht]

/-- the target of the call is used as random, whatever its own declaration -/
theorem target_used (id : Nat) (d m : Bool) (ch : Node) :
    (id, true) ∈ (usedInCall (.obj id d m ch)).2 := by
  simp [usedInCall, used]

/-- a scalar member of a composite that is used as random is random in the call iff it is
    declared random and its rand_mode is on; under a composite that is not, never -/
theorem member_scalar (id : Nat) (d m parentUsed : Bool) :
    (used (.scalar id d m) parentUsed false).1 = [(id, parentUsed && (d && m))] := by
  simp [used]

/-- **The size of a random-size list is random in the call only when the list is** (after repair
    2001b82): the size scalar sits under the list's own composite, declared random exactly when the
    list has a random size — under a list that is not random in the call (a list inside a non-random
    sub-object) it is a constant, so the list keeps its length -/
theorem randsz_size_follows_list (sizeId : Nat) (randsz listUsed : Bool) :
    (used (.scalar sizeId randsz randsz) listUsed false).1 = [(sizeId, listUsed && randsz)] := by
  simp [used]

/-- a sub-object is random in the call iff its parent is and it is declared random with
    rand_mode on -/
theorem member_object (id : Nat) (d m parentUsed : Bool) (ch : Node) :
    ((used (.obj id d m ch) parentUsed false).2.head?) = some (id, parentUsed && (d && m)) := by
  simp [used]

/-- **Writes.**  The environment after a solve differs from the one before only at fields that are
    random in the call (a restatement of the third clause of `C01.randomize_sound` at the level
    of the read-back function: it is the only write the solve performs). -/
theorem writes_only_random (Γ : Nat → FieldTy) (ρ : Nat → Int) (σ : Nat → Nat) (i : Nat)
    (h : C01.rbEnv Γ ρ σ i ≠ ρ i) : (Γ i).rand = true := by
  cases hr : (Γ i).rand with
  | true => rfl
  | false => simp [C01.rbEnv, hr] at h

/-- **Constants.**  Non-random fields enter the formulas as constants of their current value:
    the lowering does not depend on the values of random fields, and depends on the environment
    only through the non-random ones. -/
theorem nonrandom_as_constants (Γ : Nat → FieldTy) (ρ ρ' : Nat → Int)
    (h : ∀ i, (Γ i).rand = false → ρ' i = ρ i) (s : Stmt) :
    lowerStmt Γ ρ' false s = lowerStmt Γ ρ false s :=
  (C01.lowerStmt_congr Γ ρ ρ' h false s).1

/-! non-vacuity: a tree with a random and a non-random sub-object -/
def exTree : Node :=
  .obj 0 false false (.seq (.scalar 0 true true) (.seq (.obj 1 true true (.seq (.scalar 1 true true) .nil))
    (.seq (.obj 2 false false (.seq (.scalar 2 true true) .nil)) .nil)))
example : (usedInCall exTree).1 = [(0, true), (1, true), (2, false)] := by decide
example : (usedInCall exTree).2 = [(0, true), (1, true), (2, false)] := by decide

end Pyvsc.C03
