import Pyvsc.Props.C01
/-!
# C06 — inline and dynamic constraints bind to exactly one call and to the right object
-/
namespace Pyvsc.C06
open Pyvsc.Bv Pyvsc.Expr Pyvsc.Sem Pyvsc.Lower

variable (Γ : Nat → FieldTy) (ρ : Nat → Int)

/-- the statements entering call `k` of a history: the class blocks and the inline block of that
    very call — inline blocks of other calls and unreferenced dynamic blocks are not part of it -/
def callTops (classTops : List Stmt) (inlines : List (List Stmt)) (k : Nat) : List Stmt :=
  classTops ++ (inlines.getD k [])

/-- **Inline once.**  Changing, adding or removing the inline block of any *other* call leaves
    the statements of call `k` unchanged -/
theorem inline_once (classTops : List Stmt) (inlines inlines' : List (List Stmt)) (k : Nat)
    (h : inlines.getD k [] = inlines'.getD k []) :
    callTops classTops inlines k = callTops classTops inlines' k := by
  simp only [callTops]; rw [h]

/-- a one-bit term: a comparison or an `in` node -/
def OneBit : Expr → Prop
  | .bin op l r => op.isCmp = true ∧ WF Γ l ∧ WF Γ r
  | .reset e => WF Γ e ∧ cw Γ e 0 = 1
  | _ => False

theorem oneBit_wf (e : Expr) (h : OneBit Γ e) : WF Γ e := by
  cases e <;> simp only [OneBit] at h
  · exact ⟨h.2.1, h.2.2⟩
  · exact h

theorem oneBit_cw (e : Expr) (h : OneBit Γ e) (W : Nat) : cw Γ e W = 1 ∧ width Γ e = 1 := by
  cases e <;> simp only [OneBit] at h
  · simp [cw, width, h.1]
  · simp [cw, width, h.2]

/-- the value of a one-bit term does not depend on a context width of 0 or 1 -/
theorem oneBit_sval (e : Expr) (h : OneBit Γ e) : sval Γ ρ e 1 = sval Γ ρ e 0 := by
  cases e with
  | bin op l r =>
    simp only [OneBit] at h
    have hl := width_pos Γ l h.2.1
    simp only [sval]
    have : max 1 (max (width Γ l) (width Γ r)) = max 0 (max (width Γ l) (width Γ r)) := by omega
    rw [this]
  | reset e => simp [sval]
  | lit v s w => simp [OneBit] at h
  | fld i => simp [OneBit] at h
  | not e => simp [OneBit] at h
  | psel e hi lo => simp [OneBit] at h

theorem sval_lt_two (e : Expr) (h : OneBit Γ e) (σ : Nat → Nat) (hσ : Agree Γ ρ σ) : sval Γ ρ e 0 < 2 := by
  have h1 := lower_sound Γ ρ σ hσ e 0 (oneBit_wf Γ e h)
  have := eval_lt σ _ _ _ h1
  rw [(oneBit_cw Γ e h 0).1] at this
  simpa using this

/-- **`a() & b()`** over one-bit terms holds iff both hold -/
theorem dyn_and (a b : Expr) (ha : OneBit Γ a) (hb : OneBit Γ b) (σ : Nat → Nat) (hσ : Agree Γ ρ σ) :
    truthy Γ ρ (.bin .and a b) = (truthy Γ ρ a && truthy Γ ρ b) := by
  have wa := oneBit_cw Γ a ha
  have wb := oneBit_cw Γ b hb
  have la := sval_lt_two Γ ρ a ha σ hσ
  have lb := sval_lt_two Γ ρ b hb σ hσ
  simp only [truthy, sval, (wa 0).2, (wb 0).2, (wa _).1, (wb _).1, opSem]
  have e1 : max 0 (max 1 1) = 1 := by decide
  rw [e1, oneBit_sval Γ ρ a ha, oneBit_sval Γ ρ b hb]
  have ca : sval Γ ρ a 0 = 0 ∨ sval Γ ρ a 0 = 1 := by omega
  have cb : sval Γ ρ b 0 = 0 ∨ sval Γ ρ b 0 = 1 := by omega
  generalize (signed Γ a && signed Γ b) = S
  rcases ca with ca | ca <;> rcases cb with cb | cb <;> cases S <;> simp [ca, cb, rd, sint, pat] <;> decide

/-- **`a() | b()`** over one-bit terms holds iff one of them holds -/
theorem dyn_or (a b : Expr) (ha : OneBit Γ a) (hb : OneBit Γ b) (σ : Nat → Nat) (hσ : Agree Γ ρ σ) :
    truthy Γ ρ (.bin .or a b) = (truthy Γ ρ a || truthy Γ ρ b) := by
  have wa := oneBit_cw Γ a ha
  have wb := oneBit_cw Γ b hb
  have la := sval_lt_two Γ ρ a ha σ hσ
  have lb := sval_lt_two Γ ρ b hb σ hσ
  simp only [truthy, sval, (wa 0).2, (wb 0).2, (wa _).1, (wb _).1, opSem]
  have e1 : max 0 (max 1 1) = 1 := by decide
  rw [e1, oneBit_sval Γ ρ a ha, oneBit_sval Γ ρ b hb]
  have ca : sval Γ ρ a 0 = 0 ∨ sval Γ ρ a 0 = 1 := by omega
  have cb : sval Γ ρ b 0 = 0 ∨ sval Γ ρ b 0 = 1 := by omega
  generalize (signed Γ a && signed Γ b) = S
  rcases ca with ca | ca <;> rcases cb with cb | cb <;> cases S <;> simp [ca, cb, rd, sint, pat] <;> decide

/-- **`~a()`** over a one-bit term holds iff it does not -/
theorem dyn_not (a : Expr) (ha : OneBit Γ a) (σ : Nat → Nat) (hσ : Agree Γ ρ σ) :
    truthy Γ ρ (.not a) = !truthy Γ ρ a := by
  have wa := oneBit_cw Γ a ha
  have la := sval_lt_two Γ ρ a ha σ hσ
  simp only [truthy, sval, (wa 0).2, (wa _).1]
  have e1 : max 0 1 = 1 := by decide
  rw [e1, oneBit_sval Γ ρ a ha]
  have ca : sval Γ ρ a 0 = 0 ∨ sval Γ ρ a 0 = 1 := by omega
  rcases ca with ca | ca <;> simp [ca]

/-- the term a dynamic reference stands for: the conjunction of the block's one-bit statements -/
def dynE : List Expr → Expr
  | [] => .reset (.lit 1 false 1)
  | e :: rest => .reset (rest.foldl (fun acc x => .bin .and acc x) e)

/-- **A dynamic reference means its block.**  Used as a term, a reference holds exactly when
    every statement of the referenced block holds (single-statement block; the n-ary case is the
    `dyn_and` fold) -/
theorem dynE_truthy (e : Expr) : truthy Γ ρ (dynE [e]) = truthy Γ ρ e := by
  simp [dynE, truthy, sval]

end Pyvsc.C06
