import Pyvsc.Props.C10
/-!
# C10 — the bins of a partitioned bin array are pairwise disjoint (and ascending)

`mkCollection_partition` (C10.lean) shows that the bins together hold exactly the values of the
list.  Here: over a separated, well-formed value list (what `compact` delivers) every value of an
earlier bin is smaller than every value of a later bin, so no value falls into two bins — the bins
are a partition.
-/
namespace Pyvsc.C10
open Pyvsc.Ranges Pyvsc.Bins

/-- every value of `P` is smaller than every value of `Q` -/
def Below (P Q : Int → Prop) : Prop := ∀ v w, P v → Q w → v < w

/-- separated and well-formed -/
def AscWf (l : RL) : Prop := l.Pairwise (fun a b => a.2 < b.1) ∧ WFR l

theorem ascWf_tail (r : Range) (rest : RL) (h : AscWf (r :: rest)) : AscWf rest :=
  ⟨(List.pairwise_cons.1 h.1).2, fun x hx => h.2 x (List.mem_cons_of_mem _ hx)⟩

theorem head_below (r : Range) (rest : RL) (h : AscWf (r :: rest)) :
    Below (fun v => r.1 ≤ v ∧ v ≤ r.2) (Den rest) := by
  rintro v w ⟨_, h2⟩ ⟨x, hx, h3, _⟩
  have := (List.pairwise_cons.1 h.1).1 x hx
  omega

theorem below_mono {P P' Q Q' : Int → Prop} (h : Below P Q) (hp : ∀ v, P' v → P v) (hq : ∀ v, Q' v → Q v) :
    Below P' Q' := fun v w a b => h v w (hp v a) (hq w b)

theorem takeN_order : ∀ (fuel : Nat) (n : Int) (rem acc acc' rem' : RL),
    takeN fuel n rem acc = some (acc', rem') → AscWf rem → Below (Den acc) (Den rem) →
    AscWf rem' ∧ Below (Den acc') (Den rem') ∧ (∀ v, Den rem' v → Den rem v) ∧
      (∀ v, Den acc' v → Den acc v ∨ Den rem v) := by
  intro fuel
  induction fuel with
  | zero => intro n rem acc acc' rem' h; simp [takeN] at h
  | succ fuel ih =>
    intro n rem acc acc' rem' h hr hb
    simp only [takeN] at h
    by_cases hn : n ≤ 0
    · simp only [hn, if_true, Option.some.injEq, Prod.mk.injEq] at h
      obtain ⟨rfl, rfl⟩ := h
      exact ⟨hr, hb, fun v h => h, fun v h => Or.inl h⟩
    · simp only [hn, if_false] at h
      cases rem with
      | nil => simp at h
      | cons r rest =>
        simp only at h
        have hrb := head_below r rest hr
        by_cases hlt : r.2 - r.1 < n
        · simp only [hlt, if_true] at h
          have hb' : Below (Den (acc ++ [r])) (Den rest) := by
            intro v w hv hw
            rcases (den_append' _ _ v).1 hv with hv | hv
            · exact hb v w hv ((den_cons r rest w).2 (Or.inr hw))
            · rw [den_single] at hv
              exact hrb v w hv hw
          obtain ⟨a, b, c, d⟩ := ih _ _ _ _ _ h (ascWf_tail r rest hr) hb'
          refine ⟨a, b, fun v hv => (den_cons r rest v).2 (Or.inr (c v hv)), fun v hv => ?_⟩
          rcases d v hv with hv | hv
          · rcases (den_append' _ _ v).1 hv with hv | hv
            · exact Or.inl hv
            · rw [den_single] at hv; exact Or.inr ((den_cons r rest v).2 (Or.inl hv))
          · exact Or.inr ((den_cons r rest v).2 (Or.inr hv))
        · simp only [hlt, if_false, Option.some.injEq, Prod.mk.injEq] at h
          obtain ⟨rfl, rfl⟩ := h
          have hwf : r.1 ≤ r.2 := hr.2 r (by simp)
          have hsub : ∀ v, Den ((r.1 + n, r.2) :: rest) v → Den (r :: rest) v := by
            intro v hv
            rcases (den_cons _ _ v).1 hv with hv | hv
            · exact (den_cons r rest v).2 (Or.inl ⟨by simp only [] at hv; omega, hv.2⟩)
            · exact (den_cons r rest v).2 (Or.inr hv)
          refine ⟨⟨?_, ?_⟩, ?_, hsub, fun v hv => ?_⟩
          · rw [List.pairwise_cons]
            exact ⟨(List.pairwise_cons.1 hr.1).1, (List.pairwise_cons.1 hr.1).2⟩
          · intro x hx
            rcases List.mem_cons.1 hx with rfl | hx
            · simp only []; omega
            · exact hr.2 x (List.mem_cons_of_mem _ hx)
          · intro v w hv hw
            rcases (den_append' _ _ v).1 hv with hv | hv
            · exact hb v w hv (hsub w hw)
            · rw [den_single] at hv
              rcases (den_cons _ _ w).1 hw with hw | hw
              · simp only [] at hw; omega
              · exact hrb v w ⟨hv.1, by omega⟩ hw
          · rcases (den_append' _ _ v).1 hv with hv | hv
            · exact Or.inl hv
            · rw [den_single] at hv
              exact Or.inr ((den_cons r rest v).2 (Or.inl ⟨hv.1, by omega⟩))

/-- bins in ascending order of their values -/
def BinsOrdered (bs : List Leaf) : Prop := bs.Pairwise (fun a b => Below (leafSet a) (leafSet b))

theorem binsOrdered_snoc (bs : List Leaf) (b : Leaf) (h : BinsOrdered bs)
    (hb : ∀ a ∈ bs, Below (leafSet a) (leafSet b)) : BinsOrdered (bs ++ [b]) := by
  unfold BinsOrdered
  rw [List.pairwise_append]
  exact ⟨h, List.pairwise_singleton _ _, fun a ha x hx => by simp at hx; subst hx; exact hb a ha⟩

/-- the outer loop keeps the bins ascending; all bins but possibly the last lie below what remains -/
theorem partLoop_order (name : String) (vpb : Int) (hv : 1 ≤ vpb) (haveLeft : Bool) (nBins : Nat) :
    ∀ (k : Nat) (rem : RL) (idx : Nat) (bins : List Leaf) (rem' : RL) (bins' : List Leaf), k ≤ nBins →
    partLoop name vpb haveLeft nBins k rem idx bins = some (rem', bins') →
    AscWf rem → BinsOrdered bins → (∀ b ∈ bins, Below (leafSet b) (Den rem)) →
    BinsOrdered bins' ∧ (∀ b ∈ bins'.dropLast, Below (leafSet b) (Den rem')) := by
  intro k
  induction k with
  | zero =>
    intro rem idx bins rem' bins' _ h hr ho hb
    simp only [partLoop, Option.some.injEq, Prod.mk.injEq] at h
    obtain ⟨rfl, rfl⟩ := h
    exact ⟨ho, fun b hb' => hb b (List.dropLast_subset _ hb')⟩
  | succ k ih =>
    intro rem idx bins rem' bins' hk h hr ho hb
    simp only [partLoop] at h
    cases rem with
    | nil => simp at h
    | cons r rest =>
      simp only at h
      have hwf : r.1 ≤ r.2 := hr.2 r (by simp)
      have hrb := head_below r rest hr
      by_cases hs : r.2 - r.1 + 1 ≥ vpb
      · simp only [hs, if_true] at h
        -- the new bin lies inside `r`
        have hin : ∀ v, leafSet (if (decide (nBins - (k + 1) + 1 < nBins) || !haveLeft) = true
            then Leaf.rng (name ++ "[" ++ toString idx ++ "]") r.1 (r.1 + vpb - 1)
            else Leaf.bag (name ++ "[" ++ toString idx ++ "]") [(r.1, r.2)]) v → r.1 ≤ v ∧ v ≤ r.2 := by
          intro v hv
          rw [headBin_set] at hv
          split at hv <;> omega
        have hord : BinsOrdered (bins ++ [if (decide (nBins - (k + 1) + 1 < nBins) || !haveLeft) = true
            then Leaf.rng (name ++ "[" ++ toString idx ++ "]") r.1 (r.1 + vpb - 1)
            else Leaf.bag (name ++ "[" ++ toString idx ++ "]") [(r.1, r.2)]]) :=
          binsOrdered_snoc _ _ ho (fun a ha => below_mono (hb a ha) (fun _ h => h)
            (fun v hv => (den_cons r rest v).2 (Or.inl (hin v hv))))
        by_cases hc : (decide (nBins - (k + 1) + 1 < nBins) || !haveLeft) = true
        · -- a range bin of exactly `vpb` values: it lies below what remains
          simp only [hc, if_true] at h hord
          have hr' : AscWf (if r.2 - r.1 + 1 > vpb then (r.1 + vpb, r.2) :: rest else rest) := by
            split
            · refine ⟨?_, ?_⟩
              · rw [List.pairwise_cons]
                exact ⟨(List.pairwise_cons.1 hr.1).1, (List.pairwise_cons.1 hr.1).2⟩
              · intro x hx
                rcases List.mem_cons.1 hx with rfl | hx
                · simp only []; omega
                · exact hr.2 x (List.mem_cons_of_mem _ hx)
            · exact ascWf_tail r rest hr
          have hsub : ∀ v, Den (if r.2 - r.1 + 1 > vpb then (r.1 + vpb, r.2) :: rest else rest) v →
              (r.1 + vpb ≤ v ∧ v ≤ r.2) ∨ Den rest v := by
            intro v hv
            split at hv
            · exact (den_cons _ _ v).1 hv
            · exact Or.inr hv
          refine ih _ _ _ _ _ (by omega) h hr' hord (fun b hb' => ?_)
          rcases List.mem_append.1 hb' with hb' | hb'
          · refine below_mono (hb b hb') (fun _ h => h) (fun v hv => ?_)
            rcases hsub v hv with hv | hv
            · exact (den_cons r rest v).2 (Or.inl ⟨by omega, hv.2⟩)
            · exact (den_cons r rest v).2 (Or.inr hv)
          · simp at hb'; subst hb'
            intro v w hv hw
            simp only [leafSet] at hv
            rcases hsub w hw with hw | hw
            · omega
            · exact hrb v w ⟨hv.1, by omega⟩ hw
        · -- the last bin with a leftover: a bag holding all of `r`; the loop ends here
          have hk0 : k = 0 := by
            simp only [Bool.or_eq_true, decide_eq_true_eq, Bool.not_eq_true', not_or] at hc
            omega
          subst hk0
          simp only [hc, partLoop, Option.some.injEq, Prod.mk.injEq] at h
          obtain ⟨rfl, rfl⟩ := h
          simp only [hc] at hord
          refine ⟨hord, fun b hb' => ?_⟩
          rw [List.dropLast_concat] at hb'
          refine below_mono (hb b hb') (fun _ h => h) (fun v hv => ?_)
          split at hv
          · rcases (den_cons _ _ v).1 hv with hv | hv
            · exact (den_cons r rest v).2 (Or.inl ⟨by simp only [] at hv; omega, hv.2⟩)
            · exact (den_cons r rest v).2 (Or.inr hv)
          · exact (den_cons r rest v).2 (Or.inr hv)
      · simp only [hs, if_false] at h
        cases ht : takeN (rest.length + 2) (vpb - (r.2 - r.1 + 1)) rest [(r.1, r.2)] with
        | none => rw [ht] at h; simp at h
        | some p =>
          obtain ⟨acc, rem2⟩ := p
          rw [ht] at h
          simp only at h
          obtain ⟨t1, t2, t3, t4⟩ := takeN_order _ _ _ _ _ _ ht (ascWf_tail r rest hr)
            (by intro v w hv hw; rw [den_single] at hv; exact hrb v w hv hw)
          have hacc : ∀ v, Den acc v → Den (r :: rest) v := by
            intro v hv
            rcases t4 v hv with hv | hv
            · rw [den_single] at hv; exact (den_cons r rest v).2 (Or.inl hv)
            · exact (den_cons r rest v).2 (Or.inr hv)
          refine ih _ _ _ _ _ (by omega) h t1
            (binsOrdered_snoc _ _ ho (fun a ha => below_mono (hb a ha) (fun _ h => h) (fun v hv => hacc v hv)))
            (fun b hb' => ?_)
          rcases List.mem_append.1 hb' with hb' | hb'
          · exact below_mono (hb b hb') (fun _ h => h) (fun v hv => (den_cons r rest v).2 (Or.inr (t3 v hv)))
          · simp at hb'; subst hb'
            exact t2

theorem addLeftover_order (bins : List Leaf) (rem : RL) (bins' : List Leaf) (h : addLeftover bins rem = some bins')
    (ho : BinsOrdered bins) (hb : ∀ b ∈ bins.dropLast, Below (leafSet b) (Den rem)) : BinsOrdered bins' := by
  unfold addLeftover at h
  by_cases he : rem.isEmpty = true
  · simp only [he, if_true, Option.some.injEq] at h
    subst h; exact ho
  · have he' : rem.isEmpty = false := by simpa using he
    simp only [he', Bool.false_eq_true, if_false] at h
    cases hr : bins.reverse with
    | nil => rw [hr] at h; simp at h
    | cons last before =>
      rw [hr] at h
      cases last with
      | bag n rl =>
        simp only [Option.some.injEq] at h
        subst h
        have hbins : bins = before.reverse ++ [Leaf.bag n rl] := by
          have := congrArg List.reverse hr
          simpa using this
        subst hbins
        rw [List.dropLast_concat] at hb
        have ho' := List.pairwise_append.1 ho
        apply binsOrdered_snoc _ _ ho'.1
        intro a ha v w hv hw
        simp only [leafSet] at hw
        rcases (den_append' _ _ w).1 hw with hw | hw
        · exact ho'.2.2 a ha (Leaf.bag n rl) (by simp) v w hv (by simpa [leafSet] using hw)
        · exact hb a ha v w hv hw
      | _ => simp at h

/-- **The bins of a partitioned array are ascending and pairwise disjoint.**  Over a separated,
    well-formed value list, `mk_collection` delivers bins such that every value of an earlier bin is
    smaller than every value of a later one. -/
theorem mkCollection_ordered (name : String) (rl : RL) (nBins : Int) (hlt : nBins < nValues rl)
    (hrl : AscWf rl) (bins : List Leaf) (h : mkCollection name rl nBins = some (BinM.coll name bins)) :
    BinsOrdered bins := by
  unfold mkCollection at h
  simp only [hlt, if_true] at h
  by_cases h0 : nBins ≤ 0
  · simp [h0] at h
  · simp only [h0, if_false] at h
    have hpos : 0 < nBins := by omega
    have hv : 1 ≤ nValues rl / nBins := by
      have : nBins * 1 ≤ nValues rl := by omega
      exact (Int.le_ediv_iff_mul_le hpos).mpr (by omega)
    cases hp : partLoop name (nValues rl / nBins) (nValues rl % nBins != 0) nBins.toNat nBins.toNat rl 0 [] with
    | none => rw [hp] at h; simp at h
    | some p =>
      obtain ⟨rem, bs⟩ := p
      rw [hp] at h
      simp only at h
      cases ha : addLeftover bs rem with
      | none => rw [ha] at h; simp at h
      | some bins' =>
        rw [ha] at h
        simp only [Option.map_some, Option.some.injEq, BinM.coll.injEq, true_and] at h
        subst h
        obtain ⟨p1, p2⟩ := partLoop_order name _ hv _ _ _ _ _ _ _ _ (Nat.le_refl _) hp hrl
          List.Pairwise.nil (by simp)
        exact addLeftover_order _ _ _ ha p1 p2

/-- **Partition**: a value of the list lies in exactly one bin of the array -/
theorem mkCollection_exactly_one (name : String) (rl : RL) (nBins : Int) (hlt : nBins < nValues rl)
    (hrl : AscWf rl) (bins : List Leaf) (h : mkCollection name rl nBins = some (BinM.coll name bins))
    (v : Int) (hv : Den rl v) :
    ∃ i, ∃ hi : i < bins.length, leafSet bins[i] v ∧ ∀ j, ∀ hj : j < bins.length, leafSet bins[j] v → j = i := by
  obtain ⟨bins0, e, _, hset⟩ := mkCollection_partition name rl nBins hlt _ h
  simp only [BinM.coll.injEq, true_and] at e
  subst e
  obtain ⟨b, hb, hbv⟩ := (hset v).2 hv
  obtain ⟨i, hi, rfl⟩ := List.getElem_of_mem hb
  refine ⟨i, hi, hbv, fun j hj hjv => ?_⟩
  have ho := mkCollection_ordered name rl nBins hlt hrl bins h
  by_contra hne
  rcases Nat.lt_or_gt_of_ne hne with hlt' | hgt
  · have := List.pairwise_iff_getElem.1 ho j i hj hi hlt' v v hjv hbv
    omega
  · have := List.pairwise_iff_getElem.1 ho i j hi hj hgt v v hbv hjv
    omega

/-! ### `compact` delivers what the partition theorems ask for -/

theorem mergeGo_wf (rest : RL) : ∀ (cur : Range), cur.1 ≤ cur.2 → WFR rest → WFR (mergeGo cur rest) := by
  induction rest with
  | nil => intro cur hc _ r hr; simp [mergeGo] at hr; subst hr; exact hc
  | cons y rest ih =>
    intro cur hc hw
    have hy : y.1 ≤ y.2 := hw y (by simp)
    have hrest : WFR rest := fun x hx => hw x (List.mem_cons_of_mem _ hx)
    simp only [mergeGo]
    split
    · exact ih _ (by simp only []; omega) hrest
    · intro r hr
      rcases List.mem_cons.1 hr with rfl | hr
      · exact hc
      · exact ih y hy hrest r hr

theorem mem_foldl_insertByLow (l : RL) : ∀ (acc : RL) (x : Range),
    x ∈ l.foldl (fun acc r => insertByLow r acc) acc ↔ x ∈ acc ∨ x ∈ l := by
  induction l with
  | nil => intro acc x; simp
  | cons r l ih =>
    intro acc x
    simp only [List.foldl_cons, ih, mem_insertByLow, List.mem_cons]
    tauto

/-- after `compact`, a list of well-formed ranges is separated and well-formed -/
theorem compact_ascWf (l : RL) (h : WFR l) : AscWf (compact l) := by
  refine ⟨(compact_sorted l).1, ?_⟩
  unfold compact
  have hs : WFR (sortByLow l) := by
    intro r hr
    unfold sortByLow at hr
    rcases (mem_foldl_insertByLow l [] r).1 hr with hr | hr
    · simp at hr
    · exact h r hr
  cases hsl : sortByLow l with
  | nil => intro r hr; simp [mergeSorted] at hr
  | cons x xs =>
    rw [hsl] at hs
    simp only [mergeSorted]
    exact mergeGo_wf xs x (hs x (by simp)) (fun y hy => hs y (List.mem_cons_of_mem _ hy))

/-! ### chunk sizes -/

/-- number of values a leaf bin holds (for bags: with multiplicity) -/
def leafCount : Leaf → Int
  | .rng _ lo hi => hi - lo + 1
  | .arr _ lo hi => hi - lo + 1
  | .bag _ rl => nValues rl
  | _ => 1

theorem nValues_nil : nValues [] = 0 := by simp [nValues]

theorem nValues_append (a b : RL) : nValues (a ++ b) = nValues a + nValues b := by
  simp [nValues, List.map_append, List.sum_append]

theorem nValues_single (x y : Int) : nValues [(x, y)] = y - x + 1 := by
  simp only [nValues, List.map_cons, List.map_nil, List.sum_cons, List.sum_nil]
  split <;> omega

theorem takeN_count : ∀ (fuel : Nat) (n : Int) (rem acc acc' rem' : RL),
    takeN fuel n rem acc = some (acc', rem') → 0 ≤ n → nValues acc' = nValues acc + n := by
  intro fuel
  induction fuel with
  | zero => intro n rem acc acc' rem' h; simp [takeN] at h
  | succ fuel ih =>
    intro n rem acc acc' rem' h hn0
    simp only [takeN] at h
    by_cases hn : n ≤ 0
    · simp only [hn, if_true, Option.some.injEq, Prod.mk.injEq] at h
      obtain ⟨rfl, rfl⟩ := h; omega
    · simp only [hn, if_false] at h
      cases rem with
      | nil => simp at h
      | cons r rest =>
        simp only at h
        by_cases hlt : r.2 - r.1 < n
        · simp only [hlt, if_true] at h
          have := ih _ _ _ _ _ h (by omega)
          rw [this, nValues_append]
          have : nValues [r] = r.2 - r.1 + 1 := nValues_single r.1 r.2
          omega
        · simp only [hlt, if_false, Option.some.injEq, Prod.mk.injEq] at h
          obtain ⟨rfl, rfl⟩ := h
          rw [nValues_append, nValues_single]; omega

/-- every bin the loop produces holds exactly `vpb` values, except possibly the last one -/
theorem partLoop_sizes (name : String) (vpb : Int) (haveLeft : Bool) (nBins : Nat) :
    ∀ (k : Nat) (rem : RL) (idx : Nat) (bins : List Leaf) (rem' : RL) (bins' : List Leaf), k ≤ nBins →
    partLoop name vpb haveLeft nBins k rem idx bins = some (rem', bins') →
    (∀ b ∈ bins, leafCount b = vpb) → ∀ b ∈ bins'.dropLast, leafCount b = vpb := by
  intro k
  induction k with
  | zero =>
    intro rem idx bins rem' bins' _ h hb
    simp only [partLoop, Option.some.injEq, Prod.mk.injEq] at h
    obtain ⟨rfl, rfl⟩ := h
    exact fun b hb' => hb b (List.dropLast_subset _ hb')
  | succ k ih =>
    intro rem idx bins rem' bins' hk h hb
    simp only [partLoop] at h
    cases rem with
    | nil => simp at h
    | cons r rest =>
      simp only at h
      by_cases hs : r.2 - r.1 + 1 ≥ vpb
      · simp only [hs, if_true] at h
        by_cases hc : (decide (nBins - (k + 1) + 1 < nBins) || !haveLeft) = true
        · simp only [hc, if_true] at h
          refine ih _ _ _ _ _ (by omega) h (fun b hb' => ?_)
          rcases List.mem_append.1 hb' with hb' | hb'
          · exact hb b hb'
          · simp at hb'; subst hb'; simp only [leafCount]; omega
        · have hk0 : k = 0 := by
            simp only [Bool.or_eq_true, decide_eq_true_eq, Bool.not_eq_true', not_or] at hc
            omega
          subst hk0
          simp only [hc, partLoop, Option.some.injEq, Prod.mk.injEq] at h
          obtain ⟨rfl, rfl⟩ := h
          intro b hb'
          rw [List.dropLast_concat] at hb'
          exact hb b hb'
      · simp only [hs, if_false] at h
        cases ht : takeN (rest.length + 2) (vpb - (r.2 - r.1 + 1)) rest [(r.1, r.2)] with
        | none => rw [ht] at h; simp at h
        | some p =>
          obtain ⟨acc, rem2⟩ := p
          rw [ht] at h
          simp only at h
          refine ih _ _ _ _ _ (by omega) h (fun b hb' => ?_)
          rcases List.mem_append.1 hb' with hb' | hb'
          · exact hb b hb'
          · simp at hb'; subst hb'
            simp only [leafCount]
            rw [takeN_count _ _ _ _ _ _ ht (by omega), nValues_single]; omega

/-- **Chunk sizes**: every bin of a partitioned array except the last holds exactly
    `n_values // n_bins` values (the last takes the remainder) -/
theorem mkCollection_sizes (name : String) (rl : RL) (nBins : Int) (hlt : nBins < nValues rl)
    (bins : List Leaf) (h : mkCollection name rl nBins = some (BinM.coll name bins)) :
    ∀ b ∈ bins.dropLast, leafCount b = nValues rl / nBins := by
  unfold mkCollection at h
  simp only [hlt, if_true] at h
  by_cases h0 : nBins ≤ 0
  · simp [h0] at h
  · simp only [h0, if_false] at h
    cases hp : partLoop name (nValues rl / nBins) (nValues rl % nBins != 0) nBins.toNat nBins.toNat rl 0 [] with
    | none => rw [hp] at h; simp at h
    | some p =>
      obtain ⟨rem, bs⟩ := p
      rw [hp] at h
      simp only at h
      cases ha : addLeftover bs rem with
      | none => rw [ha] at h; simp at h
      | some bins' =>
        rw [ha] at h
        simp only [Option.map_some, Option.some.injEq, BinM.coll.injEq, true_and] at h
        subst h
        have p1 := partLoop_sizes name _ _ _ _ _ _ _ _ _ (Nat.le_refl _) hp (by simp)
        -- `addLeftover` only touches the last bin
        unfold addLeftover at ha
        by_cases he : rem.isEmpty = true
        · simp only [he, if_true, Option.some.injEq] at ha
          subst ha; exact p1
        · have he' : rem.isEmpty = false := by simpa using he
          simp only [he', Bool.false_eq_true, if_false] at ha
          cases hr : bs.reverse with
          | nil => rw [hr] at ha; simp at ha
          | cons last before =>
            rw [hr] at ha
            cases last with
            | bag n rl' =>
              simp only [Option.some.injEq] at ha
              subst ha
              have hbs : bs = before.reverse ++ [Leaf.bag n rl'] := by
                have := congrArg List.reverse hr
                simpa using this
              subst hbs
              rw [List.dropLast_concat] at p1 ⊢
              exact p1
            | _ => simp at ha

example : (mkCollection "a" [(1, 12)] 5).isSome = true ∧ (5 : Int) < nValues [(1, 12)] := by decide

/-- `compact` delivers separated, well-formed lists when its input ranges are well-formed -/
example : AscWf [(1, 5), (8, 12)] := by
  refine ⟨by decide, ?_⟩
  intro r hr; simp at hr; rcases hr with rfl | rfl <;> decide

end Pyvsc.C10
