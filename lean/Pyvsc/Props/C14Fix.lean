import Pyvsc.Props.C14
/-!
# C14 — the whole inference: every solution survives `VariableBoundVisitor.process`

`process_sound`: an assignment that lies in the initial domains and satisfies the top-level
statements the visitor reads (relations between two fields, a field against a non-random expression
evaluated on Python integers, `in` against non-random items) lies in the domains the fixed point
ends with.  "Satisfies" is the Python-integer reading the inference itself uses; where the solver's
bit-vector reading differs (wrap-around, mixed signedness) is known finding F21.
-/
namespace Pyvsc.C14
open Pyvsc.Bounds Pyvsc.Expr

/-- the shape domains are kept in: separated, ascending lower bounds, every range but possibly the
    first well-formed (`VariableBoundMinPropagator` can leave `(mn, hi)` with `mn > hi` in front) -/
structure Good (l : RL) : Prop where
  asc : Asc l
  lo : SortedLo l
  wf : ∀ r ∈ l.tail, r.1 ≤ r.2

theorem good_nil : Good [] := ⟨List.Pairwise.nil, List.Pairwise.nil, by simp⟩

theorem good_single (a b : Int) : Good [(a, b)] :=
  ⟨List.pairwise_singleton _ _, List.pairwise_singleton _ _, by simp⟩

theorem good_of_asc_wf (l : RL) (h : Asc l) (hw : ∀ r ∈ l, r.1 ≤ r.2) : Good l := by
  refine ⟨h, ?_, fun r hr => hw r (List.mem_of_mem_tail hr)⟩
  unfold SortedLo
  unfold Asc at h
  induction l with
  | nil => exact List.Pairwise.nil
  | cons a l ih =>
    rw [List.pairwise_cons] at h ⊢
    refine ⟨fun b hb => ?_, ih h.2 (fun r hr => hw r (List.mem_cons_of_mem _ hr))⟩
    have := h.1 b hb
    have := hw a (by simp)
    omega

/-- in a good domain every range ends at or before the last one -/
theorem good_le_last (l : RL) (h : Good l) (rl : Int × Int) (hl : l.getLast? = some rl) :
    ∀ r ∈ l, r.2 ≤ rl.2 := by
  intro r hr
  obtain ⟨l', rfl⟩ := List.getLast?_eq_some_iff.1 hl
  rcases List.mem_append.1 hr with hr | hr
  · have hasc := h.asc
    unfold Asc at hasc
    have h1 : r.2 < rl.1 := (List.pairwise_append.1 hasc).2.2 r hr rl (by simp)
    have hne : l' ≠ [] := by intro e; subst e; simp at hr
    have h2 : rl.1 ≤ rl.2 := h.wf rl (by rw [List.tail_append_of_ne_nil hne]; simp)
    omega
  · simp at hr; subst hr; exact Int.le_refl _

theorem den_le_last (l : RL) (h : Good l) (v : Int) (hv : Den l v) (rl : Int × Int)
    (hl : l.getLast? = some rl) : v ≤ rl.2 := by
  obtain ⟨r, hr, _, h2⟩ := hv
  have := good_le_last l h rl hl r hr
  omega

theorem den_ge_head (l : RL) (h : Good l) (v : Int) (hv : Den l v) (hd : Int × Int)
    (hl : l.head? = some hd) : hd.1 ≤ v := by
  obtain ⟨r, hr, h1, _⟩ := hv
  cases l with
  | nil => simp at hr
  | cons a l =>
    simp at hl; subst hl
    rcases List.mem_cons.1 hr with rfl | hr
    · exact h1
    · have := (List.pairwise_cons.1 h.lo).1 r hr
      omega

/-! ### the propagators keep the shape -/

theorem trimEnd_prefix (mx : Int) : ∀ (l : RL), trimEnd mx l <+: l
  | [] => by simp [trimEnd]
  | r :: rs => by
    have ih := trimEnd_prefix mx rs
    simp only [trimEnd]
    cases h : trimEnd mx rs with
    | nil =>
      simp only []
      split
      · exact List.nil_prefix
      · exact ⟨rs, by simp⟩
    | cons y ys =>
      simp only []
      rw [h] at ih
      exact (List.cons_prefix_cons).2 ⟨rfl, ih⟩

theorem trimEnd_last (mx : Int) : ∀ (l : RL) (r : Int × Int), (trimEnd mx l).getLast? = some r → r.1 ≤ mx
  | [], r, h => by simp [trimEnd] at h
  | x :: xs, r, h => by
    simp only [trimEnd] at h
    cases hx : trimEnd mx xs with
    | nil =>
      rw [hx] at h
      simp only [] at h
      split at h
      · simp at h
      · simp at h; subst h; omega
    | cons y ys =>
      rw [hx] at h
      simp only [] at h
      rw [List.getLast?_cons_cons] at h
      exact trimEnd_last mx xs r (by rw [hx]; exact h)

theorem capLast_shape (mx : Int) : ∀ (l : RL), l ≠ [] → ∃ init last, l = init ++ [last] ∧
    capLast mx l = init ++ [(last.1, if last.2 > mx then mx else last.2)]
  | [], h => absurd rfl h
  | [r], _ => ⟨[], r, rfl, rfl⟩
  | r :: r' :: rs, _ => by
    obtain ⟨init, last, e1, e2⟩ := capLast_shape mx (r' :: rs) (by simp)
    refine ⟨r :: init, last, by rw [e1]; rfl, ?_⟩
    simp only [capLast]
    rw [e2]; rfl

theorem good_capLast (mx : Int) (l : RL) (h : Good l)
    (hlast : ∀ r, l.getLast? = some r → r.1 ≤ mx) : Good (capLast mx l) := by
  by_cases hne : l = []
  · subst hne; simpa [capLast] using good_nil
  · obtain ⟨init, last, e1, e2⟩ := capLast_shape mx l hne
    rw [e2]
    subst e1
    have hl1 : last.1 ≤ mx := hlast last (by simp)
    have hasc := List.pairwise_append.1 h.asc
    have hlo := List.pairwise_append.1 h.lo
    refine ⟨?_, ?_, ?_⟩
    · unfold Asc
      rw [List.pairwise_append]
      refine ⟨hasc.1, List.pairwise_singleton _ _, fun a ha b hb => ?_⟩
      simp at hb; subst hb
      exact hasc.2.2 a ha last (by simp)
    · unfold SortedLo
      rw [List.pairwise_append]
      refine ⟨hlo.1, List.pairwise_singleton _ _, fun a ha b hb => ?_⟩
      simp at hb; subst hb
      exact hlo.2.2 a ha last (by simp)
    · intro r hr
      by_cases hi : init = []
      · subst hi; simp at hr
      · rw [List.tail_append_of_ne_nil hi] at hr
        rcases List.mem_append.1 hr with hr | hr
        · exact h.wf r (by rw [List.tail_append_of_ne_nil hi]; exact List.mem_append_left _ hr)
        · simp at hr; subst hr
          simp only []
          have : last.1 ≤ last.2 := h.wf last (by rw [List.tail_append_of_ne_nil hi]; simp)
          split <;> omega

theorem good_sublist_prefix (l l' : RL) (h : Good l) (hp : l' <+: l) : Good l' := by
  refine ⟨List.Pairwise.sublist hp.sublist h.asc, List.Pairwise.sublist hp.sublist h.lo, ?_⟩
  intro r hr
  obtain ⟨t, rfl⟩ := hp
  cases l' with
  | nil => simp at hr
  | cons a l' => exact h.wf r (by simp at hr ⊢; exact Or.inl hr)

theorem good_maxProp (l : RL) (mx : Int) (h : Good l) : Good (maxProp l mx).1 := by
  unfold maxProp
  cases l with
  | nil => exact good_nil
  | cons r0 rs =>
    simp only []
    split
    · exact good_nil
    · rename_i hmx
      apply good_capLast
      · exact good_sublist_prefix _ _ h ((List.cons_prefix_cons).2 ⟨rfl, trimEnd_prefix mx rs⟩)
      · intro r hr
        cases ht : trimEnd mx rs with
        | nil => rw [ht] at hr; simp at hr; subst hr; omega
        | cons y ys =>
          rw [ht, List.getLast?_cons_cons] at hr
          exact trimEnd_last mx rs r (by rw [ht]; exact hr)

theorem find_last_spec (p : Nat → Bool) : ∀ (n i : Nat), (List.range n).reverse.find? p = some i →
    ∀ j, i < j → j < n → p j = false
  | 0, i, h => by simp at h
  | n + 1, i, h => by
    rw [List.range_succ, List.reverse_append] at h
    simp only [List.reverse_cons, List.reverse_nil, List.nil_append, List.cons_append, List.find?_cons] at h
    intro j hij hj
    cases hp : p n with
    | true => rw [hp] at h; simp at h; omega
    | false =>
      rw [hp] at h
      simp only [] at h
      by_cases hjn : j = n
      · subst hjn; exact hp
      · exact find_last_spec p n i h j hij (by omega)

theorem setLo_zero_cons (r0 : Int × Int) (rs : RL) (mn : Int) : setLo (r0 :: rs) 0 mn = (mn, r0.2) :: rs := by
  unfold setLo
  apply List.ext_getElem
  · simp
  · intro i h1 h2
    simp only [List.getElem_mapIdx]
    cases i with
    | zero => simp
    | succ i => simp

theorem good_minProp (l : RL) (mn : Int) (h : Good l) : Good (minProp l mn).1 := by
  unfold minProp
  cases hlast : l.getLast? with
  | none => exact h
  | some rl =>
    simp only []
    split
    · exact good_nil
    · cases hfind : (List.range l.length).reverse.find? (fun j => decide ((l.getD j (0, 0)).1 < mn)) with
      | none => exact h
      | some i =>
        simp only []
        split
        · refine ⟨List.Pairwise.sublist (List.drop_sublist i l) h.asc,
            List.Pairwise.sublist (List.drop_sublist i l) h.lo, ?_⟩
          intro r hr
          rw [List.tail_drop] at hr
          exact h.wf r (by
            have h2 : r ∈ (l.drop 1).drop i := by rw [List.drop_drop, Nat.add_comm]; exact hr
            have : r ∈ l.drop 1 := List.mem_of_mem_drop h2
            simpa using this)
        · rename_i hi0
          have hi : i = 0 := by omega
          subst hi
          cases l with
          | nil => simp at hlast
          | cons r0 rs =>
            rw [setLo_zero_cons]
            refine ⟨?_, ?_, h.wf⟩
            · unfold Asc; rw [List.pairwise_cons]
              exact ⟨(List.pairwise_cons.1 h.asc).1, (List.pairwise_cons.1 h.asc).2⟩
            · unfold SortedLo; rw [List.pairwise_cons]
              refine ⟨fun b hb => ?_, (List.pairwise_cons.1 h.lo).2⟩
              obtain ⟨k, hk, rfl⟩ := List.getElem_of_mem hb
              have := find_last_spec _ _ 0 hfind (k + 1) (by omega) (by simp; omega)
              simp only [decide_eq_false_iff_not] at this
              have e : (r0 :: rs).getD (k + 1) (0, 0) = rs[k] := by simp [List.getD, hk]
              rw [e] at this
              simp only []; omega

/-! ### the `in` propagator keeps the shape -/

theorem inIntersect_good : ∀ (fuel : Nat) (is ds : RL), AscR is → AscR ds →
    (∀ y ∈ inIntersect fuel is ds, y.1 ≤ y.2 ∧ (∃ i ∈ is, i.1 ≤ y.1 ∧ y.2 ≤ i.2) ∧ (∃ d ∈ ds, d.1 ≤ y.1 ∧ y.2 ≤ d.2)) ∧
    AscR (inIntersect fuel is ds) := by
  intro fuel
  induction fuel with
  | zero => intro is ds _ _; simp [inIntersect, AscR]
  | succ fuel ih =>
    intro is ds hi hd
    cases is with
    | nil => simp [inIntersect, AscR]
    | cons i is =>
      cases ds with
      | nil => simp [inIntersect, AscR]
      | cons d ds =>
        have hi' := List.pairwise_cons.1 hi
        have hd' := List.pairwise_cons.1 hd
        simp only [inIntersect]
        by_cases hlt : i.2 < d.2
        · simp only [hlt, if_true]
          obtain ⟨m1, m2⟩ := ih is (d :: ds) hi'.2 hd
          have hrest : ∀ y ∈ inIntersect fuel is (d :: ds), y.1 ≤ y.2 ∧ (∃ i' ∈ i :: is, i'.1 ≤ y.1 ∧ y.2 ≤ i'.2) ∧
              (∃ d' ∈ d :: ds, d'.1 ≤ y.1 ∧ y.2 ≤ d'.2) := by
            intro y hy
            obtain ⟨a, ⟨i', hi1, hi2⟩, b⟩ := m1 y hy
            exact ⟨a, ⟨i', List.mem_cons_of_mem _ hi1, hi2⟩, b⟩
          obtain ⟨L, hLe, hL1, hL2⟩ : ∃ L, L = (if i.1 > d.1 then i.1 else d.1) ∧ i.1 ≤ L ∧ d.1 ≤ L :=
            ⟨_, rfl, by split <;> omega, by split <;> omega⟩
          rw [← hLe]
          by_cases hle : L ≤ i.2
          · simp only [hle, if_true]
            refine ⟨fun y hy => ?_, ?_⟩
            · rcases List.mem_cons.1 hy with rfl | hy
              · exact ⟨hle, ⟨i, by simp, hL1, Int.le_refl _⟩, ⟨d, by simp, hL2, by simp only []; omega⟩⟩
              · exact hrest y hy
            · unfold AscR; rw [List.pairwise_cons]
              refine ⟨fun y hy => ?_, m2⟩
              obtain ⟨_, ⟨i', hi1, hi2, _⟩, _⟩ := m1 y hy
              have := hi'.1 i' hi1
              simp only []; omega
          · simp only [hle, if_false]
            exact ⟨hrest, m2⟩
        · simp only [hlt, if_false]
          obtain ⟨m1, m2⟩ := ih (i :: is) ds hi hd'.2
          have hrest : ∀ y ∈ inIntersect fuel (i :: is) ds, y.1 ≤ y.2 ∧ (∃ i' ∈ i :: is, i'.1 ≤ y.1 ∧ y.2 ≤ i'.2) ∧
              (∃ d' ∈ d :: ds, d'.1 ≤ y.1 ∧ y.2 ≤ d'.2) := by
            intro y hy
            obtain ⟨a, b, ⟨d', hd1, hd2⟩⟩ := m1 y hy
            exact ⟨a, b, ⟨d', List.mem_cons_of_mem _ hd1, hd2⟩⟩
          obtain ⟨L, hLe, hL1, hL2⟩ : ∃ L, L = (if i.1 > d.1 then i.1 else d.1) ∧ i.1 ≤ L ∧ d.1 ≤ L :=
            ⟨_, rfl, by split <;> omega, by split <;> omega⟩
          rw [← hLe]
          by_cases hle : L ≤ d.2
          · simp only [hle, if_true]
            refine ⟨fun y hy => ?_, ?_⟩
            · rcases List.mem_cons.1 hy with rfl | hy
              · exact ⟨hle, ⟨i, by simp, hL1, by simp only []; omega⟩, ⟨d, by simp, hL2, Int.le_refl _⟩⟩
              · exact hrest y hy
            · unfold AscR; rw [List.pairwise_cons]
              refine ⟨fun y hy => ?_, m2⟩
              obtain ⟨_, _, ⟨d', hd1, hd2, _⟩⟩ := m1 y hy
              have := hd'.1 d' hd1
              simp only []; omega
          · simp only [hle, if_false]
            exact ⟨hrest, m2⟩

theorem good_inProp (l items : RL) (h : Good l) (hwf : ∀ r ∈ items, r.1 ≤ r.2) : Good (inProp l items).1 := by
  unfold inProp
  simp only []
  have inv : MergeInv [] (sortLo items) :=
    ⟨by simp, by intro r hr; simp at hr, sorted_sortLo items,
     by intro r hr; exact hwf r ((mem_sortLo items r).mp hr), by intro a ha; simp at ha⟩
  obtain ⟨m1, _, _⟩ := inMerge_spec (sortLo items) [] inv
  obtain ⟨g1, g2⟩ := inIntersect_good ((inMerge [] (sortLo items)).length + l.length + 1) _ l m1 h.asc
  exact good_of_asc_wf _ g2 (fun r hr => (g1 r hr).1)

/-! ### what a propagator stands for, and the state invariant -/

/-- the relation a propagator was created for, read on an assignment `σ` -/
def Sat (σ : Nat → Int) : Pg → Prop
  | .exprMax t v => σ t ≤ v
  | .exprMin t v => v ≤ σ t
  | .eqConst t v => σ t = v
  | .boundsMax t o off => σ t ≤ σ o + off
  | .boundsMin t o off => σ o + off ≤ σ t
  | .varEq t o => σ t = σ o
  | .inP t items => Den items (σ t)

/-- the items of an `in` propagator are ranges `lo ≤ hi` -/
def PgOk : Pg → Prop
  | .inP _ items => ∀ r ∈ items, r.1 ≤ r.2
  | _ => True

/-- `σ` lies in every domain, the domains have the kept shape, and every attached propagator stands
    for a relation `σ` satisfies -/
structure SInv (σ : Nat → Int) (n : Nat) (st : St) : Prop where
  sz : st.doms.size = n
  good : ∀ i, Good (dom st i)
  den : ∀ i, i < n → Den (dom st i) (σ i)
  att : ∀ i, ∀ q ∈ st.attached.getD i [], Sat σ q ∧ PgOk q

theorem dom_setDom (st : St) (t : Nat) (l : RL) (i : Nat) :
    dom (setDom st t l) i = if i = t ∧ t < st.doms.size then l else dom st i := by
  unfold dom setDom
  simp only [Array.getD_eq_getD_getElem?, Array.getElem?_setIfInBounds]
  by_cases h : t = i
  · subst h
    by_cases h2 : t < st.doms.size
    · simp [h2]
    · simp [h2]
  · have : ¬ (i = t) := fun e => h e.symm
    simp [h, this]

theorem sinv_setDom (σ : Nat → Int) (n : Nat) (st : St) (t : Nat) (l : RL) (h : SInv σ n st) (hg : Good l)
    (hd : t < n → Den l (σ t)) : SInv σ n (setDom st t l) := by
  refine ⟨by simp [setDom, h.sz], fun i => ?_, fun i hi => ?_, h.att⟩
  · rw [dom_setDom]; split
    · exact hg
    · exact h.good i
  · rw [dom_setDom]; split
    · rename_i hc; rw [hc.1]; exact hd (by rw [← hc.1]; exact hi)
    · exact h.den i hi

theorem dom_ne_nil_lt (st : St) (i : Nat) (h : dom st i ≠ []) : i < st.doms.size := by
  by_contra hc
  apply h
  unfold dom
  simp [Array.getD_eq_getD_getElem?, Array.getElem?_eq_none (by omega : st.doms.size ≤ i)]

theorem maxProp_keeps' (l : RL) (mx v : Int) (hg : Good l) (h : Den l v) (hv : v ≤ mx) : Den (maxProp l mx).1 v := by
  cases l with
  | nil => obtain ⟨r, hr, _⟩ := h; simp at hr
  | cons r0 rs => exact maxProp_keeps r0 rs mx v (List.pairwise_cons.1 hg.lo).1 h hv

/-- `runProp` touches the domains only -/
theorem runProp_frame : ∀ (fuel : Nat) (st : St) (p : Pg),
    (runProp fuel st p).1.attached = st.attached ∧ (runProp fuel st p).1.global = st.global := by
  intro fuel
  induction fuel with
  | zero => intro st p; simp [runProp]
  | succ fuel ih =>
    intro st p
    cases p with
    | exprMax t v => simp [runProp, setDom]
    | exprMin t v => simp [runProp, setDom]
    | eqConst t v => simp only [runProp]; split <;> simp [setDom]
    | boundsMax t o off => simp only [runProp]; split <;> simp [setDom]
    | boundsMin t o off => simp only [runProp]; split <;> simp [setDom]
    | varEq t o =>
      simp only [runProp]
      have h1 := ih st (.boundsMax t o 0)
      have h2 := ih (runProp fuel st (.boundsMax t o 0)).1 (.boundsMax o t 0)
      have h3 := ih (runProp fuel (runProp fuel st (.boundsMax t o 0)).1 (.boundsMax o t 0)).1 (.boundsMin t o 0)
      have h4 := ih (runProp fuel (runProp fuel (runProp fuel st (.boundsMax t o 0)).1 (.boundsMax o t 0)).1 (.boundsMin t o 0)).1 (.boundsMin o t 0)
      exact ⟨by rw [h4.1, h3.1, h2.1, h1.1], by rw [h4.2, h3.2, h2.2, h1.2]⟩
    | inP t items =>
      simp only [runProp]
      split
      · have key : ∀ (qs : List Pg) (s : St), (qs.foldl (fun s q => (runProp fuel s q).1) s).attached = s.attached ∧
            (qs.foldl (fun s q => (runProp fuel s q).1) s).global = s.global := by
          intro qs
          induction qs with
          | nil => intro s; simp
          | cons q qs ihq =>
            intro s
            simp only [List.foldl_cons]
            have a := ihq (runProp fuel s q).1
            have b := ih s q
            exact ⟨by rw [a.1, b.1], by rw [a.2, b.2]⟩
        have := key ((setDom st t (inProp (dom st t) items).1).attached.getD t []) (setDom st t (inProp (dom st t) items).1)
        simpa [setDom] using this
      · simp [setDom]

theorem getLast?_some_ne_nil {α : Type} (l : List α) (a : α) (h : l.getLast? = some a) : l ≠ [] := by
  intro e; subst e; simp at h

theorem head?_some_ne_nil {α : Type} (l : List α) (a : α) (h : l.head? = some a) : l ≠ [] := by
  intro e; subst e; simp at h

/-- **One propagation step is sound**: a propagator that stands for a relation `σ` satisfies never
    removes `σ` from a domain (including the re-entrant `target.propagate()` of the `in` propagator) -/
theorem runProp_sound (σ : Nat → Int) (n : Nat) : ∀ (fuel : Nat) (st : St) (p : Pg),
    SInv σ n st → Sat σ p → PgOk p → SInv σ n (runProp fuel st p).1 := by
  intro fuel
  induction fuel with
  | zero => intro st p h _ _; simpa [runProp] using h
  | succ fuel ih =>
    intro st p h hs hok
    cases p with
    | exprMax t v =>
      simp only [runProp]
      exact sinv_setDom σ n st t _ h (good_maxProp _ _ (h.good t))
        (fun ht => maxProp_keeps' _ _ _ (h.good t) (h.den t ht) hs)
    | exprMin t v =>
      simp only [runProp]
      exact sinv_setDom σ n st t _ h (good_minProp _ _ (h.good t))
        (fun ht => minProp_keeps _ _ _ (h.good t).asc (h.good t).wf (h.den t ht) hs)
    | eqConst t v =>
      simp only [runProp]
      split
      · refine sinv_setDom σ n st t _ h (good_single v v) (fun _ => ?_)
        simp only [Sat] at hs
        exact ⟨(v, v), by simp, by simp only []; omega, by simp only []; omega⟩
      · exact h
    | boundsMax t o off =>
      simp only [runProp]
      cases htl : (dom st t).getLast? with
      | none => exact h
      | some tl =>
        simp only []
        refine sinv_setDom σ n st t _ h (good_maxProp _ _ (h.good t)) (fun ht => ?_)
        apply maxProp_keeps' _ _ _ (h.good t) (h.den t ht)
        simp only [Sat] at hs
        cases hol : (dom st o).getLast? with
        | none => simp only []; exact den_le_last _ (h.good t) _ (h.den t ht) tl htl
        | some ol =>
          simp only []
          have ho : o < n := by
            rw [← h.sz]; exact dom_ne_nil_lt st o (getLast?_some_ne_nil _ _ hol)
          have := den_le_last _ (h.good o) _ (h.den o ho) ol hol
          omega
    | boundsMin t o off =>
      simp only [runProp]
      cases hth : (dom st t).head? with
      | none => exact h
      | some th =>
        simp only []
        refine sinv_setDom σ n st t _ h (good_minProp _ _ (h.good t)) (fun ht => ?_)
        apply minProp_keeps _ _ _ (h.good t).asc (h.good t).wf (h.den t ht)
        simp only [Sat] at hs
        cases hoh : (dom st o).head? with
        | none => simp only []; exact den_ge_head _ (h.good t) _ (h.den t ht) th hth
        | some oh =>
          simp only []
          have ho : o < n := by
            rw [← h.sz]; exact dom_ne_nil_lt st o (head?_some_ne_nil _ _ hoh)
          have := den_ge_head _ (h.good o) _ (h.den o ho) oh hoh
          omega
    | varEq t o =>
      simp only [runProp]
      simp only [Sat] at hs
      have s1 := ih st (.boundsMax t o 0) h (by simp only [Sat]; omega) trivial
      have s2 := ih _ (.boundsMax o t 0) s1 (by simp only [Sat]; omega) trivial
      have s3 := ih _ (.boundsMin t o 0) s2 (by simp only [Sat]; omega) trivial
      exact ih _ (.boundsMin o t 0) s3 (by simp only [Sat]; omega) trivial
    | inP t items =>
      simp only [runProp]
      have h1 : SInv σ n (setDom st t (inProp (dom st t) items).1) :=
        sinv_setDom σ n st t _ h (good_inProp _ _ (h.good t) hok)
          (fun ht => inProp_keeps _ _ (h.good t).asc hok _ (h.den t ht) hs)
      split
      · have key : ∀ (qs : List Pg) (s : St), SInv σ n s → (∀ q ∈ qs, Sat σ q ∧ PgOk q) →
            SInv σ n (qs.foldl (fun s q => (runProp fuel s q).1) s) := by
          intro qs
          induction qs with
          | nil => intro s hs' _; simpa using hs'
          | cons q qs ihq =>
            intro s hs' hq
            simp only [List.foldl_cons]
            exact ihq _ (ih s q hs' (hq q (by simp)).1 (hq q (by simp)).2)
              (fun q' hq' => hq q' (List.mem_cons_of_mem _ hq'))
        exact key _ _ h1 (h1.att t)
      · exact h1

/-- one round of the fixed-point loop over the visitor's propagators -/
theorem round_sound (σ : Nat → Int) (n : Nat) : ∀ (ps : List Pg) (acc : St × Bool), SInv σ n acc.1 →
    (∀ p ∈ ps, Sat σ p ∧ PgOk p) →
    SInv σ n (ps.foldl (fun (acc : St × Bool) p => ((runProp 6 acc.1 p).1, acc.2 || (runProp 6 acc.1 p).2)) acc).1 ∧
    (ps.foldl (fun (acc : St × Bool) p => ((runProp 6 acc.1 p).1, acc.2 || (runProp 6 acc.1 p).2)) acc).1.global = acc.1.global := by
  intro ps
  induction ps with
  | nil => intro acc h _; exact ⟨by simpa using h, rfl⟩
  | cons p ps ih =>
    intro acc h hp
    simp only [List.foldl_cons]
    obtain ⟨a, b⟩ := ih ((runProp 6 acc.1 p).1, acc.2 || (runProp 6 acc.1 p).2)
      (runProp_sound σ n 6 acc.1 p h (hp p (by simp)).1 (hp p (by simp)).2)
      (fun q hq => hp q (List.mem_cons_of_mem _ hq))
    exact ⟨a, by rw [b]; exact (runProp_frame 6 acc.1 p).2⟩

theorem fixpoint_sound (σ : Nat → Int) (n : Nat) : ∀ (k : Nat) (st : St), SInv σ n st →
    (∀ p ∈ st.global, Sat σ p ∧ PgOk p) → SInv σ n (fixpoint k st) := by
  intro k
  induction k with
  | zero => intro st h _; simpa [fixpoint] using h
  | succ k ih =>
    intro st h hg
    simp only [fixpoint]
    obtain ⟨a, b⟩ := round_sound σ n st.global (st, false) h hg
    split
    · exact ih _ a (by rw [b]; exact hg)
    · exact a

/-! ### the visitor: which propagator a statement gets -/

/-- the comparison an operator stands for (other operators create no propagator) -/
def cmpHolds (op : BinOp) (a b : Int) : Prop :=
  match op with
  | .lt => a < b
  | .le => a ≤ b
  | .gt => a > b
  | .ge => a ≥ b
  | .eq => a = b
  | _ => True

/-- `σ` satisfies a top-level statement as the inference reads it: fields by their value in `σ`,
    non-random operands by their Python-integer value under `ρ` -/
def HoldsTop (ρ σ : Nat → Int) : BTop → Prop
  | .other => True
  | .cmp op l r =>
      match fieldOf l, fieldOf r with
      | some a, some b => cmpHolds op (σ a) (σ b)
      | some a, none => ∀ v, pyEval ρ r = some v → cmpHolds op (σ a) v
      | none, some b => ∀ v, pyEval ρ l = some v → cmpHolds op v (σ b)
      | none, none => True
  | .inn lhs items =>
      match fieldOf lhs with
      | some a => ∀ rs, items.mapM (itemRange ρ) = some rs → Den rs (σ a) ∧ ∀ r ∈ rs, r.1 ≤ r.2
      | none => True

/-- state invariant plus: every propagator of the visitor's own list stands for a relation `σ` satisfies -/
def Inv2 (σ : Nat → Int) (n : Nat) (st : St) : Prop :=
  SInv σ n st ∧ ∀ p ∈ st.global, Sat σ p ∧ PgOk p

theorem inv2_attach (σ : Nat → Int) (n : Nat) (st : St) (i : Nat) (q : Pg) (h : Inv2 σ n st)
    (hq : Sat σ q ∧ PgOk q) : Inv2 σ n (attach st i q) := by
  refine ⟨⟨h.1.sz, h.1.good, h.1.den, fun j p hp => ?_⟩, h.2⟩
  simp only [attach, Array.getD_eq_getD_getElem?, Array.getElem?_setIfInBounds] at hp
  by_cases hij : i = j
  · subst hij
    by_cases hsz : i < st.attached.size
    · simp only [hsz, and_self, if_true, Option.getD_some, List.mem_append, List.mem_singleton] at hp
      rcases hp with hp | rfl
      · exact h.1.att i p (by simpa [Array.getD_eq_getD_getElem?] using hp)
      · exact hq
    · simp only [hsz, and_false, if_false] at hp
      exact h.1.att i p (by simpa [Array.getD_eq_getD_getElem?] using hp)
  · simp only [hij, false_and, if_false] at hp
    exact h.1.att j p (by simpa [Array.getD_eq_getD_getElem?] using hp)

theorem inv2_global (σ : Nat → Int) (n : Nat) (st : St) (p : Pg) (h : Inv2 σ n st)
    (hp : Sat σ p ∧ PgOk p) : Inv2 σ n { st with global := st.global ++ [p] } := by
  refine ⟨⟨h.1.sz, h.1.good, h.1.den, h.1.att⟩, fun q hq => ?_⟩
  rcases List.mem_append.1 hq with hq | hq
  · exact h.2 q hq
  · simp at hq; subst hq; exact hp

theorem inv2_err (σ : Nat → Int) (n : Nat) (st : St) (h : Inv2 σ n st) : Inv2 σ n { st with err := true } :=
  ⟨⟨h.1.sz, h.1.good, h.1.den, h.1.att⟩, h.2⟩

theorem pyEval_sub_one (ρ : Nat → Int) (e : Expr) :
    pyEval ρ (.bin .sub e (.lit 1 false 4)) = (pyEval ρ e).map (· - 1) := by
  simp only [pyEval]; cases pyEval ρ e <;> simp

theorem pyEval_add_one (ρ : Nat → Int) (e : Expr) :
    pyEval ρ (.bin .add e (.lit 1 false 4)) = (pyEval ρ e).map (· + 1) := by
  simp only [pyEval]; cases pyEval ρ e <;> simp

theorem nre_sat (ρ σ : Nat → Int) (t : Nat) (op : BinOp) (e : Expr) (flip : Bool) (p : Pg)
    (h : nrePropagator ρ t op e flip = some (some p))
    (hh : ∀ v, pyEval ρ e = some v → if flip then cmpHolds op v (σ t) else cmpHolds op (σ t) v) :
    Sat σ p ∧ PgOk p := by
  unfold nrePropagator at h
  simp only [pyEval_sub_one, pyEval_add_one] at h
  cases he : pyEval ρ e with
  | none => rw [he] at h; cases op <;> cases flip <;> simp at h
  | some a =>
    rw [he] at h
    have hc := hh a he
    cases op <;> cases flip <;> simp at h <;> subst h <;> simp [cmpHolds] at hc <;> simp [Sat, PgOk] <;> omega

/-- a relation between two fields: the propagator registers with both sides and with the visitor -/
theorem visit_ff (Γ : Nat → FieldTy) (ρ σ : Nat → Int) (n : Nat) (st : St) (a b : Nat) (op : BinOp) (h : Inv2 σ n st)
    (ht : cmpHolds op (σ a) (σ b)) : Inv2 σ n (visitTop Γ ρ st (.cmp op (.fld a) (.fld b))) := by
  cases op <;> simp only [cmpHolds] at ht <;> simp only [visitTop, fieldOf]
  case eq =>
    have e1 : Sat σ (.boundsMax a b 0) ∧ PgOk (.boundsMax a b 0) := ⟨by simp only [Sat]; omega, trivial⟩
    have e2 : Sat σ (.boundsMax b a 0) ∧ PgOk (.boundsMax b a 0) := ⟨by simp only [Sat]; omega, trivial⟩
    have e3 : Sat σ (.boundsMin a b 0) ∧ PgOk (.boundsMin a b 0) := ⟨by simp only [Sat]; omega, trivial⟩
    have e4 : Sat σ (.boundsMin b a 0) ∧ PgOk (.boundsMin b a 0) := ⟨by simp only [Sat]; omega, trivial⟩
    have e5 : Sat σ (.varEq a b) ∧ PgOk (.varEq a b) := ⟨by simp only [Sat]; omega, trivial⟩
    have s1 := inv2_attach σ n st b _ h e1
    have s2 := inv2_attach σ n _ a _ s1 e2
    have s3 := inv2_attach σ n _ b _ s2 e3
    have s4 := inv2_attach σ n _ a _ s3 e4
    have s5 := inv2_attach σ n _ a _ s4 e5
    exact inv2_global σ n _ _ s5 e5
  case lt =>
    have e : Sat σ (.boundsMax a b (-1)) ∧ PgOk (.boundsMax a b (-1)) := ⟨by simp only [Sat]; omega, trivial⟩
    exact inv2_global σ n _ _ (inv2_attach σ n _ a _ (inv2_attach σ n st b _ h e) e) e
  case le =>
    have e : Sat σ (.boundsMax a b 0) ∧ PgOk (.boundsMax a b 0) := ⟨by simp only [Sat]; omega, trivial⟩
    exact inv2_global σ n _ _ (inv2_attach σ n _ a _ (inv2_attach σ n st b _ h e) e) e
  case gt =>
    have e : Sat σ (.boundsMin a b 1) ∧ PgOk (.boundsMin a b 1) := ⟨by simp only [Sat]; omega, trivial⟩
    exact inv2_global σ n _ _ (inv2_attach σ n _ a _ (inv2_attach σ n st b _ h e) e) e
  case ge =>
    have e : Sat σ (.boundsMin a b 0) ∧ PgOk (.boundsMin a b 0) := ⟨by simp only [Sat]; omega, trivial⟩
    exact inv2_global σ n _ _ (inv2_attach σ n _ a _ (inv2_attach σ n st b _ h e) e) e
  all_goals exact h

theorem visitTop_sound (Γ : Nat → FieldTy) (ρ σ : Nat → Int) (n : Nat) (st : St) (top : BTop)
    (h : Inv2 σ n st) (ht : HoldsTop ρ σ top) : Inv2 σ n (visitTop Γ ρ st top) := by
  cases top with
  | other => exact h
  | cmp op l r =>
    cases hl : fieldOf l with
    | none =>
      cases hr : fieldOf r with
      | none => simp only [visitTop, hl, hr]; exact h
      | some b =>
        simp only [HoldsTop, hl, hr] at ht
        simp only [visitTop, hl, hr]
        split
        · cases hp : nrePropagator ρ b op l true with
          | none => exact h
          | some q =>
            cases q with
            | none => exact inv2_err σ n st h
            | some p =>
              simp only []
              have hs := nre_sat ρ σ b op l true p hp (by simpa using ht)
              exact inv2_global σ n _ p (inv2_attach σ n st b p h hs) hs
        · exact h
    | some a =>
      cases hr : fieldOf r with
      | none =>
        simp only [HoldsTop, hl, hr] at ht
        simp only [visitTop, hl, hr]
        split
        · cases hp : nrePropagator ρ a op r false with
          | none => exact h
          | some q =>
            cases q with
            | none => exact inv2_err σ n st h
            | some p =>
              simp only []
              have hs := nre_sat ρ σ a op r false p hp (by simpa using ht)
              exact inv2_global σ n _ p (inv2_attach σ n st a p h hs) hs
        · exact h
      | some b =>
        have el : l = .fld a := by cases l <;> simp [fieldOf] at hl; subst hl; rfl
        have er : r = .fld b := by cases r <;> simp [fieldOf] at hr; subst hr; rfl
        subst el; subst er
        simp only [HoldsTop, fieldOf] at ht
        exact visit_ff Γ ρ σ n st a b op h ht
  | inn lhs items =>
    simp only [visitTop]
    simp only [HoldsTop] at ht
    cases hl : fieldOf lhs with
    | none => exact h
    | some a =>
      rw [hl] at ht
      simp only [] at ht ⊢
      split
      · cases hm : items.mapM (itemRange ρ) with
        | none => exact inv2_err σ n st h
        | some rs =>
          simp only []
          obtain ⟨hden, hwf⟩ := ht rs hm
          have h1 := inv2_attach σ n st a (.inP a rs) h ⟨hden, hwf⟩
          refine ⟨runProp_sound σ n 6 _ _ h1.1 hden hwf, ?_⟩
          rw [(runProp_frame 6 _ _).2]
          exact h1.2
      · exact h

/-- **Every solution survives the inference.**  Let `σ` assign a value to every field such that `σ`
    lies in the initial domains (the declared types / enumerators, in the kept shape) and satisfies
    every top-level statement as the visitor reads it (`HoldsTop`).  Then after all statements have
    been visited and the fixed-point loop has run — whatever the number of rounds, the order of the
    propagators and the re-entrant propagation of `in` — `σ` still lies in the domain of every
    field: no legal value is starved by bound inference. -/
theorem process_sound (Γ : Nat → FieldTy) (ρ σ : Nat → Int) (init : Array RL) (tops : List BTop)
    (hgood : ∀ i, Good (init.getD i []))
    (hden : ∀ i, i < init.size → Den (init.getD i []) (σ i))
    (hholds : ∀ t ∈ tops, HoldsTop ρ σ t) :
    ∀ i, i < init.size → Den (dom (process Γ ρ init tops) i) (σ i) := by
  have h0 : Inv2 σ init.size { doms := init, attached := init.map fun _ => [] } := by
    refine ⟨⟨rfl, hgood, hden, fun i q hq => ?_⟩, fun p hp => by simp at hp⟩
    exfalso
    simp only [Array.getD_eq_getD_getElem?, Array.getElem?_map] at hq
    cases h : init[i]? <;> simp [h] at hq
  have hfold : ∀ (ts : List BTop) (st : St), Inv2 σ init.size st → (∀ t ∈ ts, HoldsTop ρ σ t) →
      Inv2 σ init.size (ts.foldl (visitTop Γ ρ) st) := by
    intro ts
    induction ts with
    | nil => intro st h _; simpa using h
    | cons t ts ih =>
      intro st h hh
      simp only [List.foldl_cons]
      exact ih _ (visitTop_sound Γ ρ σ _ st t h (hh t (by simp))) (fun t' ht' => hh t' (List.mem_cons_of_mem _ ht'))
  have h1 := hfold tops _ h0 hholds
  have h2 := fixpoint_sound σ init.size 100 _ h1.1 h1.2
  intro i hi
  exact h2.den i hi

/-- the initial domain of a scalar field has the kept shape -/
theorem good_initScalar (w : Nat) (s : Bool) : Good (initScalar w s) := by
  unfold initScalar; split <;> exact good_single _ _

example : (process (fun _ => ⟨4, false, true⟩) (fun _ => 0) #[[(0, 15)], [(0, 15)]]
    [.cmp .lt (.fld 0) (.fld 1), .cmp .le (.fld 1) (.lit 9 true 32)]).doms = #[[(0, 8)], [(0, 9)]] := by decide
example : HoldsTop (fun _ => 0) (fun i => if i = 0 then 3 else 9) (.cmp .lt (.fld 0) (.fld 1)) := by
  simp [HoldsTop, fieldOf, cmpHolds]

end Pyvsc.C14
