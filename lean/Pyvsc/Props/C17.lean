import Pyvsc.Props.C03
/-!
# C17 — pre_randomize / post_randomize run once each, on exactly the random composites
-/
namespace Pyvsc.C17
open Pyvsc.World

/-- a callback fires on object `id` iff `id` is used as random in the call -/
theorem callback_iff (usedObj : List (Nat × Bool)) (id : Nat) :
    id ∈ callbacks usedObj ↔ (id, true) ∈ usedObj := by
  simp only [callbacks, List.mem_map, List.mem_filter]
  constructor
  · rintro ⟨p, ⟨hp, h2⟩, rfl⟩
    obtain ⟨a, b⟩ := p
    simp only at h2 ⊢
    subst h2; exact hp
  · intro h; exact ⟨(id, true), ⟨h, rfl⟩, rfl⟩

theorem nodup_filter_map (l : List (Nat × Bool)) (h : (l.map (·.1)).Nodup) :
    ((l.filter (·.2)).map (·.1)).Nodup := by
  induction l with
  | nil => simp
  | cons p l ih =>
    simp only [List.map_cons, List.nodup_cons] at h
    by_cases hp : p.2 = true
    · simp only [List.filter_cons, hp, if_true, List.map_cons, List.nodup_cons]
      refine ⟨?_, ih h.2⟩
      intro hm
      apply h.1
      obtain ⟨q, hq, he⟩ := List.mem_map.mp hm
      exact List.mem_map.mpr ⟨q, (List.mem_filter.mp hq).1, he⟩
    · simp only [List.filter_cons, hp, Bool.false_eq_true, if_false]
      exact ih h.2

/-- **Exactly once.**  When object ids are unique, no object's callback fires twice in a call, and
    the callbacks come in the pre-order of the tree -/
theorem callbacks_once (t : Node) (h : (objects t).Nodup) : (callbacks (usedInCall t).2).Nodup := by
  apply nodup_filter_map
  rw [usedInCall, C03.used_objects]
  exact h

/-- **The root.**  The top object of the call always gets its callbacks -/
theorem callback_root (id : Nat) (d m : Bool) (ch : Node) :
    id ∈ callbacks (usedInCall (.obj id d m ch)).2 :=
  (callback_iff _ _).mpr (C03.target_used id d m ch)

/-- **Nothing below a non-random sub-object.** -/
theorem no_callback_below_nonrandom (t : Node) (r : Bool) : callbacks (used t false r).2 = [] := by
  have := (C03.used_false t r).2
  simp only [callbacks]
  rw [List.filter_eq_nil_iff.mpr]
  · rfl
  · intro p hp; simp [this p hp]

example : callbacks (usedInCall C03.exTree).2 = [0, 1] := by decide

end Pyvsc.C17
