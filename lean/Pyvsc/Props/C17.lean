import Pyvsc.Props.C03
/-!
# C17 — pre_randomize / post_randomize run once each, on exactly the random composites
-/
namespace Pyvsc.C17
open Pyvsc.World

/-- a callback fires on object `id` iff `id` is used as random in the call -/
theorem callback_iff (usedObj : List (Nat × Bool)) (id : Nat) :
    id ∈ callbacks usedObj ↔ (id, true) ∈ usedObj := by
  simp only [callbacks, List.mem_map, List.mem_filter]
  constructor
  · rintro ⟨p, ⟨hp, h2⟩, rfl⟩
    obtain ⟨a, b⟩ := p
    simp only at h2 ⊢
    subst h2; exact hp
  · intro h; exact ⟨(id, true), ⟨h, rfl⟩, rfl⟩

theorem nodup_filter_map (l : List (Nat × Bool)) (h : (l.map (·.1)).Nodup) :
    ((l.filter (·.2)).map (·.1)).Nodup := by
  induction l with
  | nil => simp
  | cons p l ih =>
    simp only [List.map_cons, List.nodup_cons] at h
    by_cases hp : p.2 = true
    · simp only [List.filter_cons, hp, if_true, List.map_cons, List.nodup_cons]
      refine ⟨?_, ih h.2⟩
      intro hm
      apply h.1
      obtain ⟨q, hq, he⟩ := List.mem_map.mp hm
      exact List.mem_map.mpr ⟨q, (List.mem_filter.mp hq).1, he⟩
    · simp only [List.filter_cons, hp, Bool.false_eq_true, if_false]
      exact ih h.2

/-- **Exactly once.**  When object ids are unique, no object's callback fires twice in a call, and
    the callbacks come in the pre-order of the tree -/
theorem callbacks_once (t : Node) (h : (objects t).Nodup) : (callbacks (usedInCall t).2).Nodup := by
  apply nodup_filter_map
  rw [usedInCall, C03.used_objects]
  exact h

/-- **The root.**  The top object of the call always gets its callbacks -/
theorem callback_root (id : Nat) (d m : Bool) (ch : Node) :
    id ∈ callbacks (usedInCall (.obj id d m ch)).2 :=
  (callback_iff _ _).mpr (C03.target_used id d m ch)

/-- **Nothing below a non-random sub-object.** -/
theorem no_callback_below_nonrandom (t : Node) (r : Bool) : callbacks (used t false r).2 = [] := by
  have := (C03.used_false t r).2
  simp only [callbacks]
  rw [List.filter_eq_nil_iff.mpr]
  · rfl
  · intro p hp; simp [this p hp]

/-- `c` is a direct member of the member sequence `ms` (a sub-object attribute, a list, a list element) -/
inductive MemberOf : Node → Node → Prop
  | here (c t : Node) : MemberOf c (.seq c t)
  | there (c h t : Node) : MemberOf c t → MemberOf c (.seq h t)

theorem used_member (cid : Nat) (cc ms : Node) (h : MemberOf (.obj cid true true cc) ms) :
    (cid, true) ∈ (used ms true false).2 := by
  generalize hc : Node.obj cid true true cc = c at h
  induction h with
  | here t => subst hc; simp [used]
  | there hd t _ ih => simp only [used, List.mem_append]; exact Or.inr ih

/-- **Every random sub-object.**  A member declared random whose rand_mode is on, of an object that
    is random in the call, gets its callbacks — and so on down the tree (apply again to the member) -/
theorem callback_random_member (id : Nat) (d m : Bool) (ch : Node) (cid : Nat) (cc : Node)
    (h : MemberOf (.obj cid true true cc) ch) : cid ∈ callbacks (usedInCall (.obj id d m ch)).2 := by
  rw [callback_iff]
  simp only [usedInCall, used, Bool.true_and, Bool.or_true, List.mem_cons]
  exact Or.inr (used_member cid cc ch h)

/-- a member that is not declared random (or whose rand_mode is off) gets no callback, nor does
    anything below it: its whole contribution to the callback list is empty -/
theorem no_callback_nonrandom_member (cid : Nat) (d m : Bool) (cc : Node) (parentUsed : Bool)
    (h : (d && m) = false) : callbacks (used (.obj cid d m cc) parentUsed false).2 = [] := by
  simp only [used, h, Bool.false_or, Bool.and_false]
  simp only [callbacks, List.filter_cons, Bool.false_eq_true, if_false]
  exact no_callback_below_nonrandom cc false

example : callbacks (usedInCall C03.exTree).2 = [0, 1] := by decide

end Pyvsc.C17
