import Pyvsc.Props.C11
import Mathlib.Algebra.Order.Field.Basic
import Mathlib.Tactic.Linarith
import Mathlib.Tactic.Positivity
import Mathlib.Tactic.FieldSimp
/-!
# C12 — instance and type coverage aggregate consistently and stay within 0..100
-/
namespace Pyvsc.C12
open Pyvsc.Cg Pyvsc.Bins

/-! ### the share of covered bins -/

/-- the number of covered bins never exceeds the number of bins (coverage ≤ 100) -/
theorem cov_range (a : Nat) (hits : List Nat) : covered a hits ≤ hits.length := by
  unfold covered; exact List.length_filter_le _ _

/-- more hits never un-cover a bin (coverage is non-decreasing along any sample sequence) -/
theorem cov_mono (a : Nat) (hits hits' : List Nat) (h : List.Forall₂ (· ≤ ·) hits hits') :
    covered a hits ≤ covered a hits' := by
  unfold covered
  induction h with
  | nil => simp
  | @cons x y xs ys hab _ ih =>
    simp only [List.filter_cons]
    by_cases hx : x ≥ a
    · have hy : y ≥ a := le_trans hx hab
      simp only [hx, hy, decide_true, if_true, List.length_cons]
      omega
    · by_cases hy : y ≥ a
      · simp only [hx, hy, decide_true, decide_false, if_true, List.length_cons]
        simp only [Bool.false_eq_true, if_false]
        omega
      · simp only [hx, hy, decide_false]
        simp only [Bool.false_eq_true, if_false]
        exact ih

/-- all bins are covered exactly when every bin reached its `at_least` threshold -/
theorem cov_full_iff (a : Nat) (hits : List Nat) : covered a hits = hits.length ↔ ∀ h ∈ hits, h ≥ a := by
  unfold covered
  rw [List.length_filter_eq_length_iff]
  simp

/-! ### weighted average over coverpoints and crosses (exact rationals) -/

/-- contribution of one item `(covered, n, weight)` -/
def term (it : Nat × Nat × Nat) : ℚ := (it.2.2 : ℚ) * (100 * (it.1 : ℚ) / (it.2.1 : ℚ))

def num (items : List (Nat × Nat × Nat)) : ℚ := (items.map term).sum
def den (items : List (Nat × Nat × Nat)) : ℚ := (items.map (fun it => (it.2.2 : ℚ))).sum

/-- covergroup coverage: weight-averaged share of covered bins -/
def wavg (items : List (Nat × Nat × Nat)) : ℚ := num items / den items

def ItemOK (it : Nat × Nat × Nat) : Prop := it.1 ≤ it.2.1 ∧ 0 < it.2.1

theorem term_bounds (it : Nat × Nat × Nat) (h : ItemOK it) : 0 ≤ term it ∧ term it ≤ 100 * (it.2.2 : ℚ) := by
  obtain ⟨k, n, w⟩ := it
  unfold ItemOK at h; simp only at h
  unfold term; simp only
  have hn : (0 : ℚ) < n := by exact_mod_cast h.2
  have hk : (k : ℚ) ≤ n := by exact_mod_cast h.1
  have hw : (0 : ℚ) ≤ w := by positivity
  have h1 : 100 * (k : ℚ) / n ≤ 100 := by rw [div_le_iff₀ hn]; linarith
  have h0 : 0 ≤ 100 * (k : ℚ) / n := by positivity
  constructor
  · positivity
  · nlinarith

theorem num_bounds (items : List (Nat × Nat × Nat)) (h : ∀ it ∈ items, ItemOK it) :
    0 ≤ num items ∧ num items ≤ 100 * den items := by
  unfold num den
  induction items with
  | nil => simp
  | cons it its ih =>
    have hb := term_bounds it (h it (by simp))
    have := ih (fun x hx => h x (List.mem_cons_of_mem _ hx))
    simp only [List.map_cons, List.sum_cons]
    constructor <;> linarith [this.1, this.2, hb.1, hb.2]

/-- coverage is always within 0..100 -/
theorem wavg_range (items : List (Nat × Nat × Nat)) (h : ∀ it ∈ items, ItemOK it) (hd : 0 < den items) :
    0 ≤ wavg items ∧ wavg items ≤ 100 := by
  obtain ⟨h0, h1⟩ := num_bounds items h
  unfold wavg
  constructor
  · positivity
  · rw [div_le_iff₀ hd]; exact h1

/-- pointwise order on item lists: same bin counts and weights, more covered bins -/
def ItemLe (a b : Nat × Nat × Nat) : Prop := a.1 ≤ b.1 ∧ a.2.1 = b.2.1 ∧ a.2.2 = b.2.2 ∧ 0 < a.2.1

theorem term_mono (a b : Nat × Nat × Nat) (h : ItemLe a b) : term a ≤ term b := by
  obtain ⟨k, n, w⟩ := a
  obtain ⟨k', n', w'⟩ := b
  unfold ItemLe at h; simp only at h
  obtain ⟨hk, rfl, rfl, hn⟩ := h
  unfold term; simp only
  have hn' : (0 : ℚ) < n := by exact_mod_cast hn
  have hk' : (k : ℚ) ≤ k' := by exact_mod_cast hk
  have hw : (0 : ℚ) ≤ w := by positivity
  apply mul_le_mul_of_nonneg_left _ hw
  apply div_le_div_of_nonneg_right _ (le_of_lt hn')
  linarith

theorem den_eq_of_le (xs ys : List (Nat × Nat × Nat)) (h : List.Forall₂ ItemLe xs ys) : den xs = den ys := by
  unfold den
  induction h with
  | nil => rfl
  | @cons a b as bs hab _ ih => simp only [List.map_cons, List.sum_cons]; rw [ih, hab.2.2.1]

theorem num_le_of_le (xs ys : List (Nat × Nat × Nat)) (h : List.Forall₂ ItemLe xs ys) : num xs ≤ num ys := by
  unfold num
  induction h with
  | nil => simp
  | @cons a b as bs hab _ ih =>
    simp only [List.map_cons, List.sum_cons]
    have := term_mono _ _ hab
    linarith

/-- coverage never decreases as samples arrive -/
theorem wavg_mono (xs ys : List (Nat × Nat × Nat)) (h : List.Forall₂ ItemLe xs ys) (hd : 0 < den xs) :
    wavg xs ≤ wavg ys := by
  unfold wavg
  rw [← den_eq_of_le xs ys h]
  exact div_le_div_of_nonneg_right (num_le_of_le xs ys h) (le_of_lt hd)

theorem sum_eq_of_le (items : List (Nat × Nat × Nat)) (h : ∀ it ∈ items, ItemOK it)
    (hs : num items = 100 * den items) : ∀ it ∈ items, term it = 100 * (it.2.2 : ℚ) := by
  induction items with
  | nil => simp
  | cons it its ih =>
    have hb := term_bounds it (h it (by simp))
    have hrest := num_bounds its (fun x hx => h x (List.mem_cons_of_mem _ hx))
    unfold num den at hs hrest
    simp only [List.map_cons, List.sum_cons] at hs
    have h1 : term it = 100 * (it.2.2 : ℚ) := by linarith [hrest.2, hb.2]
    have h2 : (its.map term).sum = 100 * (its.map (fun it => (it.2.2 : ℚ))).sum := by linarith
    intro x hx
    rcases List.mem_cons.1 hx with rfl | hx
    · exact h1
    · exact ih (fun x hx => h x (List.mem_cons_of_mem _ hx)) h2 x hx

/-- coverage is 100 exactly when every bin of every item with positive weight is covered -/
theorem wavg_full_iff (items : List (Nat × Nat × Nat)) (h : ∀ it ∈ items, ItemOK it) (hd : 0 < den items) :
    wavg items = 100 ↔ ∀ it ∈ items, 0 < it.2.2 → it.1 = it.2.1 := by
  unfold wavg
  rw [div_eq_iff (ne_of_gt hd)]
  constructor
  · intro hs it hit hw
    have := sum_eq_of_le items h hs it hit
    obtain ⟨k, n, w⟩ := it
    have hok := h (k, n, w) hit
    unfold ItemOK at hok; simp only at hok hw this ⊢
    unfold term at this; simp only at this
    have hn : (0 : ℚ) < n := by exact_mod_cast hok.2
    have hw' : (0 : ℚ) < w := by exact_mod_cast hw
    have : 100 * (k : ℚ) / n = 100 := by
      have := mul_left_cancel₀ (ne_of_gt hw') (by linarith : (w : ℚ) * (100 * (k : ℚ) / n) = (w : ℚ) * 100)
      exact this
    rw [div_eq_iff (ne_of_gt hn)] at this
    have : (k : ℚ) = n := by linarith
    exact_mod_cast this
  · intro hall
    unfold num den
    induction items with
    | nil => simp
    | cons it its ih =>
      simp only [List.map_cons, List.sum_cons]
      have hrest : 0 ≤ den its := by
        unfold den; apply List.sum_nonneg; intro x hx
        simp only [List.mem_map] at hx; obtain ⟨y, _, rfl⟩ := hx; positivity
      have ih' : (its.map term).sum = 100 * (its.map (fun it => (it.2.2 : ℚ))).sum := by
        by_cases hz : 0 < den its
        · exact ih (fun x hx => h x (List.mem_cons_of_mem _ hx)) hz
            (fun x hx => hall x (List.mem_cons_of_mem _ hx))
        · -- all remaining weights are zero: both sides are zero
          have hz' : den its = 0 := le_antisymm (not_lt.1 hz) hrest
          have hb := num_bounds its (fun x hx => h x (List.mem_cons_of_mem _ hx))
          unfold num den at hb hz'
          rw [hz'] at hb ⊢
          linarith [hb.1, hb.2]
      have hterm : term it = 100 * (it.2.2 : ℚ) := by
        obtain ⟨k, n, w⟩ := it
        have hok := h (k, n, w) (by simp)
        unfold ItemOK at hok; simp only at hok
        unfold term; simp only
        by_cases hw : 0 < w
        · have := hall (k, n, w) (by simp) hw
          simp only at this; subst this
          have hn : (0 : ℚ) < k := by exact_mod_cast hok.2
          field_simp
        · have : w = 0 := by omega
          subst this; simp
      linarith

/-! ### type data = bin-wise sum over the instances -/

theorem sum_range_ite (n a x : Nat) (h : a < n) :
    ((List.range n).map (fun k => if a = k then x else 0)).sum = x := by
  induction n with
  | zero => omega
  | succ m ih =>
    rw [List.range_succ, List.map_append, List.sum_append]
    by_cases ha : a = m
    · subst ha
      have : ((List.range a).map (fun k => if a = k then x else 0)).sum = 0 := by
        apply List.sum_eq_zero; intro y hy
        simp only [List.mem_map, List.mem_range] at hy
        obtain ⟨k, hk, rfl⟩ := hy
        have : ¬ a = k := by omega
        simp [this]
      simp [this]
    · have : ¬ a = m := ha
      rw [ih (by omega)]; simp [this]

/-- additive counters split over any partition of the operation history by instance id -/
theorem additive_partition {I : Type} (g : I → Nat) (ops : List (Nat × I)) (n : Nat)
    (hid : ∀ o ∈ ops, o.1 < n) :
    ((ops.map Prod.snd).map g).sum =
      ((List.range n).map (fun k => (((ops.filter (fun o => o.1 == k)).map Prod.snd).map g).sum)).sum := by
  induction ops with
  | nil => simp
  | cons o os ih =>
    have ih := ih (fun x hx => hid x (List.mem_cons_of_mem _ hx))
    have ho := hid o (by simp)
    simp only [List.map_cons, List.sum_cons, List.filter_cons]
    rw [ih]
    have : ∀ k, (((if (o.1 == k) = true then o :: os.filter (fun o => o.1 == k) else os.filter (fun o => o.1 == k)).map
        Prod.snd).map g).sum = (if o.1 = k then g o.2 else 0) + (((os.filter (fun o => o.1 == k)).map Prod.snd).map g).sum := by
      intro k
      by_cases hk : o.1 = k
      · simp [hk]
      · have : ¬ ((o.1 == k) = true) := by simpa using hk
        simp [hk]
    simp only [this]
    rw [List.sum_map_add, sum_range_ite n o.1 (g o.2) ho]

/-- **type = bin-wise sum of its instances** (coverpoint bins): whatever the interleaving of
    samples over `n` instances of one shape, the type covergroup — which is handed every sample —
    holds in each bin the sum of what the instances hold, and each instance holds only its own. -/
theorem type_is_sum (c : Cp) (ops : List (Nat × (Bool × Int))) (n : Nat) (hid : ∀ o ∈ ops, o.1 < n)
    (j : Nat) (hj : j < (totalBins c.bins).toNat) :
    (c.run (ops.map Prod.snd)).hit[j]?.getD 0 =
      ((List.range n).map (fun k => (c.run ((ops.filter (fun o => o.1 == k)).map Prod.snd)).hit[j]?.getD 0)).sum := by
  rw [C10.sample_counts c _ j hj]
  have := additive_partition (fun s => C10.incr c.bins s j) ops n hid
  rw [this]
  congr 1
  apply List.map_congr_left
  intro k _
  rw [C10.sample_counts c _ j hj]

/-- the same for cross bins -/
theorem type_is_sum_cross (sh : Shape) (c : CrossDef) (ops : List (Nat × (List (Bool × Int) × Bool))) (n : Nat)
    (hid : ∀ o ∈ ops, o.1 < n) (t : Nat) (ht : t < crossNBins sh c) :
    ((ops.map Prod.snd).foldl (fun h s => crossStep sh c h s.1 s.2) (List.replicate (crossNBins sh c) 0))[t]?.getD 0 =
      ((List.range n).map (fun k =>
        (((ops.filter (fun o => o.1 == k)).map Prod.snd).foldl (fun h s => crossStep sh c h s.1 s.2)
          (List.replicate (crossNBins sh c) 0))[t]?.getD 0)).sum := by
  rw [C11.cross_counts sh c _ t ht]
  have := additive_partition (fun s => C11.xincr sh c s t) ops n hid
  rw [this]
  congr 1
  apply List.map_congr_left
  intro k _
  rw [C11.cross_counts sh c _ t ht]

example : wavg [(1, 2, 1), (3, 3, 1)] = 75 := by norm_num [wavg, num, den, term]

end Pyvsc.C12
