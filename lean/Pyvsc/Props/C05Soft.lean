import Pyvsc.Props.C05
import Pyvsc.Proofs.RandSetsSoft
/-!
# C05 — no soft constraint is lost on the way to its rand set
-/
namespace Pyvsc.C05
open Pyvsc.RandSets Pyvsc.Expr

theorem buildFrom_inv (n : Nat) (marks : List (Nat × Nat × Nat)) (extra : List (Nat × List Nat)) :
    ∀ (idd : List (Nat × Stmt)) (st : St), Inv st → Inv (buildFrom n marks extra idd st) := by
  intro idd
  induction idd with
  | nil => intro st h; exact h
  | cons c cs ih =>
    intro st h
    unfold buildFrom
    simp only [List.foldl_cons]
    have i1 := processTop_inv n st c ((extra.filter fun x => x.1 == c.1).flatMap (·.2)) h
    obtain ⟨_, i2⟩ := marks_keeps [] (marks.filter fun m => m.1 == c.1) _ i1
    exact ih _ i2

theorem buildFrom_append (n : Nat) (marks : List (Nat × Nat × Nat)) (extra : List (Nat × List Nat))
    (a b : List (Nat × Stmt)) (st : St) :
    buildFrom n marks extra (a ++ b) st = buildFrom n marks extra b (buildFrom n marks extra a st) := by
  unfold buildFrom; rw [List.foldl_append]

/-- the priority the `k`-th top-level statement is given when it is entered (it counts the soft
    constraints visited before it) -/
def prioAt (tops : List Stmt) (marks : List (Nat × Nat × Nat)) (extra : List (Nat × List Nat)) (k : Nat) : Nat :=
  let n := (tops.map countSoft).sum
  let st := buildFrom n marks extra (((List.range tops.length).zip tops).take k) {}
  st.nsoft + (n + st.nsoft)

/-- **No soft constraint is dropped.**  A top-level soft constraint of the call is, after all
    statements were processed — whatever rand sets were created and merged on the way —, an entry of
    the soft list of one of the rand sets that are solved, under the priority it was given when it was
    visited. -/
theorem no_soft_dropped (tops : List Stmt) (marks : List (Nat × Nat × Nat)) (extra : List (Nat × List Nat))
    (k : Nat) (hk : k < tops.length) (e : Expr) (hs : tops[k] = .soft e) :
    ∃ rs ∈ randSets (build tops marks extra), ∃ d ∈ rs.soft, d.prio = prioAt tops marks extra k := by
  have h0 : Inv ({} : St) := ⟨by intro i j a b _ ha; simp [live] at ha, by intro i a ha; simp [live] at ha,
    by intro a ha; simp at ha, by intro c hc; simp at hc⟩
  let n := (tops.map countSoft).sum
  let idd := (List.range tops.length).zip tops
  have hlen : k < idd.length := by simp [idd]; exact hk
  have hidd : idd = idd.take k ++ idd[k] :: idd.drop (k + 1) := by
    rw [List.getElem_cons_drop]; exact (List.take_append_drop k idd).symm
  have hik : idd[k] = (k, tops[k]) := by simp [idd]
  have hb : build tops marks extra = buildFrom n marks extra idd {} := rfl
  rw [hb, hidd, buildFrom_append]
  generalize hst1 : buildFrom n marks extra (idd.take k) {} = st1
  have i1 : Inv st1 := by rw [← hst1]; exact buildFrom_inv n marks extra _ _ h0
  have hp : prioAt tops marks extra k = st1.nsoft + (n + st1.nsoft) := by
    unfold prioAt; simp only []; rw [← hst1]
  -- the statement itself
  have step : buildFrom n marks extra (idd[k] :: idd.drop (k + 1)) st1 =
      buildFrom n marks extra (idd.drop (k + 1))
        ((marks.filter fun m => m.1 == idd[k].1).foldl (fun s m => registerDist s m.2.1 m.2.2)
          (processTop n st1 idd[k] ((extra.filter fun x => x.1 == idd[k].1).flatMap (·.2)))) := by
    unfold buildFrom; simp only [List.foldl_cons]
  rw [step]
  obtain ⟨_, r1⟩ := processTop_skeeps n st1 idd[k] ((extra.filter fun x => x.1 == idd[k].1).flatMap (·.2)) i1
  have rec1 := r1 e (by rw [hik]; exact hs)
  have i2 := processTop_inv n st1 idd[k] ((extra.filter fun x => x.1 == idd[k].1).flatMap (·.2)) i1
  generalize (processTop n st1 idd[k] ((extra.filter fun x => x.1 == idd[k].1).flatMap (·.2))) = st2 at rec1 i2
  have rec2 := marks_skeeps (marks.filter fun m => m.1 == idd[k].1) st2 _ rec1
  obtain ⟨_, i3⟩ := marks_keeps [] (marks.filter fun m => m.1 == idd[k].1) st2 i2
  generalize ((marks.filter fun m => m.1 == idd[k].1).foldl (fun s m => registerDist s m.2.1 m.2.2) st2) = st3 at rec2 i3
  have rec3 := buildFrom_skeeps n marks extra (idd.drop (k + 1)) st3 i3 _ rec2
  generalize buildFrom n marks extra (idd.drop (k + 1)) st3 = fin at rec3
  rw [hp]
  unfold SRec at rec3
  rcases rec3 with ⟨i, rs, hl, d, hd, he⟩ | ⟨d, hd, he⟩
  · refine ⟨rs, ?_, d, hd, he⟩
    unfold randSets
    apply List.mem_append_left
    exact List.mem_filterMap.mpr ⟨some rs, List.mem_of_getElem? hl, rfl⟩
  · refine ⟨fin.noref, ?_, d, hd, he⟩
    unfold randSets
    apply List.mem_append_right
    have : fin.noref.soft.isEmpty = false := by
      cases hh : fin.noref.soft with
      | nil => rw [hh] at hd; simp at hd
      | cons x xs => rfl
    simp [this]

example : ∃ rs ∈ randSets (build [.expr (.bin .lt (.fld 0) (.fld 1)), .soft (.bin .eq (.fld 2) (.lit 3 true 32)),
    .expr (.bin .le (.fld 2) (.fld 0))]), rs.soft.length = 1 ∧ rs.fields = [0, 1, 2] := by decide

end Pyvsc.C05
