import Pyvsc.Model.Lists
import Pyvsc.Proofs.Bit1
import Pyvsc.Props.C01
/-!
# C04 — list constraints hold on exactly the list the user sees

What the list constructs of `Model/Lists.lean` (the terms the implementation builds for foreach,
sum, unique, membership) mean under the reference semantics of `Spec/Sem.lean`:

* a foreach expansion holds iff its body holds for **every** index/element pair (`unroll_holds`);
* the sum term denotes the mathematical sum of the elements, and the widening of
  `get_sum_width` makes that sum representable, so it never wraps (`sum_value`,
  `sum_no_overflow`, `sum_reads_true_sum`);
* `x in list` holds iff `x` equals some element (`inList_truthy`);
* `unique` over a list holds iff the element values are pairwise different (`unique_list`);
* the exposed list is the first `size` element fields (`exposed_length`, `exposed_get`).

Together with `C01.randomize_sound` (every hard statement of a successful call holds on the
read-back values) these give the property for the elaborations the driver produces; that the
implementation produces the same elaboration is what the correspondence check compares, and the
check also evaluates the constraints on exactly the exposed elements.
-/
namespace Pyvsc.C04
open Pyvsc.Bv Pyvsc.Expr Pyvsc.Sem Pyvsc.Lower Pyvsc.Lists Pyvsc.Spec

variable (Γ : Nat → FieldTy) (ρ : Nat → Int)

/-! ### scopes and foreach -/

/-- a scope holds iff each of its statements holds -/
theorem scope_holds (soft : Bool) (ss : List Stmt) :
    mholds Γ ρ soft (scopeOf ss) = ss.all (mholds Γ ρ soft) := by
  induction ss with
  | nil => simp [scopeOf, mholds]
  | cons s rest ih =>
    have : scopeOf (s :: rest) = .cons s (scopeOf rest) := rfl
    rw [this]; simp only [mholds, ih, List.all_cons]

/-- the expansion of a foreach: one copy of the body per element field, the index bound to the
    position and the iterator to the element field, starting at index `k` -/
def unrollFrom (body : Nat → Nat → Stmt) : Nat → List Nat → List Stmt
  | _, [] => []
  | k, e :: rest => body k e :: unrollFrom body (k + 1) rest

def unroll (body : Nat → Nat → Stmt) (elems : List Nat) : Stmt := scopeOf (unrollFrom body 0 elems)

theorem unrollFrom_all (body : Nat → Nat → Stmt) (soft : Bool) : ∀ (elems : List Nat) (k : Nat),
    (unrollFrom body k elems).all (mholds Γ ρ soft) = true ↔
      ∀ i (h : i < elems.length), mholds Γ ρ soft (body (k + i) elems[i]) = true := by
  intro elems
  induction elems with
  | nil => intro k; simp [unrollFrom]
  | cons e rest ih =>
    intro k
    simp only [unrollFrom, List.all_cons, Bool.and_eq_true, ih (k + 1)]
    constructor
    · rintro ⟨h0, hr⟩ i hi
      cases i with
      | zero => simpa using h0
      | succ i =>
        have := hr i (by simpa using hi)
        simpa [Nat.add_assoc, Nat.add_comm 1 i] using this
    · intro h
      refine ⟨by have h0 := h 0 (by simp); simpa using h0, fun i hi => ?_⟩
      have := h (i + 1) (by simpa using hi)
      simpa [Nat.add_assoc, Nat.add_comm 1 i] using this

/-- **Foreach.**  The expansion holds iff the body holds for every index and the element at that
    index — no index is skipped, none is added. -/
theorem unroll_holds (body : Nat → Nat → Stmt) (elems : List Nat) :
    sholds Γ ρ (unroll body elems) = true ↔
      ∀ i (h : i < elems.length), sholds Γ ρ (body i elems[i]) = true := by
  unfold unroll sholds
  rw [scope_holds, unrollFrom_all]
  simp

/-! ### the exposed list -/

theorem exposed_length (fieldL : List Nat) (size : Nat) :
    (exposed fieldL size).length = min size fieldL.length := by
  simp [exposed]

theorem exposed_get (fieldL : List Nat) (size i : Nat) (h : i < (exposed fieldL size).length) :
    (exposed fieldL size)[i] = fieldL[i]'(by simp [exposed] at h; omega) := by
  simp [exposed]

/-! ### sum -/

theorem sumBits_go_spec : ∀ (fuel v acc : Nat), v < 2 ^ fuel →
    (v + 1) * 2 ^ acc ≤ 2 ^ (sumBits.go fuel v acc) ∧ acc ≤ sumBits.go fuel v acc := by
  intro fuel
  induction fuel with
  | zero =>
    intro v acc h
    have : v = 0 := by simpa using h
    subst this
    simp [sumBits.go]
  | succ fuel ih =>
    intro v acc h
    unfold sumBits.go
    by_cases hv : v > 0
    · simp only [hv, if_true]
      have h2 : v / 2 < 2 ^ fuel := by
        rw [Nat.pow_succ] at h; omega
      obtain ⟨a, b⟩ := ih (v / 2) (acc + 1) h2
      refine ⟨?_, by omega⟩
      calc (v + 1) * 2 ^ acc ≤ ((v / 2 + 1) * 2) * 2 ^ acc := Nat.mul_le_mul_right _ (by omega)
        _ = (v / 2 + 1) * 2 ^ (acc + 1) := by rw [Nat.pow_succ]; ring
        _ ≤ _ := a
    · simp only [hv, if_false]
      have : v = 0 := by omega
      subst this; simp

/-- the sum width leaves room for `n` elements: `n · 2^w ≤ 2^(sumBits w n)` -/
theorem sumBits_room (w n : Nat) (hn : n ≤ 2 ^ 64) : w ≤ sumBits w n ∧ n * 2 ^ w ≤ 2 ^ sumBits w n := by
  unfold sumBits
  obtain ⟨a, b⟩ := sumBits_go_spec 64 (n - 1) w (by omega)
  refine ⟨b, ?_⟩
  by_cases h0 : n = 0
  · subst h0; simp
  · have : n - 1 + 1 = n := by omega
    rwa [this] at a

/-- reading back the pattern of an in-type value gives the value -/
theorem rd_pat_inType (w : Nat) (hw : 0 < w) (s : Bool) (v : Int) (h : InType w s v) :
    rd s w (pat w v) = v := by
  have hs := C18.two_pow_split w hw
  have hp := C18.pow_pos' (w - 1)
  unfold InType at h
  unfold rd pat sint
  cases s with
  | false =>
    simp only [Bool.false_eq_true, if_false] at h ⊢
    rw [Int.emod_eq_of_lt h.1 h.2]
    omega
  | true =>
    simp only [if_true] at h ⊢
    by_cases hv : 0 ≤ v
    · rw [Int.emod_eq_of_lt hv (by omega)]
      have e : ((v.toNat : Nat) : Int) = v := Int.toNat_of_nonneg hv
      have hlt : 2 * v.toNat < 2 ^ w := by
        have : (2 * (v.toNat : Int)) < (2 ^ w : Int) := by rw [e]; omega
        exact_mod_cast this
      simp only [hlt, if_true]; exact e
    · have hm : v % (2 ^ w : Int) = v + 2 ^ w := by
        have : v = (v + 2 ^ w) + (-1) * 2 ^ w := by ring
        conv_lhs => rw [this]
        rw [Int.add_mul_emod_self_right]
        exact Int.emod_eq_of_lt (by omega) (by omega)
      rw [hm]
      have hnn : 0 ≤ v + (2 ^ w : Int) := by omega
      have e : (((v + 2 ^ w).toNat : Nat) : Int) = v + 2 ^ w := Int.toNat_of_nonneg hnn
      have hge : ¬ (2 * (v + 2 ^ w).toNat < 2 ^ w) := by
        intro hc
        have : (2 * ((v + 2 ^ w).toNat : Int)) < (2 ^ w : Int) := by exact_mod_cast hc
        rw [e] at this; omega
      simp only [hge, if_false]
      rw [e]; ring

/-- adding under a reading of a pattern is adding under the pattern -/
theorem pat_rd_add (S : Bool) (W : Nat) (x y : Int) :
    pat W (rd S W (pat W x) + y) = pat W (x + y) := by
  obtain ⟨k, hk⟩ := rd_congr S W (pat W x)
  rw [hk, pat_cast]
  unfold pat
  congr 1
  have : x % (2 ^ W : Int) - k * 2 ^ W + y = (x % (2 ^ W : Int) + y) + (-k) * 2 ^ W := by ring
  rw [this, Int.add_mul_emod_self_right, Int.emod_add_emod]

/-- what the chain invariant says of an accumulator term: width `B`, signedness `s`, computed at
    `max W B` in every context, and denoting `x` there -/
def Acc (B : Nat) (s : Bool) (a : Expr) (x : Int) : Prop :=
  width Γ a = B ∧ signed Γ a = s ∧ (∀ W, cw Γ a W = max W B) ∧ ∀ W, sval Γ ρ a W = pat (max W B) x

theorem acc_step (B w : Nat) (s : Bool) (a : Expr) (x : Int) (e : Nat) (hw : 0 < w) (hB : w ≤ B)
    (hΓ : (Γ e).w = w ∧ (Γ e).s = s) (hv : InType w s (ρ e)) (h : Acc Γ ρ B s a x) :
    Acc Γ ρ B s (.bin .add a (.fld e)) (x + ρ e) := by
  obtain ⟨hwd, hsg, hcw, hsv⟩ := h
  have em : max B w = B := by omega
  refine ⟨by simp [width, BinOp.isCmp, hwd, hΓ.1, em], by simp [signed, hsg, hΓ.2], fun W => ?_, fun W => ?_⟩
  · simp [cw, BinOp.isCmp, hwd, width, hΓ.1, em]
  · simp only [sval, hwd, width, hΓ.1, em, signed, hsg, hΓ.2, Bool.and_self, cw, opSem, hcw, hsv]
    have e1 : max (max W B) B = max W B := by omega
    rw [e1, rd_pat_inType w hw s (ρ e) hv, pat_rd_add]

theorem acc_chain (B w : Nat) (s : Bool) (hw : 0 < w) (hB : w ≤ B) : ∀ (elems : List Nat) (a : Expr) (x : Int),
    (∀ e ∈ elems, ((Γ e).w = w ∧ (Γ e).s = s) ∧ InType w s (ρ e)) → Acc Γ ρ B s a x →
    Acc Γ ρ B s (elems.foldl (fun acc e => .bin .add acc (.fld e)) a) (x + (elems.map ρ).sum) := by
  intro elems
  induction elems with
  | nil => intro a x _ h; simpa using h
  | cons e rest ih =>
    intro a x hall h
    have he := hall e (by simp)
    have := ih (.bin .add a (.fld e)) (x + ρ e) (fun e' he' => hall e' (by simp [he']))
      (acc_step Γ ρ B w s a x e hw hB he.1 he.2 h)
    simp only [List.foldl_cons, List.map_cons, List.sum_cons]
    rw [← Int.add_assoc]; exact this

/-- **Sum, value.**  In any context the sum term of a list whose elements hold values of their
    type denotes the mathematical sum of the element values, at a width of at least
    `sumBits w n`. -/
theorem sum_value (w : Nat) (s : Bool) (hw : 0 < w) (elems : List Nat) (hn : elems.length ≤ 2 ^ 64)
    (hall : ∀ e ∈ elems, ((Γ e).w = w ∧ (Γ e).s = s) ∧ InType w s (ρ e)) (W : Nat) :
    sval Γ ρ (sumChain w s elems) W = pat (max W (sumBits w elems.length)) ((elems.map ρ).sum) ∧
    cw Γ (sumChain w s elems) W = max W (sumBits w elems.length) ∧
    signed Γ (sumChain w s elems) = s := by
  have hB := (sumBits_room w elems.length hn).1
  have h0 : Acc Γ ρ (sumBits w elems.length) s (.lit 0 s (sumBits w elems.length)) 0 :=
    ⟨rfl, rfl, fun W => by simp [cw], fun W => by simp [sval]⟩
  have := acc_chain Γ ρ _ w s hw hB elems _ 0 hall h0
  simp only [Int.zero_add] at this
  exact ⟨this.2.2.2 W, this.2.2.1 W, this.2.1⟩

theorem sum_bounds (w : Nat) (s : Bool) : ∀ (elems : List Nat),
    (∀ e ∈ elems, InType w s (ρ e)) →
    if s then -((elems.length : Int) * 2 ^ (w - 1)) ≤ (elems.map ρ).sum ∧
              (elems.map ρ).sum ≤ (elems.length : Int) * (2 ^ (w - 1) - 1)
    else 0 ≤ (elems.map ρ).sum ∧ (elems.map ρ).sum ≤ (elems.length : Int) * (2 ^ w - 1) := by
  intro elems
  induction elems with
  | nil => intro _; cases s <;> simp
  | cons e rest ih =>
    intro hall
    have he := hall e (by simp)
    have hr := ih (fun e' he' => hall e' (by simp [he']))
    unfold InType at he
    cases s with
    | false =>
      simp only [Bool.false_eq_true, if_false, List.map_cons, List.sum_cons, List.length_cons] at he hr ⊢
      push_cast
      constructor
      · omega
      · nlinarith [he.1, he.2, hr.1, hr.2]
    | true =>
      simp only [if_true, List.map_cons, List.sum_cons, List.length_cons] at he hr ⊢
      push_cast
      constructor
      · nlinarith [he.1, he.2, hr.1, hr.2]
      · nlinarith [he.1, he.2, hr.1, hr.2]

/-- **Sum, no overflow.**  The mathematical sum of the elements is a value of the sum term's
    own width and signedness: `get_sum_width` leaves enough room. -/
theorem sum_no_overflow (w : Nat) (s : Bool) (hw : 0 < w) (elems : List Nat) (hn : elems.length ≤ 2 ^ 64)
    (hall : ∀ e ∈ elems, InType w s (ρ e)) :
    InType (sumBits w elems.length) s ((elems.map ρ).sum) := by
  obtain ⟨hB, hroom⟩ := sumBits_room w elems.length hn
  have hb := sum_bounds ρ w s elems hall
  have hroomZ : (elems.length : Int) * 2 ^ w ≤ 2 ^ sumBits w elems.length := by exact_mod_cast hroom
  have hsw := C18.two_pow_split w hw
  have hsB := C18.two_pow_split (sumBits w elems.length) (by omega)
  have hpw := C18.pow_pos' (w - 1)
  have hpB := C18.pow_pos' (sumBits w elems.length - 1)
  have hlen : (0 : Int) ≤ elems.length := by positivity
  unfold InType
  cases s with
  | false =>
    simp only [Bool.false_eq_true, if_false] at hb ⊢
    refine ⟨hb.1, ?_⟩
    by_cases h0 : elems.length = 0
    · have : elems = [] := List.eq_nil_of_length_eq_zero h0
      subst this; simp
    · have : (1 : Int) ≤ elems.length := by exact_mod_cast Nat.pos_of_ne_zero h0
      nlinarith [hb.2]
  | true =>
    simp only [if_true] at hb ⊢
    have hhalf : (elems.length : Int) * 2 ^ (w - 1) ≤ 2 ^ (sumBits w elems.length - 1) := by
      rw [hsw, hsB] at hroomZ; nlinarith [hroomZ]
    constructor
    · omega
    · by_cases h0 : elems.length = 0
      · have : elems = [] := List.eq_nil_of_length_eq_zero h0
        subst this; simp
      · have : (1 : Int) ≤ elems.length := by exact_mod_cast Nat.pos_of_ne_zero h0
        nlinarith [hb.2]

/-- **Sum.**  Read at its own width and signedness, the sum term is exactly the sum of the element
    values — it cannot wrap. -/
theorem sum_reads_true_sum (w : Nat) (s : Bool) (hw : 0 < w) (elems : List Nat) (hn : elems.length ≤ 2 ^ 64)
    (hall : ∀ e ∈ elems, ((Γ e).w = w ∧ (Γ e).s = s) ∧ InType w s (ρ e)) :
    rd s (cw Γ (sumChain w s elems) 0) (sval Γ ρ (sumChain w s elems) 0) = (elems.map ρ).sum := by
  obtain ⟨h1, h2, _⟩ := sum_value Γ ρ w s hw elems hn hall 0
  rw [h1, h2]
  simp only [Nat.zero_max]
  exact rd_pat_inType _ (by have := (sumBits_room w elems.length hn).1; omega) s _
    (sum_no_overflow ρ w s hw elems hn (fun e he => (hall e he).2))

/-! ### membership and unique -/

/-- equality of a well-formed term with an element is a one-bit term -/
theorem eq_bit1 (lhs : Expr) (hl : WF Γ lhs) (e : Nat) (he : 0 < (Γ e).w) : Bit1 Γ (.bin .eq lhs (.fld e)) :=
  Bit1.cmp .eq lhs (.fld e) rfl hl he

theorem orChain_bit1 (lhs : Expr) (hl : WF Γ lhs) : ∀ (rest : List Nat) (a : Expr), Bit1 Γ a →
    (∀ e ∈ rest, 0 < (Γ e).w) →
    Bit1 Γ (rest.foldl (fun acc x => .bin .or acc (.bin .eq lhs (.fld x))) a) := by
  intro rest
  induction rest with
  | nil => intro a ha _; simpa using ha
  | cons x rest ih =>
    intro a ha hw
    simp only [List.foldl_cons]
    exact ih _ (Bit1.or _ _ ha (eq_bit1 Γ lhs hl x (hw x (by simp)))) (fun e he => hw e (by simp [he]))

theorem orChain_truthy (lhs : Expr) (hl : WF Γ lhs) (σ : Nat → Nat) (hσ : Agree Γ ρ σ) :
    ∀ (rest : List Nat) (a : Expr), Bit1 Γ a → (∀ e ∈ rest, 0 < (Γ e).w) →
    truthy Γ ρ (rest.foldl (fun acc x => .bin .or acc (.bin .eq lhs (.fld x))) a) =
      (truthy Γ ρ a || rest.any fun x => truthy Γ ρ (.bin .eq lhs (.fld x))) := by
  intro rest
  induction rest with
  | nil => intro a _ _; simp
  | cons x rest ih =>
    intro a ha hw
    simp only [List.foldl_cons, List.any_cons]
    have hx := eq_bit1 Γ lhs hl x (hw x (by simp))
    rw [ih _ (Bit1.or _ _ ha hx) (fun e he => hw e (by simp [he])), truthy_or Γ ρ _ _ ha hx σ hσ,
      Bool.or_assoc]

/-- **Membership.**  `lhs in list` holds iff `lhs` equals one of the elements; in particular
    nothing is in an empty list. -/
theorem inList_truthy (lhs : Expr) (hl : WF Γ lhs) (σ : Nat → Nat) (hσ : Agree Γ ρ σ) (elems : List Nat)
    (hw : ∀ e ∈ elems, 0 < (Γ e).w) :
    truthy Γ ρ (inList lhs elems) = elems.any fun x => truthy Γ ρ (.bin .eq lhs (.fld x)) := by
  cases elems with
  | nil => simp [inList, truthy, sval, pat]
  | cons e rest =>
    simp only [inList, truthy_reset, List.any_cons]
    exact orChain_truthy Γ ρ lhs hl σ hσ rest _ (eq_bit1 Γ lhs hl e (hw e (by simp)))
      (fun e' he' => hw e' (by simp [he']))

/-- `a != b` between two fields of one type holding values of that type is inequality of the values -/
theorem neHolds_fld (w : Nat) (s : Bool) (hw : 0 < w) (a b : Nat)
    (ha : ((Γ a).w = w ∧ (Γ a).s = s) ∧ InType w s (ρ a)) (hb : ((Γ b).w = w ∧ (Γ b).s = s) ∧ InType w s (ρ b)) :
    neHolds Γ ρ (.fld a) (.fld b) = decide (ρ a ≠ ρ b) := by
  simp only [neHolds, sval, signed, cw, ha.1.1, ha.1.2, hb.1.1, hb.1.2, Bool.and_self, opSem,
    rd_pat_inType w hw s _ ha.2, rd_pat_inType w hw s _ hb.2]
  by_cases h : ρ a = ρ b <;> simp [h, b2n]

/-- **Unique over a list.**  The statement holds iff the element values are pairwise different. -/
theorem unique_list (w : Nat) (s : Bool) (hw : 0 < w) : ∀ (elems : List Nat),
    (∀ e ∈ elems, ((Γ e).w = w ∧ (Γ e).s = s) ∧ InType w s (ρ e)) →
    (sholds Γ ρ (.unique (elems.map .fld)) = true ↔ (elems.map ρ).Pairwise (· ≠ ·)) := by
  intro elems
  induction elems with
  | nil => intro _; simp [sholds, mholds, pairwiseNe]
  | cons e rest ih =>
    intro hall
    have he := hall e (by simp)
    have hrest : ∀ e' ∈ rest, ((Γ e').w = w ∧ (Γ e').s = s) ∧ InType w s (ρ e') := fun e' he' => hall e' (by simp [he'])
    have ihr := ih hrest
    simp only [sholds, mholds] at ihr ⊢
    simp only [List.map_cons, pairwiseNe, Bool.and_eq_true, ihr, List.pairwise_cons]
    have : ∀ (l : List Nat), (∀ e' ∈ l, ((Γ e').w = w ∧ (Γ e').s = s) ∧ InType w s (ρ e')) →
        (allNe Γ ρ (.fld e) (l.map .fld) = true ↔ ∀ v ∈ l.map ρ, ρ e ≠ v) := by
      intro l
      induction l with
      | nil => intro _; simp [allNe]
      | cons x l ihl =>
        intro hl
        simp only [List.map_cons, allNe, Bool.and_eq_true, neHolds_fld Γ ρ w s hw e x he (hl x (by simp)),
          ihl (fun e' he' => hl e' (by simp [he'])), List.mem_cons, forall_eq_or_imp, decide_eq_true_eq]
    rw [this rest hrest]

/-! ### non-vacuity -/

private def Γx : Nat → FieldTy := fun _ => ⟨3, false, true⟩
private def ρx : Nat → Int := fun i => if i = 0 then 7 else if i = 1 then 6 else 7

example : sumBits 3 3 = 5 := by decide
example : sval Γx ρx (sumChain 3 false [0, 1, 2]) 0 = 20 := by decide
example : sholds Γx ρx (.unique ([0, 1].map .fld)) = true := by decide
example : sholds Γx ρx (.unique ([0, 1, 2].map .fld)) = false := by decide
example : truthy Γx ρx (inList (.fld 0) [1, 2]) = true := by decide
example : truthy Γx ρx (inList (.fld 1) [0, 2]) = false := by decide
example : truthy Γx ρx (inList (.fld 1) []) = false := by decide
example : sholds Γx ρx (unroll (fun _ e => .expr (.bin .ge (.fld e) (.lit (6 : Int) false 3))) [0, 1, 2]) = true := by
  decide

end Pyvsc.C04
