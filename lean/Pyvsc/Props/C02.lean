import Pyvsc.Props.C01
/-!
# C02 — SolveFailure is raised exactly when the hard constraints are unsatisfiable
-/
namespace Pyvsc.C02
open Pyvsc.Bv Pyvsc.Expr Pyvsc.Sem Pyvsc.Lower Pyvsc.Solve Pyvsc.C01

variable (Γ : Nat → FieldTy) (ρ : Nat → Int)

/-- a solution in the sense of the property: an assignment of the random fields, inside their
    types, leaving the non-random fields as they are, under which every hard statement holds -/
def RefSolution (stmts : List Stmt) (ρ' : Nat → Int) : Prop :=
  (∀ i, (Γ i).rand = false → ρ' i = ρ i) ∧
  (∀ i, (Γ i).rand = true → Spec.InType (Γ i).w (Γ i).s (ρ' i)) ∧
  (∀ s ∈ stmts, sholds Γ ρ' s = true)

theorem agree_of_solution (hE : EnvOK Γ ρ) (ρ' : Nat → Int)
    (h1 : ∀ i, (Γ i).rand = false → ρ' i = ρ i) :
    Agree Γ ρ' (fun i => pat (Γ i).w (ρ' i)) := by
  intro i
  obtain ⟨hw, hn⟩ := hE i
  constructor
  · intro _
    exact Nat.mod_eq_of_lt (pat_lt _ _)
  · intro hr
    rw [h1 i hr]
    exact inType_lt _ hw _ _ (hn hr)

/-- **The solver's question is the property's question.**  The hard formulas built for a rand
    set are satisfiable (as bit-vector formulas) iff the statements have a solution in the
    reference semantics. -/
theorem hard_sat_iff (hE : EnvOK Γ ρ) (stmts : List Stmt) (hwf : ∀ s ∈ stmts, WFStmt Γ false s) :
    Satisfiable BvHolds (hardFormulas Γ ρ stmts) ↔ ∃ ρ', RefSolution Γ ρ stmts ρ' := by
  constructor
  · rintro ⟨σ, hσ⟩
    have hnr : ∀ i, (Γ i).rand = false → rbEnv Γ ρ σ i = ρ i := by
      intro i hr; simp [rbEnv, hr]
    refine ⟨rbEnv Γ ρ σ, hnr, fun i hr => readback_inType Γ ρ σ i (hE i).1 hr, ?_⟩
    intro s hs
    have hag := agree_rbEnv Γ ρ hE σ
    have := lowerStmt_sound Γ (rbEnv Γ ρ σ) σ hag s (hwf s hs)
    rw [(lowerStmt_congr Γ ρ (rbEnv Γ ρ σ) hnr false s).1] at this
    cases hl : lowerStmt Γ ρ false s with
    | none => rw [hl] at this; exact this
    | some b =>
      rw [hl] at this
      exact this.mp (hσ b (List.mem_filterMap.mpr ⟨s, hs, hl⟩))
  · rintro ⟨ρ', h1, _, h3⟩
    refine ⟨fun i => pat (Γ i).w (ρ' i), ?_⟩
    intro f hf
    obtain ⟨s, hs, hl⟩ := List.mem_filterMap.mp hf
    have hag := agree_of_solution Γ ρ hE ρ' h1
    have := lowerStmt_sound Γ ρ' _ hag s (hwf s hs)
    rw [(lowerStmt_congr Γ ρ ρ' h1 false s).1, hl] at this
    exact this.mpr (h3 s hs)

/-- **C02.**  Over any answer stream that is valid for the queries issued: a rand set without
    enum assertions raises `SolveFailure` iff its hard statements have no solution in the
    reference semantics (given the current non-random values). -/
theorem fails_iff_unsat (hE : EnvOK Γ ρ) (stmts : List Stmt) (hwf : ∀ s ∈ stmts, WFStmt Γ false s)
    (soft : List Bv) (groups : List (Option (List Bv))) (ans : List (Ans (Nat → Nat))) (hne : ans ≠ [])
    (hv : LogValid BvHolds (solve [] (hardFormulas Γ ρ stmts) soft groups ans).log) :
    (solve [] (hardFormulas Γ ρ stmts) soft groups ans).out = .solveFailure ↔
      ¬ ∃ ρ', RefSolution Γ ρ stmts ρ' := by
  have := (solve_spec BvHolds [] (hardFormulas Γ ρ stmts) soft groups ans hv).1
  rw [this, ← hard_sat_iff Γ ρ hE stmts hwf]
  simp [hne]

/-- with enum assertions `pre` the same holds for the conjunction of both -/
theorem fails_iff_unsat_pre (pre hard soft : List Bv) (groups : List (Option (List Bv)))
    (ans : List (Ans (Nat → Nat))) (hne : ans ≠ [])
    (hv : LogValid BvHolds (solve pre hard soft groups ans).log) :
    (solve pre hard soft groups ans).out = .solveFailure ↔ ¬ Satisfiable BvHolds (hard ++ pre) := by
  have := (solve_spec BvHolds pre hard soft groups ans hv).1
  rw [this]; simp [hne]

/-- **No other failure.**  Soft constraints and swizzling can never make the loop fail once the
    hard phase succeeded: with valid answers and enough of them the outcome is never an internal
    error ("failed to add in randomization" is unreachable), and a satisfiable system never
    raises `SolveFailure`. -/
theorem no_internal_error (pre hard soft : List Bv) (groups : List (Option (List Bv)))
    (ans : List (Ans (Nat → Nat)))
    (hv : LogValid BvHolds (solve pre hard soft groups ans).log)
    (hlen : soft.length + groupsCost groups + 3 ≤ ans.length) :
    (solve pre hard soft groups ans).out ≠ .internalError ∧
    (Satisfiable BvHolds (hard ++ pre) → ∃ σ, (solve pre hard soft groups ans).out = .ok σ) := by
  obtain ⟨h1, _, h3⟩ := solve_spec BvHolds pre hard soft groups ans hv
  refine ⟨h3 hlen, fun hs => ?_⟩
  cases ho : (solve pre hard soft groups ans).out with
  | ok σ => exact ⟨σ, rfl⟩
  | solveFailure => exact absurd hs (h1.mp ho).1
  | internalError => exact absurd ho (h3 hlen)

/-- every term the lowering produces for a well-formed statement is well-typed: it evaluates
    (no Boolector exception) to a 1-bit value, under every assignment -/
theorem lowered_welltyped (hE : EnvOK Γ ρ) (s : Stmt) (h : WFStmt Γ false s) (b : Bv)
    (hb : lowerStmt Γ ρ false s = some b) (σ : Nat → Nat) :
    ∃ v, eval σ b = some (1, v) := by
  have hnr : ∀ i, (Γ i).rand = false → rbEnv Γ ρ σ i = ρ i := by
    intro i hr; simp [rbEnv, hr]
  have hag := agree_rbEnv Γ ρ hE σ
  have := (stmt_scope_sound Γ (rbEnv Γ ρ σ) σ hag false s h).1
  unfold StmtOk at this
  rw [(lowerStmt_congr Γ ρ (rbEnv Γ ρ σ) hnr false s).1, hb] at this
  exact ⟨_, this⟩

/-! non-vacuity: an unsatisfiable and a satisfiable instance -/
example : ¬ ∃ σ : Nat → Nat, holds σ (.cmp .ult (.var 0 2) (.const 0 2)) = true := by
  rintro ⟨σ, h⟩
  simp [holds, eval, cmpSem, b2n] at h

/-! ### no statement is dropped -/

open Pyvsc.RandSets in
theorem mem_zip_range (tops : List Stmt) (d : Nat × Stmt) (h : d ∈ (List.range tops.length).zip tops) :
    tops[d.1]? = some d.2 := by
  obtain ⟨i, hi, he⟩ := List.getElem_of_mem h
  simp only [List.getElem_zip, List.getElem_range] at he
  subst he
  simp only [List.length_zip, List.length_range, Nat.min_self] at hi
  simp [hi]

open Pyvsc.RandSets in
theorem zip_range_mem (tops : List Stmt) (k : Nat) (hk : k < tops.length) :
    (k, tops[k]) ∈ (List.range tops.length).zip tops := by
  refine List.mem_iff_getElem.mpr ⟨k, by simpa using hk, ?_⟩
  simp

open Pyvsc.RandSets in
/-- **No hard statement is dropped.**  Every top-level statement of the call that is not a soft
    constraint is a hard constraint of one of the rand sets that are solved — the set of the fields it
    mentions, or the field-less set when it mentions none — so an unsatisfiable statement cannot be
    lost on the way to the solver. -/
theorem no_statement_dropped (tops : List Stmt) (marks : List (Nat × Nat × Nat)) (extra : List (Nat × List Nat))
    (k : Nat) (hk : k < tops.length) (hne : ∀ e, tops[k] ≠ .soft e) :
    ∃ rs ∈ randSets (build tops marks extra), (k, tops[k]) ∈ rs.hard := by
  have h0 : Inv ({} : St) := ⟨by intro i j a b _ ha; simp [live] at ha, by intro i a ha; simp [live] at ha,
    by intro a ha; simp at ha, by intro c hc; simp at hc⟩
  have f0 : From ((List.range tops.length).zip tops) ({} : St) :=
    ⟨by intro i rs hl; simp [live] at hl, by intro d hd; simp at hd⟩
  obtain ⟨keeps, recd⟩ := buildFrom_spec ((List.range tops.length).zip tops) ((tops.map countSoft).sum) marks extra
    ((List.range tops.length).zip tops) {} (fun c hc => hc) h0
  have hb : buildFrom ((tops.map countSoft).sum) marks extra ((List.range tops.length).zip tops) {} =
      build tops marks extra := rfl
  rw [hb] at keeps recd
  have frm := keeps.frm f0
  have hr := recd (k, tops[k]) (zip_range_mem tops k hk) hne
  have fix : ∀ d : Nat × Stmt, d ∈ (List.range tops.length).zip tops → d.1 = k → d = (k, tops[k]) := by
    intro d hd he
    have := mem_zip_range tops d hd
    rw [he, List.getElem?_eq_getElem hk] at this
    have h2 : tops[k] = d.2 := by simpa using this
    exact Prod.ext he h2.symm
  rcases hr with ⟨i, rs, hl, d, hd, he⟩ | ⟨d, hd, he⟩
  · refine ⟨rs, ?_, ?_⟩
    · unfold randSets
      apply List.mem_append_left
      exact List.mem_filterMap.mpr ⟨some rs, List.mem_of_getElem? hl, rfl⟩
    · rw [← fix d (frm.1 i rs hl d hd) he]; exact hd
  · refine ⟨(build tops marks extra).noref, ?_, ?_⟩
    · unfold randSets
      apply List.mem_append_right
      have : (build tops marks extra).noref.hard.isEmpty = false := by
        cases hh : (build tops marks extra).noref.hard with
        | nil => rw [hh] at hd; simp at hd
        | cons x xs => rfl
      simp [this]
    · rw [← fix d (frm.2 d hd) he]; exact hd

end Pyvsc.C02
