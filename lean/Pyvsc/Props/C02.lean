import Pyvsc.Props.C01
/-!
# C02 — SolveFailure is raised exactly when the hard constraints are unsatisfiable
-/
namespace Pyvsc.C02
open Pyvsc.Bv Pyvsc.Expr Pyvsc.Sem Pyvsc.Lower Pyvsc.Solve Pyvsc.C01

variable (Γ : Nat → FieldTy) (ρ : Nat → Int)

/-- a solution in the sense of the property: an assignment of the random fields, inside their
    types, leaving the non-random fields as they are, under which every hard statement holds -/
def RefSolution (stmts : List Stmt) (ρ' : Nat → Int) : Prop :=
  (∀ i, (Γ i).rand = false → ρ' i = ρ i) ∧
  (∀ i, (Γ i).rand = true → Spec.InType (Γ i).w (Γ i).s (ρ' i)) ∧
  (∀ s ∈ stmts, sholds Γ ρ' s = true)

theorem agree_of_solution (hE : EnvOK Γ ρ) (ρ' : Nat → Int)
    (h1 : ∀ i, (Γ i).rand = false → ρ' i = ρ i) :
    Agree Γ ρ' (fun i => pat (Γ i).w (ρ' i)) := by
  intro i
  obtain ⟨hw, hn⟩ := hE i
  constructor
  · intro _
    exact Nat.mod_eq_of_lt (pat_lt _ _)
  · intro hr
    rw [h1 i hr]
    exact inType_lt _ hw _ _ (hn hr)

/-- **The solver's question is the property's question.**  The hard formulas built for a rand
    set are satisfiable (as bit-vector formulas) iff the statements have a solution in the
    reference semantics. -/
theorem hard_sat_iff (hE : EnvOK Γ ρ) (stmts : List Stmt) (hwf : ∀ s ∈ stmts, WFStmt Γ false s) :
    Satisfiable BvHolds (hardFormulas Γ ρ stmts) ↔ ∃ ρ', RefSolution Γ ρ stmts ρ' := by
  constructor
  · rintro ⟨σ, hσ⟩
    have hnr : ∀ i, (Γ i).rand = false → rbEnv Γ ρ σ i = ρ i := by
      intro i hr; simp [rbEnv, hr]
    refine ⟨rbEnv Γ ρ σ, hnr, fun i hr => readback_inType Γ ρ σ i (hE i).1 hr, ?_⟩
    intro s hs
    have hag := agree_rbEnv Γ ρ hE σ
    have := lowerStmt_sound Γ (rbEnv Γ ρ σ) σ hag s (hwf s hs)
    rw [(lowerStmt_congr Γ ρ (rbEnv Γ ρ σ) hnr false s).1] at this
    cases hl : lowerStmt Γ ρ false s with
    | none => rw [hl] at this; exact this
    | some b =>
      rw [hl] at this
      exact this.mp (hσ b (List.mem_filterMap.mpr ⟨s, hs, hl⟩))
  · rintro ⟨ρ', h1, _, h3⟩
    refine ⟨fun i => pat (Γ i).w (ρ' i), ?_⟩
    intro f hf
    obtain ⟨s, hs, hl⟩ := List.mem_filterMap.mp hf
    have hag := agree_of_solution Γ ρ hE ρ' h1
    have := lowerStmt_sound Γ ρ' _ hag s (hwf s hs)
    rw [(lowerStmt_congr Γ ρ ρ' h1 false s).1, hl] at this
    exact this.mpr (h3 s hs)

/-- **C02.**  Over any answer stream that is valid for the queries issued: a rand set without
    enum assertions raises `SolveFailure` iff its hard statements have no solution in the
    reference semantics (given the current non-random values). -/
theorem fails_iff_unsat (hE : EnvOK Γ ρ) (stmts : List Stmt) (hwf : ∀ s ∈ stmts, WFStmt Γ false s)
    (soft : List Bv) (groups : List (Option (List Bv))) (ans : List (Ans (Nat → Nat))) (hne : ans ≠ [])
    (hv : LogValid BvHolds (solve [] (hardFormulas Γ ρ stmts) soft groups ans).log) :
    (solve [] (hardFormulas Γ ρ stmts) soft groups ans).out = .solveFailure ↔
      ¬ ∃ ρ', RefSolution Γ ρ stmts ρ' := by
  have := (solve_spec BvHolds [] (hardFormulas Γ ρ stmts) soft groups ans hv).1
  rw [this, ← hard_sat_iff Γ ρ hE stmts hwf]
  simp [hne]

/-- with enum assertions `pre` the same holds for the conjunction of both -/
theorem fails_iff_unsat_pre (pre hard soft : List Bv) (groups : List (Option (List Bv)))
    (ans : List (Ans (Nat → Nat))) (hne : ans ≠ [])
    (hv : LogValid BvHolds (solve pre hard soft groups ans).log) :
    (solve pre hard soft groups ans).out = .solveFailure ↔ ¬ Satisfiable BvHolds (hard ++ pre) := by
  have := (solve_spec BvHolds pre hard soft groups ans hv).1
  rw [this]; simp [hne]

/-- **No other failure.**  Soft constraints and swizzling can never make the loop fail once the
    hard phase succeeded: with valid answers and enough of them the outcome is never an internal
    error ("failed to add in randomization" is unreachable), and a satisfiable system never
    raises `SolveFailure`. -/
theorem no_internal_error (pre hard soft : List Bv) (groups : List (Option (List Bv)))
    (ans : List (Ans (Nat → Nat)))
    (hv : LogValid BvHolds (solve pre hard soft groups ans).log)
    (hlen : soft.length + groupsCost groups + 3 ≤ ans.length) :
    (solve pre hard soft groups ans).out ≠ .internalError ∧
    (Satisfiable BvHolds (hard ++ pre) → ∃ σ, (solve pre hard soft groups ans).out = .ok σ) := by
  obtain ⟨h1, _, h3⟩ := solve_spec BvHolds pre hard soft groups ans hv
  refine ⟨h3 hlen, fun hs => ?_⟩
  cases ho : (solve pre hard soft groups ans).out with
  | ok σ => exact ⟨σ, rfl⟩
  | solveFailure => exact absurd hs (h1.mp ho).1
  | internalError => exact absurd ho (h3 hlen)

/-- every term the lowering produces for a well-formed statement is well-typed: it evaluates
    (no Boolector exception) to a 1-bit value, under every assignment -/
theorem lowered_welltyped (hE : EnvOK Γ ρ) (s : Stmt) (h : WFStmt Γ false s) (b : Bv)
    (hb : lowerStmt Γ ρ false s = some b) (σ : Nat → Nat) :
    ∃ v, eval σ b = some (1, v) := by
  have hnr : ∀ i, (Γ i).rand = false → rbEnv Γ ρ σ i = ρ i := by
    intro i hr; simp [rbEnv, hr]
  have hag := agree_rbEnv Γ ρ hE σ
  have := (stmt_scope_sound Γ (rbEnv Γ ρ σ) σ hag false s h).1
  unfold StmtOk at this
  rw [(lowerStmt_congr Γ ρ (rbEnv Γ ρ σ) hnr false s).1, hb] at this
  exact ⟨_, this⟩

/-! non-vacuity: an unsatisfiable and a satisfiable instance -/
example : ¬ ∃ σ : Nat → Nat, holds σ (.cmp .ult (.var 0 2) (.const 0 2)) = true := by
  rintro ⟨σ, h⟩
  simp [holds, eval, cmpSem, b2n] at h

end Pyvsc.C02
