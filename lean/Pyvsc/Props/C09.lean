import Pyvsc.Model.Bounds
import Pyvsc.Props.C01
/-!
# C09 — random stability: results depend only on seed, model and call history

What a theorem can carry here: the model of a call is a *function* of the program, the values of
the non-random fields, the draw stream and the answer stream — there is no other input, in
particular not the values the random fields held before the call.  The runtime side (CPython
hashing, MT19937, Boolector's determinism) is exhibited by the subprocess matrix of the check.
-/
namespace Pyvsc.C09
open Pyvsc.Expr Pyvsc.Bounds

variable (Γ : Nat → FieldTy)

/-- the Python-side evaluation of a non-random expression reads non-random fields only -/
theorem pyEval_congr (ρ ρ' : Nat → Int) (h : ∀ i, (Γ i).rand = false → ρ' i = ρ i) :
    ∀ e, isNonRand Γ e = true → pyEval ρ' e = pyEval ρ e := by
  intro e
  induction e with
  | lit v s w => intro _; rfl
  | fld i =>
    intro hn
    simp only [isNonRand, Bool.not_eq_true'] at hn
    simp [pyEval, h i hn]
  | bin op l r ihl ihr =>
    intro hn
    simp only [isNonRand, Bool.and_eq_true] at hn
    simp only [pyEval, ihl hn.1, ihr hn.2]
  | not e ih => intro _; rfl
  | psel e hi lo ih =>
    intro hn
    simp only [isNonRand] at hn
    simp only [pyEval, ih hn]
  | reset e ih => intro _; rfl

/-- **No interference from old values.**  Two environments that agree on the non-random fields
    give the same lowered formula for every statement: what is assumed and asserted in the solver
    does not depend on the values the random fields were left with by earlier calls -/
theorem formulas_independent_of_old_random_values (ρ ρ' : Nat → Int)
    (h : ∀ i, (Γ i).rand = false → ρ' i = ρ i) (soft : Bool) (s : Stmt) :
    lowerStmt Γ ρ' soft s = lowerStmt Γ ρ soft s :=
  (C01.lowerStmt_congr Γ ρ ρ' h soft s).1

/-! ### random state: snapshots and restores over an abstract stream

A `RandState` is a position in the stream its seed determines.  `get_randstate` returns a copy,
`set_randstate` stores a copy; a call consumes some draws. -/

structure RS where
  seed : Nat
  pos : Nat
  deriving DecidableEq, Repr

/-- one call: consumes `k` draws, its observable result is a function of the state it started
    from (and of program/history, fixed here) -/
def callOn (result : RS → Nat → Nat) (k : Nat) (rs : RS) : Nat × RS := (result rs k, { rs with pos := rs.pos + k })

inductive Op
  | call (k : Nat)
  | snap
  | restore (i : Nat)
  | mutateSnap (i : Nat)          -- the caller draws from the snapshot object it was handed

structure St where
  cur : RS
  snaps : List RS := []
  out : List Nat := []

def step (result : RS → Nat → Nat) (st : St) : Op → St
  | .call k => let (v, rs) := callOn result k st.cur; { st with cur := rs, out := st.out ++ [v] }
  | .snap => { st with snaps := st.snaps ++ [st.cur] }                        -- a copy
  | .restore i => match st.snaps[i]? with
      | some s => { st with cur := s }                                         -- a copy
      | none => st
  | .mutateSnap i => { st with snaps := st.snaps.mapIdx fun j s => if j = i then { s with pos := s.pos + 1 } else s }

def run (result : RS → Nat → Nat) (st : St) (ops : List Op) : St := ops.foldl (step result) st

/-- outputs of a run of calls only depend on the state they start from -/
def outputs (result : RS → Nat → Nat) : RS → List Nat → List Nat
  | _, [] => []
  | rs, k :: ks => (callOn result k rs).1 :: outputs result (callOn result k rs).2 ks

theorem run_calls (result : RS → Nat → Nat) : ∀ (ks : List Nat) (st : St),
    (run result st (ks.map .call)).out = st.out ++ outputs result st.cur ks ∧
    (run result st (ks.map .call)).snaps = st.snaps := by
  intro ks
  induction ks with
  | nil => intro st; simp [run, outputs]
  | cons k ks ih =>
    intro st
    simp only [run, List.map_cons, List.foldl_cons]
    have := ih (step result st (.call k))
    simp only [run] at this
    rw [this.1, this.2]
    simp [step, callOn, outputs, List.append_assoc]

theorem step_restore (result : RS → Nat → Nat) (st : St) (i : Nat) (s : RS) (h : st.snaps[i]? = some s) :
    step result st (.restore i) = { st with cur := s } := by
  simp [step, h]

/-- **Restore replays.**  Taking a snapshot, running calls `ks`, restoring the snapshot and
    running the same calls again produces the same outputs the second time -/
theorem restore_replays (result : RS → Nat → Nat) (st : St) (ks : List Nat) :
    let i := st.snaps.length
    let st1 := run result (step result st .snap) (ks.map .call)
    let st2 := run result (step result st1 (.restore i)) (ks.map .call)
    st2.out = st1.out ++ outputs result st.cur ks ∧ st1.out = st.out ++ outputs result st.cur ks := by
  simp only
  have h1 := run_calls result ks (step result st .snap)
  have hs : (step result st .snap).snaps = st.snaps ++ [st.cur] := rfl
  have hc : (step result st .snap).cur = st.cur := rfl
  have ho : (step result st .snap).out = st.out := rfl
  rw [hc, ho] at h1
  refine ⟨?_, h1.1⟩
  generalize run result (step result st .snap) (ks.map .call) = st1 at h1 ⊢
  have hget : st1.snaps[st.snaps.length]? = some st.cur := by
    rw [h1.2, hs]; simp
  rw [step_restore result st1 _ _ hget]
  have h2 := run_calls result ks { st1 with cur := st.cur }
  exact h2.1

/-- **Snapshots are independent.**  Advancing a snapshot object after it was taken does not
    change the object's own state or outputs -/
theorem snapshot_independent (result : RS → Nat → Nat) (st : St) (i : Nat) :
    (step result st (.mutateSnap i)).cur = st.cur ∧ (step result st (.mutateSnap i)).out = st.out := by
  simp [step]

/-- **One snapshot, several replays.**  Restoring stores a copy: restoring the same snapshot twice
    starts both replays from the same state -/
theorem one_snapshot_many_replays (result : RS → Nat → Nat) (st : St) (i : Nat) (ks : List Nat) (s : RS)
    (h : st.snaps[i]? = some s) :
    let a := run result (step result st (.restore i)) (ks.map .call)
    let b := run result (step result a (.restore i)) (ks.map .call)
    b.out = a.out ++ outputs result s ks ∧ a.out = st.out ++ outputs result s ks := by
  simp only
  rw [step_restore result st i s h]
  have ha := run_calls result ks { st with cur := s }
  generalize run result { st with cur := s } (ks.map .call) = a at ha ⊢
  have hget : a.snaps[i]? = some s := by rw [ha.2]; exact h
  rw [step_restore result a i s hget]
  have hb := run_calls result ks { a with cur := s }
  exact ⟨hb.1, ha.1⟩

end Pyvsc.C09
