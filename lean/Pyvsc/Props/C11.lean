import Pyvsc.Model.Covergroup
import Pyvsc.Props.C10
import Mathlib.Tactic.Ring
import Mathlib.Tactic.Linarith
/-!
# C11 — cross bins count joint hits of their coverpoints
-/
namespace Pyvsc.C11
open Pyvsc.Cg Pyvsc.Bins

/-- a key is valid for the dimensions: one component per coverpoint, each below its bin count -/
def ValidKey : List Nat → List Nat → Prop
  | [], [] => True
  | d :: ds, k :: ks => k < d ∧ ValidKey ds ks
  | _, _ => False

theorem flatIdx_acc : ∀ (dims key : List Nat) (acc : Nat), ValidKey dims key →
    flatIdx dims key acc = acc * prodL dims + flatIdx dims key 0 := by
  intro dims
  induction dims with
  | nil => intro key acc h; cases key <;> simp [flatIdx, prodL, ValidKey] at *
  | cons d ds ih =>
    intro key acc h
    cases key with
    | nil => simp [ValidKey] at h
    | cons k ks =>
      simp only [ValidKey] at h
      simp only [flatIdx, prodL]
      rw [ih ks (acc * d + k) h.2, ih ks (0 * d + k) h.2]
      ring

/-- **one bin per combination**: a valid key is mapped below the number of cross bins … -/
theorem flatIdx_lt : ∀ (dims key : List Nat), ValidKey dims key → flatIdx dims key 0 < prodL dims := by
  intro dims
  induction dims with
  | nil => intro key h; cases key <;> simp [flatIdx, prodL, ValidKey] at *
  | cons d ds ih =>
    intro key h
    cases key with
    | nil => simp [ValidKey] at h
    | cons k ks =>
      simp only [ValidKey] at h
      simp only [flatIdx, prodL]
      rw [flatIdx_acc ds ks (0 * d + k) h.2]
      have := ih ks h.2
      have h1 : (0 * d + k) * prodL ds + flatIdx ds ks 0 < (k + 1) * prodL ds := by
        have : (0 * d + k) = k := by ring
        rw [this]; nlinarith
      have h2 : (k + 1) * prodL ds ≤ d * prodL ds := Nat.mul_le_mul_right _ h.1
      omega

/-- … and the map is injective with `keyOf` as its inverse: the cross bins are in one-to-one,
    row-major (first coverpoint outermost) correspondence with the combinations of coverpoint bins,
    which is also how they are named (`crossBinName` looks the key up with `keyOf`) -/
theorem keyOf_flatIdx : ∀ (dims key : List Nat), ValidKey dims key →
    keyOf dims (flatIdx dims key 0) = key := by
  intro dims
  induction dims with
  | nil => intro key h; cases key <;> simp [keyOf, ValidKey] at *
  | cons d ds ih =>
    intro key h
    cases key with
    | nil => simp [ValidKey] at h
    | cons k ks =>
      simp only [ValidKey] at h
      simp only [flatIdx, keyOf]
      rw [flatIdx_acc ds ks (0 * d + k) h.2]
      have hlt := flatIdx_lt ds ks h.2
      have e : (0 * d + k) * prodL ds + flatIdx ds ks 0 = flatIdx ds ks 0 + prodL ds * k := by ring
      rw [e, Nat.add_mul_div_left _ _ (by omega), Nat.add_mul_mod_self_left, Nat.div_eq_of_lt hlt,
        Nat.mod_eq_of_lt hlt, ih ks h.2]
      simp

/-- what the property calls "every crossed coverpoint's iff holds and every crossed coverpoint hit a
    bin", with the bin of each coverpoint -/
def KeyOK (sh : Shape) (inp : List (Bool × Int)) : List Nat → List Nat → Prop
  | [], [] => True
  | i :: is, k :: ks =>
    (∃ d v kI, sh.cps[i]? = some d ∧ inp[i]? = some (true, v) ∧ firstHit d.cp.bins 0 v = some kI ∧ k = kI.toNat) ∧
      KeyOK sh inp is ks
  | _, _ => False

/-- the key of a sample exists exactly when every crossed coverpoint is enabled and hit a bin, and
    then lists, per coverpoint, the flat index of the first bin model reporting a hit -/
theorem crossKey_spec (sh : Shape) (inp : List (Bool × Int)) : ∀ (is key : List Nat),
    crossKey sh inp is = some key ↔ KeyOK sh inp is key := by
  intro is
  induction is with
  | nil => intro key; cases key <;> simp [crossKey, KeyOK]
  | cons i is ih =>
    intro key
    simp only [crossKey]
    cases hd : sh.cps[i]? with
    | none => cases key <;> simp [KeyOK, hd]
    | some d =>
      cases hi : inp[i]? with
      | none => cases key <;> simp [KeyOK, hi]
      | some p =>
        obtain ⟨iff, v⟩ := p
        cases iff with
        | false => cases key <;> simp [KeyOK, hi]
        | true =>
          simp only [if_true]
          cases hf : firstHit d.cp.bins 0 v with
          | none => cases key <;> simp [KeyOK, hd, hi, hf]
          | some k =>
            simp only [Option.map_eq_some_iff]
            cases key with
            | nil => simp [KeyOK]
            | cons k' ks =>
              simp only [KeyOK, hd, hi, hf]
              constructor
              · rintro ⟨a, ha, hcons⟩
                simp only [List.cons.injEq] at hcons
                obtain ⟨rfl, rfl⟩ := hcons
                exact ⟨⟨d, v, k, rfl, rfl, hf, rfl⟩, (ih a).1 ha⟩
              · rintro ⟨⟨d', v', kI, hd', hv', hk', rfl⟩, hrest⟩
                simp only [Option.some.injEq, Prod.mk.injEq, true_and] at hd' hv'
                subst hd' hv'
                rw [hf] at hk'
                simp only [Option.some.injEq] at hk'
                subst hk'
                exact ⟨ks, (ih ks).2 hrest, rfl⟩

theorem bumpNat_length (l : List Nat) (i : Nat) : (bumpNat l i).length = l.length := by
  simp [bumpNat]

theorem bumpNat_getD (l : List Nat) (i t : Nat) (ht : t < l.length) :
    (bumpNat l i)[t]?.getD 0 = l[t]?.getD 0 + (if i = t then 1 else 0) := by
  unfold bumpNat
  by_cases h : i = t
  · subst h; simp [ht]
  · simp [h]

/-- **one sample, one cross**: the cross hit vector changes in at most one place, by exactly one, and
    only when the cross's iff holds and the key exists -/
theorem cross_step_spec (sh : Shape) (c : CrossDef) (h : List Nat) (inp : List (Bool × Int)) (iff : Bool)
    (t : Nat) (ht : t < h.length) :
    (crossStep sh c h inp iff)[t]?.getD 0 = h[t]?.getD 0 +
      (if iff = true ∧ ∃ key, crossKey sh inp c.cps = some key ∧ flatIdx (crossDims sh c) key 0 = t then 1 else 0) := by
  unfold crossStep
  cases iff with
  | false => simp
  | true =>
    simp only [if_true, true_and]
    cases hk : crossKey sh inp c.cps with
    | none => simp
    | some key =>
      simp only [Option.some.injEq, exists_eq_left']
      exact bumpNat_getD h _ t ht

theorem crossStep_length (sh : Shape) (c : CrossDef) (h : List Nat) (inp : List (Bool × Int)) (iff : Bool) :
    (crossStep sh c h inp iff).length = h.length := by
  unfold crossStep
  split
  · split <;> simp [bumpNat_length]
  · rfl

/-- number of times cross bin `t` is incremented by one sample (0 or 1) -/
def xincr (sh : Shape) (c : CrossDef) (s : List (Bool × Int) × Bool) (t : Nat) : Nat :=
  if s.2 = true ∧ ∃ key, crossKey sh s.1 c.cps = some key ∧ flatIdx (crossDims sh c) key 0 = t then 1 else 0

/-- **cross bins count joint hits**: after any sample sequence cross bin `t` holds the number of
    samples for which the cross's iff held, every crossed coverpoint was enabled and hit a bin, and
    the combination of those bins is `t`; nothing else ever changes a cross bin. -/
theorem cross_counts (sh : Shape) (c : CrossDef) (samples : List (List (Bool × Int) × Bool)) (t : Nat)
    (ht : t < crossNBins sh c) :
    (samples.foldl (fun h s => crossStep sh c h s.1 s.2) (List.replicate (crossNBins sh c) 0))[t]?.getD 0
      = (samples.map (fun s => xincr sh c s t)).sum := by
  suffices H : ∀ (h : List Nat), t < h.length →
      (samples.foldl (fun h s => crossStep sh c h s.1 s.2) h)[t]?.getD 0
        = h[t]?.getD 0 + (samples.map (fun s => xincr sh c s t)).sum by
    have := H (List.replicate (crossNBins sh c) 0) (by simpa using ht)
    rw [this]; simp [ht]
  induction samples with
  | nil => intro h _; simp
  | cons s ss ih =>
    intro h hl
    simp only [List.foldl_cons, List.map_cons, List.sum_cons]
    rw [ih _ (by rw [crossStep_length]; exact hl), cross_step_spec sh c h s.1 s.2 t hl]
    unfold xincr
    omega

example : flatIdx [2, 3] [1, 2] 0 = 5 ∧ keyOf [2, 3] 5 = [1, 2] := by decide

end Pyvsc.C11
