import Pyvsc.Model.Override
/-
  C16 (and what C03 / C04 / C07 rely on between calls): the in-place rewrite of foreach and dist
  statements leaves no trace once the call's rollback has run, for every statement tree.
-/
namespace Pyvsc.C16R
open Pyvsc.Ovr

/-- rolling back the rewrite of a clean tree gives the tree back, whatever the replacement was -/
theorem rollback_expand (g : Nat) (t : Stmt) : t.clean = true → (t.expand g).rollback = t := by
  apply Stmt.rec
    (motive_1 := fun t => t.clean = true → (t.expand g).rollback = t)
    (motive_2 := fun l => l.clean = true → (l.expand g).rollback = l)
  · intro n _; rfl
  · intro b _ _; simp [Stmt.expand, Stmt.rollback]
  · intro b ih h
    simp only [Stmt.clean] at h
    simp [Stmt.expand, Stmt.rollback, ih h]
  · intro o n d _ h; simp [Stmt.clean] at h
  · intro _; rfl
  · intro s r ihs ihr h
    simp only [Stmts.clean, Bool.and_eq_true] at h
    simp [Stmts.expand, Stmts.rollback, ihs h.1, ihr h.2]

/-- **A complete call leaves the statement tree as it found it** -/
theorem call_restores (g : Nat) (t : Stmt) (h : t.clean = true) : t.call g = t :=
  rollback_expand g t h

/-- ... and so does any sequence of complete calls, whatever each of them rewrote: every state
    between calls is the tree the class declared -/
theorem calls_restore (gs : List Nat) (t : Stmt) (h : t.clean = true) :
    gs.foldl (fun t g => t.call g) t = t := by
  induction gs with
  | nil => rfl
  | cons g gs ih => simp only [List.foldl_cons, call_restores g t h]; exact ih

/-- the rollback walk does nothing to a tree no call is working on (a second rollback, or a
    rollback after a call that failed before rewriting anything, is harmless) -/
theorem rollback_clean (t : Stmt) : t.clean = true → t.rollback = t := by
  apply Stmt.rec
    (motive_1 := fun t => t.clean = true → t.rollback = t)
    (motive_2 := fun l => l.clean = true → l.rollback = l)
  · intro n _; rfl
  · intro b _ _; rfl
  · intro b ih h
    simp only [Stmt.clean] at h
    simp [Stmt.rollback, ih h]
  · intro o n d _ h; simp [Stmt.clean] at h
  · intro _; rfl
  · intro s r ihs ihr h
    simp only [Stmts.clean, Bool.and_eq_true] at h
    simp [Stmts.rollback, ihs h.1, ihr h.2]

/-- during the call every expandable statement of a clean tree is represented by the replacement
    built in *this* call -/
theorem expand_active (g : Nat) (t : Stmt) : t.clean = true → ∀ n ∈ (t.expand g).active, n = g := by
  apply Stmt.rec
    (motive_1 := fun t => t.clean = true → ∀ n ∈ (t.expand g).active, n = g)
    (motive_2 := fun l => l.clean = true → ∀ n ∈ (l.expand g).active, n = g)
  · intro n _ m hm; simp [Stmt.expand, Stmt.active] at hm
  · intro b _ _ m hm; simpa [Stmt.expand, Stmt.active] using hm
  · intro b ih h m hm
    simp only [Stmt.clean] at h
    exact ih h m (by simpa [Stmt.expand, Stmt.active] using hm)
  · intro o n d _ h; simp [Stmt.clean] at h
  · intro _ m hm; simp [Stmts.expand, Stmts.active] at hm
  · intro s r ihs ihr h m hm
    simp only [Stmts.clean, Bool.and_eq_true] at h
    simp only [Stmts.expand, Stmts.active, List.mem_append] at hm
    rcases hm with hm | hm
    · exact ihs h.1 m hm
    · exact ihr h.2 m hm

/-- What a skipped rollback costs, stated on the model: the next call does not rewrite the
    statements that are still overridden — it solves with the *stale* replacements — -/
theorem expand_stale (g₁ g₂ : Nat) (t : Stmt) : t.clean = true → (t.expand g₁).expand g₂ = t.expand g₁ := by
  apply Stmt.rec
    (motive_1 := fun t => t.clean = true → (t.expand g₁).expand g₂ = t.expand g₁)
    (motive_2 := fun l => l.clean = true → (l.expand g₁).expand g₂ = l.expand g₁)
  · intro n _; rfl
  · intro b _ _; rfl
  · intro b ih h
    simp only [Stmt.clean] at h
    simp [Stmt.expand, ih h]
  · intro o n d _ h; simp [Stmt.clean] at h
  · intro _; rfl
  · intro s r ihs ihr h
    simp only [Stmts.clean, Bool.and_eq_true] at h
    simp [Stmts.expand, ihs h.1, ihr h.2]

/-- — and that call's own rollback then heals the tree: exactly one later call is affected.
    (This is why a rollback that skips part of the tree — a disabled block, a non-random
    sub-object — shows on the first call after the skipped part takes part again, and only there.) -/
theorem stale_heals (g₁ g₂ : Nat) (t : Stmt) (h : t.clean = true) : ((t.expand g₁).expand g₂).rollback = t := by
  rw [expand_stale g₁ g₂ t h]; exact rollback_expand g₁ t h

/-! ### a call aborted while the tree is being rewritten (F59) -/

mutual
  /-- `t'` is `t` with *some* of its expandable statements overridden: the state of the tree when an
      exception stops the builders part of the way (an inline reference that raises while the
      expanded model is analysed, a list the user's callback broke ...) -/
  inductive PartExp : Stmt → Stmt → Prop where
    | atom (n : Nat) : PartExp (.atom n) (.atom n)
    | kept (b : Stmts) : PartExp (.expandable b) (.expandable b)
    | done (b : Stmts) (g : Nat) : PartExp (.expandable b) (.override (.expandable b) g 1)
    | scope (b b' : Stmts) : PartExpL b b' → PartExp (.scope b) (.scope b')
  inductive PartExpL : Stmts → Stmts → Prop where
    | nil : PartExpL .nil .nil
    | cons (s s' : Stmt) (r r' : Stmts) : PartExp s s' → PartExpL r r' → PartExpL (.cons s r) (.cons s' r')
end

/-- **The rollback of the `finally` clause restores the tree from every intermediate state of the
    rewrite**, not only from the completed one: wherever the builders were stopped, one rollback
    walk gives back the tree the class declared. -/
theorem rollback_partial (t t' : Stmt) (h : PartExp t t') : t'.rollback = t := by
  apply PartExp.rec
    (motive_1 := fun t t' _ => t'.rollback = t)
    (motive_2 := fun l l' _ => l'.rollback = l)
    (t := h)
  · intro n; rfl
  · intro b; rfl
  · intro b g; simp [Stmt.rollback]
  · intro b b' _ ih; simp [Stmt.rollback, ih]
  · rfl
  · intro s s' r r' _ _ ihs ihr; simp [Stmts.rollback, ihs, ihr]

/-- the completed rewrite of a clean tree is one of those states (so `rollback_expand` is the special
    case), and so is the untouched tree -/
theorem partExp_expand (g : Nat) (t : Stmt) : t.clean = true → PartExp t (t.expand g) := by
  apply Stmt.rec
    (motive_1 := fun t => t.clean = true → PartExp t (t.expand g))
    (motive_2 := fun l => l.clean = true → PartExpL l (l.expand g))
  · intro n _; exact .atom n
  · intro b _ _; exact .done b g
  · intro b ih h
    simp only [Stmt.clean] at h
    exact .scope _ _ (ih h)
  · intro o n d _ h; simp [Stmt.clean] at h
  · intro _; exact .nil
  · intro s r ihs ihr h
    simp only [Stmts.clean, Bool.and_eq_true] at h
    exact .cons _ _ _ _ (ihs h.1) (ihr h.2)

/-- hypotheses are satisfiable, and the rewrite is not the identity: a block holding a foreach next
    to an ordinary statement inside an if-branch -/
example :
    let t : Stmt := .scope (.cons (.atom 0) (.cons (.scope (.cons (.expandable (.cons (.atom 1) .nil)) .nil)) .nil))
    t.clean = true ∧ (t.expand 7).clean = false ∧ (t.expand 7).active = [7] ∧ (t.call 7).clean = true := by
  simp [Stmt.clean, Stmts.clean, Stmt.expand, Stmts.expand, Stmt.active, Stmts.active, Stmt.call, Stmt.rollback, Stmts.rollback]

end Pyvsc.C16R
