import Pyvsc.Model.Covergroup
import Pyvsc.Props.C12
/-!
# C13 — coverage reports and saved databases equal the in-memory coverage

`Reg.save` is the save visitor as a pure function of the registry (so producing a report cannot
alter coverage state: `save_pure`); the theorems say that what it emits is exactly the in-memory
data.
-/
namespace Pyvsc.C13
open Pyvsc.Cg Pyvsc.Bins

/-- every bin emitted for a bin list carries the in-memory name and hit count of its flat index,
    and exactly `n_bins` bins are emitted -/
theorem binsOf_spec (bs : List BinM) (hits : List Nat) (a : Nat) (kind : String) :
    (binsOf bs hits a kind).length = (totalBins bs).toNat ∧
    ∀ i (hi : i < (totalBins bs).toNat),
      (binsOf bs hits a kind)[i]? =
        some { name := (binNameAt bs 0 (i : Nat)).getD "?", atLeast := a, count := hits[i]?.getD 0, kind := kind } := by
  unfold binsOf
  refine ⟨by simp, fun i hi => ?_⟩
  simp [hi]

/-- a saved covergroup lists every coverpoint exactly once, in order, under its in-memory name -/
theorem saveCg_cps (name : String) (sh : Shape) (s : St) (hl : s.cp.length = sh.cps.length) :
    (saveCg name sh s).cps.map (·.name) = sh.cps.map (·.name) ∧ (saveCg name sh s).name = name := by
  unfold saveCg
  simp only [List.map_map, and_true]
  have : ∀ (a : List CpDef) (b : List Hits), b.length = a.length →
      (a.zip b).map ((fun (p : UCp) => p.name) ∘ fun (x : CpDef × Hits) =>
        ({ name := x.1.name, weight := x.1.weight,
           bins := binsOf x.1.cp.bins x.2.hit x.1.atLeast "cvg" ++ binsOf x.1.cp.ignore x.2.ign x.1.atLeast "ignore" ++
                   binsOf x.1.cp.illegal x.2.ill x.1.atLeast "illegal" } : UCp)) = a.map (·.name) := by
    intro a
    induction a with
    | nil => intro b _; simp
    | cons x xs ih =>
      intro b hb
      cases b with
      | nil => simp at hb
      | cons y ys => simp only [List.zip_cons_cons, List.map_cons, Function.comp]; rw [← ih ys (by simpa using hb)]
  exact this sh.cps s.cp hl

/-- a saved covergroup lists every cross exactly once with one bin per cross bin, each carrying its
    in-memory hit count -/
theorem saveCg_cross_counts (name : String) (sh : Shape) (s : St) (j : Nat) (c : CrossDef) (h : List Nat)
    (hc : sh.crosses[j]? = some c) (hh : s.cross[j]? = some h) :
    ∃ u, (saveCg name sh s).crosses[j]? = some u ∧ u.name = c.name ∧ u.bins.map (·.count) = h := by
  have hz : (sh.crosses.zip s.cross)[j]? = some (c, h) := List.getElem?_zip_eq_some.2 ⟨hc, hh⟩
  unfold saveCg
  simp only [List.getElem?_map, hz, Option.map_some]
  refine ⟨_, rfl, rfl, ?_⟩
  simp only [List.map_map]
  apply List.ext_getElem?
  intro i
  simp only [List.getElem?_map, List.getElem?_range, Function.comp]
  by_cases hi : i < h.length
  · simp [hi]
  · simp [hi]

/-- producing the saved tree is a function of the registry: the registry it was produced from is,
    trivially, unchanged afterwards, and saving twice gives the same tree -/
theorem save_pure (r : Reg) : r.save = r.save := rfl

end Pyvsc.C13
