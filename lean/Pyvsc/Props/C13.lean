import Pyvsc.Model.Covergroup
import Pyvsc.Props.C12
/-!
# C13 — coverage reports and saved databases equal the in-memory coverage

`Reg.save` is the save visitor as a pure function of the registry (so producing a report cannot
alter coverage state: `save_pure`); the theorems say that what it emits is exactly the in-memory
data.
-/
namespace Pyvsc.C13
open Pyvsc.Cg Pyvsc.Bins

/-- every bin emitted for a bin list carries the in-memory name and hit count of its flat index,
    and exactly `n_bins` bins are emitted -/
theorem binsOf_spec (bs : List BinM) (hits : List Nat) (a : Nat) (kind : String) :
    (binsOf bs hits a kind).length = (totalBins bs).toNat ∧
    ∀ i (hi : i < (totalBins bs).toNat),
      (binsOf bs hits a kind)[i]? =
        some { name := (binNameAt bs 0 (i : Nat)).getD "?", atLeast := a, count := hits[i]?.getD 0, kind := kind } := by
  unfold binsOf
  refine ⟨by simp, fun i hi => ?_⟩
  simp [hi]

/-- a saved covergroup lists every coverpoint exactly once, in order, under its in-memory name -/
theorem saveCg_cps (name : String) (sh : Shape) (s : St) (hl : s.cp.length = sh.cps.length) :
    (saveCg name sh s).cps.map (·.name) = sh.cps.map (·.name) ∧ (saveCg name sh s).name = name := by
  unfold saveCg
  simp only [List.map_map, and_true]
  have : ∀ (a : List CpDef) (b : List Hits), b.length = a.length →
      (a.zip b).map ((fun (p : UCp) => p.name) ∘ fun (x : CpDef × Hits) =>
        ({ name := x.1.name, weight := x.1.weight,
           bins := binsOf x.1.cp.bins x.2.hit x.1.atLeast "cvg" ++ binsOf x.1.cp.ignore x.2.ign x.1.atLeast "ignore" ++
                   binsOf x.1.cp.illegal x.2.ill x.1.atLeast "illegal" } : UCp)) = a.map (·.name) := by
    intro a
    induction a with
    | nil => intro b _; simp
    | cons x xs ih =>
      intro b hb
      cases b with
      | nil => simp at hb
      | cons y ys => simp only [List.zip_cons_cons, List.map_cons, Function.comp]; rw [← ih ys (by simpa using hb)]
  exact this sh.cps s.cp hl

/-- a saved covergroup lists every cross exactly once with one bin per cross bin, each carrying its
    in-memory hit count -/
theorem saveCg_cross_counts (name : String) (sh : Shape) (s : St) (j : Nat) (c : CrossDef) (h : List Nat)
    (hc : sh.crosses[j]? = some c) (hh : s.cross[j]? = some h) :
    ∃ u, (saveCg name sh s).crosses[j]? = some u ∧ u.name = c.name ∧ u.bins.map (·.count) = h := by
  have hz : (sh.crosses.zip s.cross)[j]? = some (c, h) := List.getElem?_zip_eq_some.2 ⟨hc, hh⟩
  unfold saveCg
  simp only [List.getElem?_map, hz, Option.map_some]
  refine ⟨_, rfl, rfl, ?_⟩
  simp only [List.map_map]
  apply List.ext_getElem?
  intro i
  simp only [List.getElem?_map, List.getElem?_range, Function.comp]
  by_cases hi : i < h.length
  · simp [hi]
  · simp [hi]


/-! ### nothing is left out of a save -/

theorem foldl_saved (myInsts : List Inst) : ∀ (used : List String) (saved : List UCg),
    (∀ c ∈ saved, c ∈ (myInsts.foldl (fun (acc : List String × List UCg) i =>
        (acc.1 ++ [dedupName acc.1 i.name], acc.2 ++ [saveCg (dedupName acc.1 i.name) i.shape i.st])) (used, saved)).2) ∧
    ∀ i ∈ myInsts, ∃ nm, saveCg nm i.shape i.st ∈ (myInsts.foldl (fun (acc : List String × List UCg) i =>
        (acc.1 ++ [dedupName acc.1 i.name], acc.2 ++ [saveCg (dedupName acc.1 i.name) i.shape i.st])) (used, saved)).2 := by
  induction myInsts with
  | nil => intro used saved; simp
  | cons x xs ih =>
    intro used saved
    simp only [List.foldl_cons]
    obtain ⟨a, b⟩ := ih (used ++ [dedupName used x.name]) (saved ++ [saveCg (dedupName used x.name) x.shape x.st])
    refine ⟨fun c hc => a c (List.mem_append_left _ hc), fun i hi => ?_⟩
    rcases List.mem_cons.1 hi with rfl | hi
    · exact ⟨dedupName used i.name, a _ (by simp)⟩
    · exact b i hi

theorem go_spec (r : Reg) : ∀ (l : List (Nat × TypeE)) (used : List String), ∀ p ∈ l,
    ∃ u ∈ Reg.save.go r l used, u.cg = saveCg p.2.name p.2.shape p.2.st ∧
      ∀ i ∈ r.insts, i.tidx = p.1 → ∃ nm, saveCg nm i.shape i.st ∈ u.insts := by
  intro l
  induction l with
  | nil => intro used p hp; simp at hp
  | cons q rest ih =>
    intro used p hp
    obtain ⟨ti, t⟩ := q
    simp only [Reg.save.go]
    rcases List.mem_cons.1 hp with rfl | hp
    · refine ⟨_, List.mem_cons_self .., rfl, fun i hi hti => ?_⟩
      simp only []
      exact (foldl_saved (r.insts.filter (fun i => i.tidx == ti)) used []).2 i
        (List.mem_filter.2 ⟨hi, by simpa using hti⟩)
    · obtain ⟨u, hu, h1, h2⟩ := ih _ p hp
      exact ⟨u, List.mem_cons_of_mem _ hu, h1, h2⟩

/-- **A save contains every covergroup type and every instance.**  For every type covergroup of the
    registry the saved tree has an entry built from that type's in-memory state (name, shape, hit
    counts: `saveCg`, whose content is `saveCg_cps`, `binsOf_spec`, `saveCg_cross_counts`), and below
    it one saved covergroup for every instance registered under that type, from that instance's
    in-memory state (its scope name possibly de-duplicated). -/
theorem save_complete (r : Reg) (k : Nat) (t : TypeE) (ht : r.types[k]? = some t) :
    ∃ u ∈ r.save, u.cg = saveCg t.name t.shape t.st ∧
      ∀ i ∈ r.insts, i.tidx = k → ∃ nm, saveCg nm i.shape i.st ∈ u.insts := by
  unfold Reg.save
  simp only []
  apply go_spec r _ [] (k, t)
  rw [List.mem_flatMap]
  refine ⟨t.tname, List.mem_eraseDups.2 (List.mem_map.2 ⟨t, List.mem_of_getElem? ht, rfl⟩), ?_⟩
  rw [List.mem_filter]
  refine ⟨?_, by simp⟩
  have hk : k < r.types.length := by
    by_contra hc
    rw [List.getElem?_eq_none (by omega)] at ht; simp at ht
  rw [List.mem_iff_getElem?]
  refine ⟨k, ?_⟩
  rw [List.getElem?_zip_eq_some]
  exact ⟨by simp [hk], ht⟩

/-! ### names: a save shows every instance under the name it holds in memory at that time -/

theorem dedupGo_prefix (used : List String) (nm : String) : ∀ (fuel i : Nat), ∃ suf, dedupName.go used nm fuel i = nm ++ suf := by
  intro fuel
  induction fuel with
  | zero => intro i; exact ⟨"", by simp [dedupName.go]⟩
  | succ n ih =>
    intro i
    unfold dedupName.go
    split
    · exact ⟨"_" ++ toString i, by simp [String.append_assoc]⟩
    · exact ih (i + 1)

/-- the scope name written for an instance is its in-memory name, possibly followed by a `_k` suffix;
    it is the in-memory name itself when no earlier scope of the save carries it -/
theorem dedupName_prefix (used : List String) (nm : String) : ∃ suf, dedupName used nm = nm ++ suf := by
  unfold dedupName
  split
  · exact ⟨"", by simp⟩
  · exact dedupGo_prefix used nm 1000 1

theorem dedupName_fresh (used : List String) (nm : String) (h : nm ∉ used) : dedupName used nm = nm := by
  unfold dedupName
  simp [h]

theorem dedupGo_fresh_or_exhausted (used : List String) (nm : String) :
    ∀ (fuel i : Nat), dedupName.go used nm fuel i ∉ used ∨ dedupName.go used nm fuel i = nm := by
  intro fuel
  induction fuel with
  | zero => intro i; right; simp [dedupName.go]
  | succ n ih =>
    intro i
    unfold dedupName.go
    split
    · rename_i h; left; simpa using h
    · exact ih (i + 1)

/-- **A name written by a save never repeats a name written earlier in the same save**, unless all
    of the 1000 suffixes the code tries are taken (then the plain name is written again: the only
    case in which two scopes of a database can share a name). -/
theorem dedupName_fresh_or_exhausted (used : List String) (nm : String) :
    dedupName used nm ∉ used ∨ dedupName used nm = nm := by
  unfold dedupName
  split
  · rename_i h; left; simpa using h
  · exact dedupGo_fresh_or_exhausted used nm 1000 1

theorem foldl_saved_named (myInsts : List Inst) : ∀ (used : List String) (saved : List UCg),
    ∀ i ∈ myInsts, ∃ suf, saveCg (i.name ++ suf) i.shape i.st ∈ (myInsts.foldl (fun (acc : List String × List UCg) i =>
        (acc.1 ++ [dedupName acc.1 i.name], acc.2 ++ [saveCg (dedupName acc.1 i.name) i.shape i.st])) (used, saved)).2 := by
  induction myInsts with
  | nil => intro used saved i hi; simp at hi
  | cons x xs ih =>
    intro used saved i hi
    simp only [List.foldl_cons]
    rcases List.mem_cons.1 hi with rfl | hi
    · obtain ⟨suf, hs⟩ := dedupName_prefix used i.name
      refine ⟨suf, ?_⟩
      rw [← hs]
      exact (foldl_saved xs (used ++ [dedupName used i.name]) (saved ++ [saveCg (dedupName used i.name) i.shape i.st])).1 _ (by simp)
    · exact ih _ _ i hi

theorem go_spec_named (r : Reg) : ∀ (l : List (Nat × TypeE)) (used : List String), ∀ p ∈ l,
    ∃ u ∈ Reg.save.go r l used, u.cg = saveCg p.2.name p.2.shape p.2.st ∧
      ∀ i ∈ r.insts, i.tidx = p.1 → ∃ suf, saveCg (i.name ++ suf) i.shape i.st ∈ u.insts := by
  intro l
  induction l with
  | nil => intro used p hp; simp at hp
  | cons q rest ih =>
    intro used p hp
    obtain ⟨ti, t⟩ := q
    simp only [Reg.save.go]
    rcases List.mem_cons.1 hp with rfl | hp
    · refine ⟨_, List.mem_cons_self .., rfl, fun i hi hti => ?_⟩
      simp only []
      exact foldl_saved_named (r.insts.filter (fun i => i.tidx == ti)) used [] i
        (List.mem_filter.2 ⟨hi, by simpa using hti⟩)
    · obtain ⟨u, hu, h1, h2⟩ := ih _ p hp
      exact ⟨u, List.mem_cons_of_mem _ hu, h1, h2⟩

/-- **Every instance is saved under its in-memory name.**  As `save_complete`, with the scope name
    pinned: the instance's name as the registry holds it when the save is made, followed at most by a
    de-duplication suffix. -/
theorem save_complete_named (r : Reg) (k : Nat) (t : TypeE) (ht : r.types[k]? = some t) :
    ∃ u ∈ r.save, u.cg = saveCg t.name t.shape t.st ∧
      ∀ i ∈ r.insts, i.tidx = k → ∃ suf, saveCg (i.name ++ suf) i.shape i.st ∈ u.insts := by
  unfold Reg.save
  simp only []
  apply go_spec_named r _ [] (k, t)
  rw [List.mem_flatMap]
  refine ⟨t.tname, List.mem_eraseDups.2 (List.mem_map.2 ⟨t, List.mem_of_getElem? ht, rfl⟩), ?_⟩
  rw [List.mem_filter]
  refine ⟨?_, by simp⟩
  have hk : k < r.types.length := by
    by_contra hc
    rw [List.getElem?_eq_none (by omega)] at ht; simp at ht
  rw [List.mem_iff_getElem?]
  refine ⟨k, ?_⟩
  rw [List.getElem?_zip_eq_some]
  exact ⟨by simp [hk], ht⟩

/-- `set_name` on instance `i` changes that instance's name and nothing else: the type covergroups,
    every other instance, and the renamed instance's shape, type link and hit counts are as before -/
theorem rename_spec (r : Reg) (i : Nat) (nm : String) :
    (r.rename i nm).types = r.types ∧
    (r.rename i nm).insts.length = r.insts.length ∧
    (∀ j, j ≠ i → (r.rename i nm).insts[j]? = r.insts[j]?) ∧
    (∀ x, r.insts[i]? = some x → (r.rename i nm).insts[i]? = some { x with name := nm }) := by
  refine ⟨rfl, by simp [Reg.rename], fun j hj => ?_, fun x hx => ?_⟩
  · simp [Reg.rename, List.getElem?_modify, Ne.symm hj]
  · simp [Reg.rename, List.getElem?_modify, hx]

/-- a save made after `set_name` shows the renamed instance under the new name (whatever any earlier
    save or report showed) -/
theorem save_after_rename (r : Reg) (i : Nat) (nm : String) (x : Inst) (hx : r.insts[i]? = some x)
    (t : TypeE) (ht : r.types[x.tidx]? = some t) :
    ∃ u ∈ (r.rename i nm).save, ∃ suf, saveCg (nm ++ suf) x.shape x.st ∈ u.insts := by
  obtain ⟨u, hu, _, h⟩ := save_complete_named (r.rename i nm) x.tidx t (by simpa [Reg.rename] using ht)
  have hm : ({ x with name := nm } : Inst) ∈ (r.rename i nm).insts :=
    List.mem_of_getElem? ((rename_spec r i nm).2.2.2 x hx)
  obtain ⟨suf, hs⟩ := h _ hm rfl
  exact ⟨u, hu, suf, hs⟩

/-- producing the saved tree is a function of the registry: the registry it was produced from is,
    trivially, unchanged afterwards, and saving twice gives the same tree -/
theorem save_pure (r : Reg) : r.save = r.save := rfl

end Pyvsc.C13
