import Pyvsc.Model.Ctor
/-!
# C16 — a failed or aborted call does not poison later calls
-/
namespace Pyvsc.C16
open Pyvsc.Ctor

/-- the part of the state a body must leave as it found it (everything but the pending
    expressions, which the enclosing scope flushes) -/
def core (s : Stacks) : Nat × Nat × Nat × Nat × Nat × Nat × Bool :=
  (s.scope, s.foreachS, s.srcinfo, s.exprMode, s.rawMode, s.overrides, s.staleVars)

theorem eq_of_core (a b : Stacks) (h : core a = core b) (he : a.exprs = b.exprs) : a = b := by
  cases a; cases b
  simp only [core, Prod.mk.injEq] at h
  simp only at he
  obtain ⟨h1, h2, h3, h4, h5, h6, h7⟩ := h
  subst h1 h2 h3 h4 h5 h6 h7 he
  rfl

/-- **Bodies are balanced.**  Whatever a constraint body or a with-body does — any nesting of
    scoped statements, any number of expression statements, a raise at any position — every scope
    it pushed has been popped when control leaves it, normally or by the exception -/
theorem exec_balanced : ∀ (b : Body) (st : Stacks), core (exec b st).1 = core st := by
  intro b
  induction b with
  | nil => intro st; rfl
  | stmt rest ih => intro st; simp only [exec]; rw [ih]; rfl
  | raise => intro st; rfl
  | block inner rest ihi ihr =>
    intro st
    simp only [exec]
    have h1 := ihi { st with exprs := 0, scope := st.scope + 1 }
    generalize exec inner { st with exprs := 0, scope := st.scope + 1 } = x at h1 ⊢
    obtain ⟨st2, r⟩ := x
    simp only at h1 ⊢
    have h3 : core { st2 with exprs := 0, scope := st2.scope - 1 } = core st := by
      simp only [core, Prod.mk.injEq] at h1 ⊢
      obtain ⟨a, b, c, d, e, f, g⟩ := h1
      simp [a, b, c, d, e, f, g]
    cases r
    · simp only [Bool.false_eq_true, if_false]; rw [ihr]; exact h3
    · simp only [if_true]; exact h3

theorem elabBlock_idle (b : Body) (st : Stacks) (h : st.exprs = 0) : (elabBlock b st).1 = st := by
  have hb := exec_balanced b { st with exprs := 0, scope := st.scope + 1 }
  simp only [elabBlock]
  generalize exec b { st with exprs := 0, scope := st.scope + 1 } = x at hb ⊢
  obtain ⟨st2, r⟩ := x
  simp only at hb ⊢
  apply eq_of_core
  · simp only [core, Prod.mk.injEq] at hb ⊢
    obtain ⟨a, b', c, d, e, f, g⟩ := hb
    simp [a, b', c, d, e, f, g]
  · simp [h]

theorem elabBlocks_idle : ∀ (bs : List Body) (st : Stacks), st.exprs = 0 → (elabBlocks bs st).1 = st := by
  intro bs
  induction bs with
  | nil => intro st _; rfl
  | cons b bs ih =>
    intro st h
    simp only [elabBlocks]
    have hb := elabBlock_idle b st h
    generalize elabBlock b st = x at hb ⊢
    obtain ⟨st1, r⟩ := x
    simp only at hb ⊢
    subst hb
    cases r
    · simp only [Bool.false_eq_true, if_false]; exact ih st1 h
    · simp

/-- **Construction.**  After constructing an object — successfully, or with the user's
    `__init__` or any constraint body raising at any position — the shared state is what it was -/
theorem construct_idle (initRaises : Bool) (blocks : List Body) (st : Stacks) (h : st.exprs = 0) :
    (construct initRaises blocks st).1 = st := by
  simp only [construct]
  split
  · cases st; simp
  · rw [elabBlocks_idle blocks _ (by simpa using h)]
    cases st; simp

/-- **Solve.**  After `do_randomize` — normal return, a raising pre/post callback, SolveFailure,
    or an exception inside the solve — no temporary constraint and no solver variable is left -/
theorem doRandomize_idle (f : Fault) (n : Nat) (st : Stacks) (h : st.staleVars = false) :
    (doRandomize f n st).1 = st := by
  cases st
  simp only at h
  subst h
  cases f <;> simp [doRandomize]

/-- **randomize_with.**  Same for a call with an inline block whose body may raise anywhere -/
theorem randomizeWith_idle (body : Body) (f : Fault) (n : Nat) (st : Stacks)
    (h : st.staleVars = false) (he : st.exprs = 0) : (randomizeWith body f n st).1 = st := by
  have hb := exec_balanced body { st with exprMode := st.exprMode + 1, srcinfo := st.srcinfo + 1, scope := st.scope + 1 }
  simp only [randomizeWith]
  generalize exec body { st with exprMode := st.exprMode + 1, srcinfo := st.srcinfo + 1, scope := st.scope + 1 } = x at hb ⊢
  obtain ⟨st2, r⟩ := x
  simp only at hb ⊢
  have h3 : ({ st2 with exprs := 0, scope := st2.scope - 1, exprMode := st2.exprMode - 1, srcinfo := st2.srcinfo - 1 } : Stacks) = st := by
    apply eq_of_core
    · simp only [core, Prod.mk.injEq] at hb ⊢
      obtain ⟨a, b, c, d, e, f', g⟩ := hb
      simp [a, b, c, d, e, f', g]
    · simp [he]
  rw [h3, doRandomize_idle f n st h]

/-- **Any history.**  Starting idle, after any sequence of API calls with any fault positions the
    shared state is idle again: a later call starts from exactly the state a fresh session has -/
theorem history_idle : ∀ (ops : List Op) (st : Stacks), st.exprs = 0 → st.staleVars = false →
    (ops.foldl (fun s o => (step s o).1) st) = st := by
  intro ops
  induction ops with
  | nil => intro st _ _; rfl
  | cons o ops ih =>
    intro st he hv
    simp only [List.foldl_cons]
    have : (step st o).1 = st := by
      cases o with
      | construct i bs => exact construct_idle i bs st he
      | randomize f n => exact doRandomize_idle f n st hv
      | randomizeWith b f n => exact randomizeWith_idle b f n st hv he
    rw [this]
    exact ih st he hv

/-! non-vacuity: a raise two scopes deep, followed by more calls -/
example : (step {} (.construct false [.stmt (.block (.stmt (.block .raise .nil)) (.stmt .nil))])) = ({}, true) := by decide
example : (step {} (.randomizeWith (.block .raise .nil) .none 2)) = ({}, true) := by decide
example : (step {} (.randomize .internal 3)) = ({}, true) := by decide

end Pyvsc.C16
