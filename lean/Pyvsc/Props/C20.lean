import Pyvsc.Model.RandSets
import Pyvsc.Props.C14
import Pyvsc.Props.C02
/-!
# C20 — solve_order: the earlier variable's value is chosen first; nothing else changes
-/
namespace Pyvsc.C20
open Pyvsc.RandSets Pyvsc.Solve Pyvsc.Bv

theorem mem_withRest (rsFields : List Nat) (groups : List (List Nat)) :
    ∀ f ∈ rsFields, f ∈ (withRest rsFields groups).flatten := by
  intro f hf
  simp only [withRest]
  by_cases hin : f ∈ groups.flatten
  · split
    · exact hin
    · simp only [List.flatten_append, List.mem_append]; exact Or.inl hin
  · split
    · rename_i hrest
      simp only [List.isEmpty_iff, List.filter_eq_nil_iff] at hrest
      have := hrest f hf
      simp [hin] at this
    · simp only [List.flatten_append, List.flatten_cons, List.flatten_nil, List.append_nil, List.mem_append,
        List.mem_filter]
      exact Or.inr ⟨hf, by simp [hin]⟩

/-- **Every field is randomized.**  With ordering directives, every field of the rand set lies in
    some ordered group (after repair 5c7e970: the fields no directive mentions form the last group) -/
theorem every_field_in_a_group (rsFields : List Nat) (pairs : List (Nat × Nat)) (gs : List (List Nat))
    (h : orderGroups rsFields pairs = some gs) : ∀ f ∈ rsFields, f ∈ gs.flatten := by
  simp only [orderGroups] at h
  split at h
  · simp at h
  · simp only [Option.some.injEq] at h
    subst h
    exact mem_withRest _ _

/-- **All constraints still hold, satisfiability is unchanged, no corner.**  The guarantees of
    the solve loop do not depend on how the swizzle candidates are grouped or ordered: for any
    groups, SolveFailure iff the hard system is unsatisfiable, and with enough valid answers the
    loop ends with a model of everything asserted. -/
theorem order_independent (pre hard soft : List Bv) (groups groups' : List (Option (List Bv)))
    (ans ans' : List (Ans (Nat → Nat))) (hne : ans ≠ []) (hne' : ans' ≠ [])
    (hv : LogValid C01.BvHolds (solve pre hard soft groups ans).log)
    (hv' : LogValid C01.BvHolds (solve pre hard soft groups' ans').log) :
    ((solve pre hard soft groups ans).out = .solveFailure ↔ (solve pre hard soft groups' ans').out = .solveFailure) := by
  rw [C02.fails_iff_unsat_pre pre hard soft groups ans hne hv, C02.fails_iff_unsat_pre pre hard soft groups' ans' hne' hv']

/-- the first ordered group is tried against the hard and soft constraints only: if the drawn
    target of `a` can be extended to a full solution it is kept, however few values of `b`
    accompany it (instance of `C14.target_returned`) -/
theorem first_group_hits_target (asserted cands : List Bv) (ans : List (Ans (Nat → Nat))) (g : Greedy Bv (Nat → Nat))
    (hfeas : ∃ a, (∀ f ∈ asserted, C01.BvHolds a f) ∧ ∀ f ∈ cands, C01.BvHolds a f)
    (hg : greedy asserted cands ans = some g) (hv : LogValid C01.BvHolds g.log)
    (m : Nat → Nat) (hm : Valid C01.BvHolds g.asserted (.sat m)) :
    g.rejected = [] ∧ ∀ c ∈ cands, holds m c = true :=
  C14.target_returned C01.BvHolds asserted cands ans g hfeas hg hv m hm

example : orderGroups [0, 1, 2] [(0, 1)] = some [[0], [1], [2]] := by decide
example : orderGroups [0, 1, 2] [] = none := by decide

end Pyvsc.C20
