import Pyvsc.Props.C10
import Pyvsc.Proofs.Scatter
import Mathlib.Tactic.Linarith
/-!
# C19 — wildcard bins match exactly the values that agree with the pattern
-/
namespace Pyvsc.C19
open Pyvsc.Wildcard Pyvsc.Spec Pyvsc.Ranges
open Pyvsc.C10 (Den SortedLow den_cons den_nil)

/-- a single wildcard bin is hit by `v` iff some pattern agrees with `v` on every care bit -/
theorem wcHit_iff (specs : List (Nat × Nat)) (v : Nat) :
    wcHit specs v = true ↔ ∃ s ∈ specs, agrees s.1 s.2 v = true := by
  unfold wcHit agrees
  simp [List.any_eq_true]

/-! ### overlap collapse of `wildcard_bin_array` -/

theorem collapseGo_spec (rest : RL) : ∀ (cur : Range), SortedLow (cur :: rest) →
    (∀ v, Den (collapseGo cur rest) v ↔ Den (cur :: rest) v) ∧
    (∀ x ∈ (collapseGo cur rest).head?, x.1 = cur.1) ∧
    SortedLow (collapseGo cur rest) := by
  induction rest with
  | nil => intro cur _; simp [collapseGo, SortedLow]
  | cons y rest ih =>
    intro cur h
    have hxy : cur.1 ≤ y.1 := by
      unfold SortedLow at h; exact (List.pairwise_cons.1 h).1 y (by simp)
    simp only [collapseGo]
    split
    · rename_i hle
      have hs : SortedLow ((cur.1, max cur.2 y.2) :: rest) := by
        unfold SortedLow at *
        rw [List.pairwise_cons] at h ⊢
        have h2 := List.pairwise_cons.1 h.2
        exact ⟨fun z hz => h.1 z (List.mem_cons_of_mem _ hz), h2.2⟩
      obtain ⟨i1, i2, i3⟩ := ih _ hs
      refine ⟨fun v => ?_, fun a ha => by simpa using i2 a ha, i3⟩
      rw [i1 v, den_cons, den_cons, den_cons]
      simp only []
      constructor
      · rintro (⟨a, b⟩ | hr)
        · by_cases hv : v ≤ cur.2
          · exact Or.inl ⟨a, hv⟩
          · right; left
            constructor <;> omega
        · exact Or.inr (Or.inr hr)
      · rintro (⟨a, b⟩ | ⟨a, b⟩ | hr)
        · left; constructor <;> omega
        · left; constructor <;> omega
        · exact Or.inr hr
    · rename_i hgt
      have hs : SortedLow (y :: rest) := by
        unfold SortedLow at *; exact (List.pairwise_cons.1 h).2
      obtain ⟨i1, i2, i3⟩ := ih _ hs
      refine ⟨fun v => by simp only [den_cons, i1 v], fun a ha => by simp at ha; subst ha; rfl, ?_⟩
      unfold SortedLow; rw [List.pairwise_cons]
      refine ⟨fun z hz => ?_, i3⟩
      cases hm : collapseGo y rest with
      | nil => rw [hm] at hz; simp at hz
      | cons w ws =>
        rw [hm] at hz i2 i3
        have hw : w.1 = y.1 := i2 w (by simp)
        rcases List.mem_cons.1 hz with rfl | hz
        · omega
        · have := (List.pairwise_cons.1 i3).1 z hz; omega

/-- collapsing overlapping / adjacent pattern expansions never loses or adds a value -/
theorem collapse_denotes (l : RL) (h : SortedLow l) (v : Int) : Den (collapse l) v ↔ Den l v := by
  cases l with
  | nil => simp [collapse]
  | cons x xs => exact (collapseGo_spec xs x h).1 v

/-! ### merging the expanded values into ranges -/

def DenN (l : List (Nat × Nat)) (v : Nat) : Prop := ∃ r ∈ l, r.1 ≤ v ∧ v ≤ r.2

theorem denN_pushVal (rev : List (Nat × Nat)) (x v : Nat) (hwf : ∀ r ∈ rev, r.1 ≤ r.2) :
    (DenN (pushVal rev x) v ↔ DenN rev v ∨ v = x) ∧ (∀ r ∈ pushVal rev x, r.1 ≤ r.2) := by
  unfold pushVal
  cases rev with
  | nil => simp [DenN]; omega
  | cons r rest =>
    obtain ⟨lo, hi⟩ := r
    have hr : lo ≤ hi := hwf (lo, hi) (by simp)
    simp only []
    split
    · rename_i heq
      constructor
      · simp only [DenN, List.mem_cons, exists_eq_or_imp]
        constructor
        · rintro (⟨a, b⟩ | h)
          · by_cases hv : v ≤ hi
            · exact Or.inl (Or.inl ⟨a, hv⟩)
            · right; omega
          · exact Or.inl (Or.inr h)
        · rintro ((⟨a, b⟩ | h) | rfl)
          · left; constructor <;> omega
          · exact Or.inr h
          · left; constructor <;> omega
      · intro q hq
        rcases List.mem_cons.1 hq with rfl | hq
        · simp only []; omega
        · exact hwf q (List.mem_cons_of_mem _ hq)
    · constructor
      · simp only [DenN, List.mem_cons, exists_eq_or_imp]
        constructor
        · rintro (⟨a, b⟩ | h)
          · right; omega
          · exact Or.inl h
        · rintro (h | rfl)
          · exact Or.inr h
          · left; constructor <;> omega
      · intro q hq
        rcases List.mem_cons.1 hq with rfl | hq
        · simp
        · exact hwf q hq

/-- the range list built from the expanded values denotes exactly those values -/
theorem pushVals_denotes (vals : List Nat) (v : Nat) :
    DenN (vals.foldl pushVal []).reverse v ↔ v ∈ vals := by
  suffices H : ∀ (rev : List (Nat × Nat)), (∀ r ∈ rev, r.1 ≤ r.2) →
      (DenN (vals.foldl pushVal rev) v ↔ DenN rev v ∨ v ∈ vals) by
    have := H [] (by simp)
    simp only [DenN, List.mem_reverse] at this ⊢
    rw [this]; simp
  induction vals with
  | nil => intro rev _; simp
  | cons x xs ih =>
    intro rev hwf
    simp only [List.foldl_cons]
    obtain ⟨h1, h2⟩ := denN_pushVal rev x v hwf
    rw [ih _ h2, h1]
    simp only [List.mem_cons]; tauto

/-! ### expansion of a `(value, mask)` pair -/

theorem agrees_iff_testBit (value mask v : Nat) :
    agrees value mask v = true ↔ ∀ p, mask.testBit p = true → v.testBit p = value.testBit p := by
  unfold agrees
  rw [beq_iff_eq]
  constructor
  · intro h p hp
    have := congrArg (fun x => x.testBit p) h
    simpa [Nat.testBit_and, hp] using this
  · intro h
    apply Nat.eq_of_testBit_eq
    intro p
    rw [Nat.testBit_and, Nat.testBit_and]
    cases hm : mask.testBit p with
    | false => simp
    | true => rw [h p hm]

/-- **`valmask2binlist` expands to exactly the values below the mask's highest care bit that agree
    with the pattern on every care bit.**  (Wildcard digits above the highest care bit are not
    expanded: the factory is not told the coverpoint width — known finding F12; for a mask whose top
    bit is the top bit of the coverpoint this is the full statement of the property.) -/
theorem valmask2binlist_spec (value mask : Nat) (rl : List (Nat × Nat))
    (h : valmask2binlist value mask = some rl) (v : Nat) :
    DenN rl v ↔ (agrees value mask v = true ∧ ∀ p, mask >>> p = 0 → v.testBit p = false) := by
  unfold valmask2binlist at h
  simp only [] at h
  split at h
  · simp at h
  · simp only [Option.some.injEq] at h
    subst h
    obtain ⟨hg, ho⟩ := Scatter.groups_spec mask
    have hb : ∀ p, Scatter.InG (groups mask) p → (value &&& mask).testBit p = false := by
      intro p hp
      rw [Nat.testBit_and, ((hg p).1 hp).1]; simp
    rw [pushVals_denotes, Scatter.scatter_range (groups mask) ho (value &&& mask) v hb, agrees_iff_testBit]
    have hbit : ∀ p, mask >>> p = 0 → mask.testBit p = false := by
      intro p hp
      have : (mask >>> p).testBit 0 = false := by rw [hp]; simp
      rw [Nat.testBit_shiftRight] at this
      simpa using this
    constructor
    · intro hv
      refine ⟨fun p hp => ?_, fun p hp => ?_⟩
      · rw [hv p (fun hin => by rw [((hg p).1 hin).1] at hp; simp at hp), Nat.testBit_and, hp]; simp
      · rw [hv p (fun hin => ((hg p).1 hin).2 hp), Nat.testBit_and, hbit p hp]; simp
    · rintro ⟨ha, hhi⟩ p hp
      rw [Nat.testBit_and]
      cases hm : mask.testBit p with
      | true => rw [ha p hm]; simp
      | false =>
        have hz : mask >>> p = 0 := by
          by_cases hz : mask >>> p = 0
          · exact hz
          · exact absurd ((hg p).2 ⟨hm, hz⟩) hp
        rw [hhi p hz]; simp

/-- the same, with the bound written as a power of two: `L` is any length with `mask < 2 ^ L` whose
    top position holds a care bit -/
theorem valmask2binlist_full (value mask L : Nat) (rl : List (Nat × Nat))
    (h : valmask2binlist value mask = some rl) (hL : mask < 2 ^ (L + 1)) (htop : mask.testBit L = true) (v : Nat) :
    DenN rl v ↔ (v < 2 ^ (L + 1) ∧ agrees value mask v = true) := by
  rw [valmask2binlist_spec value mask rl h v]
  have hsh : ∀ p, mask >>> p = 0 ↔ L + 1 ≤ p := by
    intro p
    rw [Nat.shiftRight_eq_div_pow, Nat.div_eq_zero_iff_lt (Nat.two_pow_pos p)]
    constructor
    · intro hlt
      by_contra hle
      have hp : p ≤ L := by omega
      have : mask.testBit L = false :=
        Nat.testBit_lt_two_pow (Nat.lt_of_lt_of_le hlt (Nat.pow_le_pow_right (by decide) hp))
      rw [this] at htop; simp at htop
    · intro hle
      exact Nat.lt_of_lt_of_le hL (Nat.pow_le_pow_right (by decide) hle)
  constructor
  · rintro ⟨ha, hhi⟩
    refine ⟨?_, ha⟩
    apply Nat.lt_pow_two_of_testBit
    intro p hp
    exact hhi p ((hsh p).2 hp)
  · rintro ⟨hlt, ha⟩
    refine ⟨ha, fun p hp => ?_⟩
    exact Nat.testBit_lt_two_pow (Nat.lt_of_lt_of_le hlt (Nat.pow_le_pow_right (by decide) ((hsh p).1 hp)))

example : valmask2binlist 0b1001 0b1011 = some [(9, 9), (13, 13)] := by decide

/-! ### the whole array -/

/-- expansion of one pattern argument of `wildcard_bin_array` -/
def expand (p : Pat) : Option (List (Nat × Nat)) := do
  let (v, m) ← p.valmask
  valmask2binlist v m

theorem mapM_flatten_mem : ∀ (pats : List Pat) (rls : List (List (Nat × Nat))), pats.mapM expand = some rls →
    ∀ x, x ∈ rls.flatten ↔ ∃ p ∈ pats, ∃ r, expand p = some r ∧ x ∈ r := by
  intro pats
  induction pats with
  | nil => intro rls h x; simp at h; subst h; simp
  | cons a as ih =>
    intro rls h x
    rw [List.mapM_cons] at h
    cases hfa : expand a with
    | none => rw [hfa] at h; simp at h
    | some b =>
      cases hm : as.mapM expand with
      | none => rw [hfa, hm] at h; simp at h
      | some bs =>
        rw [hfa, hm] at h
        simp at h
        subst h
        simp only [List.flatten_cons, List.mem_append, ih bs hm x, List.mem_cons, exists_eq_or_imp, hfa,
          Option.some.injEq, exists_eq_left']

theorem mapM_none_of_mem : ∀ (pats : List Pat) (p : Pat), p ∈ pats → expand p = none → pats.mapM expand = none := by
  intro pats
  induction pats with
  | nil => intro p hp; simp at hp
  | cons a as ih =>
    intro p hp hn
    rw [List.mapM_cons]
    rcases List.mem_cons.1 hp with rfl | hp
    · rw [hn]; rfl
    · rw [ih p hp hn]
      cases expand a <;> rfl

/-- **A `wildcard_bin_array` covers exactly the values some pattern matches** (on the care bits, below
    the pattern's highest care bit — see `valmask2binlist_spec` and F12): sorting and the overlap
    collapse lose and add nothing. -/
theorem wildArray_denotes (pats : List Pat) (rl : RL) (h : wildArrayRanges pats = some rl) (n : Nat) :
    Den rl (n : Int) ↔ ∃ p ∈ pats, ∃ value mask, p.valmask = some (value, mask) ∧
      agrees value mask n = true ∧ ∀ q, mask >>> q = 0 → n.testBit q = false := by
  unfold wildArrayRanges at h
  have hexp : (fun p : Pat => (do
      let (v, m) ← p.valmask
      valmask2binlist v m : Option (List (Nat × Nat)))) = expand := rfl
  simp only [hexp] at h
  cases hm : pats.mapM expand with
  | none => rw [hm] at h; simp at h
  | some rls =>
    rw [hm] at h
    simp at h
    subst h
    rw [collapse_denotes _ (C10.sortByLow_spec _).1, (C10.sortByLow_spec _).2]
    unfold Den
    rw [← List.map_flatten]
    simp only [List.mem_map, exists_exists_and_eq_and, mapM_flatten_mem pats rls hm]
    constructor
    · rintro ⟨x, ⟨p, hp, r, hr, hx⟩, h1, h2⟩
      have hden : DenN r n := ⟨x, hx, by exact_mod_cast h1, by exact_mod_cast h2⟩
      unfold expand at hr
      cases hv : p.valmask with
      | none => rw [hv] at hr; simp at hr
      | some vm =>
        obtain ⟨value, mask⟩ := vm
        rw [hv] at hr
        simp at hr
        exact ⟨p, hp, value, mask, hv, (valmask2binlist_spec value mask r hr n).1 hden⟩
    · rintro ⟨p, hp, value, mask, hv, hspec⟩
      cases hr : valmask2binlist value mask with
      | none =>
        -- the array was built, so every pattern expanded
        exfalso
        have : expand p = none := by unfold expand; rw [hv]; simp [hr]
        have hall := mapM_none_of_mem pats p hp this
        rw [hall] at hm; simp at hm
      | some r =>
        obtain ⟨x, hx, h1, h2⟩ := (valmask2binlist_spec value mask r hr n).2 hspec
        have he : expand p = some r := by unfold expand; rw [hv]; simp [hr]
        exact ⟨x, ⟨p, hp, r, he, hx⟩, by exact_mod_cast h1, by exact_mod_cast h2⟩

/-! ### pattern strings -/

theorem and_combine (y m0 dm b : Nat) (hdm : dm < 2 ^ b) :
    y &&& (m0 <<< b ||| dm) = ((y >>> b) &&& m0) <<< b ||| ((y % 2 ^ b) &&& dm) := by
  apply Nat.eq_of_testBit_eq
  intro i
  simp only [Nat.testBit_and, Nat.testBit_or, Nat.testBit_shiftLeft, Nat.testBit_shiftRight, Nat.testBit_mod_two_pow]
  by_cases hi : i < b
  · have : ¬ (i ≥ b) := by omega
    simp [hi, this]
  · have hge : i ≥ b := by omega
    have hdmi : dm.testBit i = false :=
      Nat.testBit_lt_two_pow (lt_of_lt_of_le hdm (Nat.pow_le_pow_right (by decide) hge))
    simp [hi, hge, hdmi]

theorem combine_inj (A A' B B' b : Nat) (hB : B < 2 ^ b) (hB' : B' < 2 ^ b) :
    (A <<< b ||| B = A' <<< b ||| B') ↔ A = A' ∧ B = B' := by
  rw [← Nat.shiftLeft_add_eq_or_of_lt hB, ← Nat.shiftLeft_add_eq_or_of_lt hB', Nat.shiftLeft_eq, Nat.shiftLeft_eq]
  constructor
  · intro h
    have hp : 0 < 2 ^ b := Nat.two_pow_pos b
    have h1 : (A * 2 ^ b + B) / 2 ^ b = (A' * 2 ^ b + B') / 2 ^ b := by rw [h]
    rw [Nat.mul_comm A, Nat.mul_comm A', Nat.mul_add_div hp, Nat.mul_add_div hp, Nat.div_eq_of_lt hB,
      Nat.div_eq_of_lt hB'] at h1
    have : A = A' := by omega
    subst this
    exact ⟨rfl, by omega⟩
  · rintro ⟨rfl, rfl⟩; rfl

/-- one digit of `str2bin`: shift value and mask, or-in the digit and the all-ones digit mask -/
def step (bits : Nat) (acc : Nat × Nat) (d : Option Nat) : Nat × Nat :=
  (acc.1 <<< bits ||| d.getD 0, acc.2 <<< bits ||| (if d.isSome then 2 ^ bits - 1 else 0))

theorem parseDigits_eq (bits : Nat) (cs : List Char) : ∀ (value mask : Nat),
    parseDigits bits cs value mask = (patDigits bits cs).map (fun ds => ds.foldl (step bits) (value, mask)) := by
  induction cs with
  | nil => intro value mask; simp [parseDigits, patDigits]
  | cons c cs ih =>
    intro value mask
    simp only [parseDigits, patDigits]
    split
    · exact ih value mask
    · split
      · rw [ih]; cases patDigits bits cs <;> simp [step]
      · cases hd : digitVal (2 ^ bits) c with
        | none => simp
        | some d => simp only []; rw [ih]; cases patDigits bits cs <;> simp [step]

theorem digitVal_lt (base : Nat) (c : Char) (d : Nat) (h : digitVal base c = some d) : d < base := by
  unfold digitVal at h
  cases hr : digitRaw c with
  | none => rw [hr] at h; simp at h
  | some v =>
    rw [hr] at h
    simp only [] at h
    split at h
    · simp at h; omega
    · simp at h

theorem patDigits_lt (bits : Nat) (cs : List Char) : ∀ ds, patDigits bits cs = some ds →
    ∀ d ∈ ds, ∀ x, d = some x → x < 2 ^ bits := by
  induction cs with
  | nil => intro ds h; simp [patDigits] at h; subst h; simp
  | cons c cs ih =>
    intro ds h
    simp only [patDigits] at h
    split at h
    · exact ih ds h
    · split at h
      · simp only [Option.map_eq_some_iff] at h
        obtain ⟨ds', h', rfl⟩ := h
        intro d hd x hx
        rcases List.mem_cons.1 hd with rfl | hd
        · simp at hx
        · exact ih ds' h' d hd x hx
      · cases hdv : digitVal (2 ^ bits) c with
        | none => rw [hdv] at h; simp at h
        | some dv =>
          rw [hdv] at h
          simp only [Option.map_eq_some_iff] at h
          obtain ⟨ds', h', rfl⟩ := h
          intro d hd x hx
          rcases List.mem_cons.1 hd with rfl | hd
          · simp at hx; subst hx; exact digitVal_lt _ _ _ hdv
          · exact ih ds' h' d hd x hx

theorem matchRev_append (bits : Nat) (a b : List (Option Nat)) : ∀ (v : Nat),
    matchRev bits (a ++ b) v = (matchRev bits a v && matchRev bits b (v / 2 ^ (bits * a.length))) := by
  induction a with
  | nil => intro v; simp [matchRev]
  | cons d ds ih =>
    intro v
    simp only [List.cons_append, matchRev, ih, List.length_cons]
    rw [Nat.div_div_eq_div_mul, ← Nat.pow_add, Bool.and_assoc]
    have e : bits + bits * ds.length = bits * (ds.length + 1) := by ring
    rw [e]

/-- agreement with one more (least significant) digit -/
theorem agrees_step (bits : Nat) (acc : Nat × Nat) (d : Option Nat) (hd : ∀ x, d = some x → x < 2 ^ bits)
    (y : Nat) :
    agrees (step bits acc d).1 (step bits acc d).2 y =
      (agrees acc.1 acc.2 (y / 2 ^ bits) && digitOk bits d y) := by
  have hp : 0 < 2 ^ bits := Nat.two_pow_pos bits
  have hm : 2 ^ bits - 1 < 2 ^ bits := by omega
  unfold agrees step digitOk
  cases d with
  | none =>
    simp only [Option.getD_none, Option.isSome_none, Bool.false_eq_true, if_false, Nat.or_zero, Bool.and_true]
    have h1 := and_combine y acc.2 0 bits hp
    have h2 := and_combine (acc.1 <<< bits) acc.2 0 bits hp
    simp only [Nat.or_zero, Nat.and_zero] at h1 h2
    rw [h1, h2, Nat.shiftRight_eq_div_pow]
    have : acc.1 <<< bits >>> bits = acc.1 := by
      rw [Nat.shiftLeft_eq, Nat.shiftRight_eq_div_pow, Nat.mul_div_cancel _ hp]
    rw [this]
    rw [Bool.eq_iff_iff]
    simp only [beq_iff_eq]
    have := combine_inj (y / 2 ^ bits &&& acc.2) (acc.1 &&& acc.2) 0 0 bits hp hp
    simpa using this
  | some x =>
    have hx := hd x rfl
    simp only [Option.getD_some, Option.isSome_some, if_true]
    have h1 := and_combine y acc.2 (2 ^ bits - 1) bits hm
    have h2 := and_combine (acc.1 <<< bits ||| x) acc.2 (2 ^ bits - 1) bits hm
    have hshr : (acc.1 <<< bits ||| x) >>> bits = acc.1 := by
      rw [← Nat.shiftLeft_add_eq_or_of_lt hx, Nat.shiftLeft_eq, Nat.shiftRight_eq_div_pow, Nat.mul_comm,
        Nat.mul_add_div hp, Nat.div_eq_of_lt hx]; simp
    have hmod : (acc.1 <<< bits ||| x) % 2 ^ bits = x := by
      rw [← Nat.shiftLeft_add_eq_or_of_lt hx, Nat.shiftLeft_eq, Nat.mul_comm, Nat.mul_add_mod,
        Nat.mod_eq_of_lt hx]
    have hand : ∀ z, z < 2 ^ bits → z &&& (2 ^ bits - 1) = z := by
      intro z hz
      rw [Nat.and_two_pow_sub_one_eq_mod, Nat.mod_eq_of_lt hz]
    rw [h1, h2, hshr, hmod, hand x hx, hand _ (Nat.mod_lt _ hp), Nat.shiftRight_eq_div_pow]
    rw [Bool.eq_iff_iff]
    simp only [beq_iff_eq, Bool.and_eq_true]
    exact combine_inj _ _ _ _ bits (Nat.mod_lt _ hp) hx

theorem fold_agrees (bits : Nat) (ds : List (Option Nat)) (hds : ∀ d ∈ ds, ∀ x, d = some x → x < 2 ^ bits) :
    ∀ (acc : Nat × Nat) (v : Nat),
    agrees (ds.foldl (step bits) acc).1 (ds.foldl (step bits) acc).2 v =
      (agrees acc.1 acc.2 (v / 2 ^ (bits * ds.length)) && matchRev bits ds.reverse v) := by
  induction ds with
  | nil => intro acc v; simp [matchRev]
  | cons d ds ih =>
    intro acc v
    have hds' : ∀ d ∈ ds, ∀ x, d = some x → x < 2 ^ bits := fun d' hd' => hds d' (List.mem_cons_of_mem _ hd')
    simp only [List.foldl_cons, List.reverse_cons, List.length_cons]
    rw [ih hds' (step bits acc d) v, agrees_step bits acc d (hds d (by simp)), matchRev_append]
    simp only [List.length_reverse, matchRev, Bool.and_true]
    rw [Nat.div_div_eq_div_mul, ← Nat.pow_add]
    have : bits * ds.length + bits = bits * (ds.length + 1) := by ring
    rw [this]
    cases agrees acc.1 acc.2 (v / 2 ^ (bits * (ds.length + 1))) <;>
      cases matchRev bits ds.reverse v <;>
      cases digitOk bits d (v / 2 ^ (bits * ds.length)) <;> rfl

/-- **`str2bin` means digit-wise matching**: for every pattern string the code accepts, a value
    agrees with the parsed `(value, mask)` pair on the care bits iff it matches the pattern digit by
    digit (wildcard digits `x X ?` match anything, `_` is ignored, bits above the pattern are free). -/
theorem str2bin_spec (s : String) (value mask : Nat) (h : str2bin s = some (value, mask)) (v : Nat) :
    matchStr s v = some (agrees value mask v) := by
  unfold str2bin at h
  unfold matchStr
  have key : ∀ (bits : Nat) (cs : List Char), parseDigits bits cs 0 0 = some (value, mask) →
      (patDigits bits cs).map (fun ds => matchRev bits ds.reverse v) = some (agrees value mask v) := by
    intro bits cs hp
    rw [parseDigits_eq] at hp
    cases hpd : patDigits bits cs with
    | none => rw [hpd] at hp; simp at hp
    | some ds =>
      rw [hpd] at hp
      simp only [Option.map_some, Option.some.injEq] at hp ⊢
      have := fold_agrees bits ds (patDigits_lt bits cs ds hpd) (0, 0) v
      rw [hp] at this
      simp only [] at this
      rw [this]
      simp [agrees]
  cases hb : basePrefix s.toList with
  | none => rw [hb] at h; simp at h
  | some p =>
    obtain ⟨bits, cs⟩ := p
    rw [hb] at h
    exact key bits cs h

example : wildArrayRanges [Pat.str "0b0xxx", Pat.str "0b001x"] = some [(0, 7)] := by decide
example : str2bin "0x8_?" = some (0x80, 0xF0) := by decide

end Pyvsc.C19
