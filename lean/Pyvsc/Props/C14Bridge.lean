import Pyvsc.Props.C14Fix
import Pyvsc.Props.C04
/-!
# C14 — where the inference's reading of a statement is the language's reading

`process_sound` assumes `HoldsTop`: the statement read on Python integers.  Here: for a relation
between two fields of one signedness, and for a field against a literal that both readings see as
the same non-negative number, the reference semantics of the language (`Sem.truthy`, the meaning the
solver is proved to implement in C01) says exactly the same — so in that region "satisfies the
constraint" and "satisfies `HoldsTop`" coincide.  Outside it (mixed signedness, negative literal
against an unsigned field, wrap-around) they differ: known finding F21.
-/
namespace Pyvsc.C14
open Pyvsc.Bounds Pyvsc.Expr Pyvsc.Sem Pyvsc.Bv Pyvsc.Spec

/-- the comparison operators the visitor reads -/
def IsRel : BinOp → Prop
  | .lt | .le | .gt | .ge | .eq => True
  | _ => False

theorem b2n_ne_zero (p : Bool) : (b2n p != 0) = p := by cases p <;> rfl

/-- **Two fields of one signedness**: the language's meaning of `a op b` is the comparison of the
    stored integers -/
theorem field_field_reading (Γ : Nat → FieldTy) (ρ : Nat → Int) (a b : Nat) (op : BinOp) (hop : IsRel op)
    (hwa : 0 < (Γ a).w) (hwb : 0 < (Γ b).w) (hs : (Γ a).s = (Γ b).s)
    (ha : InType (Γ a).w (Γ a).s (ρ a)) (hb : InType (Γ b).w (Γ b).s (ρ b)) :
    truthy Γ ρ (.bin op (.fld a) (.fld b)) = true ↔ cmpHolds op (ρ a) (ρ b) := by
  have hS : ((Γ a).s && (Γ b).s) = (Γ a).s := by rw [← hs]; cases (Γ a).s <;> rfl
  have ra : rd (Γ a).s (Γ a).w (pat (Γ a).w (ρ a)) = ρ a := C04.rd_pat_inType _ hwa _ _ ha
  have rb : rd (Γ a).s (Γ b).w (pat (Γ b).w (ρ b)) = ρ b := by rw [hs]; exact C04.rd_pat_inType _ hwb _ _ hb
  unfold truthy
  simp only [sval, signed, cw, hS, ra, rb]
  cases op <;> simp only [IsRel] at hop <;> simp only [opSem, cmpHolds, b2n_ne_zero, decide_eq_true_eq] <;> omega

/-- **A field against a small non-negative literal** (`0 ≤ v < 2^31`, written as a Python int): again
    the comparison of the stored integer with `v`, whatever the field's signedness and width -/
theorem field_lit_reading (Γ : Nat → FieldTy) (ρ : Nat → Int) (a : Nat) (op : BinOp) (hop : IsRel op) (v : Int)
    (hwa : 0 < (Γ a).w) (ha : InType (Γ a).w (Γ a).s (ρ a)) (hv0 : 0 ≤ v) (hv : v < 2 ^ 31) :
    truthy Γ ρ (.bin op (.fld a) (.lit v true 32)) = true ↔ cmpHolds op (ρ a) v := by
  have hS : ((Γ a).s && true) = (Γ a).s := by simp
  have ra : rd (Γ a).s (Γ a).w (pat (Γ a).w (ρ a)) = ρ a := C04.rd_pat_inType _ hwa _ _ ha
  -- the literal at the node width W' ≥ 32 reads back as v under either signedness
  have rl : ∀ (S : Bool) (W : Nat), 32 ≤ W → rd S W (pat W v) = v := by
    intro S W hW
    have hp : (2 : Int) ^ 31 ≤ 2 ^ (W - 1) := by
      exact_mod_cast Nat.pow_le_pow_right (by decide) (by omega : 31 ≤ W - 1)
    apply C04.rd_pat_inType W (by omega) S v
    unfold InType
    have hp2 : (2 : Int) ^ (W - 1) ≤ 2 ^ W := by
      exact_mod_cast Nat.pow_le_pow_right (by decide) (by omega : W - 1 ≤ W)
    split <;> constructor <;> omega
  unfold truthy
  simp only [sval, signed, cw, width, hS, ra]
  rw [rl (Γ a).s _ (by omega)]
  cases op <;> simp only [IsRel] at hop <;> simp only [opSem, cmpHolds, b2n_ne_zero, decide_eq_true_eq] <;> omega

/-- in that region a top-level relation between two fields that holds in the language holds as the
    visitor reads it -/
theorem holdsTop_of_truthy_ff (Γ : Nat → FieldTy) (ρ : Nat → Int) (a b : Nat) (op : BinOp) (hop : IsRel op)
    (hwa : 0 < (Γ a).w) (hwb : 0 < (Γ b).w) (hs : (Γ a).s = (Γ b).s)
    (ha : InType (Γ a).w (Γ a).s (ρ a)) (hb : InType (Γ b).w (Γ b).s (ρ b))
    (h : truthy Γ ρ (.bin op (.fld a) (.fld b)) = true) (ρ0 : Nat → Int) :
    HoldsTop ρ0 ρ (.cmp op (.fld a) (.fld b)) := by
  simp only [HoldsTop, fieldOf]
  exact (field_field_reading Γ ρ a b op hop hwa hwb hs ha hb).1 h

/-- **A part-select never bounds the field it selects from.**  A comparison whose one side is a
    part-select (`a[3:0] <= 4`, `b[7:4] == 3`) and whose other side is not a plain field registers no
    propagator at all: the visitor's state - domains, propagators, error flag - is what it was.
    (`Expr2FieldVisitor` answers "no field" for a part-select; resolving one that is anchored at bit 0
    or at the msb to the whole field would make the inferred range drop feasible values.) -/
theorem visitTop_partselect (Γ : Nat → FieldTy) (ρ : Nat → Int) (st : St) (op : BinOp) (e r : Expr) (hi lo : Nat)
    (hr : fieldOf r = none) :
    visitTop Γ ρ st (.cmp op (.psel e hi lo) r) = st ∧ visitTop Γ ρ st (.cmp op r (.psel e hi lo)) = st := by
  have hp : fieldOf (.psel e hi lo) = none := rfl
  constructor <;> simp only [visitTop, hp, hr]

/-- ... and against a plain field `b` the only thing that can happen is what happens for any
    non-field operand: if the part-select is over non-random fields its *value* bounds `b`; a
    part-select of a random field leaves the state alone -/
theorem visitTop_partselect_of_random (Γ : Nat → FieldTy) (ρ : Nat → Int) (st : St) (op : BinOp) (a b : Nat) (hi lo : Nat)
    (ha : (Γ a).rand = true) :
    visitTop Γ ρ st (.cmp op (.psel (.fld a) hi lo) (.fld b)) = st := by
  have hp : fieldOf (.psel (.fld a) hi lo) = none := rfl
  have hb : fieldOf (.fld b) = some b := rfl
  simp only [visitTop, hp, hb, isNonRand, ha]
  simp

example : truthy (fun _ => ⟨4, false, true⟩) (fun i => if i = 0 then 3 else 9) (.bin .lt (.fld 0) (.fld 1)) = true := by decide

end Pyvsc.C14
