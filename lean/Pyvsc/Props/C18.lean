import Pyvsc.Model.Values
import Pyvsc.Spec.Values
import Mathlib.Tactic.Ring
import Mathlib.Tactic.Linarith
/-!
# C18 — field values stay within their declared type on every access path
-/
namespace Pyvsc.C18
open Pyvsc.Values Pyvsc.Spec

theorem two_pow_split (w : Nat) (hw : 0 < w) : (2 ^ w : Int) = 2 * 2 ^ (w - 1) := by
  obtain ⟨k, rfl⟩ : ∃ k, w = k + 1 := ⟨w - 1, by omega⟩
  simp [pow_succ, Int.mul_comm]

theorem pow_pos' (k : Nat) : (0 : Int) < 2 ^ k := by positivity

/-- the top-bit test of the code agrees with the arithmetic comparison -/
theorem pyBit_top (w : Nat) (hw : 0 < w) (m : Int) (h0 : 0 ≤ m) (h1 : m < 2 ^ w) :
    pyBit m (w - 1) = true ↔ (2 ^ (w - 1) : Int) ≤ m := by
  have hP := pow_pos' (w - 1)
  have hs := two_pow_split w hw
  unfold pyBit
  generalize (2 ^ (w - 1) : Int) = P at *
  rw [hs] at h1
  have hq0 : 0 ≤ m / P := Int.ediv_nonneg h0 (le_of_lt hP)
  have hq2 : m / P < 2 := Int.ediv_lt_of_lt_mul hP (by linarith)
  constructor
  · intro h
    have h' : m / P % 2 = 1 := by simpa using h
    have : m / P = 1 := by omega
    have := Int.mul_ediv_add_emod m P
    have hm := Int.emod_nonneg m (ne_of_gt hP)
    nlinarith
  · intro h
    have : 1 ≤ m / P := by
      have := (Int.le_ediv_iff_mul_le hP (a := 1) (b := m)).2 (by linarith)
      exact this
    have : m / P = 1 := by omega
    simp [this]

theorem negConv_eq (w : Nat) (m : Int) (h0 : 0 ≤ m) (h1 : m < 2 ^ w) :
    negConv w m = m - 2 ^ w := by
  unfold negConv pyMask
  have hP := pow_pos' w
  have : (-m - 1) % (2 ^ w : Int) = 2 ^ w - 1 - m := by
    have h : (-m - 1) = (2 ^ w - 1 - m) + (-1) * 2 ^ w := by ring
    rw [h, Int.add_mul_emod_self_right]
    exact Int.emod_eq_of_lt (by linarith) (by linarith)
  rw [this]; ring

theorem emod_bounds (w : Nat) (v : Int) : 0 ≤ v % (2 ^ w : Int) ∧ v % (2 ^ w : Int) < 2 ^ w :=
  ⟨Int.emod_nonneg _ (ne_of_gt (pow_pos' w)), Int.emod_lt_of_pos _ (pow_pos' w)⟩

/-- **scalar paths**: `set_val` / `val=` / attribute assignment / constructor initial value, then
    `get_val` / `.val` / attribute read -/
theorem scalar_read_after_write (w : Nat) (hw : 0 < w) (s : Bool) (v : Int) :
    scalarRead (scalarWrite w s v) = wrap w s v := by
  obtain ⟨h0, h1⟩ := emod_bounds w v
  have hb := pyBit_top w hw _ h0 h1
  unfold scalarRead scalarWrite wrap pyMask
  cases s with
  | false => simp
  | true =>
    simp only [true_and, if_true]
    by_cases h : (2 ^ (w - 1) : Int) ≤ v % 2 ^ w
    · simp [h, hb.2 h]
    · have : pyBit (v % 2 ^ w) (w - 1) = false := by
        cases hc : pyBit (v % 2 ^ w) (w - 1) with
        | false => rfl
        | true => exact absurd (hb.1 hc) h
      simp [h, this]

/-- **list paths**: `append` / `extend` / `l[i] = v` / `init=` / list assignment, then
    `l[i]` / iteration -/
theorem list_read_after_write (w : Nat) (hw : 0 < w) (s : Bool) (v : Int) :
    listRead w s (listWrite w v) = wrap w s v := by
  obtain ⟨h0, h1⟩ := emod_bounds w v
  have hb := pyBit_top w hw _ h0 h1
  have hn := negConv_eq w _ h0 h1
  unfold listRead listWrite wrap pyMask at *
  cases s with
  | false => simp
  | true =>
    simp only [true_and, if_true]
    by_cases h : (2 ^ (w - 1) : Int) ≤ v % 2 ^ w
    · simp [h, hb.2 h, hn]
    · have : pyBit (v % 2 ^ w) (w - 1) = false := by
        cases hc : pyBit (v % 2 ^ w) (w - 1) with
        | false => rfl
        | true => exact absurd (hb.1 hc) h
      simp [h, this]

/-- **solver read-back**: a `w`-bit pattern is written back as its two's-complement reading -/
theorem readBack_spec (w : Nat) (hw : 0 < w) (s : Bool) (p : Nat) (hp : p < 2 ^ w) :
    readBack w s p = wrap w s p := by
  have h0 : (0 : Int) ≤ p := Int.natCast_nonneg p
  have h1 : (p : Int) < 2 ^ w := by exact_mod_cast hp
  have hb := pyBit_top w hw _ h0 h1
  have hn := negConv_eq w _ h0 h1
  have hm : (p : Int) % 2 ^ w = p := Int.emod_eq_of_lt h0 h1
  unfold readBack wrap
  rw [hm]
  cases s with
  | false => simp
  | true =>
    by_cases h : (2 ^ (w - 1) : Int) ≤ p
    · simp [h, hb.2 h, hn]
    · have : pyBit (p : Int) (w - 1) = false := by
        cases hc : pyBit (p : Int) (w - 1) with
        | false => rfl
        | true => exact absurd (hb.1 hc) h
      simp [h, this]

/-- every value produced by `wrap` lies in the declared type -/
theorem wrap_inType (w : Nat) (hw : 0 < w) (s : Bool) (v : Int) : InType w s (wrap w s v) := by
  obtain ⟨h0, h1⟩ := emod_bounds w v
  have hs := two_pow_split w hw
  unfold InType wrap
  cases s with
  | false => simp [h0, h1]
  | true =>
    simp only [true_and, if_true]
    split <;> constructor <;> linarith

/-- `wrap` only changes the value by a multiple of `2^w` -/
theorem wrap_congr (w : Nat) (s : Bool) (v : Int) : (wrap w s v) % (2 ^ w : Int) = v % (2 ^ w : Int) := by
  simp only [wrap]
  split
  · rw [Int.sub_emod, Int.emod_self]; simp
  · simp

/-- a value already in the type is stored unchanged -/
theorem wrap_of_inType (w : Nat) (hw : 0 < w) (s : Bool) (x : Int) (hx : InType w s x) : wrap w s x = x := by
  have hs := two_pow_split w hw
  have hP := pow_pos' (w - 1)
  unfold InType at hx
  unfold wrap
  cases s with
  | false =>
    simp at hx ⊢
    exact Int.emod_eq_of_lt hx.1 hx.2
  | true =>
    simp only [if_true] at hx
    simp only [true_and]
    by_cases hneg : x < 0
    · have : x % (2 ^ w : Int) = x + 2 ^ w := by
        have h : x = (x + 2 ^ w) + (-1) * 2 ^ w := by ring
        rw [h, Int.add_mul_emod_self_right]
        have : (x + 2 ^ w + -1 * 2 ^ w) = x := by ring
        rw [this]
        exact Int.emod_eq_of_lt (by linarith) (by linarith)
      rw [this]
      have : (2 ^ (w - 1) : Int) ≤ x + 2 ^ w := by linarith
      simp [this]
    · have : x % (2 ^ w : Int) = x := Int.emod_eq_of_lt (by linarith) (by linarith)
      rw [this]
      have : ¬ (2 ^ (w - 1) : Int) ≤ x := by linarith
      simp [this]

/-- all access paths agree (the property's "the same value is observed through …") -/
theorem paths_agree (w : Nat) (hw : 0 < w) (s : Bool) (v : Int) :
    scalarRead (scalarWrite w s v) = listRead w s (listWrite w v) := by
  rw [scalar_read_after_write w hw, list_read_after_write w hw]

end Pyvsc.C18

namespace Pyvsc.C18
open Pyvsc.Values Pyvsc.Spec

/-! ### part-select -/

theorem partRead_bits (cur : Int) (hi lo : Nat) (h : lo ≤ hi) :
    partRead cur hi lo = some (bits cur hi lo) := by
  unfold partRead bits
  have h1 : ¬ ((lo : Int) < 0 ∨ (hi : Int) - lo + 1 < 0) := by omega
  have h2 : ((hi : Int) - lo + 1).toNat = hi - lo + 1 := by omega
  simp [h1, h2]

theorem bitRead_bits (cur : Int) (k : Nat) : bitRead cur k = some (bits cur k k) := by
  unfold bitRead bits
  have h1 : ¬ ((k : Int) < 0) := by omega
  simp [h1]

/-- decomposition used by the write theorems -/
theorem write_decomp (cur v' p N : Int) (hp : 0 < p) (hN : 0 < N) (hv0 : 0 ≤ v') (hvN : v' < N) :
    let n := cur - ((cur / p) % N) * p + v' * p
    n % p = cur % p ∧ (n / p) % N = v' ∧ n / (p * N) = cur / (p * N) := by
  intro n
  have e1 := Int.mul_ediv_add_emod cur p
  have e2 := Int.mul_ediv_add_emod (cur / p) N
  have r0 := Int.emod_nonneg cur (ne_of_gt hp)
  have r1 := Int.emod_lt_of_pos cur hp
  have hn : n = cur % p + (N * (cur / p / N) + v') * p := by
    show cur - ((cur / p) % N) * p + v' * p = _
    have : cur / p % N = cur / p - N * (cur / p / N) := by linarith
    rw [this]
    nlinarith
  have hnp : n / p = N * (cur / p / N) + v' := by
    rw [hn, Int.add_mul_ediv_right _ _ (ne_of_gt hp), Int.ediv_eq_zero_of_lt r0 r1]; ring
  refine ⟨?_, ?_, ?_⟩
  · rw [hn, Int.add_mul_emod_self_right, Int.emod_emod_of_dvd _ (dvd_refl p)]
  · rw [hnp, Int.add_comm, Int.add_mul_emod_self_left]
    exact Int.emod_eq_of_lt hv0 hvN
  · rw [← Int.ediv_ediv_of_nonneg (le_of_lt hp), ← Int.ediv_ediv_of_nonneg (le_of_lt hp), hnp,
      Int.add_comm, Int.add_mul_ediv_left _ _ (ne_of_gt hN), Int.ediv_eq_zero_of_lt hv0 hvN]; ring

/-- a part-select write is read back by a part-select read of the same bounds (truncated to the
    slice width), leaves every bit below `lo` and every bit above `hi` unchanged -/
theorem partWrite_spec (cur val : Int) (hi lo : Nat) (h : lo ≤ hi) :
    ∃ n, partWrite cur hi lo val = some n ∧
      bits n hi lo = val % (2 ^ (hi - lo + 1) : Int) ∧
      n % (2 ^ lo : Int) = cur % (2 ^ lo : Int) ∧
      n / (2 ^ (hi + 1) : Int) = cur / (2 ^ (hi + 1) : Int) := by
  unfold partWrite bits
  have h1 : ¬ ((lo : Int) < 0 ∨ (hi : Int) - lo + 1 < 0) := by omega
  have h2 : ((hi : Int) - lo + 1).toNat = hi - lo + 1 := by omega
  have hp := pow_pos' lo
  have hN := pow_pos' (hi - lo + 1)
  have hb := emod_bounds (hi - lo + 1) val
  have hpN : (2 ^ (hi + 1) : Int) = 2 ^ lo * 2 ^ (hi - lo + 1) := by
    rw [← pow_add]; congr 1; omega
  have := write_decomp cur (val % 2 ^ (hi - lo + 1)) (2 ^ lo) (2 ^ (hi - lo + 1)) hp hN hb.1 hb.2
  simp only [h1, h2, if_false, Int.toNat_natCast]
  refine ⟨_, rfl, ?_, ?_, ?_⟩
  · exact this.2.1
  · exact this.1
  · rw [hpN]; exact this.2.2

/-- single-bit write -/
theorem bitWrite_spec (cur val : Int) (k : Nat) :
    ∃ n, bitWrite cur k val = some n ∧
      bits n k k = val % 2 ∧
      n % (2 ^ k : Int) = cur % (2 ^ k : Int) ∧
      n / (2 ^ (k + 1) : Int) = cur / (2 ^ (k + 1) : Int) := by
  unfold bitWrite bits
  have h1 : ¬ ((k : Int) < 0) := by omega
  have hp := pow_pos' k
  have hb0 : 0 ≤ val % 2 := Int.emod_nonneg _ (by decide)
  have hb1 : val % 2 < 2 := Int.emod_lt_of_pos _ (by decide)
  have := write_decomp cur (val % 2) (2 ^ k) 2 hp (by decide) hb0 hb1
  simp only [h1, if_false, Int.toNat_natCast, Nat.sub_self, Nat.zero_add, pow_one]
  refine ⟨_, rfl, this.2.1, this.1, ?_⟩
  rw [pow_succ]; exact this.2.2

/-- a part-select write inside the width keeps an unsigned field inside its type -/
theorem partWrite_inType (w : Nat) (cur val : Int) (hi lo : Nat) (h : lo ≤ hi) (hw : hi < w)
    (hc : InType w false cur) :
    ∃ n, partWrite cur hi lo val = some n ∧ InType w false n := by
  obtain ⟨n, hn, _, _, hhigh⟩ := partWrite_spec cur val hi lo h
  refine ⟨n, hn, ?_⟩
  simp only [InType] at hc ⊢
  simp only [Bool.false_eq_true, if_false] at hc ⊢
  have hP := pow_pos' (hi + 1)
  have hsplit : (2 ^ w : Int) = 2 ^ (hi + 1) * 2 ^ (w - (hi + 1)) := by
    rw [← pow_add]; congr 1; omega
  have hQ := pow_pos' (w - (hi + 1))
  -- n / P = cur / P, and 0 ≤ cur / P < Q
  have c0 : 0 ≤ cur / 2 ^ (hi + 1) := Int.ediv_nonneg hc.1 (le_of_lt hP)
  have c1 : cur / 2 ^ (hi + 1) < 2 ^ (w - (hi + 1)) :=
    Int.ediv_lt_of_lt_mul hP (by rw [Int.mul_comm, ← hsplit]; exact hc.2)
  have e := Int.mul_ediv_add_emod n (2 ^ (hi + 1))
  have r0 := Int.emod_nonneg n (ne_of_gt hP)
  have r1 := Int.emod_lt_of_pos n hP
  rw [hhigh] at e
  constructor
  · nlinarith
  · rw [hsplit]; nlinarith

/-- **part-select write, stored in the declared type** (both signs): the value a field holds
    after `f[hi:lo] = val` lies in its declared type, and agrees with the bit-level result of the
    write on all `w` bits of the field -/
theorem partWriteField_spec (w : Nat) (hw : 0 < w) (s : Bool) (cur val : Int) (hi lo : Nat) (h : lo ≤ hi) :
    ∃ raw n, partWrite cur hi lo val = some raw ∧ partWriteField w s cur hi lo val = some n ∧
      InType w s n ∧ n % (2 ^ w : Int) = raw % (2 ^ w : Int) := by
  obtain ⟨raw, hraw, _⟩ := partWrite_spec cur val hi lo h
  refine ⟨raw, scalarWrite w s raw, hraw, by simp [partWriteField, hraw], ?_, ?_⟩
  · have := scalar_read_after_write w hw s raw
    simp only [scalarRead] at this
    rw [this]; exact wrap_inType w hw s raw
  · have := scalar_read_after_write w hw s raw
    simp only [scalarRead] at this
    rw [this]; exact wrap_congr w s raw

/-! ### enums -/

theorem v2e_go_spec (v : Int) : ∀ (l : List Int) (i : Nat) (acc : Option Nat),
    (∀ j, j < l.length → l[j]? = some v → False) → v2e.go v l i acc = acc := by
  intro l
  induction l with
  | nil => intro i acc _; rfl
  | cons x xs ih =>
    intro i acc h
    have hx : ¬ (x == v) = true := by
      intro hxv
      exact h 0 (by simp) (by simp at hxv; simp [hxv])
    simp only [v2e.go, hx]
    exact ih (i + 1) acc (fun j hj hv => h (j + 1) (by simp; omega) (by simpa using hv))

/-- enum round trip: for an enum whose members have distinct values, `v2e (e2v i) = i` -/
theorem enum_roundtrip (vals : List Int) (hd : vals.Nodup) (i : Nat) (hi : i < vals.length) :
    ∃ v, e2v vals i = some v ∧ v2e vals v = some i := by
  refine ⟨vals[i], by simp [e2v, hi], ?_⟩
  unfold v2e
  suffices H : ∀ (l : List Int) (b : Nat) (acc : Option Nat) (k : Nat) (hk : k < l.length), l.Nodup →
      v2e.go l[k] l b acc = some (b + k) by
    simpa using H vals 0 none i hi hd
  intro l
  induction l with
  | nil => intro b acc k hk; simp at hk
  | cons x xs ih =>
    intro b acc k hk hnd
    rw [List.nodup_cons] at hnd
    cases k with
    | zero =>
      simp only [List.getElem_cons_zero, v2e.go, beq_self_eq_true, if_true, Nat.add_zero]
      apply v2e_go_spec
      intro j hj hv
      exact hnd.1 (List.mem_of_getElem? hv)
    | succ k =>
      have hk' : k < xs.length := by simpa using hk
      have hne : ¬ (x == xs[k]) = true := by
        intro hx
        have : x = xs[k] := by simpa using hx
        exact hnd.1 (this ▸ List.getElem_mem hk')
      simp only [List.getElem_cons_succ, v2e.go, hne]
      simp only [Bool.false_eq_true, if_false]
      rw [ih (b + 1) acc k hk' hnd.2]
      congr 1; omega

/-- non-vacuity: concrete instances of the hypotheses -/
example : InType 8 true (wrap 8 true 200) ∧ wrap 8 true 200 = -56 := by decide
example : partWrite 255 3 0 0 = some 240 := by decide
example : enumValues [none, some 5, none] 0 = [0, 5, 6] := by decide

end Pyvsc.C18
