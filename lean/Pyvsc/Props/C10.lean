import Pyvsc.Model.Bins
import Pyvsc.Spec.Bins
import Mathlib.Tactic.Ring
import Mathlib.Tactic.Linarith
import Mathlib.Tactic.SplitIfs
import Mathlib.Tactic.Tauto
/-!
# C10 — coverpoint bins count exactly the samples whose value they contain
-/
namespace Pyvsc.C10
open Pyvsc.Ranges Pyvsc.Bins

/-- the value set a range list denotes -/
def Den (l : RL) (v : Int) : Prop := ∃ r ∈ l, r.1 ≤ v ∧ v ≤ r.2

theorem contains_iff (l : RL) (v : Int) : contains l v = true ↔ Den l v := by
  unfold contains Den
  simp [List.any_eq_true]

theorem den_cons (r : Range) (l : RL) (v : Int) : Den (r :: l) v ↔ (r.1 ≤ v ∧ v ≤ r.2) ∨ Den l v := by
  simp [Den]

theorem den_append (a b : RL) (v : Int) : Den (a ++ b) v ↔ Den a v ∨ Den b v := by
  simp [Den, List.mem_append, or_and_right, exists_or]

theorem den_nil (v : Int) : ¬ Den [] v := by simp [Den]

/-! ### compact -/

def SortedLow (l : RL) : Prop := l.Pairwise (fun a b => a.1 ≤ b.1)

theorem den_insertByLow (r : Range) (l : RL) (v : Int) :
    Den (insertByLow r l) v ↔ (r.1 ≤ v ∧ v ≤ r.2) ∨ Den l v := by
  induction l with
  | nil => simp [insertByLow, Den]
  | cons x xs ih =>
    simp only [insertByLow]
    split
    · simp [den_cons]
    · rw [den_cons, ih, den_cons]; tauto

theorem mem_insertByLow (r x : Range) (l : RL) : x ∈ insertByLow r l ↔ x = r ∨ x ∈ l := by
  induction l with
  | nil => simp [insertByLow]
  | cons y ys ih =>
    simp only [insertByLow]
    split
    · simp
    · simp [ih]; tauto

theorem sorted_insertByLow (r : Range) (l : RL) (h : SortedLow l) : SortedLow (insertByLow r l) := by
  induction l with
  | nil => simp [insertByLow, SortedLow]
  | cons x xs ih =>
    simp only [insertByLow]
    unfold SortedLow at *
    rw [List.pairwise_cons] at h
    split
    · rename_i hlt
      rw [List.pairwise_cons]
      refine ⟨?_, List.pairwise_cons.2 h⟩
      intro y hy
      rcases List.mem_cons.1 hy with rfl | hy
      · omega
      · have := h.1 y hy; omega
    · rename_i hge
      rw [List.pairwise_cons]
      refine ⟨?_, ih h.2⟩
      intro y hy
      rcases (mem_insertByLow r y xs).1 hy with rfl | hy
      · omega
      · exact h.1 y hy

theorem sortByLow_spec (l : RL) : SortedLow (sortByLow l) ∧ ∀ v, Den (sortByLow l) v ↔ Den l v := by
  unfold sortByLow
  suffices H : ∀ (acc : RL), SortedLow acc →
      SortedLow (l.foldl (fun acc r => insertByLow r acc) acc) ∧
      ∀ v, Den (l.foldl (fun acc r => insertByLow r acc) acc) v ↔ Den l v ∨ Den acc v by
    have := H [] (by simp [SortedLow])
    refine ⟨this.1, fun v => ?_⟩
    rw [this.2 v]; simp [den_nil]
  induction l with
  | nil => intro acc h; simp [den_nil, h]
  | cons x xs ih =>
    intro acc h
    simp only [List.foldl_cons]
    have := ih (insertByLow x acc) (sorted_insertByLow x acc h)
    refine ⟨this.1, fun v => ?_⟩
    rw [this.2 v, den_insertByLow, den_cons]; tauto

theorem mergeGo_spec (rest : RL) : ∀ (cur : Range), SortedLow (cur :: rest) →
    (∀ v, Den (mergeGo cur rest) v ↔ Den (cur :: rest) v) ∧
    SortedLow (mergeGo cur rest) ∧
    (mergeGo cur rest).Pairwise (fun a b => a.2 < b.1) ∧
    (∀ x ∈ (mergeGo cur rest).head?, x.1 = cur.1) := by
  induction rest with
  | nil => intro cur _; simp [mergeGo, SortedLow]
  | cons y rest ih =>
    intro cur h
    have hxy : cur.1 ≤ y.1 := by
      unfold SortedLow at h; exact (List.pairwise_cons.1 h).1 y (by simp)
    simp only [mergeGo]
    split
    · rename_i hle
      have hs : SortedLow ((cur.1, max cur.2 y.2) :: rest) := by
        unfold SortedLow at *
        rw [List.pairwise_cons] at h ⊢
        have h2 := List.pairwise_cons.1 h.2
        exact ⟨fun z hz => h.1 z (List.mem_cons_of_mem _ hz), h2.2⟩
      obtain ⟨i1, i2, i3, i4⟩ := ih _ hs
      refine ⟨fun v => ?_, i2, i3, fun a ha => by simpa using i4 a ha⟩
      rw [i1 v, den_cons, den_cons, den_cons]
      simp only []
      constructor
      · rintro (⟨a, b⟩ | hr)
        · by_cases hv : v ≤ cur.2
          · exact Or.inl ⟨a, hv⟩
          · right; left
            constructor <;> omega
        · exact Or.inr (Or.inr hr)
      · rintro (⟨a, b⟩ | ⟨a, b⟩ | hr)
        · left; constructor <;> omega
        · left; constructor <;> omega
        · exact Or.inr hr
    · rename_i hgt
      have hs : SortedLow (y :: rest) := by
        unfold SortedLow at *; exact (List.pairwise_cons.1 h).2
      obtain ⟨i1, i2, i3, i4⟩ := ih _ hs
      have hxall : ∀ z ∈ mergeGo y rest, cur.1 ≤ z.1 ∧ cur.2 < z.1 := by
        intro z hz
        cases hm : mergeGo y rest with
        | nil => rw [hm] at hz; simp at hz
        | cons w ws =>
          rw [hm] at hz i2 i4
          have hw : w.1 = y.1 := i4 w (by simp)
          rcases List.mem_cons.1 hz with rfl | hz
          · constructor <;> omega
          · have := (List.pairwise_cons.1 i2).1 z hz
            constructor <;> omega
      refine ⟨fun v => ?_, ?_, ?_, ?_⟩
      · simp only [den_cons, i1 v]
      · unfold SortedLow; rw [List.pairwise_cons]
        exact ⟨fun z hz => (hxall z hz).1, i2⟩
      · rw [List.pairwise_cons]
        exact ⟨fun z hz => (hxall z hz).2, i3⟩
      · intro a ha; simp at ha; subst ha; rfl

theorem mergeSorted_spec (l : RL) (h : SortedLow l) :
    (∀ v, Den (mergeSorted l) v ↔ Den l v) ∧ SortedLow (mergeSorted l) ∧
    (mergeSorted l).Pairwise (fun a b => a.2 < b.1) := by
  cases l with
  | nil => simp [mergeSorted, SortedLow]
  | cons x xs =>
    obtain ⟨a, b, c, _⟩ := mergeGo_spec xs x h
    exact ⟨a, b, c⟩

/-- `compact` preserves the denoted value set — for *every* input list (unordered, overlapping,
    containing duplicates or empty ranges) -/
theorem compact_denotes (l : RL) (v : Int) : Den (compact l) v ↔ Den l v := by
  unfold compact
  obtain ⟨hs, hd⟩ := sortByLow_spec l
  rw [(mergeSorted_spec _ hs).1 v, hd v]

/-- after `compact` the ranges are strictly separated and ascending -/
theorem compact_sorted (l : RL) : (compact l).Pairwise (fun a b => a.2 < b.1) ∧ SortedLow (compact l) := by
  unfold compact
  obtain ⟨hs, _⟩ := sortByLow_spec l
  exact ⟨(mergeSorted_spec _ hs).2.2, (mergeSorted_spec _ hs).2.1⟩

/-! ### intersect (= subtraction of the exclusion set) -/

def InR (r : Range) (v : Int) : Prop := r.1 ≤ v ∧ v ≤ r.2

theorem trimOne_spec (t r : Range) (hr : r.1 ≤ r.2) (v : Int) :
    match trimOne t r with
    | .removed => InR t v → InR r v
    | .keep a => (InR a v ↔ InR t v ∧ ¬ InR r v)
    | .split a b => ((InR a v ∨ InR b v) ↔ InR t v ∧ ¬ InR r v) := by
  unfold trimOne InR
  split_ifs <;> dsimp only <;> omega

/-- well-formed exclusion list: every range has `low ≤ high` -/
def WFR (l : RL) : Prop := ∀ r ∈ l, r.1 ≤ r.2

theorem trimAll_spec (rs : RL) (hwf : WFR rs) : ∀ (t : Range) (v : Int),
    let res := trimAll t rs
    ((∃ a, res.1 = some a ∧ InR a v) ∨ Den res.2 v → InR t v) ∧
    (InR t v ∧ ¬ Den rs v → (∃ a, res.1 = some a ∧ InR a v) ∨ Den res.2 v) ∧
    ((∃ a, res.1 = some a ∧ InR a v) → ¬ Den rs v) := by
  induction rs with
  | nil => intro t v; simp [trimAll, den_nil]
  | cons r rs ih =>
    have hwf' : WFR rs := fun x hx => hwf x (List.mem_cons_of_mem _ hx)
    have ih := ih hwf'
    intro t v
    have h1 := trimOne_spec t r (hwf r (by simp)) v
    simp only [trimAll]
    cases hto : trimOne t r with
    | removed =>
      rw [hto] at h1
      simp only [den_nil, den_cons]
      refine ⟨by simp, ?_, by simp⟩
      rintro ⟨ht, hn⟩; exact absurd (Or.inl (h1 ht)) hn
    | keep a =>
      rw [hto] at h1
      have := ih a v
      simp only [] at this ⊢
      obtain ⟨i1, i2, i3⟩ := this
      refine ⟨fun h => (h1.1 (i1 h)).1, ?_, ?_⟩
      · rintro ⟨ht, hn⟩
        rw [den_cons] at hn
        exact i2 ⟨h1.2 ⟨ht, fun h => hn (Or.inl h)⟩, fun h => hn (Or.inr h)⟩
      · intro h hd
        rw [den_cons] at hd
        rcases hd with hd | hd
        · exact (h1.1 (i1 (Or.inl h))).2 hd
        · exact i3 h hd
    | split a b =>
      rw [hto] at h1
      have := ih a v
      simp only [] at this ⊢
      obtain ⟨i1, i2, i3⟩ := this
      refine ⟨?_, ?_, ?_⟩
      · rintro (h | h)
        · exact (h1.1 (Or.inl (i1 (Or.inl h)))).1
        · rw [den_append] at h
          rcases h with h | h
          · exact (h1.1 (Or.inl (i1 (Or.inr h)))).1
          · have : InR b v := by simpa [Den, InR] using h
            exact (h1.1 (Or.inr this)).1
      · rintro ⟨ht, hn⟩
        rw [den_cons] at hn
        rcases h1.2 ⟨ht, fun h => hn (Or.inl h)⟩ with ha | hb
        · rcases i2 ⟨ha, fun h => hn (Or.inr h)⟩ with h | h
          · exact Or.inl h
          · exact Or.inr ((den_append _ _ _).2 (Or.inl h))
        · exact Or.inr ((den_append _ _ _).2 (Or.inr (by simpa [Den, InR] using hb)))
      · intro h hd
        rw [den_cons] at hd
        rcases hd with hd | hd
        · exact (h1.1 (Or.inl (i1 (Or.inl h)))).2 hd
        · exact i3 h hd

theorem subtractGo_spec (other : RL) (hwf : WFR other) : ∀ (fuel : Nat) (l res : RL),
    subtractGo other fuel l = some res → ∀ v, Den res v ↔ Den l v ∧ ¬ Den other v := by
  intro fuel
  induction fuel with
  | zero => intro l res h; simp [subtractGo] at h
  | succ n ih =>
    intro l res h v
    cases l with
    | nil => simp [subtractGo] at h; subst h; simp [den_nil]
    | cons t rest =>
      simp only [subtractGo] at h
      have hs := trimAll_spec other hwf t v
      simp only [] at hs
      obtain ⟨s1, s2, s3⟩ := hs
      cases hta : trimAll t other with
      | mk o ins =>
        rw [hta] at h s1 s2 s3
        simp only [] at s1 s2 s3
        cases o with
        | none =>
          simp only [] at h
          have := ih _ _ h v
          rw [this, den_append, den_cons]
          constructor
          · rintro ⟨hi | hr, hn⟩
            · exact ⟨Or.inl (s1 (Or.inr hi)), hn⟩
            · exact ⟨Or.inr hr, hn⟩
          · rintro ⟨ht | hr, hn⟩
            · rcases s2 ⟨ht, hn⟩ with ⟨a, ha, _⟩ | hi
              · simp at ha
              · exact ⟨Or.inl hi, hn⟩
            · exact ⟨Or.inr hr, hn⟩
        | some t' =>
          simp only [Option.map_eq_some_iff] at h
          obtain ⟨r', hr', rfl⟩ := h
          have := ih _ _ hr' v
          rw [den_cons, this, den_append, den_cons]
          constructor
          · rintro (ht' | ⟨hi | hr, hn⟩)
            · exact ⟨Or.inl (s1 (Or.inl ⟨t', rfl, ht'⟩)), s3 ⟨t', rfl, ht'⟩⟩
            · exact ⟨Or.inl (s1 (Or.inr hi)), hn⟩
            · exact ⟨Or.inr hr, hn⟩
          · rintro ⟨ht | hr, hn⟩
            · rcases s2 ⟨ht, hn⟩ with ⟨a, ha, hav⟩ | hi
              · simp at ha; subst ha; exact Or.inl hav
              · exact Or.inr ⟨Or.inl hi, hn⟩
            · exact Or.inr ⟨Or.inr hr, hn⟩

/-- `intersect(other)` removes exactly the values of `other` — for every target list and every
    exclusion list (several ranges, unsorted, overlapping) -/
theorem subtract_denotes (l ex res : RL) (hwf : WFR ex) (h : subtract l ex = some res) (v : Int) :
    Den res v ↔ Den l v ∧ ¬ Den ex v := by
  unfold subtract at h
  split at h
  · rename_i he
    simp at h; subst h
    simp only [Bool.or_eq_true, List.isEmpty_iff] at he
    rcases he with rfl | rfl
    · simp [den_nil]
    · simp [den_nil]
  · exact subtractGo_spec ex hwf _ l res h v

/-! ### sampling: hit vectors count samples -/

theorem bump_length (l : List Nat) (i : Int) : (bump l i).length = l.length := by
  unfold bump; split <;> simp

theorem bump_getD (l : List Nat) (i : Int) (j : Nat) (hj : j < l.length) :
    (bump l i)[j]?.getD 0 = l[j]?.getD 0 + (if i = (j : Int) then 1 else 0) := by
  unfold bump
  split
  · rename_i hneg
    have : ¬ i = (j : Int) := by omega
    simp [this]
  · rename_i hpos
    by_cases hij : i = (j : Int)
    · subst hij
      simp [hj]
    · have : ¬ (i.toNat = j) := by omega
      simp [hij, this]

theorem foldl_bump_length (idxs : List Int) : ∀ (l : List Nat), (idxs.foldl bump l).length = l.length := by
  induction idxs with
  | nil => intro l; rfl
  | cons i is ih => intro l; simp [List.foldl_cons, ih, bump_length]

theorem foldl_bump_getD (idxs : List Int) : ∀ (l : List Nat) (j : Nat), j < l.length →
    (idxs.foldl bump l)[j]?.getD 0 = l[j]?.getD 0 + idxs.count (j : Int) := by
  induction idxs with
  | nil => intro l j _; simp
  | cons i is ih =>
    intro l j hj
    simp only [List.foldl_cons]
    rw [ih (bump l i) j (by rw [bump_length]; exact hj), bump_getD l i j hj, List.count_cons]
    by_cases h : i = (j : Int)
    · subst h; simp; omega
    · have : ¬ ((i == (j : Int)) = true) := by simpa using h
      simp [h]

/-- number of times flat bin `j` is incremented by one sample -/
def incr (bs : List BinM) (s : Bool × Int) (j : Nat) : Nat :=
  if s.1 then (binsHits bs 0 s.2).count (j : Int) else 0

/-- **hit vectors count samples**: after any sample sequence, regular bin `j` holds the number of
    samples taken while the iff condition held whose value the bin models report as a hit of `j`;
    samples with iff off and values outside every bin change nothing. -/
theorem sample_counts (c : Cp) (samples : List (Bool × Int)) (j : Nat)
    (hj : j < (totalBins c.bins).toNat) :
    (c.run samples).hit[j]?.getD 0 = (samples.map (fun s => incr c.bins s j)).sum := by
  unfold Cp.run
  suffices H : ∀ (h : Hits), j < h.hit.length →
      (samples.foldl (fun h s => c.sample h s.1 s.2) h).hit[j]?.getD 0
        = h.hit[j]?.getD 0 + (samples.map (fun s => incr c.bins s j)).sum by
    have := H c.init (by simp only [Cp.init, List.length_replicate]; exact hj)
    rw [this]; simp [Cp.init, hj]
  induction samples with
  | nil => intro h _; simp
  | cons s ss ih =>
    intro h hl
    simp only [List.foldl_cons, List.map_cons, List.sum_cons]
    have hl' : j < (c.sample h s.1 s.2).hit.length := by
      unfold Cp.sample; split
      · simp [foldl_bump_length]; exact hl
      · exact hl
    rw [ih _ hl']
    have : (c.sample h s.1 s.2).hit[j]?.getD 0 = h.hit[j]?.getD 0 + incr c.bins s j := by
      unfold Cp.sample incr
      split
      · simp [foldl_bump_getD _ _ _ hl]
      · simp
    rw [this]; omega

/-- the same for the ignore and illegal counters -/
theorem sample_counts_ignore (c : Cp) (samples : List (Bool × Int)) (j : Nat)
    (hj : j < (totalBins c.ignore).toNat) :
    (c.run samples).ign[j]?.getD 0 = (samples.map (fun s => incr c.ignore s j)).sum := by
  unfold Cp.run
  suffices H : ∀ (h : Hits), j < h.ign.length →
      (samples.foldl (fun h s => c.sample h s.1 s.2) h).ign[j]?.getD 0
        = h.ign[j]?.getD 0 + (samples.map (fun s => incr c.ignore s j)).sum by
    have := H c.init (by simp only [Cp.init, List.length_replicate]; exact hj)
    rw [this]; simp [Cp.init, hj]
  induction samples with
  | nil => intro h _; simp
  | cons s ss ih =>
    intro h hl
    simp only [List.foldl_cons, List.map_cons, List.sum_cons]
    have hl' : j < (c.sample h s.1 s.2).ign.length := by
      unfold Cp.sample; split
      · simp [foldl_bump_length]; exact hl
      · exact hl
    rw [ih _ hl']
    have : (c.sample h s.1 s.2).ign[j]?.getD 0 = h.ign[j]?.getD 0 + incr c.ignore s j := by
      unfold Cp.sample incr
      split
      · simp [foldl_bump_getD _ _ _ hl]
      · simp
    rw [this]; omega

/-- a leaf bin reports a hit exactly for the values of its value set -/
def leafSet : Leaf → Int → Prop
  | .arr _ lo hi, v => lo ≤ v ∧ v ≤ hi
  | .bag _ rl, v => Den rl v
  | .rng _ lo hi, v => lo ≤ v ∧ v ≤ hi
  | .val _ t, v => v = t
  | .enm _ t, v => v = t
  | .wild _ specs, v => 0 ≤ v ∧ Wildcard.wcHit specs v.toNat = true

theorem leaf_hit_iff (l : Leaf) (v : Int) : (l.hit v).isSome ↔ leafSet l v := by
  cases l <;> simp only [Leaf.hit, leafSet]
  · split <;> simp_all
  · rw [← contains_iff]; split <;> simp_all
  · split <;> simp_all
  · split <;> simp_all
  · split <;> simp_all
  · split <;> simp_all

example : compact [(1, 10), (3, 5)] = [(1, 10)] := by decide
example : compact [(1, 5), (3, 8)] = [(1, 8)] := by decide
example : subtract [(0, 3), (10, 20)] [(0, 3), (12, 13)] = some [(10, 11), (14, 20)] := by decide

/-! ### the partition of a bin array (`mk_collection`) -/

def binsSet (bs : List Leaf) (v : Int) : Prop := ∃ b ∈ bs, leafSet b v

theorem binsSet_append (a b : List Leaf) (v : Int) : binsSet (a ++ b) v ↔ binsSet a v ∨ binsSet b v := by
  simp only [binsSet, List.mem_append]
  constructor
  · rintro ⟨x, hx | hx, h⟩
    · exact Or.inl ⟨x, hx, h⟩
    · exact Or.inr ⟨x, hx, h⟩
  · rintro (⟨x, hx, h⟩ | ⟨x, hx, h⟩)
    · exact ⟨x, Or.inl hx, h⟩
    · exact ⟨x, Or.inr hx, h⟩

theorem den_append' (a b : RL) (v : Int) : Den (a ++ b) v ↔ Den a v ∨ Den b v := by
  simp only [Den, List.mem_append]
  constructor
  · rintro ⟨x, hx | hx, h⟩
    · exact Or.inl ⟨x, hx, h⟩
    · exact Or.inr ⟨x, hx, h⟩
  · rintro (⟨x, hx, h⟩ | ⟨x, hx, h⟩)
    · exact ⟨x, Or.inl hx, h⟩
    · exact ⟨x, Or.inr hx, h⟩

theorem den_single (a b v : Int) : Den [(a, b)] v ↔ a ≤ v ∧ v ≤ b := by simp [Den]

theorem den_nil' (v : Int) : Den [] v ↔ False := by simp [Den]

theorem binsSet_single (x : Leaf) (v : Int) : binsSet [x] v ↔ leafSet x v := by simp [binsSet]

theorem split_range (a b n v : Int) (h1 : 0 < n) (h2 : n ≤ b - a) :
    ((a ≤ v ∧ v ≤ a + n - 1) ∨ (a + n ≤ v ∧ v ≤ b)) ↔ (a ≤ v ∧ v ≤ b) := by
  constructor
  · rintro (h | h) <;> omega
  · intro h
    by_cases hv : v ≤ a + n - 1
    · exact Or.inl ⟨h.1, hv⟩
    · exact Or.inr ⟨by omega, h.2⟩

/-- the inner loop moves values from the remaining ranges into the bag and loses none -/
theorem takeN_spec : ∀ (fuel : Nat) (n : Int) (rem acc acc' rem' : RL),
    takeN fuel n rem acc = some (acc', rem') → ∀ v, (Den acc' v ∨ Den rem' v) ↔ (Den acc v ∨ Den rem v) := by
  intro fuel
  induction fuel with
  | zero => intro n rem acc acc' rem' h; simp [takeN] at h
  | succ fuel ih =>
    intro n rem acc acc' rem' h v
    simp only [takeN] at h
    by_cases hn : n ≤ 0
    · simp only [hn, if_true, Option.some.injEq, Prod.mk.injEq] at h
      obtain ⟨rfl, rfl⟩ := h; rfl
    · simp only [hn, if_false] at h
      cases rem with
      | nil => simp at h
      | cons r rest =>
        simp only at h
        by_cases hr : r.2 - r.1 < n
        · simp only [hr, if_true] at h
          rw [ih _ _ _ _ _ h v]
          simp only [den_append', den_cons, den_nil', or_false]
          tauto
        · simp only [hr, if_false, Option.some.injEq, Prod.mk.injEq] at h
          obtain ⟨rfl, rfl⟩ := h
          have sp := split_range r.1 r.2 n v (by omega) (by omega)
          simp only [den_append', den_cons, den_nil', or_false]
          tauto

theorem headBin_set (c : Bool) (nm : String) (a b vpb v : Int) :
    leafSet (if c then Leaf.rng nm a (a + vpb - 1) else Leaf.bag nm [(a, b)]) v ↔
      (if c then (a ≤ v ∧ v ≤ a + vpb - 1) else (a ≤ v ∧ v ≤ b)) := by
  cases c <;> simp [leafSet, Den]

/-- the outer loop: what the bins hold plus what remains is what was there -/
theorem partLoop_spec (name : String) (vpb : Int) (hv : 1 ≤ vpb) (haveLeft : Bool) (nBins : Nat) :
    ∀ (k : Nat) (rem : RL) (idx : Nat) (bins : List Leaf) (rem' : RL) (bins' : List Leaf),
    partLoop name vpb haveLeft nBins k rem idx bins = some (rem', bins') →
    (∀ v, (binsSet bins' v ∨ Den rem' v) ↔ (binsSet bins v ∨ Den rem v)) ∧ bins'.length = bins.length + k := by
  intro k
  induction k with
  | zero =>
    intro rem idx bins rem' bins' h
    simp only [partLoop, Option.some.injEq, Prod.mk.injEq] at h
    obtain ⟨rfl, rfl⟩ := h
    exact ⟨fun v => Iff.rfl, by simp⟩
  | succ k ih =>
    intro rem idx bins rem' bins' h
    simp only [partLoop] at h
    cases rem with
    | nil => simp at h
    | cons r rest =>
      simp only at h
      by_cases hs : r.2 - r.1 + 1 ≥ vpb
      · simp only [hs, if_true] at h
        obtain ⟨i1, i2⟩ := ih _ _ _ _ _ h
        refine ⟨fun v => ?_, by simp at i2 ⊢; omega⟩
        rw [i1 v, binsSet_append, binsSet_single, headBin_set]
        generalize (decide (nBins - (k + 1) + 1 < nBins) || !haveLeft) = c
        by_cases hgt : r.2 - r.1 + 1 > vpb
        · have sp := split_range r.1 r.2 vpb v (by omega) (by omega)
          simp only [hgt, if_true, den_cons]
          cases c <;> simp only [Bool.false_eq_true, if_false, if_true] <;> tauto
        · have e : r.1 + vpb - 1 = r.2 := by omega
          simp only [hgt, if_false, den_cons, e]
          cases c <;> simp only [Bool.false_eq_true, if_false, if_true] <;> tauto
      · simp only [hs, if_false] at h
        cases ht : takeN (rest.length + 2) (vpb - (r.2 - r.1 + 1)) rest [(r.1, r.2)] with
        | none => rw [ht] at h; simp at h
        | some p =>
          obtain ⟨acc, rem2⟩ := p
          rw [ht] at h
          simp only at h
          obtain ⟨i1, i2⟩ := ih _ _ _ _ _ h
          refine ⟨fun v => ?_, by simp at i2 ⊢; omega⟩
          rw [i1 v, binsSet_append, binsSet_single]
          have t := takeN_spec _ _ _ _ _ _ ht v
          rw [den_single] at t
          simp only [leafSet, den_cons]
          tauto

theorem addLeftover_spec (bins : List Leaf) (rem : RL) (bins' : List Leaf) (h : addLeftover bins rem = some bins') :
    (∀ v, binsSet bins' v ↔ (binsSet bins v ∨ Den rem v)) ∧ bins'.length = bins.length := by
  unfold addLeftover at h
  by_cases he : rem.isEmpty = true
  · simp only [he, if_true, Option.some.injEq] at h
    subst h
    have : rem = [] := by simpa using he
    subst this
    exact ⟨fun v => by simp [Den], rfl⟩
  · have he' : rem.isEmpty = false := by simpa using he
    simp only [he', Bool.false_eq_true, if_false] at h
    cases hr : bins.reverse with
    | nil => rw [hr] at h; simp at h
    | cons last before =>
      rw [hr] at h
      cases last with
      | bag n rl =>
        simp only [Option.some.injEq] at h
        subst h
        have hb : bins = before.reverse ++ [Leaf.bag n rl] := by
          have := congrArg List.reverse hr
          simpa using this
        refine ⟨fun v => ?_, by rw [hb]; simp⟩
        rw [hb, binsSet_append, binsSet_append]
        have e1 : binsSet [Leaf.bag n (rl ++ rem)] v ↔ Den rl v ∨ Den rem v := by
          simp [binsSet, leafSet, den_append']
        have e2 : binsSet [Leaf.bag n rl] v ↔ Den rl v := by simp [binsSet, leafSet]
        rw [e1, e2]; tauto
      | _ => simp at h

/-- **The partition of a bin array loses and adds no value.**  When `mk_collection` splits a value
    list into fewer bins than it has values, the bins together hold exactly the values of the list,
    and there are exactly as many bins as requested. -/
theorem mkCollection_partition (name : String) (rl : RL) (nBins : Int) (hlt : nBins < nValues rl)
    (b : BinM) (h : mkCollection name rl nBins = some b) :
    ∃ bins, b = BinM.coll name bins ∧ (bins.length : Int) = nBins ∧ ∀ v, binsSet bins v ↔ Den rl v := by
  unfold mkCollection at h
  simp only [hlt, if_true] at h
  by_cases h0 : nBins ≤ 0
  · simp [h0] at h
  · simp only [h0, if_false] at h
    have hpos : 0 < nBins := by omega
    have hv : 1 ≤ nValues rl / nBins := by
      have : nBins * 1 ≤ nValues rl := by omega
      exact (Int.le_ediv_iff_mul_le hpos).mpr (by omega)
    cases hp : partLoop name (nValues rl / nBins) (nValues rl % nBins != 0) nBins.toNat nBins.toNat rl 0 [] with
    | none => rw [hp] at h; simp at h
    | some p =>
      obtain ⟨rem, bins⟩ := p
      rw [hp] at h
      simp only at h
      cases ha : addLeftover bins rem with
      | none => rw [ha] at h; simp at h
      | some bins' =>
        rw [ha] at h
        simp only [Option.map_some, Option.some.injEq] at h
        obtain ⟨p1, p2⟩ := partLoop_spec name _ hv _ _ _ _ _ _ _ _ hp
        obtain ⟨a1, a2⟩ := addLeftover_spec _ _ _ ha
        refine ⟨bins', h.symm, ?_, fun v => ?_⟩
        · rw [a2, p2]; simp; omega
        · rw [a1 v, p1 v]
          simp [binsSet]

example : (nValues [(1, 12)] : Int) = 12 := by decide
example : (mkCollection "a" [(1, 5), (8, 12)] 3).isSome = true := by decide

end Pyvsc.C10
