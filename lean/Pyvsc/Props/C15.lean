import Pyvsc.Model.Dist
import Pyvsc.Proofs.Bit1
import Pyvsc.Props.C14
/-!
# C15 — dist and weighted selection follow their weights; zero weight means never
-/
namespace Pyvsc.C15
open Pyvsc.Bv Pyvsc.Expr Pyvsc.Sem Pyvsc.Lower Pyvsc.Dist

/-! ### the cumulative walk (`next_target_range`, `distselect`, `randselect`) -/

def sumW (l : List (Nat × Nat)) : Nat := (l.map (·.1)).sum

/-- position selected by the walk -/
def walkPos : List (Nat × Nat) → Int → Option Nat
  | [], _ => none
  | (w, _) :: rest, v => if v - (w : Int) ≤ 0 then some 0 else (walkPos rest (v - w)).map (· + 1)

theorem walk_eq_pos : ∀ (l : List (Nat × Nat)) (v : Int),
    walk l v = (walkPos l v).bind fun k => (l[k]?).map (·.2)
  | [], v => by simp [walk, walkPos]
  | (w, i) :: rest, v => by
      simp only [walk, walkPos]
      split
      · simp
      · rw [walk_eq_pos rest (v - w)]
        cases walkPos rest (v - w) <;> simp

theorem sumW_cons (x : Nat × Nat) (l : List (Nat × Nat)) : sumW (x :: l) = x.1 + sumW l := by
  simp [sumW]

theorem sumW_take_succ_cons (x : Nat × Nat) (rest : List (Nat × Nat)) (k : Nat) :
    sumW (((x :: rest)).take (k + 1)) = x.1 + sumW (rest.take k) := by
  rw [List.take_succ_cons, sumW_cons]

/-- **The walk selects by cumulative weight.**  For a drawn value `v ≥ 1`, position `k` is
    selected exactly when `v` falls into the `k`-th interval of the cumulative weights:
    `w_0 + … + w_{k-1} < v ≤ w_0 + … + w_k` -/
theorem walkPos_iff : ∀ (l : List (Nat × Nat)) (v : Int) (k : Nat), 1 ≤ v →
    (walkPos l v = some k ↔ k < l.length ∧ (sumW (l.take k) : Int) < v ∧ v ≤ sumW (l.take (k + 1))) := by
  intro l
  induction l with
  | nil => intro v k _; simp [walkPos]
  | cons x rest ih =>
    intro v k hv1
    obtain ⟨w, i⟩ := x
    simp only [walkPos]
    by_cases hv : v - (w : Int) ≤ 0
    · simp only [hv, if_true, Option.some.injEq]
      constructor
      · intro h; subst h
        refine ⟨by simp, ?_, ?_⟩
        · simp only [List.take_zero, sumW, List.map_nil, List.sum_nil]; omega
        · rw [sumW_take_succ_cons]
          simp only [List.take_zero, sumW, List.map_nil, List.sum_nil]; push_cast; omega
      · rintro ⟨_, h2, _⟩
        cases k with
        | zero => rfl
        | succ k =>
          rw [sumW_take_succ_cons] at h2
          push_cast at h2; omega
    · simp only [hv, if_false, Option.map_eq_some_iff]
      constructor
      · rintro ⟨k', hk', rfl⟩
        obtain ⟨h1, h2, h3⟩ := (ih (v - w) k' (by omega)).mp hk'
        refine ⟨by simp only [List.length_cons]; omega, ?_, ?_⟩
        · rw [sumW_take_succ_cons]; push_cast; omega
        · rw [sumW_take_succ_cons]; push_cast; omega
      · rintro ⟨h1, h2, h3⟩
        cases k with
        | zero =>
          rw [sumW_take_succ_cons] at h3
          simp only [List.take_zero, sumW, List.map_nil, List.sum_nil] at h3; push_cast at h3; omega
        | succ k =>
          rw [sumW_take_succ_cons] at h2 h3
          push_cast at h2 h3
          simp only [List.length_cons] at h1
          exact ⟨k, (ih (v - w) k (by omega)).mpr ⟨by omega, by omega, by omega⟩, rfl⟩

theorem sumW_take_succ : ∀ (l : List (Nat × Nat)) (k : Nat) (hk : k < l.length),
    sumW (l.take (k + 1)) = sumW (l.take k) + l[k].1
  | [], k, hk => by simp at hk
  | x :: rest, 0, _ => by
      rw [sumW_take_succ_cons]; simp [sumW]
  | x :: rest, k + 1, hk => by
      rw [sumW_take_succ_cons, sumW_take_succ_cons, sumW_take_succ rest k (by simpa using hk)]
      simp only [List.getElem_cons_succ]; omega

/-- **Zero weight means never.**  The walk never selects an entry of weight 0 for a drawn value
    of at least 1 -/
theorem zero_weight_never (l : List (Nat × Nat)) (v : Int) (hv : 1 ≤ v) (k : Nat) (h : walkPos l v = some k) :
    ∃ hk : k < l.length, 0 < l[k].1 := by
  obtain ⟨h1, h2, h3⟩ := (walkPos_iff l v k hv).mp h
  refine ⟨h1, ?_⟩
  rw [sumW_take_succ l k h1] at h3
  push_cast at h3
  omega

/-- numbers of a half-open interval inside `0..T` -/
theorem count_interval (a : Nat) : ∀ (T b : Nat), b ≤ T →
    ((List.range T).filter fun n => decide (a ≤ n ∧ n < b)).length = b - a := by
  intro T
  induction T with
  | zero => intro b h2; simp; omega
  | succ T ih =>
    intro b h2
    rw [List.range_succ, List.filter_append, List.length_append]
    by_cases hb : b ≤ T
    · rw [ih b hb]
      have : ¬ (a ≤ T ∧ T < b) := by omega
      simp [this]
    · have hbT : b = T + 1 := by omega
      subst hbT
      have h' : (List.range T).filter (fun n => decide (a ≤ n ∧ n < T + 1)) =
          (List.range T).filter (fun n => decide (a ≤ n ∧ n < T)) := by
        apply List.filter_congr
        intro n hn
        have := List.mem_range.mp hn
        simp only [decide_eq_decide]
        constructor <;> (intro h; exact ⟨h.1, by omega⟩)
      rw [h', ih T (le_refl _)]
      by_cases ha : a ≤ T
      · simp [ha]; omega
      · have hf : (List.filter (fun n => decide (a ≤ n ∧ n < T + 1)) [T]) = [] := by
          simp only [List.filter_eq_nil_iff, List.mem_singleton, forall_eq, decide_eq_true_eq]
          omega
        rw [hf]; simp; omega

/-- **Probability = weight / total.**  Among the `T` equally likely draws `1..T` (`T` at least the
    cumulative weight up to and including position `k`), exactly `w_k` select position `k` -/
theorem walk_counts (l : List (Nat × Nat)) (k : Nat) (hk : k < l.length) (T : Nat)
    (hT : sumW (l.take (k + 1)) ≤ T) :
    ((List.range T).filter fun (n : Nat) => decide (walkPos l ((n : Int) + 1) = some k)).length = l[k].1 := by
  have hs := sumW_take_succ l k hk
  have hcongr : (List.range T).filter (fun (n : Nat) => decide (walkPos l ((n : Int) + 1) = some k)) =
      (List.range T).filter (fun (n : Nat) => decide (sumW (l.take k) ≤ n ∧ n < sumW (l.take (k + 1)))) := by
    apply List.filter_congr
    intro n _
    simp only [decide_eq_decide]
    rw [walkPos_iff l _ k (by omega)]
    constructor
    · rintro ⟨_, h2, h3⟩; exact ⟨by omega, by omega⟩
    · rintro ⟨h1, h2⟩; exact ⟨hk, by omega, by omega⟩
  rw [hcongr, count_interval _ T _ hT, hs]
  omega

/-! ### the rewrite: membership plus exclusions -/

variable (Γ : Nat → FieldTy) (ρ : Nat → Int)

/-- a value matches a weight entry -/
def itemHolds (lhs : Expr) : RangeItem → Bool
  | .single e => truthy Γ ρ (.bin .eq lhs e)
  | .range lo hi => truthy Γ ρ (.bin .ge lhs lo) && truthy Γ ρ (.bin .le lhs hi)

def WFItem (lhs : Expr) : RangeItem → Prop
  | .single e => WF Γ lhs ∧ WF Γ e
  | .range lo hi => WF Γ lhs ∧ WF Γ lo ∧ WF Γ hi

theorem inTerm_bit1 (lhs : Expr) (it : RangeItem) (h : WFItem Γ lhs it) : Bit1 Γ (inTerm lhs it) := by
  cases it with
  | single e => exact .cmp _ _ _ rfl h.1 h.2
  | range lo hi => exact .and _ _ (.cmp _ _ _ rfl h.1 h.2.1) (.cmp _ _ _ rfl h.1 h.2.2)

theorem inTerm_truthy (lhs : Expr) (it : RangeItem) (h : WFItem Γ lhs it) (σ : Nat → Nat) (hσ : Agree Γ ρ σ) :
    truthy Γ ρ (inTerm lhs it) = itemHolds Γ ρ lhs it := by
  cases it with
  | single e => rfl
  | range lo hi =>
    simp only [inTerm, itemHolds]
    exact truthy_and Γ ρ _ _ (.cmp _ _ _ rfl h.1 h.2.1) (.cmp _ _ _ rfl h.1 h.2.2) σ hσ

theorem inFold_truthy (lhs : Expr) (σ : Nat → Nat) (hσ : Agree Γ ρ σ) :
    ∀ (items : List RangeItem) (acc : Expr), Bit1 Γ acc → (∀ it ∈ items, WFItem Γ lhs it) →
      ∃ e, inFold lhs (some acc) items = some e ∧ Bit1 Γ e ∧
        truthy Γ ρ e = (truthy Γ ρ acc || items.any (itemHolds Γ ρ lhs)) := by
  intro items
  induction items with
  | nil => intro acc ha _; exact ⟨acc, rfl, ha, by simp⟩
  | cons it rest ih =>
    intro acc ha hwf
    have hit := hwf it (List.mem_cons_self ..)
    have hb := inTerm_bit1 Γ lhs it hit
    obtain ⟨e, he, hbe, hte⟩ := ih (.bin .or acc (inTerm lhs it)) (.or _ _ ha hb)
      (fun x hx => hwf x (List.mem_cons_of_mem _ hx))
    refine ⟨e, by simpa [inFold] using he, hbe, ?_⟩
    rw [hte, truthy_or Γ ρ _ _ ha hb σ hσ, inTerm_truthy Γ ρ lhs it hit σ hσ]
    simp [List.any_cons, Bool.or_assoc]

/-- **`in` means membership.**  `lhs in rangelist(items)` holds iff some item matches -/
theorem in_truthy (lhs : Expr) (items : List RangeItem)
    (hwf : ∀ it ∈ items, WFItem Γ lhs it) (σ : Nat → Nat) (hσ : Agree Γ ρ σ) :
    truthy Γ ρ (mkIn lhs items) = items.any (itemHolds Γ ρ lhs) := by
  cases items with
  | nil => simp [mkIn, inFold, truthy, sval, pat]
  | cons it rest =>
    have hit := hwf it (List.mem_cons_self ..)
    obtain ⟨e, he, _, hte⟩ := inFold_truthy Γ ρ lhs σ hσ rest (inTerm lhs it) (inTerm_bit1 Γ lhs it hit)
      (fun x hx => hwf x (List.mem_cons_of_mem _ hx))
    simp only [mkIn, inFold, he, Option.getD_some, truthy_reset]
    rw [hte, inTerm_truthy Γ ρ lhs it hit σ hσ]
    simp [List.any_cons]

def itemOf (x : Weight) : RangeItem := match x.hi with | some h => .range x.lo h | none => .single x.lo

def weightZero (x : Weight) : Bool := truthy Γ ρ (.bin .eq x.w (.lit 0 false 8))

def WFWeight (lhs : Expr) (x : Weight) : Prop := WFItem Γ lhs (itemOf x) ∧ WF Γ x.w

/-- **Support.**  If the statements that replace `dist(lhs, weights)` for a call all hold, the
    value matches an entry whose weight is not zero: zero-weight entries and unlisted values are
    never produced, whatever else is constrained (with C01.randomize_sound: the returned values
    satisfy every hard statement, these included) -/
theorem dist_support (lhs : Expr) (ws : List Weight) (hne : ws ≠ [])
    (hwf : ∀ x ∈ ws, WFWeight Γ lhs x) (σ : Nat → Nat) (hσ : Agree Γ ρ σ)
    (hall : ∀ s ∈ rewrite lhs ws, sholds Γ ρ s = true) :
    ∃ x ∈ ws, itemHolds Γ ρ lhs (itemOf x) = true ∧ weightZero Γ ρ x = false := by
  -- the membership statement
  have hin := hall (.expr (mkIn lhs (ws.map itemOf))) (by
    simp only [rewrite, List.mem_cons]; left
    congr 2)
  simp only [sholds, mholds] at hin
  rw [in_truthy Γ ρ lhs (ws.map itemOf)
    (by intro it hit; obtain ⟨x, hx, rfl⟩ := List.mem_map.mp hit; exact (hwf x hx).1) σ hσ] at hin
  obtain ⟨it, hit, hm⟩ := List.any_eq_true.mp hin
  obtain ⟨x, hx, rfl⟩ := List.mem_map.mp hit
  refine ⟨x, hx, hm, ?_⟩
  -- its exclusion statement
  cases hz : weightZero Γ ρ x with
  | false => rfl
  | true =>
    exfalso
    have hex := hall (.implies (.bin .eq x.w (.lit 0 false 8)) (.cons (.expr (match x.hi with
        | some h => .not (.bin .and (.bin .ge lhs x.lo) (.bin .le lhs h))
        | none => .not (.bin .eq lhs x.lo))) .nil)) (by
      simp only [rewrite, List.mem_cons, List.mem_map]; right; exact ⟨x, hx, rfl⟩)
    simp only [sholds, mholds, Bool.and_true] at hex
    simp only [weightZero] at hz
    rw [hz] at hex
    simp only [Bool.not_true, Bool.false_or] at hex
    have hw := (hwf x hx).1
    cases hhi : x.hi with
    | some h =>
      simp only [hhi, itemOf, WFItem, itemHolds] at hex hm hw
      rw [truthy_not Γ ρ _ (.and _ _ (.cmp _ _ _ rfl hw.1 hw.2.1) (.cmp _ _ _ rfl hw.1 hw.2.2)) σ hσ,
        truthy_and Γ ρ _ _ (.cmp _ _ _ rfl hw.1 hw.2.1) (.cmp _ _ _ rfl hw.1 hw.2.2) σ hσ] at hex
      simp [hm] at hex
    | none =>
      simp only [hhi, itemOf, WFItem, itemHolds] at hex hm hw
      rw [truthy_not Γ ρ _ (.cmp _ _ _ rfl hw.1 hw.2) σ hσ] at hex
      simp [hm] at hex

/-! non-vacuity -/
example : weightList [3, 0, 1] = [(1, 2), (3, 0)] := by decide
example : (List.range 4).map (fun n => nextTarget (weightList [3, 0, 1]) ((n : Int) + 1)) = [some 2, some 0, some 0, some 0] := by decide

end Pyvsc.C15
