import Pyvsc.Model.Bounds
import Pyvsc.Proofs.BoundsIn
import Pyvsc.Props.C01
/-!
# C14 — no legal value is starved: inferred ranges over-approximate the solutions

What is proved here: the upper-bound propagator and the equality propagator never remove a value
that satisfies the relation they were created for; a swizzle candidate pins exactly the bit it
names; and whenever the drawn target pattern is feasible, every candidate is kept and the value
returned carries the drawn bits (so every feasible target has the probability of its draw).
The lower-bound and `in` propagators, the fixed point and the visitor are executable model +
correspondence + exhaustive feasibility oracle (see MANIFEST level note).
-/
namespace Pyvsc.C14
open Pyvsc.Bounds Pyvsc.Bv Pyvsc.Solve

/-- the value set a domain denotes -/
def Den (l : RL) (v : Int) : Prop := ∃ r ∈ l, r.1 ≤ v ∧ v ≤ r.2

theorem mem_trimEnd (mx : Int) : ∀ (l : RL) (r : Int × Int), r ∈ l → r.1 ≤ mx → r ∈ trimEnd mx l
  | [], r, h, _ => by simp at h
  | x :: xs, r, h, hr => by
      simp only [trimEnd]
      rcases List.mem_cons.mp h with rfl | h
      · cases ht : trimEnd mx xs with
        | nil => simp [show ¬ r.1 > mx by omega]
        | cons t ts => simp
      · have := mem_trimEnd mx xs r h hr
        cases ht : trimEnd mx xs with
        | nil => rw [ht] at this; simp at this
        | cons t ts => rw [ht] at this; simp only; exact List.mem_cons_of_mem _ this

theorem den_capLast (mx : Int) : ∀ (l : RL) (v : Int), Den l v → v ≤ mx → Den (capLast mx l) v
  | [], v, h, _ => by obtain ⟨r, hr, _⟩ := h; simp at hr
  | [x], v, h, hv => by
      obtain ⟨r, hr, h1, h2⟩ := h
      simp only [List.mem_singleton] at hr; subst hr
      refine ⟨_, List.mem_singleton.mpr rfl, h1, ?_⟩
      simp only
      split <;> omega
  | x :: y :: ys, v, h, hv => by
      obtain ⟨r, hr, h1, h2⟩ := h
      simp only [capLast]
      rcases List.mem_cons.mp hr with rfl | hr
      · exact ⟨r, List.mem_cons_self .., h1, h2⟩
      · obtain ⟨r', hr', h'⟩ := den_capLast mx (y :: ys) v ⟨r, hr, h1, h2⟩ hv
        exact ⟨r', List.mem_cons_of_mem _ hr', h'⟩

/-- **Upper bounds are sound.**  `VariableBoundMaxPropagator` with limit `mx` (created for
    `f <= mx` / `f < mx + 1`) keeps every value of the domain that is at most `mx`, for every
    domain whose first range has the least lower bound (domains are kept ascending) -/
theorem maxProp_keeps (r0 : Int × Int) (rs : RL) (mx v : Int) (hasc : ∀ r ∈ rs, r0.1 ≤ r.1)
    (h : Den (r0 :: rs) v) (hv : v ≤ mx) : Den (maxProp (r0 :: rs) mx).1 v := by
  simp only [maxProp]
  obtain ⟨r, hr, h1, h2⟩ := h
  by_cases h0 : mx < r0.1
  · exfalso
    rcases List.mem_cons.mp hr with rfl | hr
    · omega
    · have := hasc r hr; omega
  · simp only [h0, if_false]
    apply den_capLast mx _ v _ hv
    rcases List.mem_cons.mp hr with rfl | hr
    · exact ⟨r, List.mem_cons_self .., h1, h2⟩
    · exact ⟨r, List.mem_cons_of_mem _ (mem_trimEnd mx rs r hr (by omega)), h1, h2⟩

/-- the upper-bound propagator only removes values: the result denotes a subset -/
theorem capLast_sub (mx : Int) : ∀ (l : RL) (v : Int), Den (capLast mx l) v → Den l v
  | [], v, h => by obtain ⟨r, hr, _⟩ := h; simp [capLast] at hr
  | [x], v, h => by
      obtain ⟨r, hr, h1, h2⟩ := h
      simp only [capLast, List.mem_singleton] at hr; subst hr
      refine ⟨x, List.mem_singleton.mpr rfl, h1, ?_⟩
      simp only at h2
      split at h2 <;> omega
  | x :: y :: ys, v, h => by
      obtain ⟨r, hr, h1, h2⟩ := h
      simp only [capLast] at hr
      rcases List.mem_cons.mp hr with rfl | hr
      · exact ⟨r, List.mem_cons_self .., h1, h2⟩
      · obtain ⟨r', hr', h'⟩ := capLast_sub mx (y :: ys) v ⟨r, hr, h1, h2⟩
        exact ⟨r', List.mem_cons_of_mem _ hr', h'⟩

/-! ### the drawn target is returned when it is feasible -/

/-- a per-bit swizzle candidate pins exactly the named bit of the variable -/
theorem bit_candidate (σ : Nat → Nat) (i w k : Nat) (b : Nat) (hw : 0 < w) (hk : k < w) (hb : b < 2) :
    holds σ (.cmp .eq (.slice (.var i w) k k) (.const (b : Int) 1)) = true ↔
      (σ i % 2 ^ w / 2 ^ k) % 2 = b := by
  have hw0 : w ≠ 0 := by omega
  have hb' : ¬ ((b : Int) < 0) := by omega
  have hb2 : (b : Int) < 2 := by exact_mod_cast hb
  simp only [holds, eval, hw0, if_false, le_refl, hk, and_self, if_true, Nat.sub_self, Nat.zero_add, pow_one,
    hb', show (1 : Nat) ≠ 0 by decide, show ((b : Int) < (2 : Int) ^ 1) by simpa using hb2, Int.toNat_natCast, cmpSem]
  by_cases h : σ i % 2 ^ w / 2 ^ k % 2 = b <;> simp [h, hb, b2n]

/-- **Feasible target ⇒ returned.**  If some assignment satisfies everything asserted so far
    together with all candidates of a group (the drawn bit pattern is feasible), then with valid
    solver answers no candidate is rejected, and the model of the group's final `Sat()` satisfies
    every candidate: the returned value carries the drawn bits. -/
theorem target_returned {F A : Type} (holds : A → F → Prop) (asserted cands : List F) (ans : List (Ans A))
    (g : Greedy F A) (hfeas : ∃ a, (∀ f ∈ asserted, holds a f) ∧ ∀ f ∈ cands, holds a f)
    (hg : greedy asserted cands ans = some g) (hv : LogValid holds g.log)
    (m : A) (hm : Valid holds g.asserted (.sat m)) :
    g.rejected = [] ∧ ∀ c ∈ cands, holds m c := by
  obtain ⟨h1, h2⟩ := greedy_all_accepted holds cands asserted ans g hfeas hg hv
  refine ⟨h1, fun c hc => ?_⟩
  obtain ⟨_, hmem, _⟩ := greedy_spec holds cands asserted ans g hg hv
  exact hm c ((hmem c).mpr (Or.inl (by rw [h2]; exact hc)))

/-- a field no statement mentions keeps its whole type as its range -/
theorem untouched_full (Γ : Nat → Expr.FieldTy) (ρ : Nat → Int) (init : Array RL) :
    (process Γ ρ init []).doms = init := by
  simp [process, fixpoint, List.foldl]

example : (maxProp [(0, 15)] 6).1 = [(0, 6)] := by decide
example : (maxProp [(0, 3), (5, 9), (12, 15)] 7).1 = [(0, 3), (5, 7)] := by decide

/-! ### lower bounds -/

/-- ascending and separated: the shape `VariableBoundModel` domains are kept in -/
def Asc (l : RL) : Prop := l.Pairwise fun a b => a.2 < b.1

theorem asc_get (l : RL) (h : Asc l) (i j : Nat) (hij : i < j) (hj : j < l.length) :
    (l[i]'(by omega)).2 < (l[j]).1 := by
  unfold Asc at h
  exact List.pairwise_iff_getElem.mp h i j (by omega) hj hij

theorem den_setLo_zero (r0 : Int × Int) (rs : RL) (mn v : Int) (h : Den (r0 :: rs) v) (hv : mn ≤ v) :
    Den (setLo (r0 :: rs) 0 mn) v := by
  obtain ⟨r, hr, h1, h2⟩ := h
  have e : setLo (r0 :: rs) 0 mn = (mn, r0.2) :: rs := by
    unfold setLo
    apply List.ext_getElem
    · simp
    · intro i h1 h2
      simp only [List.getElem_mapIdx]
      cases i with
      | zero => simp
      | succ i => simp
  rw [e]
  rcases List.mem_cons.mp hr with rfl | hr
  · exact ⟨(mn, r.2), List.mem_cons_self .., hv, h2⟩
  · exact ⟨r, List.mem_cons_of_mem _ hr, h1, h2⟩

/-- **Lower bounds are sound.**  `VariableBoundMinPropagator` with limit `mn` (created for
    `f >= mn` / `f > mn - 1`) keeps every value of an ascending domain that is at least `mn`
    (every range but possibly the first well-formed: the propagator itself can leave `(mn, hi)` with
    `mn > hi` in front) -/
theorem minProp_keeps (l : RL) (mn v : Int) (hasc : Asc l) (hwf : ∀ r ∈ l.tail, r.1 ≤ r.2) (h : Den l v) (hv : mn ≤ v) :
    Den (minProp l mn).1 v := by
  obtain ⟨r, hr, h1, h2⟩ := h
  obtain ⟨k, hk, hkr⟩ := List.getElem_of_mem hr
  unfold minProp
  cases hlast : l.getLast? with
  | none =>
    have : l = [] := by simpa using hlast
    subst this; simp at hr
  | some rl =>
    simp only
    have hne : l ≠ [] := by intro e; subst e; simp at hr
    have hl : l.getLast hne = rl := by
      have := List.getLast?_eq_some_getLast hne
      rw [this] at hlast; simpa using hlast
    have hlastidx : l[l.length - 1]'(by have := List.length_pos_iff.mpr hne; omega) = rl := by
      rw [← hl, List.getLast_eq_getElem]
    by_cases hgt : mn > rl.2
    · -- every range ends at or before the last one: no value ≥ mn is in the domain
      exfalso
      have hle : r.2 ≤ rl.2 := by
        by_cases hkl : k = l.length - 1
        · subst hkl; rw [← hkr, hlastidx]
        · have := asc_get l hasc k (l.length - 1) (by omega) (by omega)
          rw [hkr, hlastidx] at this
          have hlo : rl.1 ≤ rl.2 := hwf rl (by
            rw [← hlastidx, List.mem_iff_getElem]
            refine ⟨l.length - 2, by simp; omega, ?_⟩
            rw [List.getElem_tail]
            congr 1; omega)
          omega
      omega
    · simp only [hgt, if_false]
      cases hfind : (List.range l.length).reverse.find? (fun j => decide ((l.getD j (0, 0)).1 < mn)) with
      | none => exact ⟨r, hr, h1, h2⟩
      | some i =>
        simp only
        have hp := List.find?_some hfind
        have hmem := List.mem_of_find?_eq_some hfind
        have hi : i < l.length := by simpa using hmem
        have hlo : (l[i]).1 < mn := by
          have : (l.getD i (0, 0)) = l[i] := by simp [List.getD, hi]
          rw [this] at hp; simpa using hp
        by_cases hi0 : i > 0
        · simp only [hi0, if_true]
          -- ranges before index i end below mn
          have hki : i ≤ k := by
            by_contra hc
            have := asc_get l hasc k i (by omega) hi
            rw [hkr] at this
            omega
          refine ⟨r, ?_, h1, h2⟩
          rw [← hkr]
          exact List.mem_drop_iff_getElem.mpr ⟨k - i, by omega, by congr 1; omega⟩
        · simp only [hi0, if_false]
          have : i = 0 := by omega
          cases l with
          | nil => simp at hr
          | cons r0 rs => exact den_setLo_zero r0 rs mn v ⟨r, hr, h1, h2⟩ hv

/-! ### `in` -/

/-- **The `in` propagator is sound.**  `VariableBoundInPropagator` (created for `f in [items]`) keeps
    every value of an ascending domain that lies in one of the listed ranges, whatever the order
    and overlap of the items (they are sorted by lower bound, merged where they overlap or touch,
    and intersected with the domain by a two-pointer walk) -/
theorem inProp_keeps (l items : RL) (hl : Asc l) (hwf : ∀ r ∈ items, r.1 ≤ r.2) (v : Int)
    (hd : Den l v) (hi : Den items v) : Den (inProp l items).1 v :=
  inProp_keeps_aux l items hl hwf v hd hi

example : (inProp [(0, 15)] [(3, 5), (1, 10)]).1 = [(1, 10)] := by decide
example : (minProp [(0, 3), (6, 9)] 7).1 = [(6, 9)] := by decide
example : Asc [(0, 3), (6, 9)] := by unfold Asc; decide

end Pyvsc.C14
