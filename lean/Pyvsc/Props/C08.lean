import Pyvsc.Props.C03
/-!
# C08 — constraints reach through the object hierarchy to exactly the fields they name
-/
namespace Pyvsc.C08
open Pyvsc.World

/-- **One flag per field instance.**  Structurally identical sub-objects never share a flag: the
    used-as-random map lists each scalar of the tree exactly once (when ids are unique) -/
theorem one_flag_per_scalar (t : Node) (h : (scalars t).Nodup) :
    ((usedInCall t).1.map (·.1)).Nodup := by
  rw [usedInCall, C03.used_scalars]; exact h

/-- a sub-object's own blocks are enforced exactly when that sub-object is random in the call
    and the block is enabled on that very instance -/
theorem sub_blocks_iff_rand (h : Toggles) (t : Node) (o : Nat) (n : String) :
    blockActive h (usedInCall t).2 o n = true ↔
      enabled h o n = true ∧ usedOf (usedInCall t).2 o = true := by
  simp [blockActive]

/-- below a sub-object that is not random in the call no field is random: its constraints cannot
    move anything, its fields are constants of the call -/
theorem nonrandom_subtree_constant (t : Node) (r : Bool) (p : Nat × Bool)
    (hp : p ∈ (used t false r).1) : p.2 = false :=
  (C03.used_false t r).1 p hp

end Pyvsc.C08
