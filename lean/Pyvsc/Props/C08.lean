import Pyvsc.Props.C03
import Pyvsc.Proofs.PathsInj
/-!
# C08 — constraints reach through the object hierarchy to exactly the fields they name
-/
namespace Pyvsc.C08
open Pyvsc.World

/-- **One flag per field instance.**  Structurally identical sub-objects never share a flag: the
    used-as-random map lists each scalar of the tree exactly once (when ids are unique) -/
theorem one_flag_per_scalar (t : Node) (h : (scalars t).Nodup) :
    ((usedInCall t).1.map (·.1)).Nodup := by
  rw [usedInCall, C03.used_scalars]; exact h

/-- a sub-object's own blocks are enforced exactly when that sub-object is random in the call
    and the block is enabled on that very instance -/
theorem sub_blocks_iff_rand (h : Toggles) (t : Node) (o : Nat) (n : String) :
    blockActive h (usedInCall t).2 o n = true ↔
      enabled h o n = true ∧ usedOf (usedInCall t).2 o = true := by
  simp [blockActive]

/-- below a sub-object that is not random in the call no field is random: its constraints cannot
    move anything, its fields are constants of the call -/
theorem nonrandom_subtree_constant (t : Node) (r : Bool) (p : Nat × Bool)
    (hp : p ∈ (used t false r).1) : p.2 = false :=
  (C03.used_false t r).1 p hp

/-! ### attribute paths (`Model/Paths.lean`; the driver checks on every scenario that its own table
walk and `Paths.Members.resolve` name the same scalar, and that every scalar's id is the model's
resolution of its path) -/

open Pyvsc.Paths in
/-- **Two references denote the same field only if they are the same path**: whatever the tree
    (depth, fan-out, lists of objects, several sub-objects of one class, even members of equal
    name), two attribute paths that resolve to the same scalar are equal -/
theorem paths_never_alias (ms : Members) (p q : List String) (i : Nat)
    (hp : Shape.resolveIn (.obj ms) 0 p = some i) (hq : Shape.resolveIn (.obj ms) 0 q = some i) : p = q :=
  Shape.resolveIn_inj (.obj ms) 0 p q i hp hq

open Pyvsc.Paths in
/-- **Structurally identical sub-objects never alias each other's fields**: the same relative path
    below two different members names two different scalars -/
theorem siblings_never_alias (ms : Members) (n1 n2 : String) (ps : List String) (i j : Nat) (hne : n1 ≠ n2)
    (h1 : ms.resolve 0 n1 ps = some i) (h2 : ms.resolve 0 n2 ps = some j) : i ≠ j := by
  intro e
  subst e
  exact hne (Members.resolve_inj ms 0 n1 ps n2 ps i h1 h2).1

open Pyvsc.Paths in
/-- **A reference through a sub-object stays inside it**: a path that enters the object member `n`
    resolves to one of the scalars of that very member (ids `base .. base + nsc - 1`), never to a
    field of a sibling that follows -/
theorem path_stays_inside (n : String) (sub rest : Members) (base : Nat) (q : String) (qs : List String) (i : Nat)
    (h : (Members.cons n (.obj sub) rest).resolve base n (q :: qs) = some i) :
    base ≤ i ∧ i < base + sub.nsc := by
  simp only [Members.resolve, kindOk, and_self, if_true] at h
  simpa [Shape.nsc] using Shape.resolveIn_range (.obj sub) base (q :: qs) i h

open Pyvsc.Paths in
example : (Members.cons "a" (.obj (.cons "x" .scalar .nil)) (.cons "b" (.obj (.cons "x" .scalar .nil)) .nil)).resolve 0 "b" ["x"]
    = some 1 := by decide

end Pyvsc.C08
