import Pyvsc.Props.C20
/-!
# C20 — `solve_order(a, b)`: the group of `a` strictly precedes the group of `b`
-/
namespace Pyvsc.C20
open Pyvsc.RandSets

/-- every node of a level has all its dependencies (that are nodes) in strictly earlier levels -/
def LevelsOk (keys nodes : List Nat) (depsOf : Nat → List Nat) (lv : List (List Nat)) : Prop :=
  ∀ (j : Nat) (hj : j < lv.length), ∀ n ∈ lv[j], n ∈ keys → ∀ d ∈ depsOf n, d ∈ nodes → d ∈ (lv.take j).flatten

theorem levels_ok (keys nodes : List Nat) (depsOf : Nat → List Nat) :
    ∀ (fuel : Nat) (remaining done : List Nat) (acc : List (List Nat)), done = acc.flatten →
    LevelsOk keys nodes depsOf acc → LevelsOk keys nodes depsOf (levels keys nodes depsOf fuel remaining done acc) := by
  intro fuel
  induction fuel with
  | zero => intro remaining done acc _ h; simpa [levels] using h
  | succ fuel ih =>
    intro remaining done acc hd h
    simp only [levels]
    split
    · exact h
    · split
      · exact h
      · apply ih
        · rw [hd]; simp
        · intro j hj n hn hk d hdd hdn
          by_cases hja : j < acc.length
          · rw [List.getElem_append_left hja] at hn
            rw [List.take_append_of_le_length (by omega)]
            exact h j hja n hn hk d hdd hdn
          · have hje : j = acc.length := by simp at hj; omega
            subst hje
            rw [List.getElem_append_right (by omega)] at hn
            simp only [Nat.sub_self, List.getElem_cons_zero, List.mem_filter] at hn
            have hall := hn.2
            have hkc : keys.contains n = true := by simpa using hk
            simp only [hkc, if_true, List.all_eq_true] at hall
            have := hall d hdd
            have hnc : nodes.contains d = true := by simpa using hdn
            simp only [hnc, Bool.not_true, Bool.or_false] at this
            rw [List.take_append_of_le_length (by omega), List.take_length, ← hd]
            simpa using this

theorem pair_sublist {α : Type} (l : List α) (i j : Nat) (hij : i < j) (hj : j < l.length) :
    List.Sublist [l[i]'(by omega), l[j]] l := by
  induction l generalizing i j with
  | nil => simp at hj
  | cons x xs ih =>
    cases j with
    | zero => omega
    | succ j =>
      cases i with
      | zero =>
        simp only [List.getElem_cons_zero, List.getElem_cons_succ]
        exact List.Sublist.cons₂ _ (List.singleton_sublist.2 (List.getElem_mem _))
      | succ i =>
        simp only [List.getElem_cons_succ]
        exact List.Sublist.cons _ (ih i j (by omega) (by simpa using hj))

/-- the toposort levels `orderGroups` works with -/
def topoLevels (rsFields : List Nat) (pairs : List (Nat × Nat)) : List (List Nat) :=
  let depsOf : Nat → List Nat := fun a => (pairs.filter (fun p => p.2 == a && p.1 != a)).map (·.1)
  let keys := rsFields.filter fun f => pairs.any (fun p => p.2 == f)
  let nodes := (keys ++ keys.flatMap depsOf).eraseDups
  levels keys nodes depsOf (nodes.length + 1) nodes [] []

/-- **`solve_order(a, b)` puts `a` strictly before `b`.**  For every directive `a before b` between
    two different fields of the rand set, whenever the toposort places `b` at all (it gives up on a
    dependency cycle; the fields it leaves out form the last group together), the ordered groups
    contain a group holding `a` strictly before a group holding `b` — so the value of `a` is fixed
    by an earlier swizzle group than the value of `b`. -/
theorem before_precedes (rsFields : List Nat) (pairs : List (Nat × Nat)) (gs : List (List Nat))
    (h : orderGroups rsFields pairs = some gs) (a b : Nat) (hab : (a, b) ∈ pairs) (hne : a ≠ b)
    (ha : a ∈ rsFields) (hb : b ∈ rsFields) (hplaced : b ∈ (topoLevels rsFields pairs).flatten) :
    ∃ ga gb, a ∈ ga ∧ b ∈ gb ∧ List.Sublist [ga, gb] gs := by
  simp only [orderGroups] at h
  split at h
  · simp at h
  · rename_i hkeys
    simp only [Option.some.injEq] at h
    subst h
    -- names
    generalize hdeps : (fun (x : Nat) => (pairs.filter (fun p => p.2 == x && p.1 != x)).map (·.1)) = depsOf at *
    generalize hk : (rsFields.filter fun f => pairs.any (fun p => p.2 == f)) = keys at *
    generalize hn : (keys ++ keys.flatMap depsOf).eraseDups = nodes at *
    have hlv : topoLevels rsFields pairs = levels keys nodes depsOf (nodes.length + 1) nodes [] [] := by
      simp only [topoLevels, hdeps, hk, hn]
    rw [hlv] at hplaced
    generalize hl : levels keys nodes depsOf (nodes.length + 1) nodes [] [] = lv at *
    have hok : LevelsOk keys nodes depsOf lv := by
      rw [← hl]
      exact levels_ok keys nodes depsOf _ _ _ _ (by simp) (by intro j hj; simp at hj)
    have hbk : b ∈ keys := by
      rw [← hk]; simp only [List.mem_filter, List.any_eq_true]
      exact ⟨hb, (a, b), hab, by simp⟩
    have had : a ∈ depsOf b := by
      rw [← hdeps]; simp only [List.mem_map, List.mem_filter]
      exact ⟨(a, b), ⟨hab, by simp [hne]⟩, rfl⟩
    have han : a ∈ nodes := by
      rw [← hn, List.mem_eraseDups, List.mem_append, List.mem_flatMap]
      exact Or.inr ⟨b, hbk, had⟩
    obtain ⟨L, hL, hbL⟩ := List.mem_flatten.1 hplaced
    obtain ⟨j, hj, rfl⟩ := List.getElem_of_mem hL
    have hai := hok j hj b hbL hbk a had han
    obtain ⟨L', hL', haL'⟩ := List.mem_flatten.1 hai
    obtain ⟨i, hi, hiL⟩ := List.getElem_of_mem hL'
    have hi' : i < j := by simp at hi; omega
    have hiL' : lv[i]'(by omega) = L' := by rw [← hiL, List.getElem_take]
    subst hiL'
    -- the two levels as groups of the rand set
    have hsub := pair_sublist lv i j hi' hj
    have hsub2 := (hsub.map (fun fs => rsFields.filter fun f => fs.contains f)).filter (fun g => !g.isEmpty)
    have hga : a ∈ rsFields.filter (fun f => (lv[i]'(by omega)).contains f) := by
      simp only [List.mem_filter]; exact ⟨ha, by simpa using haL'⟩
    have hgb : b ∈ rsFields.filter (fun f => lv[j].contains f) := by
      simp only [List.mem_filter]; exact ⟨hb, by simpa using hbL⟩
    have hne1 : (!(rsFields.filter (fun f => (lv[i]'(by omega)).contains f)).isEmpty) = true := by
      cases hx : rsFields.filter (fun f => (lv[i]'(by omega)).contains f) with
      | nil => rw [hx] at hga; simp at hga
      | cons _ _ => rfl
    have hne2 : (!(rsFields.filter (fun f => lv[j].contains f)).isEmpty) = true := by
      cases hx : rsFields.filter (fun f => lv[j].contains f) with
      | nil => rw [hx] at hgb; simp at hgb
      | cons _ _ => rfl
    simp only [List.map_cons, List.map_nil, List.filter_cons, hne1, hne2, if_true, List.filter_nil] at hsub2
    refine ⟨_, _, hga, hgb, ?_⟩
    simp only [withRest]
    split
    · exact hsub2
    · exact hsub2.trans (List.sublist_append_left _ _)

example : orderGroups [0, 1, 2] [(2, 0), (0, 1)] = some [[2], [0], [1]] := by decide
example : 1 ∈ (topoLevels [0, 1, 2] [(2, 0), (0, 1)]).flatten := by decide

end Pyvsc.C20
