import Pyvsc.Proofs.StmtSound
import Pyvsc.Proofs.SolveSpec
import Pyvsc.Props.C18
import Pyvsc.Proofs.RandSetsInv
/-!
# C01 — returned values satisfy every active hard constraint and their declared type

Model: `Model/Bv.lean` (Boolector term semantics), `Model/Expr.lean` (every `Expr*Model.build`,
`Constraint*Model.build`), `Model/Solve.lean` (hard/soft/swizzle phases of
`Randomizer.randomize` over an answer stream), `Model/Values.lean` (`post_randomize` read-back).
Spec: `Spec/Sem.lean`.
-/
namespace Pyvsc.C01
open Pyvsc.Bv Pyvsc.Expr Pyvsc.Sem Pyvsc.Lower Pyvsc.Solve

variable (Γ : Nat → FieldTy) (ρ : Nat → Int)

/-- **Expressions.**  The circuit built for any well-formed expression computes the reference
    value at the computed width, for all widths, signedness mixes and environments. -/
theorem lowerExpr_sound (σ : Nat → Nat) (hσ : Agree Γ ρ σ) (e : Expr) (W : Nat) (h : WF Γ e) :
    eval σ (lower Γ ρ e W) = some (cw Γ e W, sval Γ ρ e W) :=
  lower_sound Γ ρ σ hσ e W h

/-- **Statements.**  The formula built for a statement in the hard pass is true under a solver
    assignment exactly when the statement holds in the reference semantics; a statement that
    builds nothing (`None`: a soft constraint) has the trivial meaning. -/
theorem lowerStmt_sound (σ : Nat → Nat) (hσ : Agree Γ ρ σ) (s : Stmt) (h : WFStmt Γ false s) :
    match lowerStmt Γ ρ false s with
    | none => sholds Γ ρ s = true
    | some b => (holds σ b = true ↔ sholds Γ ρ s = true) := by
  have := (stmt_scope_sound Γ ρ σ hσ false s h).1
  unfold StmtOk at this
  cases hl : lowerStmt Γ ρ false s with
  | none => rw [hl] at this; exact this
  | some b =>
    rw [hl] at this
    simp only at this
    simp only [holds, this, sholds]
    cases mholds Γ ρ false s <;> simp [b2n]

/-! ### read-back -/

/-- the environment after `post_randomize`: random fields take the two's-complement reading of
    their solver variable, every other field keeps its value -/
def rbEnv (σ : Nat → Nat) : Nat → Int := fun i =>
  if (Γ i).rand then Values.readBack (Γ i).w (Γ i).s (σ i % 2 ^ (Γ i).w) else ρ i

/-- non-random fields hold values of their type and every width is positive -/
def EnvOK : Prop := ∀ i, 0 < (Γ i).w ∧ ((Γ i).rand = false → Spec.InType (Γ i).w (Γ i).s (ρ i))

/-- **Type membership.**  Whatever the solver returns, every random field reads back a value of
    its declared width and signedness. -/
theorem readback_inType (σ : Nat → Nat) (i : Nat) (hw : 0 < (Γ i).w) (hr : (Γ i).rand = true) :
    Spec.InType (Γ i).w (Γ i).s (rbEnv Γ ρ σ i) := by
  have hp : σ i % 2 ^ (Γ i).w < 2 ^ (Γ i).w := Nat.mod_lt _ (Nat.pow_pos (by decide))
  simp only [rbEnv, hr, if_true]
  rw [C18.readBack_spec _ hw _ _ hp]
  exact C18.wrap_inType _ hw _ _

theorem inType_lt (w : Nat) (hw : 0 < w) (s : Bool) (v : Int) (h : Spec.InType w s v) : v < (2 ^ w : Int) := by
  unfold Spec.InType at h
  cases s with
  | false => simpa using h.2
  | true =>
    simp only [if_true] at h
    have := C18.two_pow_split w hw
    have := C18.pow_pos' (w - 1)
    omega

theorem agree_rbEnv (hE : EnvOK Γ ρ) (σ : Nat → Nat) : Agree Γ (rbEnv Γ ρ σ) σ := by
  intro i
  obtain ⟨hw, hn⟩ := hE i
  constructor
  · intro hr
    have hp : σ i % 2 ^ (Γ i).w < 2 ^ (Γ i).w := Nat.mod_lt _ (Nat.pow_pos (by decide))
    simp only [rbEnv, hr, if_true]
    rw [C18.readBack_spec _ hw _ _ hp]
    unfold pat
    rw [C18.wrap_congr]
    have : ((σ i % 2 ^ (Γ i).w : Nat) : Int) % (2 ^ (Γ i).w : Int) = ((σ i % 2 ^ (Γ i).w : Nat) : Int) := by
      apply Int.emod_eq_of_lt (by positivity)
      exact_mod_cast hp
    rw [this, Int.toNat_natCast]
  · intro hr
    simp only [rbEnv, hr, Bool.false_eq_true, if_false]
    exact inType_lt _ hw _ _ (hn hr)

/-- the lowering reads the environment at non-random fields only -/
theorem lower_congr (ρ' : Nat → Int) (h : ∀ i, (Γ i).rand = false → ρ' i = ρ i) :
    ∀ e W, lower Γ ρ' e W = lower Γ ρ e W := by
  intro e
  induction e with
  | lit v s w => intro W; rfl
  | fld i =>
    intro W
    simp only [lower]
    cases hr : (Γ i).rand
    · simp [h i hr]
    · simp
  | bin op l r ihl ihr => intro W; simp only [lower, ihl, ihr]
  | not e ih => intro W; simp only [lower, ih]
  | psel e hi lo ih => intro W; simp only [lower, ih]
  | reset e ih => intro W; simp only [lower, ih]

theorem lowerUnique_congr (ρ' : Nat → Int) (h : ∀ i, (Γ i).rand = false → ρ' i = ρ i) (es : List Expr) :
    lowerUnique Γ ρ' es = lowerUnique Γ ρ es := by
  unfold lowerUnique
  simp only [lower_congr Γ ρ ρ' h]

theorem lowerStmt_congr (ρ' : Nat → Int) (h : ∀ i, (Γ i).rand = false → ρ' i = ρ i) (soft : Bool) :
    ∀ s, lowerStmt Γ ρ' soft s = lowerStmt Γ ρ soft s ∧
         ∀ acc, lowerScope Γ ρ' soft acc s = lowerScope Γ ρ soft acc s := by
  intro s
  induction s with
  | expr e => simp [lowerStmt, lowerScope, lower_congr Γ ρ ρ' h]
  | soft e => simp [lowerStmt, lowerScope, lower_congr Γ ρ ρ' h]
  | unique es => simp [lowerStmt, lowerScope, lowerUnique_congr Γ ρ ρ' h]
  | nil => simp [lowerStmt, lowerScope]
  | cons s rest ihs ihr => simp [lowerStmt, lowerScope, ihs.1, ihr.2]
  | ifThen c t iht => simp [lowerStmt, lowerScope, lower_congr Γ ρ ρ' h, iht.1]
  | ifElse c t f iht ihf => simp [lowerStmt, lowerScope, lower_congr Γ ρ ρ' h, iht.1, ihf.1]
  | implies c b ihb => simp [lowerStmt, lowerScope, lower_congr Γ ρ ρ' h, ihb.1]

/-- `holds` as a proposition, for the generic solve-loop theorems -/
def BvHolds (σ : Nat → Nat) (f : Bv) : Prop := holds σ f = true

/-- the hard formulas `Randomizer.randomize` builds for the statements of a rand set -/
def hardFormulas (stmts : List Stmt) : List Bv := stmts.filterMap (lowerStmt Γ ρ false)

/-- **C01, the property.**  For every rand set — any typing of its fields, any current values
    of the non-random fields, any list of well-formed hard statements, any soft formulas, any
    swizzle candidates (that is: any random draws), and any stream of solver answers each of
    which is valid for the query it answers — if the solve returns a model, then after read-back
    every hard statement holds in the reference semantics, every random field holds a value of
    its declared type, and every non-random field is unchanged. -/
theorem randomize_sound (hE : EnvOK Γ ρ) (stmts : List Stmt) (hwf : ∀ s ∈ stmts, WFStmt Γ false s)
    (pre soft : List Bv) (groups : List (Option (List Bv))) (ans : List (Ans (Nat → Nat)))
    (hv : LogValid BvHolds (solve pre (hardFormulas Γ ρ stmts) soft groups ans).log)
    (σ : Nat → Nat) (hok : (solve pre (hardFormulas Γ ρ stmts) soft groups ans).out = .ok σ) :
    (∀ s ∈ stmts, sholds Γ (rbEnv Γ ρ σ) s = true) ∧
    (∀ i, (Γ i).rand = true → Spec.InType (Γ i).w (Γ i).s (rbEnv Γ ρ σ i)) ∧
    (∀ i, (Γ i).rand = false → rbEnv Γ ρ σ i = ρ i) ∧
    (∀ f ∈ pre, holds σ f = true) := by
  obtain ⟨_, hsnd, _⟩ := solve_spec BvHolds pre (hardFormulas Γ ρ stmts) soft groups ans hv
  obtain ⟨hall, hsub, _⟩ := hsnd σ hok
  have hnr : ∀ i, (Γ i).rand = false → rbEnv Γ ρ σ i = ρ i := by
    intro i hr; simp [rbEnv, hr]
  refine ⟨?_, fun i hr => readback_inType Γ ρ σ i (hE i).1 hr, hnr, ?_⟩
  · intro s hs
    have hag := agree_rbEnv Γ ρ hE σ
    have := lowerStmt_sound Γ (rbEnv Γ ρ σ) σ hag s (hwf s hs)
    rw [(lowerStmt_congr Γ ρ (rbEnv Γ ρ σ) hnr false s).1] at this
    cases hl : lowerStmt Γ ρ false s with
    | none => rw [hl] at this; exact this
    | some b =>
      rw [hl] at this
      apply this.mp
      apply hall b
      apply hsub b
      apply List.mem_append_left
      exact List.mem_filterMap.mpr ⟨s, hs, hl⟩
  · intro f hf
    exact hall f (hsub f (List.mem_append_right _ hf))

/-! ### enum fields: the domain assertion made while the variable is built -/

def enumFold (v : Bv) (w : Nat) : Option Bv → List Int → Option Bv
  | acc, [] => acc
  | none, e :: es => enumFold v w (some (.cmp .eq v (.const e w))) es
  | some c, e :: es => enumFold v w (some (.ar .or c (.cmp .eq v (.const e w)))) es

/-- `EnumFieldModel.build`: `Assert(Or(... Eq(var, Const(e, 32)) ...))` -/
def enumDomain (i : Nat) (w : Nat) (es : List Int) : Option Bv := enumFold (.var i w) w none es

theorem b2n_or (p q : Bool) : b2n p ||| b2n q = b2n (p || q) := by
  cases p <;> cases q <;> decide

theorem enumFold_eval (σ : Nat → Nat) (i w : Nat) (hw : 0 < w) :
    ∀ (es : List Int) (acc : Option Bv) (P : Bool),
      (∀ e ∈ es, e < (2 ^ w : Int)) →
      (match acc with | none => P = false | some a => eval σ a = some (1, b2n P)) →
      match enumFold (.var i w) w acc es with
      | none => es = [] ∧ acc = none
      | some b => eval σ b = some (1, b2n (P || es.any fun e => decide (σ i % 2 ^ w = pat w e))) := by
  intro es
  induction es with
  | nil =>
    intro acc P _ h
    cases acc with
    | none => simp [enumFold]
    | some a => simpa [enumFold] using h
  | cons e es ih =>
    intro acc P hr h
    have hw0 : w ≠ 0 := by omega
    have he := hr e (List.mem_cons_self ..)
    have heq : eval σ (.cmp .eq (.var i w) (.const e w)) = some (1, b2n (decide (σ i % 2 ^ w = pat w e))) := by
      by_cases hn : e < 0
      · simp [eval, hw0, hn, cmpSem]
      · have : pat w e = e.toNat := by
          unfold pat; rw [Int.emod_eq_of_lt (by omega) he]
        simp [eval, hw0, hn, he, cmpSem, this]
    have hr' : ∀ e ∈ es, e < (2 ^ w : Int) := fun x hx => hr x (List.mem_cons_of_mem _ hx)
    cases acc with
    | none =>
      simp only at h; subst h
      have := ih (some (.cmp .eq (.var i w) (.const e w))) _ hr' heq
      simp only [enumFold]
      cases hf : enumFold (.var i w) w (some (.cmp .eq (.var i w) (.const e w))) es with
      | none => rw [hf] at this; simp at this
      | some b => rw [hf] at this; simpa [List.any_cons] using this
    | some a =>
      simp only at h
      have hor : eval σ (.ar .or a (.cmp .eq (.var i w) (.const e w))) =
          some (1, b2n (P || decide (σ i % 2 ^ w = pat w e))) := by
        simp only [eval] at heq ⊢
        rw [h, heq]
        simp [arSem, b2n_or]
      have := ih (some (.ar .or a (.cmp .eq (.var i w) (.const e w)))) _ hr' hor
      simp only [enumFold]
      cases hf : enumFold (.var i w) w (some (.ar .or a (.cmp .eq (.var i w) (.const e w)))) es with
      | none => rw [hf] at this; simp at this
      | some b => rw [hf] at this; simpa [List.any_cons, Bool.or_assoc] using this

/-- **Enum membership.**  If the domain assertion of a random enum field (32 bits, signed) holds
    under the returned model, the value read back is one of the declared enumerators. -/
theorem enum_readback (σ : Nat → Nat) (i : Nat) (es : List Int) (b : Bv)
    (hty : (Γ i).w = 32 ∧ (Γ i).s = true ∧ (Γ i).rand = true)
    (hes : ∀ e ∈ es, Spec.InType 32 true e)
    (hb : enumDomain i 32 es = some b) (hh : holds σ b = true) :
    rbEnv Γ ρ σ i ∈ es := by
  have hr : ∀ e ∈ es, e < (2 ^ 32 : Int) := fun e he => inType_lt 32 (by decide) true e (hes e he)
  have := enumFold_eval σ i 32 (by decide) es none false hr rfl
  unfold enumDomain at hb
  rw [hb] at this
  simp only [holds, this, Bool.false_or] at hh
  have hany : (es.any fun e => decide (σ i % 2 ^ 32 = pat 32 e)) = true := by
    cases h : (es.any fun e => decide (σ i % 2 ^ 32 = pat 32 e)) with
    | true => rfl
    | false => rw [h] at hh; simp [b2n] at hh
  obtain ⟨e, he, hpe⟩ := List.any_eq_true.mp hany
  have hpe : σ i % 2 ^ 32 = pat 32 e := by simpa using hpe
  have hp : σ i % 2 ^ 32 < 2 ^ 32 := Nat.mod_lt _ (by decide)
  have : rbEnv Γ ρ σ i = e := by
    simp only [rbEnv, hty.2.2, hty.1, hty.2.1, if_true]
    rw [C18.readBack_spec 32 (by decide) true _ hp, hpe]
    have h1 : Spec.wrap 32 true ((pat 32 e : Nat) : Int) = Spec.wrap 32 true e := by
      unfold Spec.wrap
      have : ((pat 32 e : Nat) : Int) % (2 ^ 32 : Int) = e % (2 ^ 32 : Int) := by
        rw [pat_cast]; exact Int.emod_emod_of_dvd _ (dvd_refl _)
      simp only [this]
    rw [h1]
    exact C18.wrap_of_inType 32 (by decide) true e (hes e he)
  rw [this]; exact he

/-! ### non-vacuity: a concrete mixed-sign system meets the hypotheses and has a model -/

def exΓ : Nat → FieldTy := fun i =>
  match i with
  | 0 => ⟨4, false, true⟩    -- a : rand_bit_t(4)
  | 1 => ⟨4, true, true⟩     -- b : rand_int_t(4)
  | _ => ⟨4, false, false⟩   -- c : bit_t(4)
def exρ : Nat → Int := fun _ => 0
/-- `a < b + 1` ; `if_then(c == 0): a in rangelist(1, (3,5))` -/
def exStmts : List Stmt :=
  [ .expr (.bin .lt (.fld 0) (.bin .add (.fld 1) (.lit 1 true 32))),
    .ifThen (.bin .eq (.fld 2) (.lit 0 true 32))
      (.cons (.expr (mkIn (.fld 0) [.range (.lit 3 true 32) (.lit 5 true 32), .single (.lit 1 true 32)])) .nil) ]
def exσ : Nat → Nat := fun i => match i with | 0 => 3 | 1 => 4 | _ => 0

example : (hardFormulas exΓ exρ exStmts).all (fun f => holds exσ f) = true := by decide +kernel
example : exStmts.all (fun s => sholds exΓ (rbEnv exΓ exρ exσ) s) = true := by decide +kernel

/-! ### rand sets -/

open Pyvsc.RandSets in
/-- **The rand sets partition the fields.**  For every list of top-level statements, the live rand
    sets built for a call have pairwise disjoint field lists: a random field is a solve target of
    at most one set, so the sets can be solved one after the other without sharing a variable. -/
theorem randsets_disjoint (tops : List Stmt) (marks : List (Nat × Nat × Nat)) (extra : List (Nat × List Nat)) :
    ∀ i j a b, i ≠ j → live (build tops marks extra).sets i a → live (build tops marks extra).sets j b →
      ∀ f, f ∈ a.fields → f ∉ b.fields :=
  (build_inv tops marks extra).disj

open Pyvsc.RandSets in
theorem mem_randSets (st : St) (rs : RandSet) (h : rs ∈ randSets st) :
    (∃ i, live st.sets i rs) ∨ rs = st.noref := by
  unfold randSets at h
  rcases List.mem_append.mp h with h | h
  · left
    obtain ⟨o, ho, he⟩ := List.mem_filterMap.mp h
    simp only [id] at he; subst he
    obtain ⟨i, hi⟩ := List.getElem?_of_mem ho
    exact ⟨i, hi⟩
  · right
    split at h
    · simp at h
    · simpa using h

open Pyvsc.RandSets in
/-- **Every statement stays inside its rand set.**  A statement recorded in a rand set mentions only
    fields of that set (and a statement in the field-less set mentions none): solving the sets
    separately solves the whole system. -/
theorem randsets_closed (tops : List Stmt) (marks : List (Nat × Nat × Nat)) (extra : List (Nat × List Nat)) :
    ∀ rs ∈ randSets (build tops marks extra), ∀ c ∈ rs.hard, ∀ f ∈ sRefs c.2, f ∈ rs.fields := by
  intro rs hrs c hc f hf
  have inv := build_inv tops marks extra
  rcases mem_randSets _ _ hrs with ⟨i, hi⟩ | rfl
  · exact inv.closed i rs hi c hc f hf
  · rw [inv.noref c hc] at hf; simp at hf

end Pyvsc.C01
