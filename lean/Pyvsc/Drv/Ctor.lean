import Lean.Data.Json
import Pyvsc.Model.Ctor
/-! driver op `t.ctor`: run a history of API calls with fault positions on the stack model -/
open Lean
namespace Pyvsc.DrvCtor
open Pyvsc.Ctor

partial def bodyOf (j : Json) : Except String Body := do
  let a ← j.getArr?
  let rec go (l : List Json) : Except String Body :=
    match l with
    | [] => pure .nil
    | x :: rest =>
      match x with
      | Json.str "s" => do pure (.stmt (← go rest))
      | Json.str "raise" => pure .raise
      | _ => do
        let inner ← bodyOf (← x.getObjVal? "block")
        pure (.block inner (← go rest))
  go a.toList

def faultOf : String → Fault
  | "pre" => .pre | "unsat" => .unsat | "internal" => .internal | "post" => .post | "analysis" => .analysis | _ => .none

def jStacks (s : Stacks) : Json :=
  Json.arr ((#[s.scope, s.exprs, s.foreachS, s.srcinfo, s.exprMode, s.rawMode, s.overrides, (if s.staleVars then 1 else 0)] : Array Nat).map
    fun n => Json.num (JsonNumber.fromNat n))

def handle (op : String) (j : Json) : Except String Json := do
  if op != "t.ctor" then throw s!"unknown op {op}"
  let ops ← (← j.getObjVal? "ops").getArr?
  let mut st : Stacks := {}
  let mut outs : Array Json := #[]
  for o in ops do
    let k ← (← o.getObjVal? "op").getStr?
    let step ← match k with
      | "construct" => do
          let bs ← (← (← o.getObjVal? "blocks").getArr?).toList.mapM bodyOf
          pure (Op.construct ((← o.getObjVal? "init").getBool?.toOption.getD false) bs)
      | "randomize" => do
          pure (Op.randomize (faultOf ((← o.getObjVal? "fault").getStr?.toOption.getD "none")) ((o.getObjVal? "n").toOption.bind (·.getNat?.toOption) |>.getD 0))
      | "with" => do
          pure (Op.randomizeWith (← bodyOf (← o.getObjVal? "body")) (faultOf ((← o.getObjVal? "fault").getStr?.toOption.getD "none"))
            ((o.getObjVal? "n").toOption.bind (·.getNat?.toOption) |>.getD 0))
      | _ => throw s!"unknown ctor op {k}"
    let (st', r) := Ctor.step st step
    st := st'
    outs := outs.push (Json.mkObj [("stacks", jStacks st), ("raised", Json.bool r)])
  pure (Json.arr outs)

end Pyvsc.DrvCtor
