import Lean.Data.Json
import Pyvsc.Model.Ctor
import Pyvsc.Model.Override
/-! driver op `t.ctor`: run a history of API calls with fault positions on the stack model -/
open Lean
namespace Pyvsc.DrvCtor
open Pyvsc.Ctor

partial def bodyOf (j : Json) : Except String Body := do
  let a ← j.getArr?
  let rec go (l : List Json) : Except String Body :=
    match l with
    | [] => pure .nil
    | x :: rest =>
      match x with
      | Json.str "s" => do pure (.stmt (← go rest))
      | Json.str "raise" => pure .raise
      | _ => do
        let inner ← bodyOf (← x.getObjVal? "block")
        pure (.block inner (← go rest))
  go a.toList

def faultOf : String → Fault
  | "pre" => .pre | "unsat" => .unsat | "internal" => .internal | "post" => .post | "analysis" => .analysis | _ => .none

def jStacks (s : Stacks) : Json :=
  Json.arr ((#[s.scope, s.exprs, s.foreachS, s.srcinfo, s.exprMode, s.rawMode, s.overrides, (if s.staleVars then 1 else 0)] : Array Nat).map
    fun n => Json.num (JsonNumber.fromNat n))

/-! driver op `t.rollback`: the statement tree of an object as read from the implementation before a
    call; answer: the tree after a complete call of the model (`Stmt.call`), its clean flag, and the
    replacement tags in use during the call -/
open Pyvsc.Ovr in
mutual
  partial def stmtOf (j : Json) : Except String Stmt := do
    match ← (← j.getObjVal? "k").getStr? with
    | "atom" => pure (.atom 0)
    | "x" => do pure (.expandable (← stmtsOf (← (← j.getObjVal? "b").getArr?).toList))
    | "scope" => do pure (.scope (← stmtsOf (← (← j.getObjVal? "b").getArr?).toList))
    | "ovr" => do pure (.override (← stmtOf (← j.getObjVal? "orig")) 0 (← (← j.getObjVal? "d").getNat?))
    | k => throw s!"unknown statement kind {k}"
  partial def stmtsOf (l : List Json) : Except String Stmts :=
    match l with
    | [] => pure .nil
    | x :: r => do pure (.cons (← stmtOf x) (← stmtsOf r))
end

open Pyvsc.Ovr in
mutual
  partial def jStmt : Stmt → Json
    | .atom _ => Json.mkObj [("k", Json.str "atom")]
    | .expandable b => Json.mkObj [("k", Json.str "x"), ("b", Json.arr (jStmts b).toArray)]
    | .scope b => Json.mkObj [("k", Json.str "scope"), ("b", Json.arr (jStmts b).toArray)]
    | .override o _ d => Json.mkObj [("k", Json.str "ovr"), ("orig", jStmt o), ("d", Json.num (d : Nat))]
  partial def jStmts : Stmts → List Json
    | .nil => []
    | .cons s r => jStmt s :: jStmts r
end

open Pyvsc.Ovr in
def handleRollback (j : Json) : Except String Json := do
  let t ← stmtOf (← j.getObjVal? "tree")
  pure (Json.mkObj [("clean", Json.bool t.clean), ("after", jStmt (t.call 1)),
    ("in_call_active", Json.num ((t.expand 1).active.length : Nat)),
    ("in_call_fresh", Json.bool ((t.expand 1).active.all (· == 1)))])

def handle (op : String) (j : Json) : Except String Json := do
  if op == "t.rollback" then return ← handleRollback j
  if op != "t.ctor" then throw s!"unknown op {op}"
  let ops ← (← j.getObjVal? "ops").getArr?
  let mut st : Stacks := {}
  let mut outs : Array Json := #[]
  for o in ops do
    let k ← (← o.getObjVal? "op").getStr?
    let step ← match k with
      | "construct" => do
          let bs ← (← (← o.getObjVal? "blocks").getArr?).toList.mapM bodyOf
          pure (Op.construct ((← o.getObjVal? "init").getBool?.toOption.getD false) bs)
      | "randomize" => do
          pure (Op.randomize (faultOf ((← o.getObjVal? "fault").getStr?.toOption.getD "none")) ((o.getObjVal? "n").toOption.bind (·.getNat?.toOption) |>.getD 0))
      | "with" => do
          pure (Op.randomizeWith (← bodyOf (← o.getObjVal? "body")) (faultOf ((← o.getObjVal? "fault").getStr?.toOption.getD "none"))
            ((o.getObjVal? "n").toOption.bind (·.getNat?.toOption) |>.getD 0))
      | _ => throw s!"unknown ctor op {k}"
    let (st', r) := Ctor.step st step
    st := st'
    outs := outs.push (Json.mkObj [("stacks", jStacks st), ("raised", Json.bool r)])
  pure (Json.arr outs)

end Pyvsc.DrvCtor
