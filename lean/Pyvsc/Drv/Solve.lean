import Lean.Data.Json
import Pyvsc.Model.Values
import Pyvsc.Model.Expr
import Pyvsc.Model.RandSets
import Pyvsc.Model.Solve
import Pyvsc.Model.Bounds
import Pyvsc.Model.Dist
import Pyvsc.Spec.Sem
import Pyvsc.Spec.Values
/-!
# Driver side of the solver-path correspondence (ops `z.*`)

`z.call`: one `randomize` call.  Input: the fields with their types and current values, the
top-level statements of the enabled blocks in visit order (class blocks, then inline), and —
per rand set, in order — what the harness recorded on the real library: the swizzle candidate
terms per group and the solver's answers.  Output: the model's rand sets, lowered formulas, the
run of the solve loop over the recorded answers, validity of every answer under the Lean
bit-vector semantics, the read-back values, and the verdict of the reference semantics
(statements on the final values; exhaustive satisfiability and the exact greedy soft reference
on small domains).
-/
open Lean

namespace Pyvsc.DrvSolve
open Pyvsc.Bv Pyvsc.Expr Pyvsc.Sem Pyvsc.RandSets Pyvsc.Solve

def jInt (v : Int) : Json := Json.num (JsonNumber.fromInt v)
def jNat (v : Nat) : Json := Json.num (JsonNumber.fromNat v)
def getI (j : Json) (k : String) : Except String Int := do (← j.getObjVal? k).getInt?
def getN (j : Json) (k : String) : Except String Nat := do
  let v ← getI j k
  if v < 0 then throw s!"negative {k}" else pure v.toNat
def getB (j : Json) (k : String) : Except String Bool := do (← j.getObjVal? k).getBool?
def getS (j : Json) (k : String) : Except String String := do (← j.getObjVal? k).getStr?
def getA (j : Json) (k : String) : Except String (List Json) := do
  pure (← (← j.getObjVal? k).getArr?).toList
def getOpt (j : Json) (k : String) : Option Json :=
  match j.getObjVal? k with
  | .ok Json.null => none
  | .ok v => some v
  | .error _ => none

def binOpOf : String → Except String BinOp
  | "eq" => pure .eq | "ne" => pure .ne | "gt" => pure .gt | "ge" => pure .ge | "lt" => pure .lt
  | "le" => pure .le | "add" => pure .add | "sub" => pure .sub | "div" => pure .div | "mul" => pure .mul
  | "mod" => pure .mod | "and" => pure .and | "or" => pure .or | "sll" => pure .sll | "srl" => pure .srl
  | "xor" => pure .xor
  | s => throw s!"unknown binop {s}"

/-- what Python's operator dispatch needs to know about a field: the facade class family
    (`bit`, `int`, `enum`) and whether it is the `rand_` subclass -/
structure FKind where
  kind : String
  declRand : Bool

def mirror : BinOp → BinOp
  | .lt => .gt | .gt => .lt | .le => .ge | .ge => .le | op => op

/-- facade elaboration of an expression (`types.py`): an `int` is a signed 32-bit literal,
    `rangelist(...)` stores its arguments in reverse order.  Python evaluates a comparison whose
    right operand's class is a proper subclass of the left operand's class (`bit_t` vs
    `rand_bit_t`, ...) through the *reflected* method of the right operand, so `nonrand < rand`
    between two plain fields of one family is built as `rand > nonrand`. -/
partial def exprOf (fk : Array FKind) (j : Json) (refsMode : Bool := false) : Except String Expr := do
  let exprOf := fun (x : Json) => exprOf fk x refsMode
  let k ← getS j "k"
  match k with
  | "int" => do
      -- `to_expr(int)`: 32-bit signed unless the value needs more bits (`bit_length() + 1`)
      let v ← getI j "v"
      let w := if -(2 ^ 31 : Int) ≤ v ∧ v < (2 ^ 31 : Int) then 32 else Nat.log2 v.natAbs + 2
      pure (.lit v true w)
  | "lit" => pure (.lit (← getI j "v") (← getB j "s") (← getN j "w"))
  | "enumlit" => pure (.lit (← getI j "v") true 32)      -- `EnumInfo.e2e`: a signed 32-bit literal
  | "fld" => pure (.fld (← getN j "i"))
  | "bin" => do
      let op ← binOpOf (← getS j "op")
      let l ← exprOf (← j.getObjVal? "l")
      let r ← exprOf (← j.getObjVal? "r")
      -- an element reached through a list subscript is an expression object, not a field object: the
      -- reflected-operand rule of Python does not apply to it
      let viaIdx := fun (x : Json) => (x.getObjVal? "viaIndex").toOption.bind (·.getBool?.toOption) |>.getD false
      let lj ← j.getObjVal? "l"
      let rj ← j.getObjVal? "r"
      match op.isCmp && !viaIdx lj && !viaIdx rj, l, r with
      | true, .fld a, .fld b =>
        match fk[a]?, fk[b]? with
        | some ka, some kb =>
          if !ka.declRand && kb.declRand && ka.kind == kb.kind then pure (.bin (mirror op) r l)
          else pure (.bin op l r)
        | _, _ => pure (.bin op l r)
      | _, _, _ => pure (.bin op l r)
  | "not" => pure (.not (← exprOf (← j.getObjVal? "e")))
  | "psel" => pure (.psel (← exprOf (← j.getObjVal? "e")) (← getN j "hi") (← getN j "lo"))
  | "dynx" => do
      -- a reference to a dynamic block used as a term: `ExprDynRefModel.build` = conjunction of the block's
      -- statements (expression statements of width 1; the harness substitutes the block of the class by name)
      let es ← (← getA j "es").mapM exprOf
      match es with
      | [] => pure (.reset (.lit 1 false 1))
      | e :: rest => pure (.reset (rest.foldl (fun acc x => .bin .and acc x) e))
  | "in" | "notin" => do
      let lhs ← exprOf (← j.getObjVal? "e")
      let items ← (← getA j "rl").mapM fun r => do
        match getOpt r "single" with
        | some s => pure (RangeItem.single (← exprOf s))
        | none => pure (RangeItem.range (← exprOf (← r.getObjVal? "lo")) (← exprOf (← r.getObjVal? "hi")))
      -- (`refsMode`: the expression as far as the fields it mentions go — the left-hand side of a
      -- membership test in an empty range list is mentioned although it contributes no term)
      let e := if refsMode && items.isEmpty then .reset (.bin .eq lhs lhs) else mkIn lhs items.reverse
      pure (if k == "in" then e else .not e)
  | _ => throw s!"unknown expr kind {k}"

def scopeOf (ss : List Stmt) : Stmt := ss.foldr .cons .nil

partial def stmtOf (fk : Array FKind) (j : Json) (refsMode : Bool := false) : Except String Stmt := do
  let stmtOf := fun (x : Json) => stmtOf fk x refsMode
  let exprOf := fun (x : Json) => exprOf fk x refsMode
  let k ← getS j "k"
  match k with
  | "expr" => pure (.expr (← exprOf (← j.getObjVal? "e")))
  | "soft" => pure (.soft (← exprOf (← j.getObjVal? "e")))
  | "unique" => pure (.unique (← (← getA j "es").mapM exprOf))
  | "implies" => pure (.implies (← exprOf (← j.getObjVal? "c")) (scopeOf (← (← getA j "b").mapM stmtOf)))
  | "if" => do
      let c ← exprOf (← j.getObjVal? "c")
      let t := scopeOf (← (← getA j "t").mapM stmtOf)
      let elifs ← (← getA j "elifs").mapM fun e => do
        pure ((← exprOf (← e.getObjVal? "c")), scopeOf (← (← getA e "t").mapM stmtOf))
      let els ← match getOpt j "else" with
        | some e => do pure (some (scopeOf (← (← e.getArr?).toList.mapM stmtOf)))
        | none => pure none
      -- `else_if` / `else_then` hang off the innermost false branch
      let tail : Option Stmt := elifs.foldr (fun (ct : Expr × Stmt) (acc : Option Stmt) =>
        match acc with
        | some f => some (.ifElse ct.1 ct.2 f)
        | none => some (.ifThen ct.1 ct.2)) els
      match tail with
      | some f => pure (.ifElse c t f)
      | none => pure (.ifThen c t)
  | _ => throw s!"unknown stmt kind {k}"

def cmpOpOf : String → Option CmpOp
  | "eq" => some .eq | "ne" => some .ne | "ult" => some .ult | "ulte" => some .ulte | "ugt" => some .ugt
  | "ugte" => some .ugte | "slt" => some .slt | "slte" => some .slte | "sgt" => some .sgt | "sgte" => some .sgte
  | _ => none
def arOpOf : String → Option ArOp
  | "add" => some .add | "sub" => some .sub | "mul" => some .mul | "udiv" => some .udiv | "urem" => some .urem
  | "and" => some .and | "or" => some .or | "xor" => some .xor | "sll" => some .sll | "srl" => some .srl
  | _ => none

partial def bvOf (j : Json) : Except String Bv := do
  let a ← j.getArr?
  let hd ← (a[0]?.getD Json.null).getStr?
  let arg (k : Nat) : Except String Json := match a[k]? with | some x => pure x | none => throw "bv arity"
  let argN (k : Nat) : Except String Nat := do
    let v ← (← arg k).getInt?
    if v < 0 then throw "negative" else pure v.toNat
  match hd with
  | "const" => pure (.const (← (← arg 1).getInt?) (← argN 2))
  | "var" => pure (.var (← argN 1) (← argN 2))
  | "uext" => pure (.uext (← bvOf (← arg 1)) (← argN 2))
  | "sext" => pure (.sext (← bvOf (← arg 1)) (← argN 2))
  | "slice" => pure (.slice (← bvOf (← arg 1)) (← argN 2) (← argN 3))
  | "not" => pure (.not (← bvOf (← arg 1)))
  | "implies" => pure (.implies (← bvOf (← arg 1)) (← bvOf (← arg 2)))
  | "cond" => pure (.cond (← bvOf (← arg 1)) (← bvOf (← arg 2)) (← bvOf (← arg 3)))
  | op =>
    match cmpOpOf op, arOpOf op with
    | some c, _ => pure (.cmp c (← bvOf (← arg 1)) (← bvOf (← arg 2)))
    | _, some c => pure (.ar c (← bvOf (← arg 1)) (← bvOf (← arg 2)))
    | _, _ => throw s!"unknown bv op {op}"

structure Field where
  name : String
  ty : FieldTy
  val : Int
  enums : Option (List Int)

def envΓ (fs : Array Field) : Nat → FieldTy := fun i =>
  match fs[i]? with | some f => f.ty | none => ⟨1, false, false⟩
def envρ (vals : Array Int) : Nat → Int := fun i => vals[i]?.getD 0

def fieldOf (j : Json) : Except String Field := do
  let enums ← match getOpt j "enums" with
    | some e => do pure (some (← (← e.getArr?).toList.mapM (·.getInt?)))
    | none => pure none
  pure ⟨← getS j "name", ⟨← getN j "w", ← getB j "s", ← getB j "rand"⟩, ← getI j "val", enums⟩

def fkOf (j : Json) : Except String (Array FKind) := do
  let fs ← getA j "fields"
  let l ← fs.mapM fun f => do
    let kind := match getOpt f "enums" with
      | some _ => "enum"
      | none => if (getB f "s").toOption.getD false then "int" else "bit"
    let dr := match getB f "declRand" with | .ok b => b | .error _ => (getB f "rand").toOption.getD false
    pure (⟨kind, dr⟩ : FKind)
  pure l.toArray

/-! `EnumFieldModel.build` (model side): the domain assertion -/
def enumFold (v : Bv) (w : Nat) : Option Bv → List Int → Option Bv
  | acc, [] => acc
  | none, e :: es => enumFold v w (some (.cmp .eq v (.const e w))) es
  | some c, e :: es => enumFold v w (some (.ar .or c (.cmp .eq v (.const e w)))) es

def sigmaOf (pairs : List (Nat × Nat)) : Nat → Nat := fun i =>
  match pairs.find? (fun p => p.1 == i) with | some p => p.2 | none => 0

def ansOf (j : Json) : Except String (Ans (List (Nat × Nat))) := do
  match j with
  | Json.str _ => pure .unsat
  | _ =>
    let ps ← (← getA j "sat").mapM fun p => do
      let a ← p.getArr?
      let i ← (a[0]?.getD Json.null).getInt?
      let v ← (a[1]?.getD Json.null).getInt?
      pure (i.toNat, v.toNat)
    pure (.sat ps)

/-- all assignments of the given random fields, as value environments, when the space has at
    most `2^limit` points -/
def enumEnvs (fs : Array Field) (vals : Array Int) (rfields : List Nat) (limit : Nat) : Option (List (Array Int)) :=
  let bits := (rfields.map fun i => (envΓ fs i).w).sum
  if bits > limit then none
  else
    some <| rfields.foldl (fun (envs : List (Array Int)) i =>
      let ty := envΓ fs i
      envs.flatMap fun env =>
        (List.range (2 ^ ty.w)).map fun p =>
          env.setIfInBounds i (Pyvsc.Spec.wrap ty.w ty.s (p : Int))) [vals]

def enumOk (fs : Array Field) (env : Array Int) (rfields : List Nat) : Bool :=
  rfields.all fun i =>
    match fs[i]? with
    | some f => match f.enums with
      | some es => es.contains (env[i]?.getD 0)
      | none => true
    | none => true

def jList (f : α → Json) (l : List α) : Json := Json.arr (l.map f).toArray

/-! ### bounds and swizzle candidates -/

open Pyvsc.Bounds in
/-- recover the `in` structure from the node `mkIn` builds -/
partial def decodeIn (lhsOut : Option Expr) : Expr → Option (Expr × List RangeItem)
  | .bin .or acc t =>
      match decodeIn lhsOut acc, decodeIn lhsOut t with
      | some (l, a), some (_, b) => some (l, a ++ b)
      | _, _ => none
  | .bin .eq l e => some (l, [RangeItem.single e])
  | .bin .and (.bin .ge l lo) (.bin .le _ hi) => some (l, [RangeItem.range lo hi])
  | _ => none

open Pyvsc.Bounds in
def btopOf : Stmt → BTop
  | .expr (.reset e) => match decodeIn none e with
      | some (l, items) => .inn l items
      | none => .other
  | .expr (.bin op l r) => .cmp op l r
  | _ => .other

structure DrawSt where
  rest : List (Int × Int × Int)
  ok : Bool := true
  used : Nat := 0

/-- consume the next recorded draw; it must have been requested with the bounds the model expects -/
def draw (d : DrawSt) (lo hi : Int) : Int × DrawSt :=
  let (a, b) := if hi < lo then (hi, lo) else (lo, hi)
  match d.rest with
  | [] => (a, { d with ok := false })
  | (x, y, r) :: rest => (r, { rest := rest, ok := d.ok && x == a && y == b && a ≤ r && r ≤ b, used := d.used + 1 })

def popAt (l : List α) (i : Nat) : Option α × List α := (l[i]?, l.eraseIdx i)

open Pyvsc.Bounds in
/-- `swizzle_field_l`: candidate expressions of one group in the order they are tried -/
def swizzleGroup (doms : Array RL) (fields : List Nat) (d : DrawSt)
    (fty : Nat → FieldTy := fun _ => ⟨1, false, false⟩)
    (rsDists : List (Nat × Nat) := []) (distDefs : Array (List (Int × Option Int × Nat)) := #[]) : List Expr × DrawSt := Id.run do
  let mut fl := fields
  let mut d := d
  let mut nodes : List Expr := []
  for _ in [0:4] do
    if fl.isEmpty then break
    let (idx, d1) := draw d 0 ((fl.length : Int) - 1)
    d := d1
    let (fo, rest) := popAt fl idx.toNat
    fl := rest
    match fo with
    | none => pure ()
    | some f =>
      let mine := (rsDists.filter fun p => p.1 == f).map (·.2)
      let dm := doms.getD f []
      if !mine.isEmpty then
        -- dist branch of `swizzle_field`
        let (did, d2) := if mine.length > 1 then
            let (k, d2) := draw d 0 ((mine.length : Int) - 1)
            (mine.getD k.toNat 0, d2)
          else (mine.getD 0 0, d)
        d := d2
        let ws := distDefs.getD did []
        let wl := Pyvsc.Dist.weightList (ws.map fun x => x.2.2)
        let total := (ws.map fun x => x.2.2).sum
        let (sv, d3) := draw d 1 total
        d := d3
        match Pyvsc.Dist.nextTarget wl sv with
        | some ti =>
          match ws[ti]? with
          | some (lo, some hi, _) =>
            let (v, d4) := draw d lo hi
            d := d4
            nodes := nodes ++ [Expr.bin .eq (.fld f) (.lit v (fty f).s (fty f).w)]
          | some (lo, none, _) => nodes := nodes ++ [Expr.bin .eq (.fld f) (.lit lo (fty f).s (fty f).w)]
          | none => pure ()
        | none => pure ()
      else if !isEmpty dm then
        let (tr, d2) := if dm.length > 1 then
            let (k, d2) := draw d 0 ((dm.length : Int) - 1)
            (dm.getD k.toNat (0, 0), d2)
          else (dm.getD 0 (0, 0), d)
        d := d2
        if tr.1 == tr.2 then
          nodes := nodes ++ [Expr.bin .eq (.fld f) (.lit tr.1 false 32)]
        else
          let maxval := max tr.1.natAbs tr.2.natAbs
          let dw := bitLength maxval
          let (bp, d3) := draw d tr.1 tr.2
          d := d3
          nodes := nodes ++ swizzleExprs f bp dw
  let mut order : List Expr := []
  while !nodes.isEmpty do
    let (idx, d1) := draw d 0 ((nodes.length : Int) - 1)
    d := d1
    let (no, rest) := popAt nodes idx.toNat
    nodes := rest
    match no with
    | some n => order := order ++ [n]
    | none => nodes := []
  return (order, d)

/-- maximal sub-expressions of `e` that depend on no random field -/
def nonRandParts (Γ : Nat → FieldTy) : Expr → List Expr
  | e@(.bin _ l r) => if Bounds.isNonRand Γ e then [e] else nonRandParts Γ l ++ nonRandParts Γ r
  | e@(.not x) => if Bounds.isNonRand Γ e then [e] else nonRandParts Γ x
  | e@(.psel x _ _) => if Bounds.isNonRand Γ e then [e] else nonRandParts Γ x
  | e@(.reset x) => if Bounds.isNonRand Γ e then [e] else nonRandParts Γ x
  | e => if Bounds.isNonRand Γ e then [e] else []

def stmtExprs : Stmt → List Expr
  | .expr e => [e]
  | .soft e => [e]
  | .unique es => es
  | .nil => []
  | .cons s r => stmtExprs s ++ stmtExprs r
  | .ifThen c t => c :: stmtExprs t
  | .ifElse c t f => c :: (stmtExprs t ++ stmtExprs f)
  | .implies c b => c :: stmtExprs b

/-- does bound inference, which evaluates non-random operands on Python integers, see another value
    than the solver, which evaluates them as bit-vectors of their own width and signedness?  (the
    region of known finding F21) -/
def pyDiverges (Γ : Nat → FieldTy) (ρ : Nat → Int) (ss : List Stmt) : Bool :=
  ss.any fun s => (stmtExprs s).any fun e => (nonRandParts Γ e).any fun p =>
    match Bounds.pyEval ρ p with
    | some v => v != Sem.rd (Expr.signed Γ p) (Sem.cw Γ p 0) (Sem.sval Γ ρ p 0)
    | none => true

def runCall (fields : Array Field) (tops : List Stmt) (recs : List Json) (limit : Nat)
    (implFinal : Option (Array Int)) (allF : List Nat) (boundTops : List Stmt := [])
    (draws : Option (List (Int × Int × Int)) := none) (orderPairs : List (Nat × Nat) := [])
    (implBounds : Option (Array Bounds.RL) := none)
    (marks : List (Nat × Nat × Nat) := []) (distDefsE : Array (List (Expr × Option Expr × Expr)) := #[])
    (extraRefs : List (Nat × List Nat) := []) (implHoles : List Nat := [])
    (semTops : Option (Array Int → Except String (List Stmt)) := none) : Except String Json := do
  let Γ := envΓ fields
  let vals0 : Array Int := fields.map (·.val)
  let vn : Nat → String := fun i => match fields[i]? with | some f => f.name | none => s!"?{i}"
  let st := RandSets.build tops marks extraRefs
  let rsl := RandSets.randSets st
  let dropped := (List.range tops.length).filter fun k => !(rsl.any fun rs => rs.hard.any (fun c => c.1 == k) )
      && (match tops[k]? with | some (.soft _) => false | _ => true)
  -- inferred ranges (VariableBoundVisitor) over the enabled blocks, then the draws of the call
  let btops := (if boundTops.isEmpty then tops else boundTops).map btopOf
  let initDoms : Array Bounds.RL := fields.map fun f => match f.enums with
    | some es => Bounds.initEnum es
    | none => Bounds.initScalar f.ty.w f.ty.s
  let bst := Bounds.process Γ (envρ vals0) initDoms btops
  let mut dst : DrawSt := ⟨draws.getD [], true, 0⟩
  -- dist definitions with their weights and bounds evaluated on the non-random values
  let distDefs : Array (List (Int × Option Int × Nat)) := distDefsE.map fun ws => ws.map fun x =>
    ((Bounds.pyEval (envρ vals0) x.1).getD 0, x.2.1.bind (Bounds.pyEval (envρ vals0)),
     ((Bounds.pyEval (envρ vals0) x.2.2).getD 0).toNat)
  -- `DistConstraintBuilder.build`: one discarded `next_target_range` draw per dist statement
  for ws in distDefs do
    -- (after repair: no draw when every weight is zero)
    if (ws.map fun x => x.2.2).sum ≥ 1 then
      let (_, d1) := draw dst 1 ((ws.map fun x => x.2.2).sum : Nat)
      dst := d1
  let mut unconVals : List (Nat × Int) := []
  for i in (RandSets.unconstrained allF st).filter fun i => (Γ i).rand do
    let dm := bst.doms.getD i []
    if dm.length == 1 then
      let r0 := dm.getD 0 (0, 0)
      let (r, d1) := draw dst r0.1 r0.2
      dst := d1
      unconVals := unconVals ++ [(i, r)]
    else
      let (kk, d1) := draw dst 0 ((dm.length : Int) - 1)
      dst := d1
      unconVals := unconVals ++ [(i, (dm.getD kk.toNat (0, 0)).1)]
  let mut vals := vals0
  let mut outs : Array Json := #[]
  let mut k := 0
  for rs in rsl do
    let ρ := envρ vals0
    -- swizzle candidates the model expects, from the recorded draws
    let groupsF : List (List Nat) := match RandSets.orderGroups rs.fields orderPairs with
      | some gs => gs
      | none => [rs.fields.filter fun i => (Γ i).rand]
    let mut candsJ : List Json := []
    let drawsBefore := dst.used
    if draws.isSome && (recs[k]?.map fun r => (getA r "answers").toOption.map (·.length) |>.getD 0).getD 0 > 1 then
      for g in groupsF do
        if !g.isEmpty then
          let (es, d1) := swizzleGroup bst.doms g dst Γ rs.dists distDefs
          dst := d1
          candsJ := candsJ ++ [jList (fun e => Json.str (toSexp vn (lower Γ ρ e 0))) es]
    let drawsUsed := dst.used - drawsBefore
    let pre : List Bv := rs.fields.filterMap fun i =>
      match fields[i]? with
      | some f => if f.ty.rand then (match f.enums with
          | some es => enumFold (.var i f.ty.w) f.ty.w none es
          | none => none) else none
      | none => none
    -- `semTops`: statements whose terms are built when their rand set is (the sum of a list reads the
    -- list's size at that moment); `tops` then only decides which fields a statement mentions
    let hardC : List (Nat × Stmt) ← match semTops with
      | some f => do
          let ts ← f vals
          pure (rs.hard.map fun c => (c.1, (ts[c.1]?).getD c.2))
      | none => pure rs.hard
    let hardS := hardC.map (·.2)
    let hard := hardS.filterMap (lowerStmt Γ ρ false)
    let softE := RandSets.sortDesc rs.soft
    let soft := softE.filterMap fun s => lowerStmt Γ ρ true (RandSets.softStmt s)
    -- recorded side
    let rec? := recs[k]?
    let (groups, answers) ← match rec? with
      | some r => do
          let gs ← (← getA r "groups").mapM fun g => do pure (← (← g.getArr?).toList.mapM bvOf)
          let as ← (← getA r "answers").mapM ansOf
          pure (gs, as)
      | none => pure ([], [])
    let res := solve pre hard soft (groups.map some) answers
    -- validity of every consumed answer under the Lean bit-vector semantics
    let rfields := rs.fields.filter fun i => (Γ i).rand
    let bits := (rfields.map fun i => (Γ i).w).sum
    let mut badSat : List Nat := []
    let mut badUnsat : List Nat := []
    let mut unsatChecked := 0
    let mut qi := 0
    for (q, a) in res.log do
      match a with
      | .sat ps =>
        let σ := sigmaOf ps
        if !(q.all fun f => holds σ f) then badSat := badSat ++ [qi]
      | .unsat =>
        if bits ≤ limit then
          unsatChecked := unsatChecked + 1
          -- enumerate all patterns of the random fields
          let sigmas := rfields.foldl (fun (acc : List (List (Nat × Nat))) i =>
            acc.flatMap fun s => (List.range (2 ^ (Γ i).w)).map fun p => (i, p) :: s) [[]]
          if sigmas.any fun s => q.all fun f => holds (sigmaOf s) f then badUnsat := badUnsat ++ [qi]
      qi := qi + 1
    -- read-back
    let mut final : List (Nat × Int) := []
    match res.out with
    | .ok ps =>
      for i in rfields do
        let ty := Γ i
        let v := Pyvsc.Values.readBack ty.w ty.s (sigmaOf ps i % 2 ^ ty.w)
        vals := vals.setIfInBounds i v
        final := final ++ [(i, v)]
    | _ => pure ()
    -- reference semantics on the final values of this rand set
    -- `implHoles`: fields the implementation no longer has after the call (elements a random-size
    -- list was grown by and does not expose); the model's own read-back stands in for them
    let valsO := match implFinal with
      | some a => implHoles.foldl (fun (acc : Array Int) i => acc.setIfInBounds i (vals.getD i 0)) a
      | none => vals
    let ρf := envρ valsO
    let refFail := (hardC.filter fun c => !(sholds Γ ρf c.2)).map (·.1)
    let typeFail := rfields.filter fun i =>
      !(decide (Pyvsc.Spec.InType (Γ i).w (Γ i).s (ρf i))) || !(enumOk fields valsO [i])
    -- exhaustive reference: satisfiability and the exact greedy soft set
    let envs := enumEnvs fields vals0 rfields limit
    -- C14: every value a random field takes in some solution must lie in the range inferred for it
    let judged : Array Bounds.RL := match implBounds with | some b => b | none => bst.doms
    let starved : List Json := match envs with
      | none => []
      | some es =>
        let sols := es.filter fun env => enumOk fields env rfields && hardS.all fun s => sholds Γ (envρ env) s
        rfields.flatMap fun i =>
          let vs := (sols.map fun env => env[i]?.getD 0).eraseDups
          let dm := judged.getD i []
          ((vs.filter fun v => !(dm.any fun r => r.1 ≤ v && v ≤ r.2)).take 4).map fun v => Json.arr #[Json.str (vn i), jInt v]
    let (specSat, softRef, softHonoured) := match envs with
      | none => (Json.null, Json.null, Json.null)
      | some es =>
        let sols := es.filter fun env => enumOk fields env rfields && hardS.all fun s => sholds Γ (envρ env) s
        let softS := softE.map RandSets.softStmt
        -- greedy by priority on the reference semantics
        let (keptIdx, solsK) := (List.range softS.length).foldl (fun (acc : List Nat × List (Array Int)) idx =>
          match softS[idx]? with
          | some s =>
            let nxt := acc.2.filter fun env => mholds Γ (envρ env) true s
            if nxt.isEmpty then acc else (acc.1 ++ [idx], nxt)
          | none => acc) ([], sols)
        let honoured := match res.out with
          | .ok _ => keptIdx.all fun idx => match softS[idx]? with
              | some s => mholds Γ ρf true s
              | none => true
          | _ => true
        let _ := solsK
        (Json.bool (!sols.isEmpty), jList jNat keptIdx, Json.bool honoured)
    let keptIdx := (List.range soft.length).filter fun idx =>
      match soft[idx]? with | some f => res.softKept.any (fun g => toSexp vn g == toSexp vn f) | none => false
    outs := outs.push <| Json.mkObj [
      ("fields", jList (fun i => Json.str (vn i)) rs.fields),
      ("pre", jList (fun f => Json.str (toSexp vn f)) pre),
      ("hard", jList (fun f => Json.str (toSexp vn f)) hard),
      ("hardIds", jList jNat (rs.hard.map (·.1))),
      ("soft", jList (fun f => Json.str (toSexp vn f)) soft),
      ("softPrio", jList jNat (softE.map (·.prio))),
      ("outcome", Json.str (match res.out with | .ok _ => "ok" | .solveFailure => "solveFailure" | .internalError => "internalError")),
      ("log", jList (fun (p : List Bv × Ans (List (Nat × Nat))) =>
          Json.arr #[jNat p.1.length, Json.str (match p.2 with | .sat _ => "sat" | .unsat => "unsat")]) res.log),
      ("softKept", jList jNat keptIdx),
      ("nSoftRejected", jNat res.softRejected.length),
      ("badSat", jList jNat badSat), ("badUnsat", jList jNat badUnsat), ("unsatChecked", jNat unsatChecked),
      ("final", jList (fun (p : Nat × Int) => Json.arr #[Json.str (vn p.1), jInt p.2]) final),
      ("refFail", jList jNat refFail), ("typeFail", jList (fun i => Json.str (vn i)) typeFail),
      ("specSat", specSat), ("softRef", softRef), ("softHonoured", softHonoured),
      ("bits", jNat bits), ("starved", Json.arr starved.toArray), ("pyDiverges", Json.bool (pyDiverges Γ (envρ vals0) hardS)),
      ("cands", Json.arr candsJ.toArray), ("drawsOk", Json.bool dst.ok), ("drawsUsed", jNat drawsUsed),
      ("order", match RandSets.orderGroups rs.fields orderPairs with
        | some gs => jList (fun g => jList (fun i => Json.str (vn i)) g) gs
        | none => Json.null)]
    k := k + 1
  let valsO := match implFinal with
    | some a => implHoles.foldl (fun (acc : Array Int) i => acc.setIfInBounds i (vals.getD i 0)) a
    | none => vals
  let droppedFail := dropped.filter fun k => match tops[k]? with
    | some s => !(sholds Γ (envρ valsO) s)
    | none => false
  let nonrandChanged := allF.filter fun i => !(Γ i).rand && valsO[i]?.getD 0 != vals0[i]?.getD 0
  pure <| Json.mkObj [
    ("bounds", Json.mkObj ((List.range fields.size).map fun i => (vn i, jList (fun (r : Int × Int) => Json.arr #[jInt r.1, jInt r.2]) (bst.doms.getD i [])))),
    ("boundsErr", Json.bool bst.err),
    ("unconVals", jList (fun (p : Nat × Int) => Json.arr #[Json.str (vn p.1), jInt p.2]) unconVals),
    ("drawsOkAll", Json.bool dst.ok), ("drawsLeft", jNat dst.rest.length),
    ("droppedFail", jList jNat droppedFail),
    ("nonrandChanged", jList (fun i => Json.str (vn i)) nonrandChanged),
    ("randsets", Json.arr outs),
    ("unconstrained", jList (fun i => Json.str (vn i)) (RandSets.unconstrained allF st)),
    ("dropped", jList jNat dropped),
    ("err", match st.err with | some e => Json.str e | none => Json.null)]

def handleCall (j : Json) : Except String Json := do
  let fields := (← (← getA j "fields").mapM fieldOf).toArray
  let fk ← fkOf j
  -- a `dist` statement is replaced by the statements of its rewrite; the registration mark sits
  -- after the last of them
  let mut tops : List Stmt := []
  let mut refTops : List Stmt := []     -- the same statements as far as the fields they mention go
  let mut marks : List (Nat × Nat × Nat) := []
  let mut distDefsE : Array (List (Expr × Option Expr × Expr)) := #[]
  for tj in (← getA j "tops") do
    if (getS tj "k").toOption == some "dist" then
      let lhs ← exprOf fk (← tj.getObjVal? "e")
      let ws ← (← getA tj "weights").mapM fun w => do
        let wexp ← exprOf fk (← w.getObjVal? "w")
        match getOpt w "single" with
        | some sgl => pure (⟨← exprOf fk sgl, none, wexp⟩ : Pyvsc.Dist.Weight)
        | none => pure ⟨← exprOf fk (← w.getObjVal? "lo"), some (← exprOf fk (← w.getObjVal? "hi")), wexp⟩
      let ss := Pyvsc.Dist.rewrite lhs ws
      tops := tops ++ ss
      refTops := refTops ++ ss
      match lhs with
      | .fld f => marks := marks ++ [(tops.length - 1, f, distDefsE.size)]
      | _ => pure ()
      distDefsE := distDefsE.push (ws.map fun x => (x.lo, x.hi, x.w))
    else
      tops := tops ++ [← stmtOf fk tj]
      refTops := refTops ++ [← stmtOf fk tj true]
  let recs ← getA j "rec"
  let limit := (getN j "enumLimit").toOption.getD 14
  let implFinal : Option (Array Int) := match getOpt j "implFinal" with
    | some a => (do pure (← (← a.getArr?).toList.mapM (·.getInt?)).toArray : Except String (Array Int)).toOption
    | none => none
  let draws : Option (List (Int × Int × Int)) := match getOpt j "draws" with
    | some d => (do
        let l ← d.getArr?
        l.toList.mapM fun t => do
          let a ← t.getArr?
          pure ((← (a[0]?.getD Json.null).getInt?), (← (a[1]?.getD Json.null).getInt?), (← (a[2]?.getD Json.null).getInt?)) : Except String _).toOption
    | none => none
  let orderPairs : List (Nat × Nat) := match getOpt j "order" with
    | some d => ((do
        let l ← d.getArr?
        l.toList.mapM fun t => do
          let a ← t.getArr?
          pure (((← (a[0]?.getD Json.null).getInt?)).toNat, ((← (a[1]?.getD Json.null).getInt?)).toNat) : Except String _).toOption).getD []
    | none => []
  let implBounds : Option (Array Bounds.RL) := match getOpt j "implBounds" with
    | some b => some (fields.map fun f => match (b.getObjVal? f.name).toOption with
        | some (Json.arr a) => a.toList.filterMap fun r => match r with
            | Json.arr p => match (p[0]?.getD Json.null).getInt?, (p[1]?.getD Json.null).getInt? with
                | .ok x, .ok y => some (x, y)
                | _, _ => none
            | _ => none
        | _ => [])
    | none => none
  -- fields that are part of the call (a free-standing call passes a subset); default: all
  let allF : List Nat := match getOpt j "allF" with
    | some a => ((a.getArr?).toOption.map fun l => l.toList.filterMap fun x => x.getNat?.toOption).getD (List.range fields.size)
    | none => List.range fields.size
  let semTops := tops
  runCall fields refTops recs limit implFinal allF tops draws orderPairs implBounds marks distDefsE
    (semTops := some fun _ => pure semTops)

/-- `z.expr`: value of one expression under an environment, reference and lowered side by side -/
def handleExpr (j : Json) : Except String Json := do
  let fields := (← (← getA j "fields").mapM fieldOf).toArray
  let fk ← fkOf j
  let e ← exprOf fk (← j.getObjVal? "e")
  let W ← getN j "W"
  let Γ := envΓ fields
  let ρ := envρ (fields.map (·.val))
  let vn : Nat → String := fun i => match fields[i]? with | some f => f.name | none => s!"?{i}"
  let t := lower Γ ρ e W
  let σ : Nat → Nat := fun i => pat (Γ i).w (ρ i)
  pure <| Json.mkObj [
    ("sexp", Json.str (toSexp vn t)),
    ("eval", match eval σ t with | some (w, x) => Json.arr #[jNat w, jNat x] | none => Json.str "error"),
    ("cw", jNat (cw Γ e W)), ("sval", jNat (sval Γ ρ e W)),
    ("width", jNat (width Γ e)), ("signed", Json.bool (signed Γ e))]

/-- `z.bv`: evaluate a recorded term under an assignment (kernel sweep of the Boolector semantics) -/
def handleBv (j : Json) : Except String Json := do
  let t ← bvOf (← j.getObjVal? "t")
  let ps ← (← getA j "sigma").mapM fun p => do
    let a ← p.getArr?
    pure (((a[0]?.getD Json.null).getInt?.toOption.getD 0).toNat, ((a[1]?.getD Json.null).getInt?.toOption.getD 0).toNat)
  pure <| match eval (sigmaOf ps) t with
    | some (w, x) => Json.arr #[jNat w, jNat x]
    | none => Json.str "error"

/-- `z.walk`: the weighted walk for every drawn value 1..total -/
def handleWalk (j : Json) : Except String Json := do
  let ws ← (← getA j "ws").mapM fun w => do pure (← w.getInt?).toNat
  let total := ws.sum
  let jo : Option Nat → Json := fun o => match o with | some i => jNat i | none => Json.null
  pure <| Json.mkObj [
    ("weightList", jList (fun (p : Nat × Nat) => Json.arr #[jNat p.1, jNat p.2]) (Pyvsc.Dist.weightList ws)),
    ("next", jList (fun (r : Nat) => jo (Pyvsc.Dist.nextTarget (Pyvsc.Dist.weightList ws) ((r : Int) + 1))) (List.range total)),
    ("select", jList (fun (r : Nat) => jo (Pyvsc.Dist.distselect ws ((r : Int) + 1))) (List.range total))]

def handle (op : String) (j : Json) : Except String Json :=
  match op with
  | "z.walk" => handleWalk j
  | "z.call" => handleCall j
  | "z.expr" => handleExpr j
  | "z.bv" => handleBv j
  | _ => throw s!"unknown op {op}"

end Pyvsc.DrvSolve
