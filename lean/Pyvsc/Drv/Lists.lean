import Pyvsc.Drv.Solve
import Pyvsc.Model.Lists
/-!
# Driver side for list scenarios (op `l.call`): C04

Statements may use list constructs (`elem`, `it`, `idx`, `sum`, `product`, `size`, `inl`, `foreach`,
list arguments of `unique`).  The model elaborates them as `ArrayConstraintBuilder` /
`ForeachRefExpander` / the array expression models do — random-size lists are first grown to the
upper bound inferred for their size (phase 0), foreach bodies are unrolled over all element fields
with the index as a literal and conditions that do not depend on random fields folded (phase 1) —
and hands the resulting scalar-level call to `DrvSolve.runCall`.
-/
open Lean

namespace Pyvsc.DrvLists
open Pyvsc.DrvSolve Pyvsc.Expr Pyvsc.Lists

structure LInfo where
  name : String
  w : Nat
  s : Bool
  rand : Bool
  randsz : Bool
  sizeIdx : Nat
  elems : List Nat          -- field ids of `field_l`, in order
  size : Nat                -- `int(size.get_val())` when expressions are built

structure Env where
  fk : Array FKind
  lists : Array LInfo
  Γ : Nat → FieldTy
  ρ : Nat → Int
  bind : Option (Nat × Nat) := none      -- inside a foreach: (list, index)
  forRefs : Bool := false                -- elaborate for the field references a statement makes (rand sets)
  cur : Option (Nat → Int) := none       -- values at the moment the statement's terms are built

/-- number of elements a sum / product / membership term ranges over: the value of the size field
    when the term is built; for the references a statement makes, every element field -/
def termSize (env : Env) (l : LInfo) : Nat :=
  if env.forRefs then l.elems.length
  else match env.cur with
    | some ρ => if l.randsz then (ρ l.sizeIdx).toNat else l.size
    | none => l.size

def getList (env : Env) (j : Json) : Except String LInfo := do
  let li ← getN j "l"
  match env.lists[li]? with | some l => pure l | none => throw "no such list"

partial def lexprOf (env : Env) (j : Json) : Except String Expr := do
  let k ← getS j "k"
  match k with
  | "it" => match env.bind with
      | some (li, i) => match (env.lists[li]?).bind (fun l => l.elems[i]?) with
          | some f => pure (.fld f)
          | none => throw "it: no element"
      | none => throw "it outside foreach"
  | "idx" => match env.bind with
      | some (_, i) => pure (.lit (i : Int) true 32)       -- ForeachRefExpander: ExprLiteralModel(i, True, 32)
      | none => throw "idx outside foreach"
  | "elem" => do
      let l ← getList env j
      let ie ← lexprOf env (← j.getObjVal? "idx")
      match Bounds.pyEval env.ρ ie with
      | some v =>
        -- Python list indexing: negative indices count from the end of field_l
        let n : Int := l.elems.length
        let v' := if v < 0 then v + n else v
        if 0 ≤ v' ∧ v' < n then
          match l.elems[v'.toNat]? with | some f => pure (.fld f) | none => throw "index"
        else throw "IndexError"
      | none => throw "index expression not evaluable"
  | "sum" => do let l ← getList env j; pure (sumChain l.w l.s (l.elems.take (termSize env l)))
  | "product" => do let l ← getList env j; pure (productChain l.s (l.elems.take (termSize env l)))
  | "size" => do let l ← getList env j; pure (.fld l.sizeIdx)
  | "inl" | "notinl" => do
      let l ← getList env j
      let lhs ← lexprOf env (← j.getObjVal? "e")
      -- a random-size list contributes nothing (`if arr.is_rand_sz: pass`)
      -- (for the references: the left-hand side is mentioned even when the list offers no element)
      let e := if env.forRefs then (if l.elems.isEmpty then .reset (.bin .eq lhs lhs) else inList lhs l.elems)
               else if l.randsz then inRandsz else inList lhs (l.elems.take l.size)
      pure (if k == "inl" then e else .not e)
  | "int" => do
      let v ← getI j "v"
      let w := if -(2 ^ 31 : Int) ≤ v ∧ v < (2 ^ 31 : Int) then 32 else Nat.log2 v.natAbs + 2
      pure (.lit v true w)
  | "lit" => pure (.lit (← getI j "v") (← getB j "s") (← getN j "w"))
  | "fld" => pure (.fld (← getN j "i"))
  | "bin" => do
      let op ← binOpOf (← getS j "op")
      let l ← lexprOf env (← j.getObjVal? "l")
      let r ← lexprOf env (← j.getObjVal? "r")
      -- reflected comparison between two plain scalar members (see DrvSolve.exprOf); list elements and
      -- foreach terms are expr objects, to which it does not apply
      let plain (x : Json) : Bool := (getS x "k").toOption == some "fld"
      match op.isCmp && plain (j.getObjVal? "l" |>.toOption |>.getD Json.null) && plain (j.getObjVal? "r" |>.toOption |>.getD Json.null), l, r with
      | true, .fld a, .fld b =>
        match env.fk[a]?, env.fk[b]? with
        | some ka, some kb =>
          if !ka.declRand && kb.declRand && ka.kind == kb.kind then pure (.bin (mirror op) r l) else pure (.bin op l r)
        | _, _ => pure (.bin op l r)
      | _, _, _ => pure (.bin op l r)
  | "not" => pure (.not (← lexprOf env (← j.getObjVal? "e")))
  | "psel" => pure (.psel (← lexprOf env (← j.getObjVal? "e")) (← getN j "hi") (← getN j "lo"))
  | "in" | "notin" => do
      let lhs ← lexprOf env (← j.getObjVal? "e")
      let items ← (← getA j "rl").mapM fun r => do
        match getOpt r "single" with
        | some s => pure (RangeItem.single (← lexprOf env s))
        | none => pure (RangeItem.range (← lexprOf env (← r.getObjVal? "lo")) (← lexprOf env (← r.getObjVal? "hi")))
      let e := mkIn lhs items.reverse
      pure (if k == "in" then e else .not e)
  | _ => throw s!"unknown list expr kind {k}"

/-- `XExprEvaluator`: value of a condition that depends on no random field (`none` = X) -/
def foldCond (env : Env) (c : Expr) : Option Bool :=
  -- the elements of a list hold the bit pattern of their value: a signed field is read as the value
  -- its bits stand for (`XExprEvaluator.visit_scalar_field`)
  let ρs : Nat → Int := fun i =>
    let t := env.Γ i
    let v := env.ρ i
    if t.s && t.w > 0 && v ≥ (2 : Int) ^ (t.w - 1) then v - (2 : Int) ^ t.w else v
  if Bounds.isNonRand env.Γ c then (Bounds.pyEval ρs c).map (· != 0) else none

mutual
/-- statements a (possibly list-level) statement stands for; `inForeach` = inside an expansion,
    where conditions that do not depend on random fields are folded -/
partial def lstmtsOf (env : Env) (inForeach : Bool) (j : Json) : Except String (List Stmt) := do
  let k ← getS j "k"
  match k with
  | "expr" => pure [.expr (← lexprOf env (← j.getObjVal? "e"))]
  | "soft" => pure [.soft (← lexprOf env (← j.getObjVal? "e"))]
  | "unique" => do
      let es ← (← getA j "es").mapM fun e => do
        if (getS e "k").toOption == some "lref" then
          let l ← getList env e
          pure (l.elems.map Expr.fld)              -- `_add_list_elems`: every element field
        else pure [← lexprOf env e]
      pure [.unique es.flatten]
  | "unique_vec" => do
      let ls ← (← getA j "ls").mapM fun x => do
        match env.lists[(← x.getNat?)]? with | some l => pure l | none => throw "no such list"
      if env.forRefs then
        -- the statement mentions every element of every vector, vector by vector
        pure [.unique (ls.flatMap fun l => l.elems.map Expr.fld)]
      else
        match ls with
        | [] => throw "unique_vec: no vectors"
        | l0 :: _ =>
          if ls.any fun l => l.elems.length != l0.elems.length then throw "unique_vec: sizes differ"
          else match uniqueVec (ls.map (·.elems)) with
            | some e => pure [.expr e]
            | none => pure [.expr (.reset (.lit 0 false 1))]      -- empty vectors are equal to each other
  | "implies" => do
      let body ← lbody env inForeach (← getA j "b")
      pure [.implies (← lexprOf env (← j.getObjVal? "c")) (Lists.scopeOf body)]
  | "if" => do
      let c ← lexprOf env (← j.getObjVal? "c")
      let elifs ← getA j "elifs"
      let els := getOpt j "else"
      -- the chain if / else_if* / else as nested if-else
      let rec chain (conds : List (Json × List Json)) : Except String (List Stmt) :=
        match conds with
        | [] => match els with
            | some e => do lbody env inForeach (← e.getArr?).toList
            | none => pure []
        | (cj, tj) :: rest => do
            let ce ← lexprOf env cj
            match (if inForeach then foldCond env ce else none) with
            | some true => lbody env inForeach tj
            | some false => chain rest
            | none => do
                let t ← lbody env inForeach tj
                let hasMore := !rest.isEmpty || els.isSome
                if hasMore then
                  let f ← chain rest
                  -- a folded-away tail leaves its statements in place of the else branch
                  let fS : Stmt := match f with
                    | [s@(.ifThen _ _)] => if rest.isEmpty then Lists.scopeOf f else s
                    | [s@(.ifElse _ _ _)] => if rest.isEmpty then Lists.scopeOf f else s
                    | _ => Lists.scopeOf f
                  pure [.ifElse ce (Lists.scopeOf t) fS]
                else pure [.ifThen ce (Lists.scopeOf t)]
      let _ := c
      let conds ← do
        let first := ((← j.getObjVal? "c"), (← getA j "t"))
        let others ← elifs.mapM fun e => do pure ((← e.getObjVal? "c"), (← getA e "t"))
        pure (first :: others)
      chain conds
  | "foreach" => do
      let l ← getList env j
      let li ← getN j "l"
      let body ← getA j "body"
      let mut out : List Stmt := []
      for i in List.range l.elems.length do
        let env' := { env with bind := some (li, i) }
        out := out ++ (← lbody env' true body)
      pure out
  | _ => throw s!"unknown list stmt kind {k}"

partial def lbody (env : Env) (inForeach : Bool) (js : List Json) : Except String (List Stmt) := do
  let mut out : List Stmt := []
  for s in js do
    let ss ← lstmtsOf env inForeach s
    -- a nested foreach is one scope statement of its parent; everything else contributes itself
    if (getS s "k").toOption == some "foreach" then out := out ++ [Lists.scopeOf ss] else out := out ++ ss
  pure out
end

def handleCall (j : Json) : Except String Json := do
  let scalars := (← (← getA j "fields").mapM fieldOf).toArray
  let fk0 ← fkOf j
  let listsJ ← getA j "lists"
  let mut fields := scalars
  let mut fk := fk0
  let mut lists : Array LInfo := #[]
  let mut growth : List Json := []
  for lj in listsJ do
    let name ← getS lj "name"
    let w ← getN lj "w"; let s ← getB lj "s"; let rand ← getB lj "rand"; let randsz ← getB lj "randsz"
    let vals ← (← getA lj "vals").mapM (·.getInt?)
    let size ← getN lj "size"
    let sizeIdx := fields.size
    fields := fields.push ⟨name ++ ".size", ⟨32, false, randsz⟩, size, none⟩
    fk := fk.push ⟨"bit", randsz⟩
    let mut elems : List Nat := []
    let mut kk := 0
    for v in vals do
      elems := elems ++ [fields.size]
      fields := fields.push ⟨name ++ "." ++ name ++ "[" ++ toString kk ++ "]", ⟨w, s, rand⟩, v, none⟩
      fk := fk.push ⟨if s then "int" else "bit", rand⟩
      kk := kk + 1
    lists := lists.push ⟨name, w, s, rand, randsz, sizeIdx, elems, size⟩
  let Γ0 := envΓ fields
  let ρ0 := envρ (fields.map (·.val))
  -- phase 0 for random-size lists: grow to the upper bound inferred for the size field from the
  -- statements as they stand (no foreach expansion, statements over subscripts skipped)
  let anyRandsz := lists.any (·.randsz)
  if anyRandsz then
    let env0 : Env := { fk := fk, lists := lists, Γ := Γ0, ρ := ρ0 }
    let mut tops0 : List Stmt := []
    for tj in (← getA j "tops") do
      if (getS tj "k").toOption != some "foreach" then
        match lstmtsOf env0 false tj with
        | .ok ss => tops0 := tops0 ++ ss
        | .error _ => pure ()
    let initDoms : Array Bounds.RL := fields.map fun f => Bounds.initScalar f.ty.w f.ty.s
    let bst := Bounds.process Γ0 ρ0 initDoms (tops0.map btopOf)
    let mut lists2 : Array LInfo := #[]
    for l in lists do
      if l.randsz then
        let dm := bst.doms.getD l.sizeIdx []
        let maxSize := match dm.getLast? with | some r => r.2.toNat | none => 0
        growth := growth ++ [Json.mkObj [("list", Json.str l.name), ("max", jNat maxSize), ("have", jNat l.elems.length)]]
        let mut elems := l.elems
        let mut kk := l.elems.length
        while kk < maxSize ∧ kk < 4096 do
          elems := elems ++ [fields.size]
          fields := fields.push ⟨l.name ++ "." ++ l.name ++ "[" ++ toString kk ++ "]", ⟨l.w, l.s, l.rand⟩, 0, none⟩
          fk := fk.push ⟨if l.s then "int" else "bit", l.rand⟩
          kk := kk + 1
        -- `add_field` ends with `_set_size(len(field_l))`: once the list was grown, its size field holds the
        -- grown length until the solver assigns it
        if elems.length > l.elems.length then
          fields := fields.modify l.sizeIdx fun f => { f with val := (elems.length : Int) }
        lists2 := lists2.push { l with elems := elems }
      else lists2 := lists2.push l
    lists := lists2
  let Γ := envΓ fields
  let ρ := envρ (fields.map (·.val))
  let env : Env := { fk := fk, lists := lists, Γ := Γ, ρ := ρ }
  -- `tops`: the statements as far as the fields they mention go (sums and membership tests mention
  -- every element field); `semTops`: the statements with their terms built at a given moment
  let topsJ ← getA j "tops"
  let envR : Env := { env with forRefs := true }
  let mut tops : List Stmt := []
  for tj in topsJ do
    tops := tops ++ (← lstmtsOf envR false tj)
  let semTops : Array Int → Except String (List Stmt) := fun vals => do
    let envS : Env := { env with cur := some (envρ vals) }
    let mut out : List Stmt := []
    for tj in topsJ do
      out := out ++ (← lstmtsOf envS false tj)
    pure out
  let recs ← getA j "rec"
  let limit := (getN j "enumLimit").toOption.getD 13
  let implFinal : Option (Array Int) := match getOpt j "implFinal" with
    | some a => (do pure (← (← a.getArr?).toList.mapM (·.getInt?)).toArray : Except String (Array Int)).toOption
    | none => none
  let implHoles := ((getA j "implHoles").toOption.getD []).filterMap fun x => x.getNat?.toOption
  -- fields in the order the implementation visits them: scalars, then per list its size and all its elements
  let allF := List.range scalars.size ++ lists.toList.flatMap fun l => l.sizeIdx :: l.elems
  -- solve_order directives, already expanded by the harness to (before, after) pairs of scalar field ids (a list stands for
  -- its size field and its elements: `ExpandSolveOrderVisitor`)
  let orderPairs : List (Nat × Nat) := match getOpt j "order" with
    | some d => ((do
        let l ← d.getArr?
        l.toList.mapM fun t => do
          let a ← t.getArr?
          pure (((← (a[0]?.getD Json.null).getInt?)).toNat, ((← (a[1]?.getD Json.null).getInt?)).toNat) : Except String _).toOption).getD []
    | none => []
  let r ← runCall fields tops recs limit implFinal allF (implHoles := implHoles) (semTops := some semTops) (orderPairs := orderPairs)
  pure <| Json.mkObj [("call", r), ("names", jList (fun (f : Field) => Json.str f.name) fields.toList),
    ("growth", Json.arr growth.toArray),
    ("lists", jList (fun (l : LInfo) => Json.mkObj [("name", Json.str l.name), ("nelems", jNat l.elems.length), ("size", jNat l.size)]) lists.toList)]

/-- `l.spec`: the property text evaluated directly: the statements, elaborated over exactly the
    elements the list exposes (given values, `len` = number of values), must hold in the reference
    semantics -/
def handleSpec (j : Json) : Except String Json := do
  let scalars := (← (← getA j "fields").mapM fieldOf).toArray
  let fk0 ← fkOf j
  let mut fields := scalars
  let mut fk := fk0
  let mut lists : Array LInfo := #[]
  for lj in (← getA j "lists") do
    let name ← getS lj "name"
    let w ← getN lj "w"; let s ← getB lj "s"; let rand ← getB lj "rand"
    let vals ← (← getA lj "vals").mapM (·.getInt?)
    let sizeIdx := fields.size
    fields := fields.push ⟨name ++ ".size", ⟨32, false, false⟩, vals.length, none⟩
    fk := fk.push ⟨"bit", false⟩
    let mut elems : List Nat := []
    for v in vals do
      elems := elems ++ [fields.size]
      fields := fields.push ⟨name, ⟨w, s, rand⟩, v, none⟩
      fk := fk.push ⟨if s then "int" else "bit", rand⟩
    -- membership in a list is judged over the exposed elements whatever the list kind
    lists := lists.push ⟨name, w, s, rand, false, sizeIdx, elems, vals.length⟩
  let Γ := envΓ fields
  let ρ := envρ (fields.map (·.val))
  let env : Env := { fk := fk, lists := lists, Γ := Γ, ρ := ρ }
  let mut fails : List Nat := []
  let mut errs : List String := []
  let mut k := 0
  for tj in (← getA j "tops") do
    match lstmtsOf env false tj with
    | .ok ss => if !(ss.all fun st => Sem.sholds Γ ρ st) then fails := fails ++ [k]
    | .error e => errs := errs ++ [s!"{k}:{e}"]
    k := k + 1
  pure <| Json.mkObj [("specFail", jList jNat fails), ("specErr", jList Json.str errs)]

def handle (op : String) (j : Json) : Except String Json :=
  match op with
  | "l.spec" => handleSpec j
  | "l.call" => handleCall j
  | _ => throw s!"unknown op {op}"

end Pyvsc.DrvLists
