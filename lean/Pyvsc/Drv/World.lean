import Pyvsc.Drv.Solve
import Pyvsc.Model.World
import Pyvsc.Model.Paths
/-!
# Driver side for object-tree scenarios (ops `o.*`): C03, C07, C08, C17

`o.call`: classes (with inheritance, scalar members, sub-objects, constraint blocks), the history
of `rand_mode` and `constraint_mode` toggles, one call (`target.randomize()` or
`randomize_with`), the values before the call and what the harness recorded.  The model
instantiates the tree, resolves member paths, computes used-as-random flags, the enabled
most-derived blocks of every random composite in visit order, the callback order, and hands the
flattened call to `DrvSolve.runCall`.
-/
open Lean

namespace Pyvsc.DrvWorld
open Pyvsc.DrvSolve Pyvsc.World Pyvsc.Expr

structure ClsDef where
  base : Option String
  fields : List (String × Json)
  subs : List (String × String × Bool)
  blocks : List (String × Json)
  olists : List (String × String × Nat × Bool × Bool) := []     -- lists of objects: name, element class, length, random, random size

inductive Member
  | scalar (decl : Json)
  | sub (cls : String) (rand : Bool)
  | olist (cls : String) (n : Nat) (rand : Bool) (randsz : Bool)

structure ScalarInfo where
  path : List String
  decl : Json
  owner : Nat

structure ObjInfo where
  path : List String
  cls : String
  kids : List (String × Bool × Nat)     -- name, isObject, id

structure Inst where
  scalars : Array ScalarInfo := #[]
  objs : Array ObjInfo := #[]

def clsOf (classes : Json) (c : String) : Except String ClsDef := do
  let j ← classes.getObjVal? c
  let base := match getOpt j "base" with | some b => b.getStr?.toOption | none => none
  let fields ← (← getA j "fields").mapM fun f => do pure ((← getS f "name"), f)
  let subs ← (← getA j "subs").mapM fun f => do pure ((← getS f "name"), (← getS f "cls"), (← getB f "rand"))
  let blocks ← (← getA j "blocks").mapM fun b => do pure ((← getS b "name"), (← b.getObjVal? "stmts"))
  let olists ← ((getA j "olists").toOption.getD []).mapM fun f => do
    pure ((← getS f "name"), (← getS f "cls"), (← getN f "n"), (← getB f "rand"), (getB f "randsz").toOption.getD false)
  pure ⟨base, fields, subs, blocks, olists⟩

/-- class chain, base first -/
partial def chain (classes : Json) (c : String) (fuel : Nat) : Except String (List ClsDef) := do
  if fuel = 0 then throw "inheritance too deep"
  let d ← clsOf classes c
  match d.base with
  | some b => do pure ((← chain classes b (fuel - 1)) ++ [d])
  | none => pure [d]

/-- members as `dir()` + `getattr` see them: most-derived definition per name, sorted by name -/
def membersOf (ch : List ClsDef) : List (String × Member) :=
  let defs : List (String × Member) := ch.flatMap fun d =>
    d.fields.map (fun f => (f.1, Member.scalar f.2)) ++ d.subs.map (fun s => (s.1, Member.sub s.2.1 s.2.2)) ++
    d.olists.map (fun l => (l.1, Member.olist l.2.1 l.2.2.1 l.2.2.2.1 l.2.2.2.2))
  sortByName (mostDerived defs)

def blocksOf (ch : List ClsDef) : List (String × Json) :=
  sortByName (mostDerived (ch.flatMap (·.blocks)))

/-- instantiate class `c` at `path`; returns the node -/
partial def instantiate (classes : Json) (c : String) (path : List String) (declRand : Bool)
    (randMode : List String → Bool → Bool) (fuel : Nat) : StateT Inst (Except String) Node := do
  if fuel = 0 then throw "object tree too deep"
  let ch ← chain classes c 8
  let oid := (← get).objs.size
  modify fun st => { st with objs := st.objs.push ⟨path, c, []⟩ }
  let mut kids : List (String × Bool × Nat) := []
  let mut nodes : List Node := []
  for (name, m) in membersOf ch do
    match m with
    | .scalar decl =>
      let sid := (← get).scalars.size
      modify fun st => { st with scalars := st.scalars.push ⟨path ++ [name], decl, oid⟩ }
      let dr := (getB decl "rand").toOption.getD false
      nodes := nodes ++ [Node.scalar sid dr (randMode (path ++ [name]) dr)]
      kids := kids ++ [(name, false, sid)]
    | .sub cls r =>
      let cid := (← get).objs.size
      let n ← instantiate classes cls (path ++ [name]) r randMode (fuel - 1)
      nodes := nodes ++ [n]
      kids := kids ++ [(name, true, cid)]
    | .olist cls len r rsz =>
      -- `FieldArrayModel` of objects: a composite holding the `size` scalar (never random for a list of
      -- fixed length) and the element objects `name[k]`, which take the list's declared randomness
      let lid := (← get).objs.size
      let lpath := path ++ [name]
      modify fun st => { st with objs := st.objs.push ⟨lpath, "", []⟩ }
      let szId := (← get).scalars.size
      -- a list of random size: its size field is a solver variable in every call that reaches the list
      -- (`pre_randomize` forces the flag), bounded by the number of objects the user put in (`array_sz_c`)
      let szDecl := Json.mkObj [("name", Json.str "size"), ("w", jNat 32), ("s", Json.bool false), ("rand", Json.bool rsz),
        ("val", jNat len), ("enums", Json.null), ("forced", Json.bool rsz), ("cap", jNat len)]
      modify fun st => { st with scalars := st.scalars.push ⟨lpath ++ ["size"], szDecl, lid⟩ }
      let mut lkids : List (String × Bool × Nat) := [("size", false, szId)]
      let mut lnodes : List Node := [Node.scalar szId rsz rsz]
      for k in List.range len do
        let en := name ++ "[" ++ toString k ++ "]"
        let eid := (← get).objs.size
        let n ← instantiate classes cls (lpath ++ [en]) r randMode (fuel - 1)
        lnodes := lnodes ++ [n]
        lkids := lkids ++ [(en, true, eid)]
      modify fun st => { st with objs := st.objs.modify lid fun o => { o with kids := lkids } }
      nodes := nodes ++ [Node.obj lid r (randMode lpath r) (lnodes.foldr Node.seq Node.nil)]
      kids := kids ++ [(name, true, lid)]
  modify fun st => { st with objs := st.objs.modify oid fun o => { o with kids := kids } }
  pure (Node.obj oid declRand (randMode path declRand) (nodes.foldr Node.seq Node.nil))

/-- member path relative to object `o` -> scalar id (`field_id_m` chain) -/
def resolve (inst : Inst) (o : Nat) : List String → Except String Nat
  | [] => throw "empty path"
  | [n] => match inst.objs[o]? with
      | some oi => match oi.kids.find? (fun k => k.1 == n && !k.2.1) with
          | some k => pure k.2.2
          | none => throw s!"no scalar member {n}"
      | none => throw "no object"
  | n :: rest => match inst.objs[o]? with
      | some oi => match oi.kids.find? (fun k => k.1 == n && k.2.1) with
          | some k => resolve inst k.2.2 rest
          | none => throw s!"no object member {n}"
      | none => throw "no object"

def resolveObj (inst : Inst) (o : Nat) : List String → Except String Nat
  | [] => pure o
  | n :: rest => match inst.objs[o]? with
      | some oi => match oi.kids.find? (fun k => k.1 == n && k.2.1) with
          | some k => resolveObj inst k.2.2 rest
          | none => throw s!"no object member {n}"
      | none => throw "no object"

/-- the member tables of the instantiated tree as a `Paths.Members` shape (what `Model/Paths.lean` and the
    theorems `Paths.*_inj` are about) -/
partial def shapeOf (inst : Inst) (o : Nat) : Paths.Members :=
  match inst.objs[o]? with
  | none => .nil
  | some oi => oi.kids.foldr (fun k acc =>
      Paths.Members.cons k.1 (if k.2.1 then Paths.Shape.obj (shapeOf inst k.2.2) else Paths.Shape.scalar) acc) .nil

/-- path resolution by the model (`Paths.Members.resolve`) from the root object -/
def modelResolve (inst : Inst) (full : List String) : Option Nat :=
  match full with
  | [] => none
  | p :: ps => (shapeOf inst 0).resolve 0 p ps

/-- the driver's table walk and the model's `resolve` must name the same scalar -/
def resolveChecked (inst : Inst) (o : Nat) (ps : List String) : Except String Nat := do
  let i ← resolve inst o ps
  let opath := match inst.objs[o]? with | some oi => oi.path | none => []
  match modelResolve inst (opath ++ ps) with
  | some i' => if i' = i then pure i else throw s!"path model mismatch: {opath ++ ps} -> driver {i}, model {i'}"
  | none => throw s!"path model mismatch: {opath ++ ps} -> driver {i}, model none"

/-- rewrite `{"k":"fld","path":[...]}` into `{"k":"fld","i":id}` -/
partial def resolveJson (inst : Inst) (o : Nat) (j : Json) : Except String Json := do
  match j with
  | Json.arr a => pure (Json.arr (← a.mapM (resolveJson inst o)))
  | Json.obj _ =>
    match j.getObjVal? "k", j.getObjVal? "path" with
    | .ok (Json.str "fld"), .ok p => do
        let ps ← (← p.getArr?).toList.mapM (·.getStr?)
        pure (Json.mkObj [("k", Json.str "fld"), ("i", jNat (← resolveChecked inst o ps)),
          -- reached through a list (an element by subscript, or the list's `size`): an expression object
          ("viaIndex", Json.bool ((ps.any fun c => c.endsWith "]") || ps.getLast? == some "size"))])
    | _, _ =>
      match j with
      | Json.obj kvs => do
          let l ← kvs.toList.mapM fun (k, v) => do pure (k, (← resolveJson inst o v))
          pure (Json.mkObj l)
      | _ => pure j
  | _ => pure j

/-- substitute the iterator and the index of a foreach over a list of objects for element `k` -/
partial def substIter (listPath : List String) (en : String) (k : Nat) (j : Json) : Json :=
  match j with
  | Json.arr a => Json.arr (a.map (substIter listPath en k))
  | Json.obj kvs =>
    match j.getObjVal? "k" with
    | .ok (Json.str "itfld") =>
        let f := (j.getObjVal? "name").toOption.bind (·.getStr?.toOption) |>.getD "?"
        Json.mkObj [("k", Json.str "fld"), ("path", Json.arr ((listPath ++ [en, f]).map Json.str).toArray)]
    | .ok (Json.str "idx") =>
        -- `ForeachRefExpander`: the index becomes `ExprLiteralModel(i, True, 32)`
        Json.mkObj [("k", Json.str "lit"), ("v", jNat k), ("s", Json.bool true), ("w", jNat 32)]
    | .ok (Json.str "foreach_o") =>
        -- a nested foreach over a list of the current element: its list path is completed, its body belongs to
        -- the inner loop (iterator and index there are the inner ones)
        let rel := (j.getObjVal? "rel").toOption.bind (·.getBool?.toOption) |>.getD false
        if rel then
          let inner := ((j.getObjVal? "list").toOption.bind (·.getArr?.toOption) |>.getD #[]).toList
          Json.mkObj (kvs.toList.map fun (kk, v) =>
            if kk == "list" then (kk, Json.arr ((listPath ++ [en]).map Json.str ++ inner).toArray)
            else if kk == "rel" then (kk, Json.bool false) else (kk, v))
        else j
    | _ => Json.mkObj (kvs.toList.map fun (kk, v) => (kk, substIter listPath en k v))
  | _ => j

/-- `ArrayConstraintBuilder.visit_constraint_foreach` over a list of objects: the body once per
    element, in order; every other statement stays as it is -/
partial def expandForeachO (stmts : Json) : Except String Json := do
  let mut out : Array Json := #[]
  for sj in (← stmts.getArr?) do
    if (getS sj "k").toOption == some "foreach_o" then
      let lp ← (← getA sj "list").mapM (·.getStr?)
      let n ← getN sj "n"
      let lname := lp.getLast?.getD "?"
      let body ← sj.getObjVal? "body"
      for k in List.range n do
        match substIter lp (lname ++ "[" ++ toString k ++ "]") k body with
        | Json.arr b =>
            -- nested loops of the body are expanded in turn
            match ← expandForeachO (Json.arr b) with
            | Json.arr b' => out := out ++ b'
            | _ => throw "foreach_o body"
        | _ => throw "foreach_o body"
    else out := out.push sj
  pure (Json.arr out)

def findObjNode : Node → Nat → Option Node
  | .scalar _ _ _, _ => none
  | .obj id d m ch, t => if id = t then some (.obj id d m ch) else findObjNode ch t
  | .nil, _ => none
  | .seq h tl, t => match findObjNode h t with | some n => some n | none => findObjNode tl t

def pathStr (p : List String) : String := ".".intercalate p

def handleCall (j : Json) : Except String Json := do
  let classes ← j.getObjVal? "classes"
  let root ← getS j "root"
  -- several top-level instances may exist; histories carry the instance number, and an
  -- instance sees only its own toggles (whenever the other instances were created)
  let me := (getN j "inst").toOption.getD 0
  let rmAll ← (← getA j "rand_mode").mapM fun t => do
    let a ← t.getArr?
    let p ← (← (a[0]?.getD Json.null).getArr?).toList.mapM (·.getStr?)
    pure (((a[2]?.getD (Json.num 0)).getNat?.toOption.getD 0), p, (← (a[1]?.getD Json.null).getBool?))
  let rmHist := (rmAll.filter fun t => t.1 == me).map (·.2)
  let cmAll ← (← getA j "cmode").mapM fun t => do
    let a ← t.getArr?
    let p ← (← (a[0]?.getD Json.null).getArr?).toList.mapM (·.getStr?)
    pure (((a[3]?.getD (Json.num 0)).getNat?.toOption.getD 0), p, (← (a[1]?.getD Json.null).getStr?), (← (a[2]?.getD Json.null).getBool?))
  let cmHist := (cmAll.filter fun t => t.1 == me).map (·.2)
  let randMode : List String → Bool → Bool := fun p dflt =>
    match rmHist.reverse.find? (fun t => t.1 == p) with | some t => t.2 | none => dflt
  let (tree, inst) ← (instantiate classes root [] false randMode 8).run {}
  -- every scalar of the tree: the model's resolve of its path is its id (ids are construction order, depth first)
  for (si, k) in inst.scalars.toList.zipIdx do
    if modelResolve inst si.path != some k then
      throw s!"path model mismatch: scalar {k} at {si.path} resolves to {modelResolve inst si.path}"
  let targetPath ← (← getA j "target").mapM (·.getStr?)
  let tid ← resolveObj inst 0 targetPath
  let tnode ← match findObjNode tree tid with | some n => pure n | none => throw "target not found"
  let (usedS0, usedO) := usedInCall tnode
  -- `FieldArrayModel.pre_randomize`: the size of a random-size list below the target is random in the call
  let forced := fun (sid : Nat) => match inst.scalars[sid]? with
    | some si => (si.decl.getObjVal? "forced").toOption.bind (·.getBool?.toOption) |>.getD false
    | none => false
  -- ... when the list itself is random in the call (after repair of F62: a random-size list inside a non-random
  -- sub-object keeps its size)
  let ownerUsed := fun (sid : Nat) => match inst.scalars[sid]? with
    | some si => (match usedO.find? (fun q => q.1 == si.owner) with | some q => q.2 | none => false)
    | none => false
  let usedS := usedS0.map fun p => if forced p.1 && ownerUsed p.1 then (p.1, true) else p
  let toggles : Toggles ← cmHist.mapM fun (p, b, v) => do pure ((← resolveObj inst 0 p), b, v)
  let valsJ ← j.getObjVal? "values"
  -- fields: every scalar of the tree; random in the call iff used
  let fieldsL ← inst.scalars.toList.mapM fun (si : ScalarInfo) => do
    let ps := pathStr si.path
    let sid := (inst.scalars.toList.findIdx? (fun x => x.path == si.path)).getD 0
    let u := match usedS.find? (fun p => p.1 == sid) with | some p => p.2 | none => false
    let v := (valsJ.getObjVal? ps).toOption.bind (·.getInt?.toOption) |>.getD 0
    let enums ← match getOpt si.decl "enums" with
      | some e => do pure (some (← (← e.getArr?).toList.mapM (·.getInt?)))
      | none => pure none
    pure (⟨ps, ⟨← getN si.decl "w", ← getB si.decl "s", u⟩, v, enums⟩ : Field)
  let fields := fieldsL.toArray
  let fk : Array FKind := inst.scalars.map fun si =>
    let kind := match getOpt si.decl "enums" with
      | some _ => "enum"
      | none => if (getB si.decl "s").toOption.getD false then "int" else "bit"
    ⟨kind, (getB si.decl "rand").toOption.getD false⟩
  -- blocks in visit order: children first, then the object's own enabled blocks if it is random
  let objOrder := objects tnode
  -- post-order by construction: visit_composite_field recurses into fields before its blocks
  let rec post (n : Node) : List Nat :=
    match n with
    | .scalar _ _ _ => []
    | .obj id _ _ ch => post ch ++ [id]
    | .nil => []
    | .seq h t => post h ++ post t
  let mut tops : List Stmt := []
  let mut blockLog : List Json := []
  for oid in post tnode do
    let u := match usedO.find? (fun p => p.1 == oid) with | some p => p.2 | none => false
    match inst.objs[oid]? with
    | none => pure ()
    | some oi =>
      let ch ← if oi.cls == "" then pure [] else chain classes oi.cls 8     -- a list has no blocks of its own
      for (bn, stmts) in blocksOf ch do
        let en := enabled toggles oid bn
        blockLog := blockLog ++ [Json.mkObj [("obj", Json.str (pathStr oi.path)), ("block", Json.str bn),
          ("enabled", Json.bool en), ("active", Json.bool (en && u))]]
        if en && u then
          let rj ← resolveJson inst oid (← expandForeachO stmts)
          let ss ← (← rj.getArr?).toList.mapM (stmtOf fk)
          tops := tops ++ ss
  match getOpt j "inline" with
  | some il => do
      let rj ← resolveJson inst tid il
      tops := tops ++ (← (← rj.getArr?).toList.mapM (stmtOf fk))
  | none => pure ()
  -- `ArrayConstraintBuilder` phase 0: a random-size list of objects cannot grow beyond the objects it holds
  -- (block `array_sz_c`, appended after every other constraint of the call)
  -- The cap is added only when the size bound inferred from the statements of the call (first bounds pass, Python
  -- integers) leaves room above the number of objects held: `if len(f.field_l) < max_size`.
  let initDoms : Array Bounds.RL := fields.map fun f => match f.enums with
    | some es => Bounds.initEnum es
    | none => Bounds.initScalar f.ty.w f.ty.s
  -- `IsNonRandExprVisitor` decides a reference through a list subscript by the *list*: an element field of a list that is
  -- random in the call counts as random here, whatever the field's own declaration
  let viaUsedList : List String → Bool := fun (path : List String) =>
    match path.findIdx? (fun c => c.endsWith "]") with
    | some k =>
        let lp := path.take k
        (match (inst.objs.toList.zipIdx).find? (fun (o : ObjInfo × Nat) => o.1.path == lp) with
         | some o => (match usedO.find? (fun q => q.1 == o.2) with | some q => q.2 | none => false)
         | none => false)
    | none => false
  let fields0 : Array Field := (fields.toList.zip inst.scalars.toList).toArray.map fun (fs : Field × ScalarInfo) =>
    match viaUsedList fs.2.path with
    | true => ({ fs.1 with ty := { fs.1.ty with rand := true } } : Field)
    | false => fs.1
  let bst0 := Bounds.process (envΓ fields0) (envρ (fields.map (·.val))) initDoms (tops.map btopOf)
  for p in usedS do
    if forced p.1 && p.2 then
      match inst.scalars[p.1]? with
      | some si =>
        let cap := (si.decl.getObjVal? "cap").toOption.bind (·.getNat?.toOption) |>.getD 0
        let maxSize : Int := match (bst0.doms.getD p.1 []).getLast? with | some r => r.2 | none => 0
        if (cap : Int) < maxSize then
          tops := tops ++ [Stmt.expr (.bin .le (.fld p.1) (.lit (cap : Int) false 32))]
      | none => pure ()
  let recs ← getA j "rec"
  let limit := (getN j "enumLimit").toOption.getD 13
  let implFinal : Option (Array Int) := match getOpt j "implFinal" with
    | some f => some (inst.scalars.map fun si => (f.getObjVal? (pathStr si.path)).toOption.bind (·.getInt?.toOption) |>.getD 0)
    | none => none
  let allF := scalars tnode
  let r ← runCall fields tops recs limit implFinal allF
  let objPath := fun (oid : Nat) => match inst.objs[oid]? with | some oi => pathStr oi.path | none => "?"
  let _ := objOrder
  pure <| Json.mkObj [
    ("call", r),
    ("used", Json.mkObj (usedS.map fun p => ((match inst.scalars[p.1]? with | some si => pathStr si.path | none => "?"), Json.bool p.2))),
    ("usedObj", Json.mkObj (usedO.map fun p => (objPath p.1, Json.bool p.2))),
    ("callbacks", jList (fun oid => Json.str (objPath oid)) (callbacks usedO)),
    ("blocks", Json.arr blockLog.toArray),
    ("scalars", jList (fun (si : ScalarInfo) => Json.str (pathStr si.path)) inst.scalars.toList)]

def handle (op : String) (j : Json) : Except String Json :=
  match op with
  | "o.call" => handleCall j
  | _ => throw s!"unknown op {op}"

end Pyvsc.DrvWorld
