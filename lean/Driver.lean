import Lean.Data.Json
import Pyvsc.Model.Values
import Pyvsc.Spec.Values
/-!
# pvdrv — line-protocol driver for the executable model

One JSON request per line on stdin (`{"op": "...", ...}`), one JSON answer per line on stdout.
The harness sends the same inputs to the real implementation and compares.
-/
open Lean

namespace Drv

def optInt : Option Int → Json
  | some v => Json.num (JsonNumber.fromInt v)
  | none => Json.str "error"

def jInt (v : Int) : Json := Json.num (JsonNumber.fromInt v)

def getI (j : Json) (k : String) : Except String Int := do
  let v ← j.getObjVal? k
  v.getInt?
def getN (j : Json) (k : String) : Except String Nat := do
  let v ← getI j k
  if v < 0 then throw s!"negative {k}" else pure v.toNat
def getB (j : Json) (k : String) : Except String Bool := do
  let v ← j.getObjVal? k
  v.getBool?
def getS (j : Json) (k : String) : Except String String := do
  let v ← j.getObjVal? k
  v.getStr?
def getA (j : Json) (k : String) : Except String (Array Json) := do
  let v ← j.getObjVal? k
  v.getArr?

open Pyvsc in
def handleValues (op : String) (j : Json) : Except String Json := do
  match op with
  | "v.scalarRW" => do
      let w ← getN j "w"; let s ← getB j "s"; let v ← getI j "v"
      let sp := Spec.wrap w s v
      pure <| Json.mkObj [("model", jInt (Values.scalarRead (Values.scalarWrite w s v))), ("spec", jInt sp),
        ("inType", Json.bool (decide (Spec.InType w s sp)))]
  | "v.listRW" => do
      let w ← getN j "w"; let s ← getB j "s"; let v ← getI j "v"
      let sp := Spec.wrap w s v
      pure <| Json.mkObj [("model", jInt (Values.listRead w s (Values.listWrite w v))), ("spec", jInt sp),
        ("inType", Json.bool (decide (Spec.InType w s sp)))]
  | "v.scalarWrite" => pure <| jInt (Values.scalarWrite (← getN j "w") (← getB j "s") (← getI j "v"))
  | "v.listWrite" => pure <| jInt (Values.listWrite (← getN j "w") (← getI j "v"))
  | "v.listRead" => pure <| jInt (Values.listRead (← getN j "w") (← getB j "s") (← getI j "v"))
  | "v.readBack" => pure <| jInt (Values.readBack (← getN j "w") (← getB j "s") (← getN j "v"))
  | "v.partRead" => pure <| optInt (Values.partRead (← getI j "cur") (← getI j "hi") (← getI j "lo"))
  | "v.bitRead" => pure <| optInt (Values.bitRead (← getI j "cur") (← getI j "k"))
  | "v.partWrite" => pure <| optInt (Values.partWrite (← getI j "cur") (← getI j "hi") (← getI j "lo") (← getI j "val"))
  | "v.bitWrite" => pure <| optInt (Values.bitWrite (← getI j "cur") (← getI j "k") (← getI j "val"))
  | "v.enum" => do
      let ms ← getA j "members"
      let ms ← ms.toList.mapM (fun m => match m with
        | Json.null => pure (none : Option Int)
        | m => do pure (some (← m.getInt?)))
      let vals := Values.enumValues ms 0
      let e2v := (List.range vals.length).map (fun i => optInt (Values.e2v vals i))
      let v2e := vals.map (fun v => match Values.v2e vals v with
        | some i => jInt i | none => Json.str "error")
      pure <| Json.mkObj [("vals", Json.arr (vals.map jInt).toArray), ("e2v", Json.arr e2v.toArray), ("v2e", Json.arr v2e.toArray)]
  | _ => throw s!"unknown op {op}"

def handle (j : Json) : Except String Json := do
  let op ← getS j "op"
  if op.startsWith "v." then handleValues op j
  else throw s!"unknown op {op}"

partial def loop (hin : IO.FS.Stream) (hout : IO.FS.Stream) : IO Unit := do
  let line ← hin.getLine
  if line.isEmpty then return ()
  let t := line.trimAscii.toString
  if t.isEmpty then loop hin hout else
  let out := match Json.parse t with
    | .error e => Json.mkObj [("err", Json.str s!"parse: {e}")]
    | .ok j => match handle j with
      | .ok r => Json.mkObj [("ok", r)]
      | .error e => Json.mkObj [("err", Json.str e)]
  hout.putStrLn out.compress
  hout.flush
  loop hin hout

end Drv

def main : IO Unit := do
  Drv.loop (← IO.getStdin) (← IO.getStdout)
