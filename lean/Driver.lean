import Lean.Data.Json
import Pyvsc.Model.Values
import Pyvsc.Spec.Values
import Pyvsc.Model.Bins
import Pyvsc.Spec.Bins
import Pyvsc.Model.Covergroup
import Pyvsc.Drv.Solve
import Pyvsc.Drv.World
import Pyvsc.Drv.Ctor
import Pyvsc.Drv.Lists
/-!
# pvdrv — line-protocol driver for the executable model

One JSON request per line on stdin (`{"op": "...", ...}`), one JSON answer per line on stdout.
The harness sends the same inputs to the real implementation and compares.
-/
open Lean

namespace Drv

def optInt : Option Int → Json
  | some v => Json.num (JsonNumber.fromInt v)
  | none => Json.str "error"

def jInt (v : Int) : Json := Json.num (JsonNumber.fromInt v)

def getI (j : Json) (k : String) : Except String Int := do
  let v ← j.getObjVal? k
  v.getInt?
def getN (j : Json) (k : String) : Except String Nat := do
  let v ← getI j k
  if v < 0 then throw s!"negative {k}" else pure v.toNat
def getB (j : Json) (k : String) : Except String Bool := do
  let v ← j.getObjVal? k
  v.getBool?
def getS (j : Json) (k : String) : Except String String := do
  let v ← j.getObjVal? k
  v.getStr?
def getA (j : Json) (k : String) : Except String (Array Json) := do
  let v ← j.getObjVal? k
  v.getArr?

open Pyvsc in
def handleValues (op : String) (j : Json) : Except String Json := do
  match op with
  | "v.scalarRW" => do
      let w ← getN j "w"; let s ← getB j "s"; let v ← getI j "v"
      let sp := Spec.wrap w s v
      pure <| Json.mkObj [("model", jInt (Values.scalarRead (Values.scalarWrite w s v))), ("spec", jInt sp),
        ("inType", Json.bool (decide (Spec.InType w s sp)))]
  | "v.listRW" => do
      let w ← getN j "w"; let s ← getB j "s"; let v ← getI j "v"
      let sp := Spec.wrap w s v
      pure <| Json.mkObj [("model", jInt (Values.listRead w s (Values.listWrite w v))), ("spec", jInt sp),
        ("inType", Json.bool (decide (Spec.InType w s sp)))]
  | "v.scalarWrite" => pure <| jInt (Values.scalarWrite (← getN j "w") (← getB j "s") (← getI j "v"))
  | "v.listWrite" => pure <| jInt (Values.listWrite (← getN j "w") (← getI j "v"))
  | "v.listRead" => pure <| jInt (Values.listRead (← getN j "w") (← getB j "s") (← getI j "v"))
  | "v.readBack" => pure <| jInt (Values.readBack (← getN j "w") (← getB j "s") (← getN j "v"))
  | "v.partRead" => pure <| optInt (Values.partRead (← getI j "cur") (← getI j "hi") (← getI j "lo"))
  | "v.bitRead" => pure <| optInt (Values.bitRead (← getI j "cur") (← getI j "k"))
  | "v.partWrite" => pure <| optInt (Values.partWrite (← getI j "cur") (← getI j "hi") (← getI j "lo") (← getI j "val"))
  | "v.partWriteField" => pure <| optInt (Values.partWriteField (← getN j "w") (← getB j "s") (← getI j "cur") (← getI j "hi") (← getI j "lo") (← getI j "val"))
  | "v.bitWriteField" => pure <| optInt (Values.bitWriteField (← getN j "w") (← getB j "s") (← getI j "cur") (← getI j "k") (← getI j "val"))
  | "v.bitWrite" => pure <| optInt (Values.bitWrite (← getI j "cur") (← getI j "k") (← getI j "val"))
  | "v.enum" => do
      let ms ← getA j "members"
      let ms ← ms.toList.mapM (fun m => match m with
        | Json.null => pure (none : Option Int)
        | m => do pure (some (← m.getInt?)))
      let vals := Values.enumValues ms 0
      let e2v := (List.range vals.length).map (fun i => optInt (Values.e2v vals i))
      let v2e := vals.map (fun v => match Values.v2e vals v with
        | some i => jInt i | none => Json.str "error")
      pure <| Json.mkObj [("vals", Json.arr (vals.map jInt).toArray), ("e2v", Json.arr e2v.toArray), ("v2e", Json.arr v2e.toArray)]
  | _ => throw s!"unknown op {op}"

def jNat (v : Nat) : Json := Json.num (JsonNumber.fromNat v)
def jRL (l : Pyvsc.Ranges.RL) : Json := Json.arr (l.map (fun r => Json.arr #[jInt r.1, jInt r.2])).toArray
def jOpt (f : α → Json) : Option α → Json
  | some a => f a
  | none => Json.str "error"

def asRL (j : Json) : Except String Pyvsc.Ranges.RL := do
  let a ← j.getArr?
  a.toList.mapM (fun r => do
    let p ← r.getArr?
    if p.size == 2 then pure ((← p[0]!.getInt?), (← p[1]!.getInt?))
    else if p.size == 1 then let v ← p[0]!.getInt?; pure (v, v)
    else throw "bad range")
def getRL (j : Json) (k : String) : Except String Pyvsc.Ranges.RL := do asRL (← j.getObjVal? k)
def asNatPairs (j : Json) : Except String (List (Nat × Nat)) := do
  let l ← asRL j
  pure (l.map (fun r => (r.1.toNat, r.2.toNat)))

open Pyvsc in
def asPat (j : Json) : Except String Wildcard.Pat := do
  match j.getObjVal? "s" with
  | .ok s => pure (Wildcard.Pat.str (← s.getStr?))
  | .error _ =>
    let vm ← getA j "vm"
    pure (Wildcard.Pat.vm (← vm[0]!.getNat?) (← vm[1]!.getNat?))

open Pyvsc in
def handleRanges (op : String) (j : Json) : Except String Json := do
  match op with
  | "r.compact" => pure <| jRL (Ranges.compact (← getRL j "l"))
  | "r.subtract" => pure <| jOpt jRL (Ranges.subtract (← getRL j "l") (← getRL j "ex"))
  | "r.contains" => pure <| Json.bool (Ranges.contains (← getRL j "l") (← getI j "v"))
  | _ => throw s!"unknown op {op}"

open Pyvsc in
def handleWild (op : String) (j : Json) : Except String Json := do
  match op with
  | "w.str2bin" => do
      let r := Wildcard.str2bin (← getS j "s")
      pure (jOpt (fun (p : Nat × Nat) => Json.arr #[jNat p.1, jNat p.2]) r)
  | "w.expand" => do
      let r := Wildcard.valmask2binlist (← getN j "value") (← getN j "mask")
      pure (jOpt (fun (l : List (Nat × Nat)) => jRL (l.map (fun r => ((r.1 : Int), (r.2 : Int))))) r)
  | "w.arrayRanges" => do
      let ps ← (← getA j "pats").toList.mapM asPat
      pure <| jOpt jRL (Wildcard.wildArrayRanges ps)
  | "w.hit" => do
      let specs ← asNatPairs (← j.getObjVal? "specs")
      pure <| Json.bool (Wildcard.wcHit specs (← getN j "v"))
  | _ => throw s!"unknown op {op}"

open Pyvsc Pyvsc.Bins in
def asBinSpec (exclude : Ranges.RL) (j : Json) : Except String (Option (Option BinM)) := do
  let name ← getS j "name"
  let kind ← getS j "kind"
  match kind with
  | "bin" => pure (buildBin name (← getRL j "ranges") exclude)
  | "bin_array" => pure ((buildBinArray name (← getI j "nbins") (← getRL j "ranges") exclude).map some)
  | "wild" => do
      let ps ← (← getA j "pats").toList.mapM asPat
      match ps.mapM Wildcard.Pat.valmask with
      | none => pure none
      | some specs => pure (some (some (BinM.leaf (Leaf.wild name specs))))
  | "wild_array" => do
      let ps ← (← getA j "pats").toList.mapM asPat
      match Wildcard.wildArrayRanges ps with
      | none => pure none
      | some rl => pure ((buildWildArray name (← getI j "nbins") rl).map some)
  | _ => throw s!"unknown bin kind {kind}"

open Pyvsc Pyvsc.Bins in
def buildCp (j : Json) : Except String (Option Cp) := do
  let ign ← (← getA j "ignore").toList.mapM (fun b => do pure ((← getS b "name"), (← getRL b "ranges")))
  let ill ← (← getA j "illegal").toList.mapM (fun b => do pure ((← getS b "name"), (← getRL b "ranges")))
  let exclRaw : Ranges.RL := (ign.map (·.2)).flatten ++ (ill.map (·.2)).flatten
  let exclude := if exclRaw.isEmpty then [] else Ranges.compact exclRaw
  let ty ← j.getObjVal? "type"
  let tkind ← getS ty "kind"
  let binsJ ← j.getObjVal? "bins"
  let bins : Option (List BinM) ← match binsJ with
    | Json.null =>
      if tkind == "enum" then do
        let vs ← (← getA ty "vals").toList.mapM (fun p => do
          let a ← p.getArr?
          pure ((← a[0]!.getInt?), (← a[1]!.getStr?)))
        pure (buildEnumAuto vs exclude)
      else do
        pure ((buildAuto (← getS j "name") (← getN ty "w") (← getB ty "s") exclude (← getI j "auto_bin_max")).map ([·]))
    | _ => do
      let specs ← (← binsJ.getArr?).toList.mapM (asBinSpec exclude)
      pure (specs.foldr (fun s acc => match s, acc with
        | some (some b), some l => some (b :: l)
        | some none, some l => some l
        | _, _ => none) (some []))
  let mkX (l : List (String × Ranges.RL)) : Option (List BinM) :=
    l.foldr (fun p acc => match buildBin p.1 p.2 [], acc with
      | some (some b), some l => some (b :: l)
      | some none, some l => some l
      | _, _ => none) (some [])
  match bins, mkX ign, mkX ill with
  | some b, some i, some l => pure (some { bins := b, ignore := i, illegal := l })
  | _, _, _ => pure none

def jNames (bs : List Pyvsc.Bins.BinM) : Json :=
  let n := (Pyvsc.Bins.totalBins bs).toNat
  Json.arr ((List.range n).map (fun i => jOpt Json.str (Pyvsc.Bins.binNameAt bs 0 (i : Nat)))).toArray

open Pyvsc Pyvsc.Bins in
def handleCp (op : String) (j : Json) : Except String Json := do
  match op with
  | "cp.mkCollection" =>
      pure <| jOpt (fun (b : BinM) => Json.mkObj [("nbins", jInt b.nBins), ("names", jNames [b]),
          ("repr", Json.str (toString (repr b)))])
        (mkCollection (← getS j "name") (← getRL j "rl") (← getI j "nbins"))
  | "cp.run" => do
      match ← buildCp j with
      | none => pure (Json.str "error")
      | some cp =>
        let samples ← (← getA j "samples").toList.mapM (fun s => do
          let a ← s.getArr?
          pure ((← a[0]!.getBool?), (← a[1]!.getInt?)))
        let h := cp.run samples
        let ev := samples.map (fun s =>
          if s.1 then Json.arr #[Json.arr ((binsHits cp.bins 0 s.2).map jInt).toArray,
                                 Json.arr ((binsHits cp.ignore 0 s.2).map jInt).toArray,
                                 Json.arr ((binsHits cp.illegal 0 s.2).map jInt).toArray]
          else Json.arr #[Json.arr #[], Json.arr #[], Json.arr #[]])
        pure <| Json.mkObj [
          ("nbins", jInt (totalBins cp.bins)), ("names", jNames cp.bins),
          ("n_ign", jInt (totalBins cp.ignore)), ("ign_names", jNames cp.ignore),
          ("n_ill", jInt (totalBins cp.illegal)), ("ill_names", jNames cp.illegal),
          ("hits", Json.arr (h.hit.map jNat).toArray), ("ign", Json.arr (h.ign.map jNat).toArray),
          ("ill", Json.arr (h.ill.map jNat).toArray), ("events", Json.arr ev.toArray)]
  | _ => throw s!"unknown op {op}"

open Pyvsc Pyvsc.Spec in
/-- Spec-side evaluation of a coverpoint request: value lists per bin and hit counts -/
def handleSpec (op : String) (j : Json) : Except String Json := do
  match op with
  | "s.cp" => do
      let ign ← (← getA j "ignore").toList.mapM (fun b => getRL b "ranges")
      let ill ← (← getA j "illegal").toList.mapM (fun b => getRL b "ranges")
      let excl : Ranges.RL := ign.flatten ++ ill.flatten
      let ty ← j.getObjVal? "type"
      let tkind ← getS ty "kind"
      let binsJ ← j.getObjVal? "bins"
      let domainRL : Ranges.RL ← (if tkind == "enum" then pure [] else do
        let w ← getN ty "w"; let s ← getB ty "s"
        pure (if s then [(-(2 ^ (w - 1) : Int), (2 ^ (w - 1) : Int) - 1)] else [(0, (2 ^ w : Int) - 1)]))
      let bins : List (List Int) ← match binsJ with
        | Json.null =>
          if tkind == "enum" then do
            let vs ← (← getA ty "vals").toList.mapM (fun p => do let a ← p.getArr?; a[0]!.getInt?)
            pure ((specVals (vs.map (fun v => (v, v))) excl).map ([·]))
          else do
            pure (chunks (specVals domainRL excl) (← getI j "auto_bin_max"))
        | _ => do
          let bl ← (← binsJ.getArr?).toList.mapM (fun b => do
            let kind ← getS b "kind"
            match kind with
            | "bin" => do
                let vs := specVals (← getRL b "ranges") excl
                pure (if vs.isEmpty then [] else [vs])
            | "bin_array" => pure (chunks (specVals (← getRL b "ranges") excl) (← getI b "nbins"))
            | "wild" => do
                let ps ← (← getA b "pats").toList.mapM asPat
                let specs := ps.filterMap Wildcard.Pat.valmask
                let dom := specVals domainRL []
                pure [dom.filter (fun v => 0 ≤ v && specs.any (fun sp => agrees sp.1 sp.2 v.toNat))]
            | "wild_array" => do
                let ps ← (← getA b "pats").toList.mapM asPat
                let vms := ps.filterMap Wildcard.Pat.valmask
                let dom := specVals domainRL []
                pure (chunks (dom.filter (fun v => 0 ≤ v && vms.any (fun sp => agrees sp.1 sp.2 v.toNat))) (← getI b "nbins"))
            | _ => throw "bad kind")
          pure bl.flatten
      let samples ← (← getA j "samples").toList.mapM (fun s => do
        let a ← s.getArr?
        pure ((← a[0]!.getBool?), (← a[1]!.getInt?)))
      let ignB := ign.filterMap (fun r => let vs := specVals r []; if vs.isEmpty then none else some vs)
      let illB := ill.filterMap (fun r => let vs := specVals r []; if vs.isEmpty then none else some vs)
      let cnt (bs : List (List Int)) := Json.arr (bs.map (fun b => jNat (countHits b samples))).toArray
      pure <| Json.mkObj [("nbins", jNat bins.length), ("hits", cnt bins), ("ign", cnt ignB), ("ill", cnt illB),
        ("bins", Json.arr (bins.map (fun b => Json.arr (b.map jInt).toArray)).toArray)]
  | "s.matchStr" => pure <| jOpt Json.bool (matchStr (← getS j "s") (← getN j "v"))
  | "s.agrees" => pure <| Json.bool (agrees (← getN j "value") (← getN j "mask") (← getN j "v"))
  | _ => throw s!"unknown op {op}"

open Pyvsc Pyvsc.Bins Pyvsc.Cg in
def asShape (j : Json) : Except String (Option Shape) := do
  let cpsJ ← getA j "cps"
  let cps ← cpsJ.toList.mapM (fun c => do
    match ← buildCp c with
    | none => pure none
    | some cp => pure (some ({ name := (← getS c "name"), cp := cp, atLeast := (← getN c "at_least"), weight := (← getN c "weight") } : CpDef)))
  let crosses ← (← getA j "crosses").toList.mapM (fun c => do
    let idx ← (← getA c "cps").toList.mapM (fun x => x.getNat?)
    pure ({ name := (← getS c "name"), cps := idx, atLeast := (← getN c "at_least"), weight := (← getN c "weight") } : CrossDef))
  if cps.all Option.isSome then pure (some { cps := cps.filterMap id, crosses := crosses }) else pure none

def jNats (l : List Nat) : Json := Json.arr (l.map jNat).toArray

open Pyvsc Pyvsc.Bins Pyvsc.Cg in
def jCgState (sh : Shape) (s : St) : Json :=
  Json.mkObj [
    ("cp", Json.arr ((sh.cps.zip s.cp).map (fun (d, h) => Json.mkObj [
      ("name", Json.str d.name), ("hits", jNats h.hit), ("ign", jNats h.ign), ("ill", jNats h.ill),
      ("names", jNames d.cp.bins),
      ("cov", Json.arr #[jNat (cpCov d h).1, jNat (cpCov d h).2])])).toArray),
    ("cross", Json.arr ((sh.crosses.zip s.cross).map (fun (c, h) => Json.mkObj [
      ("name", Json.str c.name), ("hits", jNats h),
      ("names", Json.arr ((List.range h.length).map (fun i => Json.str (crossBinName sh c i))).toArray),
      ("cov", Json.arr #[jNat (crossCov c h).1, jNat (crossCov c h).2])])).toArray),
    ("items", Json.arr ((cgItems sh s).map (fun (k, n, w) => Json.arr #[jNat k, jNat n, jNat w])).toArray)]

open Pyvsc Pyvsc.Cg in
def jUCg (c : UCg) : Json :=
  let jb (b : UBin) := Json.arr #[Json.str b.name, jNat b.atLeast, jNat b.count, Json.str b.kind]
  Json.mkObj [("name", Json.str c.name),
    ("cps", Json.arr (c.cps.map (fun p => Json.mkObj [("name", Json.str p.name), ("weight", jNat p.weight),
        ("bins", Json.arr (p.bins.map jb).toArray)])).toArray),
    ("crosses", Json.arr (c.crosses.map (fun p => Json.mkObj [("name", Json.str p.name), ("weight", jNat p.weight),
        ("bins", Json.arr (p.bins.map jb).toArray)])).toArray)]

open Pyvsc Pyvsc.Cg in
def handleCg (op : String) (j : Json) : Except String Json := do
  match op with
  | "cg.run" => do
      let ops ← getA j "ops"
      let mut reg := Reg.empty
      let mut outs : Array Json := #[]
      for o in ops do
        let k ← getS o "op"
        if k == "new" then
          match ← asShape (← o.getObjVal? "shape") with
          | none => outs := outs.push (Json.str "error")
          | some sh =>
            reg := reg.newInst (← getS o "tname") (← getS o "iname") sh
            let inst := reg.insts.getLast?
            let tname := match inst with
              | some i => (match reg.types[i.tidx]? with | some t => t.name | none => "?")
              | none => "?"
            outs := outs.push (Json.mkObj [("type", Json.str tname), ("tidx", jNat (match inst with | some i => i.tidx | none => 0))])
        else if k == "sample" then
          let inp ← (← getA o "inp").toList.mapM (fun s => do
            let a ← s.getArr?
            pure ((← a[0]!.getBool?), (← a[1]!.getInt?)))
          let xiff ← (← getA o "xiff").toList.mapM (fun b => b.getBool?)
          reg := reg.sample (← getN o "inst") inp xiff
          outs := outs.push Json.null
        else if k == "rename" then
          reg := reg.rename (← getN o "inst") (← getS o "name")
          outs := outs.push Json.null
        else if k == "state" then
          outs := outs.push (Json.mkObj [
            ("types", Json.arr (reg.types.map (fun t => Json.mkObj [("name", Json.str t.name), ("st", jCgState t.shape t.st)])).toArray),
            ("insts", Json.arr (reg.insts.map (fun i => Json.mkObj [("tidx", jNat i.tidx), ("st", jCgState i.shape i.st)])).toArray)])
        else if k == "save" then
          outs := outs.push (Json.arr (reg.save.map (fun t => Json.mkObj [("cg", jUCg t.cg), ("insts", Json.arr (t.insts.map jUCg).toArray)])).toArray)
        else throw s!"unknown cg op {k}"
      pure (Json.arr outs)
  | _ => throw s!"unknown op {op}"

def handle (j : Json) : Except String Json := do
  let op ← getS j "op"
  if op.startsWith "v." then handleValues op j
  else if op.startsWith "r." then handleRanges op j
  else if op.startsWith "w." then handleWild op j
  else if op.startsWith "cp." then handleCp op j
  else if op.startsWith "s." then handleSpec op j
  else if op.startsWith "cg." then handleCg op j
  else if op.startsWith "z." then Pyvsc.DrvSolve.handle op j
  else if op.startsWith "o." then Pyvsc.DrvWorld.handle op j
  else if op.startsWith "t." then Pyvsc.DrvCtor.handle op j
  else if op.startsWith "l." then Pyvsc.DrvLists.handle op j
  else throw s!"unknown op {op}"

partial def loop (hin : IO.FS.Stream) (hout : IO.FS.Stream) : IO Unit := do
  let line ← hin.getLine
  if line.isEmpty then return ()
  let t := line.trimAscii.toString
  if t.isEmpty then loop hin hout else
  let out := match Json.parse t with
    | .error e => Json.mkObj [("err", Json.str s!"parse: {e}")]
    | .ok j => match handle j with
      | .ok r => Json.mkObj [("ok", r)]
      | .error e => Json.mkObj [("err", Json.str e)]
  hout.putStrLn out.compress
  hout.flush
  loop hin hout

end Drv

def main : IO Unit := do
  Drv.loop (← IO.getStdin) (← IO.getStdout)
