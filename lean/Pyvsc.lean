import Pyvsc.Model.Values
