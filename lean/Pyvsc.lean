import Pyvsc.Model.Values
import Pyvsc.Model.Bins
import Pyvsc.Spec.Values
import Pyvsc.Spec.Bins
