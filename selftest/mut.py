#!/venv/bin/python
"""Mutation self-test helper: copy /repo/src to a scratch dir, apply one textual replacement
(or a patch file), run the named quick checks against the copy, report which fired, delete the copy.

  selftest/mut.py --file src/vsc/x.py --old 'a' --new 'b' C10 C19
  selftest/mut.py --patch seeded/x/patch.diff C10
"""
import argparse, os, shutil, subprocess, sys, tempfile
VERIF = os.path.dirname(os.path.dirname(os.path.abspath(__file__)))
ap = argparse.ArgumentParser()
ap.add_argument("--file"); ap.add_argument("--old"); ap.add_argument("--new"); ap.add_argument("--patch")
ap.add_argument("--count", type=int, default=1)
ap.add_argument("--tier", default="quick")
ap.add_argument("props", nargs="+")
a = ap.parse_args()
d = tempfile.mkdtemp(prefix="mrepo", dir="/tmp")
try:
    shutil.copytree("/repo/src", os.path.join(d, "src"))
    if a.patch:
        subprocess.run(["patch", "-p1", "-s", "-d", d, "-i", os.path.abspath(a.patch)], check=True)
    else:
        p = os.path.join(d, a.file)
        s = open(p).read()
        if s.count(a.old) != a.count:
            print("pattern occurs %d times (expected %d)" % (s.count(a.old), a.count)); sys.exit(3)
        open(p, "w").write(s.replace(a.old, a.new))
    env = dict(os.environ, VERIF_REPO=d)
    for pr in a.props:
        r = subprocess.run([os.path.join(VERIF, "check"), pr, "--tier", a.tier], env=env, stdout=subprocess.PIPE, stderr=subprocess.STDOUT, text=True)
        lines = [l for l in r.stdout.split("\n") if l.startswith(("VIOLATION", "KNOWN", "INFRA"))]
        lines.sort(key=lambda l: not l.startswith("VIOLATION"))      # (stable: violations first, then known findings)
        print("%s rc=%d %s" % (pr, r.returncode, " | ".join(lines[:3])))
finally:
    shutil.rmtree(d, ignore_errors=True)
    subprocess.run(["git", "-C", VERIF, "checkout", "--", "evidence"], stdout=subprocess.DEVNULL, stderr=subprocess.DEVNULL)
