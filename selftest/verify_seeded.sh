#!/bin/bash
# applies every seeded change in turn to a scratch copy of /repo/src (never to /repo itself) and runs the quick check of its
# property against the copy; writes seeded/RESULTS.tsv
cd /verif
out=seeded/RESULTS.tsv
printf "change\tproperty\tcheck_exit\tviolation_lines\tof_which_no_failing_input\n" > $out
for d in seeded/*/; do
  n=$(basename $d); p=${n%%-*}
  res=$(selftest/mut.py --patch $d/patch.diff $p 2>&1 | tail -1)
  rc=$(echo "$res" | grep -o "rc=[0-9]*" | cut -d= -f2)
  v=$(echo "$res" | grep -o "VIOLATION" | wc -l)
  nf=$(echo "$res" | grep -o "no-failing-input-found" | wc -l)
  printf "%s\t%s\t%s\t%s\t%s\n" "$n" "$p" "$rc" "$v" "$nf" >> $out
  echo "$n rc=$rc violations(shown)=$v nofail=$nf"
done
