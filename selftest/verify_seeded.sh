#!/bin/bash
# applies every seeded change in turn to /repo and runs the quick check of its property; prints one line per change
cd /verif
for d in seeded/*/; do
  n=$(basename $d); p=${n%%-*}
  res=$(selftest/try_seeded.sh /verif/$d $p 2>&1)
  demo=$(echo "$res" | grep -o "demo_rc_with_patch=[0-9]*")
  v=$(echo "$res" | grep -c "^VIOLATION")
  nf=$(echo "$res" | grep "^VIOLATION" | grep -c "no-failing-input-found")
  echo "$n $demo violations=$v of-which-no-failing-input=$nf $(echo "$res" | grep -i "does not apply\|repo dirty" | head -1)"
done
