#!/bin/bash
# whole unit suite of /repo on the current working tree, in parallel, minus the two 100000-iteration tests; prints failures
cd /repo && /venv/bin/python -m pytest -q -p no:cacheprovider --timeout=900 -n 14 ve/unit \
  --deselect ve/unit/test_smoke.py::TestSmoke::test_smoke2 --deselect ve/unit/test_perf.py 2>&1 | grep -v "Warning\|^  \|^$\|^ve/unit.*warnings$" | tail -${1:-15}
rm -f /repo/cov.xml
