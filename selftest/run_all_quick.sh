#!/bin/bash
# runs every registered check once with VERIF_SEED (default 0) and TIER (default quick) from the checkout this script lives in;
# prints one line per check
cd "$(dirname "$0")/.." || exit 2
[ -x lean/.lake/build/bin/pvdrv ] || (cd lean && lake build >/dev/null 2>&1)
for i in ${CHECKS:-$(seq -w 1 20)}; do
  s=$(date +%s)
  out=$(VERIF_SEED=${VERIF_SEED:-0} ./check C$i --tier ${TIER:-quick} 2>&1); rc=$?
  echo "C$i rc=$rc $(( $(date +%s) - s ))s viol=$(echo "$out" | grep -c '^VIOLATION') known=$(echo "$out" | grep -c '^KNOWN-FINDING') $(echo "$out" | grep 'INFRA' | head -1)"
  echo "$out" | grep '^VIOLATION' | head -3
done
