#!/bin/bash
# runs every registered quick check once with VERIF_SEED (default 0); prints one line per check
cd /verif
for i in $(seq -w 1 20); do
  s=$(date +%s)
  out=$(VERIF_SEED=${VERIF_SEED:-0} ./check C$i --tier ${TIER:-quick} 2>&1); rc=$?
  echo "C$i rc=$rc $(( $(date +%s) - s ))s viol=$(echo "$out" | grep -c '^VIOLATION') known=$(echo "$out" | grep -c '^KNOWN-FINDING') $(echo "$out" | grep 'INFRA' | head -1)"
done
