#!/bin/bash
# usage: selftest/try_seeded.sh <seeded-dir> [checks...]   -- applies the patch to /repo, runs demo + checks, reverts
d="$1"; shift
cd /repo || exit 2
git diff --quiet || { echo "repo dirty"; exit 2; }
git apply "$d/patch.diff" || { echo "patch does not apply"; exit 2; }
trap 'git -C /repo checkout -- . ; rm -f /repo/cov.xml' EXIT
( cd "$d" && PYTHONPATH=/repo/src /venv/bin/python demo.py >/dev/null 2>&1; echo "demo_rc_with_patch=$?" )
for c in "$@"; do
  out=$(cd /verif && VERIF_SEED=${VERIF_SEED:-0} ./check $c --tier ${TIER:-quick} 2>&1 | grep -v "pyboolector\|Exception ignored\|Traceback\|  File \|return Node\|\^\^")
  rc=$?
  echo "== $c: $(echo "$out" | grep -c VIOLATION) violation line(s)"; echo "$out" | grep "VIOLATION\|INFRA" | head -5
done
