#!/bin/bash
# runs the 147 stable baseline tests of /repo (ids taken from /root/.vp/BASELINE.json) on the current working tree
cd /repo && /venv/bin/python -m pytest -q -p no:cacheprovider --timeout=900 -n 12 $(cat /verif/selftest/stable_tests.txt) 2>&1 | tail -8
