#!/venv/bin/python
"""Mutation campaign (self-test of the checks, not part of any registered command).

For every source file a property is anchored in, single-token mutations are generated (comparison
operators, +1/-1, and/or, True/False), each applied to a scratch copy of /repo/src, and the quick
checks of the properties anchored in that file are run against the copy (VERIF_REPO).  Survivors are
listed for triage: equivalent mutants, code no generated scenario reaches, or a gap in a check.

  selftest/campaign.py --per-file 6 --jobs 3 --out /tmp/scratch/campaign.jsonl [--only C10,C19]
"""
import argparse, json, os, random, re, shutil, subprocess, sys, tempfile
from concurrent.futures import ThreadPoolExecutor

VERIF = os.path.dirname(os.path.dirname(os.path.abspath(__file__)))
SWAPS = [(" <= ", " < "), (" < ", " <= "), (" >= ", " > "), (" > ", " >= "), (" == ", " != "), (" != ", " == "),
         (" + 1", " + 2"), (" - 1", " - 2"), (" and ", " or "), (" or ", " and "), ("True", "False"), ("False", "True"),
         ("[0]", "[-1]"), ("[-1]", "[0]"), (" is None", " is not None"), (" is not None", " is None")]


def mutants_of(path, rel, rng, n):
    lines = open(path).read().split("\n")
    cands = []
    in_doc = False
    for i, l in enumerate(lines):
        s = l.strip()
        if s.startswith('"""') or s.startswith("'''"):
            if not (s.count('"""') == 2 or s.count("'''") == 2):
                in_doc = not in_doc
            continue
        if in_doc or not s or s.startswith("#") or s.startswith("print(") or s.startswith("import ") or s.startswith("from ") \
                or "debug" in s.lower() or s.startswith("raise ") or "Exception(" in s:
            continue
        for a, b in SWAPS:
            if a in l:
                cands.append((i, a, b))
    rng.shuffle(cands)
    out, seen = [], set()
    for i, a, b in cands:
        if i in seen:
            continue
        seen.add(i)
        out.append({"file": rel, "line": i + 1, "old": a, "new": b, "text": lines[i].strip()[:120]})
        if len(out) >= n:
            break
    return out


def run_one(m, props):
    d = tempfile.mkdtemp(prefix="mrepo", dir="/tmp")
    try:
        shutil.copytree("/repo/src", os.path.join(d, "src"))
        p = os.path.join(d, m["file"])
        lines = open(p).read().split("\n")
        lines[m["line"] - 1] = lines[m["line"] - 1].replace(m["old"], m["new"], 1)
        open(p, "w").write("\n".join(lines))
        # must still import
        r = subprocess.run(["/venv/bin/python", "-c", "import sys; sys.path.insert(0, %r); import vsc" % os.path.join(d, "src")],
                           stdout=subprocess.PIPE, stderr=subprocess.STDOUT, text=True)
        if r.returncode != 0:
            return dict(m, result="does-not-import")
        env = dict(os.environ, VERIF_REPO=d, VERIF_NO_EVIDENCE="1")
        res = {}
        for pr in props:
            r = subprocess.run([os.path.join(VERIF, "check"), pr, "--tier", "quick"], env=env, stdout=subprocess.PIPE,
                               stderr=subprocess.STDOUT, text=True)
            v = [l for l in r.stdout.split("\n") if l.startswith("VIOLATION")]
            res[pr] = {"rc": r.returncode, "violations": len(v),
                       "nofail": sum(1 for l in v if l.endswith("no-failing-input-found")),
                       "infra": [l for l in r.stdout.split("\n") if l.startswith("INFRA")][:1]}
        killed = any(x["rc"] == 1 for x in res.values())
        return dict(m, result="killed" if killed else "survived", checks=res)
    finally:
        shutil.rmtree(d, ignore_errors=True)


def main():
    ap = argparse.ArgumentParser()
    ap.add_argument("--per-file", type=int, default=5)
    ap.add_argument("--jobs", type=int, default=3)
    ap.add_argument("--seed", type=int, default=1)
    ap.add_argument("--only", default="")
    ap.add_argument("--out", default="/tmp/scratch/campaign.jsonl")
    a = ap.parse_args()
    props = [json.loads(l) for l in open(os.path.join(VERIF, "properties.jsonl"))]
    only = set(a.only.split(",")) if a.only else None
    by_file = {}
    for p in props:
        if only and p["id"] not in only:
            continue
        for f in p["anchors"]["files"]:
            by_file.setdefault(f, []).append(p["id"])
    rng = random.Random(a.seed)
    work = []
    for f, ps in sorted(by_file.items()):
        path = os.path.join("/repo", f)
        if not os.path.exists(path) or not f.endswith(".py"):
            continue
        for m in mutants_of(path, f, rng, a.per_file):
            work.append((m, ps[:3]))
    print("%d mutants over %d files" % (len(work), len(by_file)), flush=True)
    with ThreadPoolExecutor(a.jobs) as ex, open(a.out, "w") as out:
        for r in ex.map(lambda w: run_one(*w), work):
            out.write(json.dumps(r) + "\n")
            out.flush()
            print(r["result"], r["file"], r["line"], r["old"].strip(), "->", r["new"].strip(), "|", r["text"][:70], flush=True)
    subprocess.run(["git", "-C", VERIF, "checkout", "--", "evidence"], stdout=subprocess.DEVNULL, stderr=subprocess.DEVNULL)


if __name__ == "__main__":
    main()
