"""C19 — wildcard bins match exactly the values that agree with the pattern.

Ties `Pyvsc.Wildcard` (str2bin, valmask2binlist, overlap collapse, single-bin hit test) to
impl/wildcard_bin_factory.py, coverage.py and coverpoint_bin_single_wildcard_model.py, and checks
the implementation against the Spec (`Pyvsc.Spec.matchStr`, `agrees`, `chunks`).
"""
import itertools
import os
import sys
sys.path.insert(0, os.path.dirname(os.path.abspath(__file__)))
import common
import covlib
import c10
from common import Check, Drv

THEOREMS = ["Pyvsc.C19.wcHit_iff", "Pyvsc.C19.str2bin_spec", "Pyvsc.C19.collapse_denotes", "Pyvsc.C19.pushVals_denotes"]
W = 8


def main():
    tier, seed, replay = common.parse_args(sys.argv[1:])
    ck = Check("C19", tier, seed, ["C19"])
    try:
        obligations = common.obligations_for(["C19"])
        vsc = common.setup_repo_path()
        from vsc.impl.wildcard_bin_factory import WildcardBinFactory as F
        drv = Drv()
        rng = ck.rng
        distinct = set()

        # ---- (value, mask) pairs: expansion ------------------------------------------------
        if tier == "thorough":
            pairs = [(v, m) for v in range(256) for m in range(256)]
        else:
            pairs = [(v, m) for v in range(16) for m in range(16)]
            pairs += [(rng.randint(0, 255), rng.randint(0, 255)) for _ in range(4096)]
        reqs, metas = [], []
        for v, m in pairs:
            try:
                with common.time_limit(20):              # microseconds on the registered tree
                    impl = [list(x) for x in F.valmask2binlist(v, m)]
            except common.CallTimeout:
                impl = "exc:does-not-terminate"
            except Exception as e:
                impl = "exc:" + type(e).__name__
            if impl == "exc:does-not-terminate":
                ck.oracle_fail("expand:does-not-terminate", {"value": v, "mask": m}, "no result within 20 s (or out of memory)", "a list of ranges")
                break
            metas.append(({"value": v, "mask": m}, impl))
            reqs.append({"op": "w.expand", "value": v, "mask": m})
        res = drv.batch(reqs)
        for (case, impl), model in zip(metas, res):
            ck.count("eval_expand")
            distinct.add(("expand", case["value"] & case["mask"], case["mask"]))
            if impl != model:
                ck.corr_fail("Wildcard.valmask2binlist vs WildcardBinFactory.valmask2binlist", case, model, impl)
            if not isinstance(impl, list):
                ck.oracle_fail("expand:exception", case, impl, "no exception")
                continue
            v, m = case["value"], case["mask"]
            got = set()
            for a, b in impl:
                got.update(range(a, b + 1))
            top = m.bit_length()
            full = {x for x in range(1 << W) if (x & m) == (v & m)}
            trunc = {x for x in range(1 << top) if (x & m) == (v & m)}
            shape = all(impl[i][1] + 1 < impl[i + 1][0] for i in range(len(impl) - 1)) and all(a <= b for a, b in impl)
            if got == full and shape:
                continue
            if got == trunc and shape and top < W:
                ck.oracle_fail("F12:leading-wildcards-not-expanded", case, sorted(got), "all %d-bit values agreeing on the care bits (%d values)" % (W, len(full)))
            else:
                ck.oracle_fail("expand:wrong-set", case, impl, sorted(full)[:40])
        ck.sample({"kind": "valmask2binlist", "case": metas[-1][0], "impl": metas[-1][1], "model": res[-1]})

        # ---- pattern strings ---------------------------------------------------------------
        def strings():
            alph = {"0b": "01x?_X", "0x": "09aFx?_", "0o": "07x?_", "0B": "01x", "0X": "3cX", "0O": "5?"}
            maxlen = 4 if tier == "thorough" else 3
            for pre, al in alph.items():
                for n in range(0, maxlen + 1):
                    if len(al) ** n > 3000:
                        for _ in range(1500):
                            yield pre + "".join(rng.choice(al) for _ in range(n))
                    else:
                        for t in itertools.product(al, repeat=n):
                            yield pre + "".join(t)
            for bad in ["12", "0b2", "0o8", "0xg", "", "0", "b01", "0b1 0"]:
                yield bad
        reqs, metas = [], []
        sl = list(strings())
        if tier != "thorough" and len(sl) > 1500:
            keep = [s for s in sl if len(s) <= 4]
            rest = [s for s in sl if len(s) > 4]
            rng.shuffle(rest)
            sl = keep + rest[:1500 - min(len(keep), 1000)]
        for s in sl:
            try:
                impl = list(F.str2bin(s))
            except Exception as e:
                impl = "error"
            metas.append((s, impl))
            reqs.append({"op": "w.str2bin", "s": s})
        res = drv.batch(reqs)
        sreqs, smeta = [], []
        for (s, impl), model in zip(metas, res):
            ck.count("eval_str2bin")
            distinct.add(("str", s))
            if impl != model:
                ck.corr_fail("Wildcard.str2bin vs WildcardBinFactory.str2bin", {"s": s}, model, impl)
            if isinstance(impl, list):
                val, msk = impl
                nb = max(msk.bit_length(), val.bit_length(), 1)
                for v in (range(1 << min(nb + 1, 9)) if nb <= 8 else [rng.randint(0, (1 << (nb + 1)) - 1) for _ in range(64)]):
                    sreqs.append({"op": "s.matchStr", "s": s, "v": v})
                    smeta.append((s, v, (v & msk) == (val & msk)))
        sres = drv.batch(sreqs)
        for (s, v, hit), want in zip(smeta, sres):
            ck.count("eval_str_match")
            if want != hit:
                ck.oracle_fail("str2bin:wrong-match", {"s": s, "v": v}, hit, want)
        ck.sample({"kind": "str2bin", "case": metas[len(metas) // 2][0], "impl": metas[len(metas) // 2][1]})

        # ---- coverpoints with wildcard bins, every value sampled --------------------------
        n_specs = 3000 if tier == "thorough" else 160
        specs = []
        for i in range(n_specs):
            w = rng.choice([2, 3, 4, 4, 5, 6, 8])
            spec = {"op": "cp.run", "name": "cp", "type": {"kind": "int", "w": w, "s": False}, "auto_bin_max": None,
                    "bins": [covlib.gen_wild_bin(rng, "b%d" % j, w) for j in range(rng.randint(1, 2))],
                    "ignore": [], "illegal": []}
            dom = list(range(1 << w))
            spec["samples"] = [[True, v] for v in dom] + [[rng.random() < 0.6, rng.choice(dom)] for _ in range(10)]
            specs.append(spec)
        impls = [covlib.run_impl(vsc, s, iff_mode=("field", "lambda")[i % 2]) for i, s in enumerate(specs)]
        reqs = [c10.strip(s) for s in specs]
        res = drv.batch(reqs)
        sres = drv.batch([dict(r, op="s.cp") for r in reqs])
        for spec, impl, model, sp in zip(specs, impls, res, sres):
            ck.count("eval_cp")
            distinct.add(("cp", str(spec["type"]), str(spec["bins"])))
            case = {"type": spec["type"], "bins": spec["bins"]}
            if "exc" in impl:
                if model != "error":
                    ck.corr_fail("Bins.cp.run (wildcard) vs coverage.py (implementation raised)", case, "ok", impl)
                # patterns wider than 20 wildcard bits etc. are not generated: any exception is suspicious
                ck.oracle_fail("wildcard-cp:exception:" + impl["exc"], case, impl, "no exception")
                continue
            if not isinstance(model, dict):
                ck.corr_fail("Bins.cp.run (wildcard) vs coverage.py (model error)", case, model, {k: impl[k] for k in ("nbins", "names")})
                continue
            for k in ("nbins", "names", "hits", "events"):
                if impl[k] != model[k]:
                    ck.corr_fail("Bins.cp.run[%s] (wildcard) vs coverage.py" % k, case, model[k], impl[k])
                    break
            if impl["nbins"] != sp["nbins"] or impl["hits"] != sp["hits"]:
                # known: leading wildcard digits of array patterns are not expanded (F12)
                lead = False
                for b in spec["bins"]:
                    if b["kind"] == "wild_array":
                        for p in b["pats"]:
                            if "vm" in p:
                                m = p["vm"][1]
                            else:
                                try:
                                    m = F.str2bin(p["s"])[1]
                                except Exception:
                                    m = (1 << W) - 1
                            if m.bit_length() < spec["type"]["w"]:
                                lead = True
                same = all(impl[k] == model[k] for k in ("nbins", "names", "hits", "events"))
                sig = "F12:leading-wildcards-not-expanded" if (lead and same) else "wildcard-cp:bin-hits"
                ck.oracle_fail(sig, dict(case, samples=spec["samples"]), {"nbins": impl["nbins"], "hits": impl["hits"]},
                               {"nbins": sp["nbins"], "hits": sp["hits"], "bin_values": sp["bins"]})
        ck.sample({"kind": "wildcard coverpoint", "spec": {"type": specs[0]["type"], "bins": specs[0]["bins"]},
                   "impl": {k: impls[0].get(k) for k in ("nbins", "names", "hits", "exc")}})

        ck.cov.update({
            "distinct_nontrivial": len(distinct),
            "rule": "distinct (value&mask, mask) pairs for the expansion (%s), distinct pattern strings (all strings up to the tier's length over each base's alphabet incl. x ? _ and malformed ones), each with every sample value up to 9 bits, and generated coverpoints with single/array wildcard bins sampled with every value of the type" % ("all 65536 8-bit pairs" if tier == "thorough" else "all 4-bit pairs + 4096 random 8-bit pairs"),
            "programs": sum(ck.counts.get(k, 0) for k in ("eval_expand", "eval_str2bin", "eval_cp")),
            "exhaustive": tier == "thorough",
        })
        rc = ck.finish(obligations=obligations,
                       assumptions=["patterns are ASCII; (value, mask) pairs are non-negative",
                                    "F12 (leading wildcard digits are not expanded by wildcard_bin_array because the factory never learns the coverpoint width) is a recorded known finding"],
                       theorems_lost=THEOREMS)
        sys.exit(rc)
    except common.InfraError as e:
        print("INFRA-ERROR: " + str(e))
        sys.exit(common.EXIT_INFRA)


if __name__ == "__main__":
    common.run_main(main)
