"""C12 — instance and type coverage aggregate consistently and stay within 0..100."""
import os
import sys
from fractions import Fraction
sys.path.insert(0, os.path.dirname(os.path.abspath(__file__)))
import common
import cglib
from common import Check, Drv

THEOREMS = ["Pyvsc.C12.type_is_sum", "Pyvsc.C12.cov_range", "Pyvsc.C12.cov_mono", "Pyvsc.C12.cov_full_iff",
            "Pyvsc.C12.wavg_range", "Pyvsc.C12.wavg_mono", "Pyvsc.C12.wavg_full_iff"]


def spec_check(ck, scn, impl, sb):
    insts = []          # (shape, own samples)
    prev_cov = {}
    for k, (o, a) in enumerate(zip(scn["ops"], impl)):
        case = {"ops": scn["ops"][:k + 1]}
        if o["op"] == "new":
            insts.append((o["shape"], []))
        elif o["op"] == "sample":
            insts[o["inst"]][1].append(o["inp"])
        elif o["op"] == "state" and isinstance(a, dict):
            # (a) instances hold only their own samples
            exp_inst = []
            for (sh, samples), it in zip(insts, a["insts"]):
                e = []
                for ci, c in enumerate(sh["cps"]):
                    bins = sb[id(c)]
                    e.append([sum(1 for inp in samples if inp[ci][0] and inp[ci][1] in vals) for vals in bins])
                exp_inst.append(e)
                got = [cp["hits"] for cp in it["st"]["cp"]]
                if got != e:
                    ck.oracle_fail("agg:instance-hits", case, got, e)
            # (b) type = bin-wise sum of its instances (coverpoints and crosses)
            for ti, t in enumerate(a["types"]):
                members = [i for i, it in enumerate(a["insts"]) if it["tidx"] == ti]
                for ci, cp in enumerate(t["st"]["cp"]):
                    want = [sum(a["insts"][i]["st"]["cp"][ci]["hits"][b] for i in members) for b in range(len(cp["hits"]))]
                    if cp["hits"] != want:
                        ck.oracle_fail("agg:type-not-sum", case, cp["hits"], want)
                    for f in ("ign", "ill"):
                        want = [sum(a["insts"][i]["st"]["cp"][ci][f][b] for i in members) for b in range(len(cp[f]))]
                        if cp[f] != want:
                            ck.oracle_fail("agg:type-not-sum:" + f, case, cp[f], want)
                for xi, cr in enumerate(t["st"]["cross"]):
                    want = [sum(a["insts"][i]["st"]["cross"][xi]["hits"][b] for i in members) for b in range(len(cr["hits"]))]
                    if cr["hits"] != want:
                        ck.oracle_fail("agg:type-cross-not-sum", case, cr["hits"], want)
            # (c) different bin sets -> different types; same shape object -> same type
            for i, (shi, _) in enumerate(insts):
                for j, (shj, _) in enumerate(insts):
                    if j <= i or scn_tname(scn, i) != scn_tname(scn, j):
                        continue
                    same_t = a["insts"][i]["tidx"] == a["insts"][j]["tidx"]
                    bi = [sb[id(c)] for c in shi["cps"]]
                    bj = [sb[id(c)] for c in shj["cps"]]
                    if shi is shj and not same_t:
                        ck.oracle_fail("agg:same-shape-split", case, "different types", "one type")
                    if bi != bj and same_t:
                        ck.oracle_fail("agg:different-bins-merged", case, "one type", "separate types")
            # (d) coverage numbers: share of bins at their at_least threshold, weighted; range; full
            def check_model(st, sh, tag, key):
                items = []
                for cp, c in zip(st["cp"], sh["cps"]):
                    kcov = sum(1 for h in cp["hits"] if h >= c["at_least"])
                    n = len(cp["hits"])
                    fr = Fraction(100 * kcov, n)
                    if float(fr) != cp["cov_f"]:
                        ck.oracle_fail("cov:coverpoint-value", case, cp["cov_f"], float(fr))
                    items.append((kcov, n, c["weight"]))
                for cr, x in zip(st["cross"], sh["crosses"]):
                    kcov = sum(1 for h in cr["hits"] if h >= x["at_least"])
                    n = len(cr["hits"])
                    if float(Fraction(100 * kcov, n)) != cr["cov_f"]:
                        ck.oracle_fail("cov:cross-value", case, cr["cov_f"], float(Fraction(100 * kcov, n)))
                    items.append((kcov, n, x["weight"]))
                fr = cglib.cg_cov_fraction(items)
                cov = st["cov_f"]
                if fr is not None:
                    if abs(float(fr) - cov) > 5.1e-5:
                        ck.oracle_fail("cov:covergroup-value", case, cov, float(fr))
                    full = all(kc == n for kc, n, w in items if w > 0)
                    if (cov == 100.0) != full:
                        ck.oracle_fail("cov:full-iff-all-covered", case, cov, "100 iff all bins covered: %s" % full)
                if not (0.0 <= cov <= 100.0):
                    ck.oracle_fail("cov:out-of-range", case, cov, "[0,100]")
                if key in prev_cov and cov < prev_cov[key] - 1e-12:
                    ck.oracle_fail("cov:decreased", case, cov, ">= %r" % prev_cov[key])
                prev_cov[key] = cov
            for i, ((sh, _), it) in enumerate(zip(insts, a["insts"])):
                check_model(it["st"], sh, "inst", ("i", i))
                # facade getters: get_coverage() is the type's, get_inst_coverage() the instance's
                tcov = a["types"][it["tidx"]]["st"]["cov_f"]
                if it["st"]["facade_cov"] != tcov or it["st"]["facade_inst_cov"] != it["st"]["cov_f"]:
                    ck.oracle_fail("cov:facade-getters", case, [it["st"]["facade_cov"], it["st"]["facade_inst_cov"]], [tcov, it["st"]["cov_f"]])
            for ti, t in enumerate(a["types"]):
                members = [i for i, it in enumerate(a["insts"]) if it["tidx"] == ti]
                if members:
                    check_model(t["st"], insts[members[0]][0], "type", ("t", ti))


def scn_tname(scn, i):
    k = -1
    for o in scn["ops"]:
        if o["op"] == "new":
            k += 1
            if k == i:
                return o["tname"]


def f20_witness(ck, vsc):
    """known finding F20: a coverpoint all of whose bins are excluded has no coverage value"""
    import common as c
    from vsc.impl.coverage_registry import CoverageRegistry
    CoverageRegistry.clear()
    with c.quiet():
        @vsc.covergroup
        class cgw(object):
            def __init__(self):
                self.with_sample(dict(a=vsc.bit_t(4)))
                self.cp = vsc.coverpoint(self.a, bins={"b": vsc.bin(1, 2)}, ignore_bins={"i": vsc.bin(1, 2)})
        try:
            g = cgw()
            g.sample(1)
            v = g.get_coverage()
            ok = 0.0 <= v <= 100.0
            obs = v
        except Exception as e:
            ok = False
            obs = type(e).__name__
    if not ok:
        ck.oracle_fail("F20:zero-bin-coverpoint", {"bins": {"b": [1, 2]}, "ignore": {"i": [1, 2]}, "call": "get_coverage()"}, obs, "a value in [0,100]")


def main():
    tier, seed, replay = common.parse_args(sys.argv[1:])
    ck = Check("C12", tier, seed, ["C12"])
    try:
        obligations = common.obligations_for(["C12"])
        vsc = common.setup_repo_path()
        drv = Drv()
        n = 4000 if tier == "thorough" else 150
        scns, sb, dropped = cglib.gen_valid_scenarios(ck.rng, drv, n, opts=True, cross_prob=0.5)
        models = drv.batch([cglib.model_request(s) for s in scns])
        distinct = set()
        for scn, model in zip(scns, models):
            impl = cglib.run_impl(vsc, scn)
            ck.count("eval_scenarios")
            ck.count("ops", len(scn["ops"]))
            ninst = sum(1 for o in scn["ops"] if o["op"] == "new")
            ck.count("instances", ninst)
            if ninst >= 2:
                distinct.add(str(scn["ops"])[:4000])
            cglib.compare_model(ck, scn, impl, model, "C12", fields=("new", "state"))
            if not (impl and isinstance(impl[-1], dict) and "exc" in impl[-1] and "tb" in impl[-1]):
                common.guarded(ck, "C12-oracle", {"ops": scn["ops"]}, spec_check, ck, scn, impl, sb)
        f20_witness(ck, vsc)
        ck.sample({"scenario_ops": scns[0]["ops"][:3], "n_ops": len(scns[0]["ops"])})
        ck.cov.update({"distinct_nontrivial": len(distinct), "programs": len(scns),
                       "rule": "generated covergroup scenarios with 1-2 covergroup classes, 1-2 parameterised shapes per class, up to 5 instances, at_least in 1..3 and weights in 0..3, samples interleaved across instances, coverage read at random points; non-trivial = at least two instances",
                       "zero_bin_scenarios_dropped": dropped})
        rc = ck.finish(obligations=obligations,
                       assumptions=["covergroup-level coverage is compared with the exact rational up to the library's round(.,4)",
                                    "covergroups whose coverpoints and crosses all have weight 0 are not judged",
                                    "IEEE-754 division is correctly rounded (coverpoint percentages are compared for exact equality)"],
                       theorems_lost=THEOREMS)
        sys.exit(rc)
    except common.InfraError as e:
        print("INFRA-ERROR: " + str(e))
        sys.exit(common.EXIT_INFRA)


if __name__ == "__main__":
    common.run_main(main)
