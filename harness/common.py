"""Shared machinery of the /verif checks: repo import, Lean driver, Lean obligations/audit,
evidence and replay writing, known-findings classification.

Everything here runs under /venv/bin/python.  The implementation is imported from
$VERIF_REPO/src (default /repo/src) *as it is on disk now*.
"""
import contextlib
import fcntl
import hashlib
import io
import json
import os
import random
import re
import subprocess
import sys
import tempfile
import time

VERIF = os.path.dirname(os.path.dirname(os.path.abspath(__file__)))
REPO = os.environ.get("VERIF_REPO", "/repo")
LEAN = os.path.join(VERIF, "lean")
PVDRV = os.path.join(LEAN, ".lake", "build", "bin", "pvdrv")
STD_AXIOMS = {"propext", "Classical.choice", "Quot.sound"}

EXIT_OK, EXIT_VIOLATION, EXIT_INFRA = 0, 1, 2


def limit_memory():
    """A change to the library that makes it allocate without bound must surface as a MemoryError inside the
    library (an exception other than SolveFailure: reported), not as the check being killed by the kernel."""
    try:
        import resource
        lim = int(float(os.environ.get("PYVSC_VERIF_MEM_GB", "8")) * (1 << 30))
        soft, hard = resource.getrlimit(resource.RLIMIT_AS)
        if hard == resource.RLIM_INFINITY or lim < hard:
            resource.setrlimit(resource.RLIMIT_AS, (lim, hard))
    except Exception:
        pass


def _unlimit_memory():
    try:
        import resource
        soft, hard = resource.getrlimit(resource.RLIMIT_AS)
        resource.setrlimit(resource.RLIMIT_AS, (hard, hard))
    except Exception:
        pass


def setup_repo_path():
    """Make `import vsc` resolve to the current working tree of the repository."""
    limit_memory()
    src = os.path.join(REPO, "src")
    if sys.path[0] != src:
        sys.path.insert(0, src)
    for m in list(sys.modules):
        if m == "vsc" or m.startswith("vsc."):
            f = getattr(sys.modules[m], "__file__", "") or ""
            if not f.startswith(src):
                del sys.modules[m]
    import vsc  # noqa
    assert vsc.__file__.startswith(src), (vsc.__file__, src)
    return vsc


@contextlib.contextmanager
def quiet():
    """pyvsc prints diagnostics on SolveFailure etc.; keep check output clean."""
    old = sys.stdout
    sys.stdout = io.StringIO()
    try:
        yield
    finally:
        sys.stdout = old


class InfraError(Exception):
    pass


class FaultInjected(Exception):
    """raised by generated user code (constraint bodies, callbacks) where a history places a fault"""
    pass


# ----------------------------------------------------------------------------- Lean side

def _run(cmd, cwd=None, timeout=3600):
    p = subprocess.run(cmd, cwd=cwd, stdout=subprocess.PIPE, stderr=subprocess.STDOUT,
                       text=True, timeout=timeout)
    return p.returncode, p.stdout


def _lean_sources():
    out = []
    for root, _, files in os.walk(LEAN):
        if ".lake" in root:
            continue
        for f in files:
            if f.endswith(".lean") or f == "lakefile.toml":
                out.append(os.path.join(root, f))
    return sorted(out)


def _sources_digest():
    h = hashlib.sha256()
    for f in _lean_sources():
        if os.path.basename(f) == "Audit.lean":
            continue
        h.update(f.encode())
        h.update(open(f, "rb").read())
    return h.hexdigest()


FORBIDDEN = re.compile(r"\bsorry\b|\badmit\b|^\s*axiom\s|native_decide|bv_decide|implemented_by|\bunsafe\s|maxHeartbeats\s+0\b")


def _strip_comments(text):
    # remove /- ... -/ (nested not handled beyond one level is fine here) and -- comments
    out, i, depth = [], 0, 0
    while i < len(text):
        if text.startswith("/-", i):
            depth += 1
            i += 2
        elif text.startswith("-/", i) and depth > 0:
            depth -= 1
            i += 2
        elif depth > 0:
            if text[i] == "\n":
                out.append("\n")
            i += 1
        elif text.startswith("--", i):
            while i < len(text) and text[i] != "\n":
                i += 1
        else:
            out.append(text[i])
            i += 1
    return "".join(out)


def prop_theorems():
    """Map property id -> list of fully qualified theorem names found in Pyvsc/Props/*.lean."""
    res = {}
    pdir = os.path.join(LEAN, "Pyvsc", "Props")
    for f in sorted(os.listdir(pdir)):
        if not f.endswith(".lean"):
            continue
        text = _strip_comments(open(os.path.join(pdir, f)).read())
        ns = []
        for line in text.split("\n"):
            m = re.match(r"\s*namespace\s+(\S+)", line)
            if m:
                ns.append(m.group(1))
                continue
            m = re.match(r"\s*end\s+(\S+)", line)
            if m and ns and ns[-1].split(".")[-1] == m.group(1).split(".")[-1]:
                ns.pop()
                continue
            m = re.match(r"\s*(?:@\[[^\]]*\]\s*)?(?:private\s+|protected\s+)?theorem\s+([^\s:({\[]+)", line)
            if m:
                name = ".".join(ns + [m.group(1)])
                res.setdefault(f[:-5], []).append(name)
    return res


def lean_build_and_audit():
    """`lake build` (no-op when up to date) + axiom audit of every theorem in Props/*.
    Returns the audit dict {module: [{name, axioms}]}.  Raises InfraError on failure."""
    os.makedirs(os.path.join(LEAN, ".lake"), exist_ok=True)
    lock = open(os.path.join(LEAN, ".lake", "verif.lock"), "w")
    fcntl.flock(lock, fcntl.LOCK_EX)
    try:
        digest = _sources_digest()
        cache = os.path.join(LEAN, ".lake", "audit.json")
        if os.path.exists(cache) and os.path.exists(PVDRV):
            try:
                c = json.load(open(cache))
                if c.get("digest") == digest:
                    return c
            except Exception:
                pass
        rc, out = _run(["lake", "build"], cwd=LEAN)
        if rc != 0:
            raise InfraError("lake build failed:\n" + out[-4000:])
        # forbidden tokens
        bad = []
        for f in _lean_sources():
            if not f.endswith(".lean") or os.path.basename(f) == "Audit.lean":
                continue
            txt = _strip_comments(open(f).read())
            for n, line in enumerate(txt.split("\n"), 1):
                if FORBIDDEN.search(line):
                    bad.append("%s:%d: %s" % (os.path.relpath(f, LEAN), n, line.strip()))
        if bad:
            raise InfraError("forbidden tokens in Lean sources:\n" + "\n".join(bad))
        thms = prop_theorems()
        lines = ["import Pyvsc"]
        for mod in thms:
            lines.append("import Pyvsc.Props.%s" % mod)
        for mod, names in thms.items():
            for n in names:
                lines.append('#print axioms %s' % n)
        open(os.path.join(LEAN, "Audit.lean"), "w").write("\n".join(lines) + "\n")
        rc, out = _run(["lake", "env", "lean", "Audit.lean"], cwd=LEAN)
        if rc != 0:
            raise InfraError("axiom audit failed:\n" + out[-4000:])
        ax = {}
        for m in re.finditer(r"^'(\S+)' depends on axioms: \[([^\]]*)\]|^'(\S+)' does not depend on any axioms", out, re.M):
            if m.group(1):
                ax[m.group(1)] = [a.strip() for a in m.group(2).replace("\n", " ").split(",") if a.strip()]
            else:
                ax[m.group(3)] = []
        audit = {"digest": digest, "modules": {}}
        for mod, names in thms.items():
            audit["modules"][mod] = [{"name": n, "axioms": ax.get(n)} for n in names]
        json.dump(audit, open(cache, "w"), indent=1)
        return audit
    finally:
        fcntl.flock(lock, fcntl.LOCK_UN)
        lock.close()


def obligations_for(modules):
    """Count obligations / discharged for the given Props modules (list of names)."""
    audit = lean_build_and_audit()
    obl, dis, items, problems = 0, 0, [], []
    for mod in modules:
        for t in audit["modules"].get(mod, []):
            obl += 1
            axs = t["axioms"]
            ok = axs is not None and set(axs) <= STD_AXIOMS
            if ok:
                dis += 1
            else:
                problems.append("%s: axioms=%s" % (t["name"], axs))
            items.append({"theorem": t["name"], "axioms": axs})
    if problems:
        raise InfraError("theorems with unexpected axioms / missing from audit:\n" + "\n".join(problems))
    if obl == 0:
        raise InfraError("no theorems found for modules %s" % modules)
    if parse_args(sys.argv[1:])[0] == "thorough":
        # thorough tier: the compiled proofs of these modules (and everything they import from this project) are
        # re-checked by the toolchain's independent checker
        for mod in modules:
            rc, out = _run(["lake", "env", "leanchecker", "Pyvsc.Props.%s" % mod], cwd=LEAN, timeout=1800)
            if rc != 0:
                raise InfraError("leanchecker rejected Pyvsc.Props.%s:\n%s" % (mod, out[-2000:]))
            RECHECKED.append("Pyvsc.Props.%s" % mod)
    return obl, dis, items


RECHECKED = []


class Drv:
    """Batch interface to pvdrv: all requests of a run go through one process invocation."""

    def __init__(self):
        if not os.path.exists(PVDRV):
            lean_build_and_audit()
        self.n = 0

    def batch(self, reqs):
        if not reqs:
            return []
        with tempfile.TemporaryDirectory(prefix="pvdrv") as d:
            fin = os.path.join(d, "in.jsonl")
            with open(fin, "w") as f:
                for r in reqs:
                    f.write(json.dumps(r, separators=(",", ":")) + "\n")
            with open(fin) as f:
                p = subprocess.run([PVDRV], stdin=f, stdout=subprocess.PIPE, stderr=subprocess.PIPE, text=True,
                                   preexec_fn=_unlimit_memory)
            if p.returncode != 0:
                keep = os.environ.get("PVDRV_KEEP")
                if keep:
                    import shutil
                    shutil.copy(fin, keep)
                raise InfraError("pvdrv crashed: rc=%s %s" % (p.returncode, p.stderr[-2000:]))
            lines = p.stdout.split("\n")
            if lines and lines[-1] == "":
                lines.pop()
            if len(lines) != len(reqs):
                raise InfraError("pvdrv answered %d lines for %d requests" % (len(lines), len(reqs)))
            out = []
            for ln in lines:
                j = json.loads(ln)
                if "err" in j:
                    out.append({"__err__": j["err"]})
                else:
                    out.append(j["ok"])
            self.n += len(reqs)
            return out


# ----------------------------------------------------------------------------- verdicts

def load_known():
    p = os.path.join(VERIF, "known_findings.json")
    if not os.path.exists(p):
        return []
    return json.load(open(p))["findings"]


class Check:
    """Bookkeeping of one run of one property's check."""

    def __init__(self, prop, tier, seed, modules):
        self.prop, self.tier, self.seed, self.modules = prop, tier, seed, modules
        self.t0 = time.time()
        self.violations = []      # (key, replay dict, nofail)
        self.known_hit = []
        self.cov = {}
        self.samples = []
        self.counts = {}
        self.known = [k for k in load_known() if k["property"] == prop]
        self.corr_failures = []   # correspondence failures (model != impl)
        self.oracle_failures = []  # impl contradicts Spec
        self.rng = random.Random((seed * 1000003) ^ int(hashlib.sha256(prop.encode()).hexdigest()[:8], 16))

    def count(self, key, n=1):
        self.counts[key] = self.counts.get(key, 0) + n

    def sample(self, obj, limit=6):
        if len(self.samples) < limit:
            self.samples.append(obj)

    # --- classification ------------------------------------------------------
    def oracle_fail(self, signature, case, observed, required):
        """The real code contradicts the Spec on `case`."""
        self.oracle_failures.append({"signature": signature, "case": case, "observed": observed, "required": required})

    def corr_fail(self, what, case, model, impl):
        """Model and implementation disagree on `case` (not by itself a violation)."""
        self.corr_failures.append({"what": what, "case": case, "model": model, "impl": impl})

    def finish(self, obligations=None, extra_cov=None, assumptions=None, theorems_lost=None):
        """Classify, write replays + evidence, print verdict lines, return exit code."""
        rc = EXIT_OK
        os.makedirs(os.path.join(VERIF, "replays"), exist_ok=True)
        reported = set()
        known_by_sig = {}
        for k in self.known:
            if k.get("status") == "known":
                known_by_sig[k["signature"]] = k
        known_seen = {}
        new_viol = []
        for f in self.oracle_failures:
            if f["signature"] in known_by_sig:
                known_seen.setdefault(f["signature"], f)
            else:
                new_viol.append(f)
        for sig, f in known_seen.items():
            print("KNOWN-FINDING: property=%s %s" % (self.prop, known_by_sig[sig]["what"]))
        # group new violations by signature, report the smallest case of each
        by_sig = {}
        for f in new_viol:
            cur = by_sig.get(f["signature"])
            if cur is None or len(json.dumps(f["case"], default=str)) < len(json.dumps(cur["case"], default=str)):
                by_sig[f["signature"]] = f
        nviol = 0
        for sig, f in by_sig.items():
            path = self._write_replay({"property": self.prop, "kind": "failing-input", "signature": sig,
                                       "seed": self.seed, "tier": self.tier, **f})
            print("VIOLATION property=%s replay=%s" % (self.prop, path))
            nviol += 1
            rc = EXIT_VIOLATION
        if self.corr_failures and not by_sig and not known_seen_covers(self.corr_failures, known_seen):
            f = min(self.corr_failures, key=lambda x: len(json.dumps(x["case"], default=str)))
            path = self._write_replay({"property": self.prop, "kind": "correspondence-lost",
                                       "seed": self.seed, "tier": self.tier,
                                       "correspondence": f["what"],
                                       "theorems_no_longer_tied_to_code": theorems_lost or self.modules,
                                       "first_disagreement": f,
                                       "n_disagreements": len(self.corr_failures),
                                       "note": "model and implementation disagree; the failing-input search found no input on which the implementation contradicts the property's reference semantics"})
            print("VIOLATION property=%s replay=%s no-failing-input-found" % (self.prop, path))
            nviol += 1
            rc = EXIT_VIOLATION
        cov = dict(self.cov)
        if obligations is not None:
            obl, dis, items = obligations
            cov.update({"obligations": obl, "discharged": dis,
                        "checker_cmd": "cd lean && lake build && lake env lean Audit.lean  (#print axioms on every theorem of Pyvsc/Props/%s.lean)" % ",".join(self.modules),
                        "trusted_base": ["Lean 4.33 kernel", "axioms: propext, Classical.choice, Quot.sound only (audited per theorem)",
                                         "hand-written model in lean/Pyvsc/Model tied to /repo by the differential correspondence run reported here",
                                         "harness/*.py (scenario execution on the real library, canonicalisation, diff)"],
                        "theorems": items})
        cov.setdefault("evaluations", sum(v for k, v in self.counts.items() if k.startswith("eval")))
        cov["counts"] = self.counts
        cov["samples"] = self.samples if self.samples else [{"note": "no sample recorded"}]
        cov["correspondence_disagreements"] = len(self.corr_failures)
        cov["disagreements_checked"] = cov.get("evaluations", 0)
        cov["oracle_failures"] = len(self.oracle_failures)
        cov["known_findings_replayed"] = sorted(known_seen)
        cov["repo"] = REPO
        if RECHECKED:
            cov["leanchecker_ok"] = list(RECHECKED)
        if extra_cov:
            cov.update(extra_cov)
        ev = {"property_id": self.prop, "tier": self.tier, "seed": self.seed, "level": "proof",
              "coverage": cov, "assumptions": assumptions or [], "wall_s": round(time.time() - self.t0, 2),
              "violations": nviol}
        os.makedirs(os.path.join(VERIF, "evidence"), exist_ok=True)
        json.dump(ev, open(os.path.join(VERIF, "evidence", self.prop + ".json"), "w"), indent=1, default=str)
        return rc

    def _write_replay(self, obj):
        s = json.dumps(obj, indent=1, default=str, sort_keys=True)
        h = hashlib.sha256(s.encode()).hexdigest()[:10]
        rel = "replays/%s-%s.json" % (self.prop, h)
        open(os.path.join(VERIF, rel), "w").write(s)
        return rel


def guarded(ck, tag, case, fn, *args):
    """Run a Spec-oracle function; observations too ill-shaped for the oracle to read (index errors,
    missing keys) mean the implementation's data contradicts the property's data model."""
    import traceback
    try:
        return fn(*args)
    except Exception as e:
        ck.oracle_fail(tag + ":inconsistent-observation:" + type(e).__name__, case,
                       traceback.format_exc()[-700:], "observations the property's reference semantics can be evaluated on")
        return None


class CheckTimeout(BaseException):
    pass


class LibraryCrash(BaseException):
    """a worker process died (signal) while running the library"""

    def __init__(self, inflight):
        BaseException.__init__(self, "worker process died")
        self.inflight = inflight


_INFLIGHT = {}


def _inflight_path(pid):
    return os.path.join(VERIF, "replays", ".inflight-%d.json" % pid)


def note_inflight(case):
    """record the scenario about to be run on the library, so that it can be named should the interpreter die in it"""
    pid = os.getpid()
    f = _INFLIGHT.get(pid)
    if f is None:
        os.makedirs(os.path.join(VERIF, "replays"), exist_ok=True)
        _INFLIGHT.clear()
        f = _INFLIGHT[pid] = open(_inflight_path(pid), "w")
        import atexit
        atexit.register(clear_inflight)
    f.seek(0)
    f.truncate()
    json.dump(case, f, default=str)
    f.flush()


def clear_inflight():
    pid = os.getpid()
    f = _INFLIGHT.pop(pid, None)
    if f is not None:
        f.close()
        try:
            os.remove(_inflight_path(pid))
        except OSError:
            pass


def _pmap_call(a):
    fn, chunk = a
    try:
        return fn(chunk)
    finally:
        clear_inflight()


def pmap(fn, chunks):
    """fn over chunks in forked worker processes; a worker killed by a signal raises LibraryCrash (multiprocessing.Pool
    would wait forever for the lost task)"""
    import concurrent.futures as cf
    import multiprocessing
    from concurrent.futures.process import BrokenProcessPool
    ex = cf.ProcessPoolExecutor(len(chunks), mp_context=multiprocessing.get_context("fork"))
    try:
        futs = [ex.submit(_pmap_call, (fn, c)) for c in chunks]
        pids = list(getattr(ex, "_processes", {}) or {})
        try:
            return [f.result() for f in futs]
        except BrokenProcessPool:
            infl = []
            _kill_descendants()
            for pid in pids:
                try:
                    infl.append(json.load(open(_inflight_path(pid))))
                except Exception:
                    pass
                try:
                    os.remove(_inflight_path(pid))
                except OSError:
                    pass
            raise LibraryCrash(infl)
    finally:
        ex.shutdown(wait=False, cancel_futures=True)


class CallTimeout(BaseException):
    """one call into the library exceeded its time limit (BaseException: `except Exception` in the library must not swallow it)"""


class time_limit:
    """`with time_limit(s):` raises CallTimeout in the main thread when the body runs longer than `s` seconds (also turns
    MemoryError from the address-space limit into CallTimeout); nests inside run_main's overall alarm and restores it."""

    def __init__(self, seconds):
        self.seconds = seconds

    def __enter__(self):
        import signal
        self.old_handler = signal.getsignal(signal.SIGALRM)
        self.remaining = signal.setitimer(signal.ITIMER_REAL, 0)[0]
        import time
        self.t0 = time.time()

        def on(signum, frame):
            raise CallTimeout()
        signal.signal(signal.SIGALRM, on)
        signal.setitimer(signal.ITIMER_REAL, self.seconds, 1.0)     # re-fires every second should something swallow it
        return self

    def __exit__(self, et, ev, tb):
        import signal
        import time
        signal.setitimer(signal.ITIMER_REAL, 0)
        signal.signal(signal.SIGALRM, self.old_handler)
        if self.remaining:
            signal.setitimer(signal.ITIMER_REAL, max(0.01, self.remaining - (time.time() - self.t0)))
        if et is MemoryError:
            raise CallTimeout() from None
        return False


def _kill_descendants():
    import signal
    me = os.getpid()
    kids = {}
    for d in os.listdir("/proc"):
        if d.isdigit():
            try:
                f = open("/proc/%s/stat" % d).read()
                kids.setdefault(int(f.rsplit(")", 1)[1].split()[1]), []).append(int(d))
            except Exception:
                pass
    todo, seen = [me], []
    while todo:
        for k in kids.get(todo.pop(), []):
            seen.append(k)
            todo.append(k)
    for k in seen:
        try:
            os.kill(k, signal.SIGKILL)
        except Exception:
            pass


def _on_alarm(signum, frame):
    raise CheckTimeout()


def run_main(main):
    """uniform top level: infrastructure problems exit 2, never a bare traceback.

    A wall-clock budget guards the whole run (quick: 25 min for checks that take seconds to a minute; thorough: 5 h for
    checks that take minutes): when a change to the library makes it loop or crawl on the generated inputs the check
    does not hang, it reports that the property could not be shown to hold."""
    import signal
    import traceback
    tier = parse_args(sys.argv[1:])[0]
    budget = int(os.environ.get("PYVSC_VERIF_BUDGET_S", "18000" if tier == "thorough" else "1500"))
    prop = os.path.basename(sys.argv[0])[:3].upper()
    signal.signal(signal.SIGALRM, _on_alarm)
    signal.alarm(budget)
    try:
        main()
    except LibraryCrash as e:
        os.makedirs(os.path.join(VERIF, "replays"), exist_ok=True)
        rel = "replays/%s-crash.json" % prop
        json.dump({"property": prop, "kind": "interpreter-crash", "tier": tier,
                   "note": "a worker process running the library was killed by a signal (segmentation fault, abort or the memory "
                           "limit); the scenarios in flight in the dead workers are listed",
                   "in_flight": e.inflight[:4]}, open(os.path.join(VERIF, rel), "w"), indent=1, default=str)
        print("VIOLATION property=%s replay=%s%s" % (prop, rel, "" if e.inflight else " no-failing-input-found"))
        sys.stdout.flush()
        _kill_descendants()
        clear_inflight()
        os._exit(EXIT_VIOLATION)
    except CheckTimeout:
        os.makedirs(os.path.join(VERIF, "replays"), exist_ok=True)
        rel = "replays/%s-timeout.json" % prop
        json.dump({"property": prop, "kind": "no-termination", "tier": tier, "budget_s": budget,
                   "note": "the check did not finish within its wall-clock budget: on the generated inputs the library does not "
                           "return (or is orders of magnitude slower than on the registered tree); the theorems of this property "
                           "are not tied to this code; no single failing input was isolated"},
                  open(os.path.join(VERIF, rel), "w"), indent=1)
        print("VIOLATION property=%s replay=%s no-failing-input-found" % (prop, rel))
        sys.stdout.flush()
        _kill_descendants()                              # worker processes still inside the library
        clear_inflight()
        os._exit(EXIT_VIOLATION)
    except InfraError as e:
        print("INFRA-ERROR: " + str(e))
        sys.exit(EXIT_INFRA)
    except SystemExit:
        raise
    except Exception as e:
        # an exception raised inside the library (innermost frame under <repo>/src) where the harness expects none:
        # the code under test misbehaves on an input the registered tree handles; anything else is a harness problem
        tb = traceback.extract_tb(e.__traceback__)
        lib = os.path.join(os.environ.get("VERIF_REPO", "/repo"), "src") + os.sep
        if tb and os.path.abspath(tb[-1].filename).startswith(os.path.abspath(lib)):
            os.makedirs(os.path.join(VERIF, "replays"), exist_ok=True)
            rel = "replays/%s-libexc.json" % prop
            infl = None
            try:
                infl = json.load(open(_inflight_path(os.getpid())))
            except Exception:
                pass
            json.dump({"property": prop, "kind": "library-exception", "tier": tier, "exception": "%s: %s" % (type(e).__name__, str(e)[:300]),
                       "raised_at": "%s:%d in %s" % (tb[-1].filename, tb[-1].lineno, tb[-1].name),
                       "traceback": traceback.format_exc()[-2500:], "in_flight": infl,
                       "note": "the library raised where the check expects a result (the registered tree returns one for the same input)"},
                      open(os.path.join(VERIF, rel), "w"), indent=1, default=str)
            print("VIOLATION property=%s replay=%s%s" % (prop, rel, "" if infl else " no-failing-input-found"))
            clear_inflight()
            sys.exit(EXIT_VIOLATION)
        print("INFRA-ERROR: unexpected harness exception\n" + traceback.format_exc()[-1500:])
        sys.exit(EXIT_INFRA)


def known_seen_covers(corr_failures, known_seen):
    """Correspondence failures that are explained by a replayed known finding are not reported twice."""
    return False


def parse_args(argv):
    tier = os.environ.get("VERIF_TIER", "quick")
    replay = None
    i = 0
    while i < len(argv):
        if argv[i] == "--tier":
            tier = argv[i + 1]
            i += 2
        elif argv[i] == "--replay":
            replay = argv[i + 1]
            i += 2
        else:
            i += 1
    seed = int(os.environ.get("VERIF_SEED", "0") or 0)
    return tier, seed, replay
