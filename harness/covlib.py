"""Real-library side of the coverage checks: build @vsc.covergroup classes from the JSON
coverpoint specification shared with the Lean driver, sample them, read the hit vectors back
through the public model getters."""
import enum
import random

import common

_cnt = [0]


def _uniq(prefix):
    _cnt[0] += 1
    return "%s%d" % (prefix, _cnt[0])


def rng_arg(r):
    """a spec range [lo,hi] or [v] -> API argument"""
    if len(r) == 1:
        return r[0]
    return (r[0], r[1])


def norm_ranges(rs):
    return [[r[0], r[-1]] for r in rs]


def mk_bins(vsc, bins):
    if bins is None:
        return None
    d = {}
    for b in bins:
        k = b["kind"]
        if k == "bin":
            d[b["name"]] = vsc.bin(*[rng_arg(r) for r in b["api_ranges"]])
        elif k == "bin_array":
            nb = [] if b["nbins"] == -1 else [b["nbins"]]
            args = [r[0] if len(r) == 1 else [r[0], r[1]] for r in b["api_ranges"]]
            d[b["name"]] = vsc.bin_array(nb, *args)
        elif k == "wild":
            d[b["name"]] = vsc.wildcard_bin(*[p["s"] if "s" in p else tuple(p["vm"]) for p in b["api_pats"]])
        elif k == "wild_array":
            nb = [] if b["nbins"] == -1 else [b["nbins"]]
            d[b["name"]] = vsc.wildcard_bin_array(nb, *[p["s"] if "s" in p else tuple(p["vm"]) for p in b["pats"]])
        else:
            raise Exception("kind " + k)
    return d


def mk_xbins(vsc, xs):
    if not xs:
        return None
    return {b["name"]: vsc.bin(*[rng_arg(r) for r in b["api_ranges"]]) for b in xs}


def make_type(vsc, ty):
    if ty["kind"] == "enum":
        E = enum.IntEnum("E", [(n, v) for v, n in ty["members"]])
        return (lambda: vsc.enum_t(E)), E
    T = vsc.int_t if ty["s"] else vsc.bit_t
    return (lambda: T(ty["w"])), None


def build_cg(vsc, spec, iff_mode="field"):
    """returns (cg instance, sample function(iff, v))"""
    mkT, E = make_type(vsc, spec["type"])
    bins = mk_bins(vsc, spec["bins"])
    ign = mk_xbins(vsc, spec["ignore"])
    ill = mk_xbins(vsc, spec["illegal"])
    opts = {}
    if spec.get("auto_bin_max") is not None and spec["bins"] is None and spec["type"]["kind"] != "enum":
        opts["auto_bin_max"] = spec["auto_bin_max"]
    cpname = spec["name"]
    state = {"en": True}

    def init(self):
        self.with_sample(dict(a=mkT(), en=vsc.bit_t(1)))
        kw = dict(bins=bins, ignore_bins=ign, illegal_bins=ill)
        if opts:
            kw["options"] = opts
        if iff_mode == "field":
            kw["iff"] = self.en
        elif iff_mode == "lambda":
            kw["iff"] = lambda: state["en"]
        setattr(self, cpname, vsc.coverpoint(self.a, **kw))

    cls = type(_uniq("cg"), (object,), {"__init__": init})
    cg = vsc.covergroup(cls)()

    def sample(iff, v):
        state["en"] = bool(iff)
        if E is not None:
            v = E(v)
        cg.sample(v, 1 if iff else 0)
    return cg, sample, (lambda: getattr(cg, cpname).get_model())


def read_cp(m):
    n = m.get_n_bins()
    ni = m.get_n_ignore_bins()
    nl = m.get_n_illegal_bins()
    def nm(f, i):
        try:
            return f(i)
        except Exception as e:
            return "error"
    return {"nbins": n, "names": [nm(m.get_bin_name, i) for i in range(n)],
            "n_ign": ni, "ign_names": [nm(m.get_ignore_bin_name, i) for i in range(ni)],
            "n_ill": nl, "ill_names": [nm(m.get_illegal_bin_name, i) for i in range(nl)],
            "hits": [m.get_bin_hits(i) for i in range(n)],
            "ign": [m.get_ignore_bin_hits(i) for i in range(ni)],
            "ill": [m.get_illegal_bin_hits(i) for i in range(nl)]}


TIMED_OUT = []


def run_impl(vsc, spec, iff_mode="field", with_events=True):
    """Execute a coverpoint spec + sample sequence on the real library.
    Returns the same shape as the driver's cp.run, or {"exc": ...}."""
    from vsc.impl.coverage_registry import CoverageRegistry
    CoverageRegistry.clear()
    if TIMED_OUT:
        return {"exc": "DoesNotTerminate", "msg": "skipped: an earlier coverpoint of this run did not return"}
    try:
        with common.quiet(), common.time_limit(60):     # milliseconds on the registered tree
            cg, sample, getm = build_cg(vsc, spec, iff_mode)
            m = getm()
            events = []
            prev = None
            for iff, v in spec["samples"]:
                if with_events:
                    before = (list(m.hit_l), list(m.hit_ignore_l), list(m.hit_illegal_l))
                sample(iff, v)
                if with_events:
                    after = (m.hit_l, m.hit_ignore_l, m.hit_illegal_l)
                    ev = []
                    for b, a in zip(before, after):
                        e = []
                        for i, (x, y) in enumerate(zip(b, a)):
                            e.extend([i] * (y - x))
                        ev.append(e)
                    events.append(ev)
            r = read_cp(m)
            if with_events:
                r["events"] = events
            return r
    except common.CallTimeout:
        TIMED_OUT.append(1)
        return {"exc": "DoesNotTerminate", "msg": "no result within 60 s (or out of memory)"}
    except Exception as e:
        return {"exc": type(e).__name__, "msg": str(e)[:200]}


# ------------------------------------------------------------------ generators

def gen_ranges(rng, lo, hi, style=None, maxn=4):
    """list of api ranges ([v] or [lo,hi]) within [lo,hi]; style controls overlap/order"""
    style = style or rng.choice(["disjoint", "disjoint", "adjacent", "overlap", "unordered", "values"])
    n = rng.randint(1, maxn)
    out = []
    if style == "values":
        for _ in range(n):
            out.append([rng.randint(lo, hi)])
        return out
    pts = sorted(rng.randint(lo, hi) for _ in range(2 * n))
    for i in range(n):
        a, b = pts[2 * i], pts[2 * i + 1]
        if style == "adjacent" and out and len(out[-1]) == 2:
            a = out[-1][1] + 1
            if a > b:
                b = a
            if b > hi:
                continue
        if style == "overlap" and out:
            a = rng.randint(out[-1][0], out[-1][-1])
            if b < a:
                b = a
        if a == b and rng.random() < 0.5:
            out.append([a])
        else:
            out.append([a, b])
    if style in ("unordered", "overlap"):
        rng.shuffle(out)
    if not out:
        out.append([rng.randint(lo, hi)])
    return out


def gen_cp_spec(rng, idx, allow_wild=False):
    kind = rng.random()
    if kind < 0.12:
        k = rng.randint(1, 6)
        vals = rng.sample(range(-8, 24), k)
        ty = {"kind": "enum", "members": [[v, "m%d" % j] for j, v in enumerate(vals)],
              "vals": [[v, "E.m%d" % j] for j, v in enumerate(vals)]}
        lo, hi = min(vals), max(vals)
        domain = sorted(vals)
    else:
        w = rng.choice([1, 2, 3, 3, 4, 4, 5, 6, 8])
        s = rng.random() < 0.25
        ty = {"kind": "int", "w": w, "s": s}
        lo, hi = (-(1 << (w - 1)), (1 << (w - 1)) - 1) if s else (0, (1 << w) - 1)
        domain = list(range(lo, hi + 1))
    spec = {"op": "cp.run", "name": "cp", "type": ty, "auto_bin_max": None, "bins": None, "ignore": [], "illegal": []}
    r = rng.random()
    if ty["kind"] == "enum":
        auto = r < 0.7
    else:
        auto = r < 0.3
    if auto:
        spec["auto_bin_max"] = rng.choice([1, 2, 3, 4, 5, 7, 8, 16, 64]) if ty["kind"] == "int" else None
    else:
        bins = []
        for bi in range(rng.randint(1, 3)):
            name = "b%d" % bi
            t = rng.random()
            if allow_wild and t < 0.5 and ty["kind"] == "int" and not ty["s"]:
                bins.append(gen_wild_bin(rng, name, ty["w"]))
            elif t < 0.45:
                api = gen_ranges(rng, lo, hi)
                bins.append({"name": name, "kind": "bin", "api_ranges": api, "ranges": norm_ranges(api)})
            else:
                api = gen_ranges(rng, lo, hi)
                if len(api) == 1 and len(api[0]) == 1:
                    api.append([rng.randint(lo, hi)])   # single int arg is a different constructor form; keep ≥ 2 args or a range
                nb = rng.choice([-1, -1, 1, 2, 3, 4, 5, 8])
                bins.append({"name": name, "kind": "bin_array", "nbins": nb, "api_ranges": api, "ranges": norm_ranges(api)})
        spec["bins"] = bins
    if rng.random() < 0.45:
        for j in range(rng.randint(1, 2)):
            api = gen_ranges(rng, lo, hi, style=rng.choice(["disjoint", "values", "unordered"]), maxn=2)
            spec["ignore"].append({"name": "ig%d" % j, "api_ranges": api, "ranges": norm_ranges(api)})
    if rng.random() < 0.25:
        api = gen_ranges(rng, lo, hi, style=rng.choice(["disjoint", "values"]), maxn=2)
        spec["illegal"].append({"name": "il0", "api_ranges": api, "ranges": norm_ranges(api)})
    # samples: every value of the domain once (iff on), then a random sequence with iff mix and out-of-bin values
    samples = [[True, v] for v in domain]
    for _ in range(rng.randint(1, 30)):
        samples.append([rng.random() < 0.7, rng.choice(domain)])
    spec["samples"] = samples
    return spec


def gen_wild_bin(rng, name, w):
    def pat():
        if rng.random() < 0.5:
            base = rng.choice(["0b", "0x", "0o", "0B", "0X"])
            bits = {"b": 1, "x": 4, "o": 3}[base[1].lower()]
            nd = max(1, (w + bits - 1) // bits)
            digs = []
            for i in range(nd):
                if rng.random() < 0.4:
                    digs.append(rng.choice("xX?"))
                else:
                    top = (1 << min(bits, w - (nd - 1 - i) * bits)) - 1 if i == 0 else (1 << bits) - 1
                    digs.append("%x" % rng.randint(0, max(top, 0)))
                if rng.random() < 0.15:
                    digs.append("_")
            return {"s": base + "".join(digs)}
        m = rng.randint(0, (1 << w) - 1)
        v = rng.randint(0, (1 << w) - 1)
        if rng.random() < 0.6:
            v &= m
        return {"vm": [v, m]}
    pats = [pat() for _ in range(rng.randint(1, 2))]
    if rng.random() < 0.5:
        return {"name": name, "kind": "wild", "api_pats": pats, "pats": pats}
    return {"name": name, "kind": "wild_array", "nbins": rng.choice([-1, -1, 1, 2, 3]), "pats": pats}
