"""The constraint statement tree of an object model as the override/rollback model (lean/Pyvsc/Model/Override.lean) sees it.

Read from the implementation before and after a call; the driver op t.rollback runs the model's complete call
(Stmt.call = expand then rollback) on the tree read before, and the answer must equal the tree read after.
Theorems C16R.call_restores / calls_restore say what that answer is for every clean tree: the tree itself."""


def stmt(c):
    from vsc.model.constraint_override_model import ConstraintOverrideModel
    from vsc.model.constraint_foreach_model import ConstraintForeachModel
    from vsc.model.constraint_dist_model import ConstraintDistModel
    from vsc.model.constraint_if_else_model import ConstraintIfElseModel
    from vsc.model.constraint_scope_model import ConstraintScopeModel
    if isinstance(c, ConstraintOverrideModel):
        return {"k": "ovr", "orig": stmt(c.orig_constraint), "d": max(0, int(c.depth))}
    if isinstance(c, ConstraintForeachModel):
        return {"k": "x", "b": [stmt(x) for x in c.constraint_l]}
    if isinstance(c, ConstraintDistModel):
        return {"k": "x", "b": []}
    if isinstance(c, ConstraintIfElseModel):
        return {"k": "scope", "b": [stmt(x) for x in (c.true_c, c.false_c) if x is not None]}
    if isinstance(c, ConstraintScopeModel):
        return {"k": "scope", "b": [stmt(x) for x in c.constraint_l]}
    return {"k": "atom"}


def shape(fm, seen=None):
    """the tree of a composite field model: its blocks, its dynamic blocks, then the trees of its composite members and
    of the elements of its lists"""
    seen = set() if seen is None else seen
    if id(fm) in seen:
        return {"k": "scope", "b": []}
    seen.add(id(fm))
    b = [stmt(c) for c in getattr(fm, "constraint_model_l", [])]
    b += [stmt(c) for c in getattr(fm, "constraint_dynamic_model_l", [])]
    for f in getattr(fm, "field_l", []):
        if hasattr(f, "field_l"):
            b.append(shape(f, seen))
    return {"k": "scope", "b": b}


def n_nodes(t):
    return 1 + sum(n_nodes(x) for x in t.get("b", [])) + (n_nodes(t["orig"]) if "orig" in t else 0)


def n_expandable(t):
    return (1 if t["k"] == "x" else 0) + sum(n_expandable(x) for x in t.get("b", [])) + (n_expandable(t["orig"]) if "orig" in t else 0)
