"""C05 — soft constraints are never fatal, are honoured maximally, and later ones win."""
import os
import sys
sys.path.insert(0, os.path.dirname(os.path.abspath(__file__)))
import common
import solvecheck

THEOREMS = ["Pyvsc.C05.soft_never_fatal", "Pyvsc.C05.soft_maximal", "Pyvsc.C05.soft_exact", "Pyvsc.C05.first_wins",
            "Pyvsc.C05.sort_is_reverse", "Pyvsc.C05.soft_guard", "Pyvsc.C05.soft_plain"]

PROFILE = {"big": 0.03, "soft": 0.45, "maxstmts": 5, "depth": 1, "inline": 0.5,
           "arops": ["add", "sub", "and", "or", "xor"]}

RULE = ("as C01 with 45% soft statements (conflicting equalities/inequalities on the same fields, nested under if/else-if/else and "
        "implies, in class blocks and inline); compared: soft list order (priority), the Assume/Assert pattern of the fallback loop, "
        "kept set; oracle: the exact greedy-by-priority reference computed by exhaustive enumeration of the reference semantics")

if __name__ == "__main__":
    common.run_main(lambda: solvecheck.standard_main(
        "C05", ["C05", "C05Soft"], THEOREMS, PROFILE, 300, 12000,
        ["as C01; the greedy reference is computed for rand sets with at most 13 random bits"],
        RULE))
