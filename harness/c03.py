"""C03 — a call changes only what is random in it; everything else acts as a constant."""
import os
import sys
sys.path.insert(0, os.path.dirname(os.path.abspath(__file__)))
import common
import worldcheck

THEOREMS = ["Pyvsc.C03.used_false", "Pyvsc.C03.member_scalar", "Pyvsc.C03.member_object", "Pyvsc.C03.target_used",
            "Pyvsc.C03.writes_only_random", "Pyvsc.C03.nonrandom_as_constants"]
RULE = ("generated object trees (leaf / derived leaf / mid / top classes, 1-3 sub-objects per level declared with rand_attr or attr, "
        "scalars random or not) and histories of 3-8 ops: value assignments, rand_mode toggles on scalars, constraint_mode toggles, "
        "randomize()/randomize_with() on the root or on a sub-object; per call compared: used-as-random flag of every field, rand sets, "
        "every lowered formula (non-random fields must appear as constants of their current value), values of all fields before/after "
        "(success and SolveFailure); non-trivial = distinct (used flags, active blocks, callbacks) triples")

RL_PROFILE = {"rangelists": True, "big": 0.0, "soft": 0.03, "enum": 0.0, "maxstmts": 2, "calls": 1, "inline": 0.2}


def free_standing(ck, tier, cases):
    """free-standing calls on stand-alone fields, and objects whose range lists are edited between calls"""
    import freecheck
    import solvecheck
    if cases is not None:
        free = [c for c in cases if c.get("free")]
        rls = [c for c in cases if c.get("rangelists")]
        if free:
            freecheck.run(ck, 0, extra=[{"fields": c["fields"], "calls": c["calls"]} for c in free])
        if rls:
            solvecheck.run(ck, "C03", 0, RL_PROFILE, extra=rls)
    else:
        freecheck.run(ck, 3000 if tier == "thorough" else 160)
        solvecheck.run(ck, "C03/rl", 3000 if tier == "thorough" else 150, RL_PROFILE)


if __name__ == "__main__":
    common.run_main(lambda: worldcheck.standard_main(
        "C03", ["C03"], THEOREMS, {"nops": 8}, 150, 6000,
        ["as C01 for the solve itself; rand_mode is toggled on scalar fields only (through vsc.raw_mode())",
         "non-random lists edited between calls are generated under C04"],
        RULE + "; plus free-standing calls: 2-4 stand-alone fields, 2-4 calls vsc.randomize(*passed) / vsc.randomize_with(*passed) with "
        "inline constraints over passed and not-passed fields, assignments between calls; a field is random in a call iff it is passed; "
        "fields that are not passed must keep their values and appear as constants in every formula; plus objects holding 1-2 range lists that "
        "constraints refer to (in / not in) and that are edited between calls (clear, append, extend): the formulas of every call must "
        "carry the content at that time",
        keep=lambda w: not w.startswith("callbacks"), extra_run=free_standing))
