"""C03 — a call changes only what is random in it; everything else acts as a constant."""
import os
import sys
sys.path.insert(0, os.path.dirname(os.path.abspath(__file__)))
import common
import worldcheck

THEOREMS = ["Pyvsc.C03.used_false", "Pyvsc.C03.member_scalar", "Pyvsc.C03.member_object", "Pyvsc.C03.target_used",
            "Pyvsc.C03.writes_only_random", "Pyvsc.C03.nonrandom_as_constants"]
RULE = ("generated object trees (leaf / derived leaf / mid / top classes, 1-3 sub-objects per level declared with rand_attr or attr, "
        "scalars random or not) and histories of 3-8 ops: value assignments, rand_mode toggles on scalars, constraint_mode toggles, "
        "randomize()/randomize_with() on the root or on a sub-object; per call compared: used-as-random flag of every field, rand sets, "
        "every lowered formula (non-random fields must appear as constants of their current value), values of all fields before/after "
        "(success and SolveFailure); non-trivial = distinct (used flags, active blocks, callbacks) triples")

def free_standing(ck, tier, cases):
    import freecheck
    if cases is not None:
        freecheck.run(ck, 0, extra=[{"fields": c["fields"], "calls": c["calls"]} for c in cases])
    else:
        freecheck.run(ck, 3000 if tier == "thorough" else 160)


if __name__ == "__main__":
    common.run_main(lambda: worldcheck.standard_main(
        "C03", ["C03"], THEOREMS, {"nops": 8}, 150, 6000,
        ["as C01 for the solve itself; rand_mode is toggled on scalar fields only (through vsc.raw_mode())",
         "mutable rangelists / non-random lists edited between calls are not generated in this revision (non-random lists as constants: C04)"],
        RULE + "; plus free-standing calls: 2-4 stand-alone fields, 2-4 calls vsc.randomize(*passed) / vsc.randomize_with(*passed) with "
        "inline constraints over passed and not-passed fields, assignments between calls; a field is random in a call iff it is passed; "
        "fields that are not passed must keep their values and appear as constants in every formula",
        keep=lambda w: not w.startswith("callbacks"), extra_run=free_standing))
