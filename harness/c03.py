"""C03 — a call changes only what is random in it; everything else acts as a constant."""
import os
import sys
sys.path.insert(0, os.path.dirname(os.path.abspath(__file__)))
import common
import worldcheck

THEOREMS = ["Pyvsc.C03.used_false", "Pyvsc.C03.member_scalar", "Pyvsc.C03.member_object", "Pyvsc.C03.target_used",
            "Pyvsc.C03.writes_only_random", "Pyvsc.C03.nonrandom_as_constants"]
RULE = ("generated object trees (leaf / derived leaf / mid / top classes, 1-3 sub-objects per level declared with rand_attr or attr, "
        "scalars random or not) and histories of 3-8 ops: value assignments, rand_mode toggles on scalars, constraint_mode toggles, "
        "randomize()/randomize_with() on the root or on a sub-object; per call compared: used-as-random flag of every field, rand sets, "
        "every lowered formula (non-random fields must appear as constants of their current value), values of all fields before/after "
        "(success and SolveFailure); non-trivial = distinct (used flags, active blocks, callbacks) triples")

RL_PROFILE = {"rangelists": True, "big": 0.0, "soft": 0.03, "enum": 0.0, "maxstmts": 2, "calls": 1, "inline": 0.2}


def free_standing(ck, tier, cases):
    """free-standing calls on stand-alone fields, and objects whose range lists are edited between calls"""
    import freecheck
    import solvecheck
    if cases is not None:
        free = [c for c in cases if c.get("free")]
        rls = [c for c in cases if c.get("rangelists")]
        if free:
            freecheck.run(ck, 0, extra=[{"fields": c["fields"], "calls": c["calls"]} for c in free])
        if rls:
            solvecheck.run(ck, "C03", 0, RL_PROFILE, extra=rls)
    else:
        sub_list_histories(ck, tier)
        freecheck.run(ck, 3000 if tier == "thorough" else 160)
        solvecheck.run(ck, "C03/rl", 3000 if tier == "thorough" else 150, RL_PROFILE)


def sub_list_histories(ck, tier):
    """A sub-object (declared with attr or rand_attr) whose constraints range over a non-random list it holds, called through
    its parent and on its own while the user edits the list between calls (element assignment, append, clear and refill).
    Reference semantics, computed here from the content at the time of each call: x < 8, w < 8 and both differ from every element,
    no value left = SolveFailure; a call in which the sub-object is not random leaves x and the list alone."""
    import random
    import solvelib as S
    S.install()
    import vsc
    from vsc.model.solve_failure import SolveFailure

    def classes(sub_rand):
        @vsc.randobj
        class Child:
            def __init__(self):
                self.x = vsc.rand_uint8_t()
                self.w = vsc.rand_uint8_t()
                self.thr = vsc.uint8_t(200)
                self.excl = vsc.list_t(vsc.uint8_t())
                for v in (0, 1, 2):
                    self.excl.append(v)

            @vsc.constraint
            def x_c(self):
                self.x < 8
                self.w < 8
                with vsc.foreach(self.excl, idx=True) as i:
                    self.x != self.excl[i]
                with vsc.foreach(self.excl) as e:
                    # decided per element while the foreach is expanded, from the value thr has at the time of the call
                    with vsc.if_then(self.thr >= 128):
                        self.w != e

        @vsc.randobj
        class Parent:
            def __init__(self):
                self.y = vsc.rand_uint8_t()
                self.child = (vsc.rand_attr if sub_rand else vsc.attr)(Child())
        return Child, Parent
    rng = random.Random("C03/sub-lists/%d" % ck.seed)
    for h in range(150 if tier == "thorough" else 20):
        sub_rand = rng.random() < 0.4
        Child, Parent = classes(sub_rand)
        p = Parent()
        ops = []
        for step in range(rng.randint(5, 12)):
            x = rng.random()
            excl = [int(v) for v in p.child.excl]
            if x < 0.4:
                how = rng.choice(["set", "append", "refill", "cover"])
                if how == "set" and excl:
                    k, v = rng.randrange(len(excl)), rng.randrange(9)
                    p.child.excl[k] = v
                    ops.append(["excl[%d]=" % k, v])
                elif how == "append":
                    v = rng.randrange(9)
                    p.child.excl.append(v)
                    ops.append(["append", v])
                elif how == "cover":
                    miss = rng.randrange(9)
                    vs = [v for v in range(8) if v != miss]
                    p.child.excl.clear()
                    for v in vs:
                        p.child.excl.append(v)
                    ops.append(["refill", vs])
                else:
                    vs = [rng.randrange(9) for _ in range(rng.randint(0, 6))]
                    p.child.excl.clear()
                    for v in vs:
                        p.child.excl.append(v)
                    ops.append(["refill", vs])
                continue
            if rng.random() < 0.5:
                p.child.thr = rng.choice([0, 1, 100, 127, 128, 129, 200, 255])
                ops.append(["thr=", int(p.child.thr)])
            thr = int(p.child.thr)
            on_child = x < 0.7
            sd = rng.randrange(1 << 30)
            ops.append(["child.randomize" if on_child else "parent.randomize", sd])
            tgt = p.child if on_child else p
            tgt.set_randstate(vsc.RandState.mkFromSeed(sd))
            before = (int(p.child.x), int(p.child.w), excl)
            child_random = on_child or sub_rand
            left = [v for v in range(8) if v not in excl]
            ck.count("eval_sub_list_calls")
            case = {"child_declared": "rand_attr" if sub_rand else "attr", "ops": list(ops)}
            try:
                with common.quiet():
                    tgt.randomize()
                raised = None
            except SolveFailure:
                raised = "SolveFailure"
            except Exception as e:
                ck.oracle_fail("sub-list-call-raised:%s" % type(e).__name__, case, str(e)[:200], "SolveFailure or a normal return")
                break
            after = (int(p.child.x), int(p.child.w), [int(v) for v in p.child.excl])
            if after[2] != excl:
                ck.oracle_fail("nonrandom-list-changed-by-call", case, {"before": excl, "after": after[2]}, "the list keeps its content")
                break
            if not child_random:
                if raised or after != before:
                    ck.oracle_fail("nonrandom-subobject-changed-by-call", case, {"before": before, "after": after, "raised": raised},
                                   "every field of a non-random sub-object keeps its value")
                    break
                continue
            if raised:
                if left and len(set(excl)) < 256:
                    ck.oracle_fail("spurious-SolveFailure-over-current-list", case, {"excl": excl}, {"values_left_for_x": left})
                    break
                if after != before:
                    ck.oracle_fail("field-changed-by-failed-call", case, {"before": before, "after": after}, "values kept")
                    break
                continue
            if not left:
                ck.oracle_fail("unsatisfiable-over-current-list-returned-normally", case, {"x": after[0], "excl": excl}, "SolveFailure")
                break
            if int(p.child.thr) != thr:
                ck.oracle_fail("nonrandom-field-changed-by-call", case, {"thr_before": thr, "thr_after": int(p.child.thr)}, "thr keeps its value")
                break
            if after[0] not in left or (after[1] not in left if thr >= 128 else after[1] >= 8):
                ck.oracle_fail("solution-space-does-not-follow-current-list-content", case,
                               {"x": after[0], "w": after[1], "excl": excl, "thr": thr},
                               {"x_in": left, "w_in": left if thr >= 128 else "0..7 (thr < 128: the guarded statement does not apply)"})
                break
    ck.sample({"kind": "sub-object list histories"})


if __name__ == "__main__":
    common.run_main(lambda: worldcheck.standard_main(
        "C03", ["C03", "C16Rollback"], THEOREMS, {"nops": 8}, 150, 6000,
        ["as C01 for the solve itself; rand_mode is toggled on scalar fields only (through vsc.raw_mode())",
         "non-random lists edited between calls are generated under C04"],
        RULE + "; plus free-standing calls: 2-4 stand-alone fields, 2-4 calls vsc.randomize(*passed) / vsc.randomize_with(*passed) with "
        "inline constraints over passed and not-passed fields, assignments between calls; a field is random in a call iff it is passed; "
        "fields that are not passed must keep their values and appear as constants in every formula; plus objects holding 1-2 range lists that "
        "constraints refer to (in / not in) and that are edited between calls (clear, append, extend): the formulas of every call must "
        "carry the content at that time",
        keep=lambda w: not w.startswith("callbacks"), extra_run=free_standing))
