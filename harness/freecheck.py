"""Free-standing vsc.randomize(...) / vsc.randomize_with(...) on stand-alone fields (C03, C17).

A scenario declares stand-alone fields (random or not); every call passes a subset of them.  A field is random in
a call exactly when it is passed; every other field mentioned by the inline constraints — declared random or not —
is a constant of the value it holds and must hold that value afterwards.  The model side is the ordinary `z.call`
with `rand := passed`; the comparison is solvecheck.compare_call."""
import random
import types

import common
import solvecheck
from common import Drv


class NS(types.SimpleNamespace):
    pass


def gen(seed, i):
    r = random.Random("free/%d/%d" % (seed, i))
    g = solvecheck.Gen(r, {"big": 0.0, "soft": 0.05, "enum": 0.1, "maxstmts": 3})
    fs = g.fields()[: r.choice([2, 3, 3, 4])]
    for f in fs:
        f["rand"] = r.random() < 0.75          # declared random; whether it is random in a call is decided per call
    calls = []
    for _ in range(r.randint(2, 4)):
        passed = sorted(r.sample(range(len(fs)), r.randint(1, len(fs))))
        inline = [g.stmt(fs, 1) for _ in range(r.randint(0, 3))] if r.random() < 0.8 else None
        calls.append({"passed": passed, "inline": inline, "seed": r.randrange(1 << 30),
                      "set": [[r.randrange(len(fs)), None]] if r.random() < 0.4 else []})
    for c in calls:
        for s in c["set"]:
            f = fs[s[0]]
            if f.get("enums"):
                s[1] = r.choice(f["enums"])
            else:
                lo, hi = (-(1 << (f["w"] - 1)), (1 << (f["w"] - 1)) - 1) if f["s"] else (0, (1 << f["w"]) - 1)
                s[1] = r.randint(lo, hi)
    return {"fields": fs, "calls": calls}


def run_scenario(S, scn):
    import vsc
    from vsc.model.rand_state import RandState
    names = [f["name"] for f in scn["fields"]]
    o = NS()
    for f in scn["fields"]:
        fld = S.mk_field(f)
        fld.build_field_model(f["name"])
        if f.get("enums"):
            fld.set_val(S.enum_type(f["enums"])(f["val"]))
        else:
            fld.set_val(f["val"])
        setattr(o, f["name"], fld)
    fidx = {n: i for i, n in enumerate(names)}

    def vals():
        return [int(getattr(o, n).get_val()) for n in names]
    out = []
    for call in scn["calls"]:
        for i, v in call.get("set", []):
            f = scn["fields"][i]
            getattr(o, names[i]).set_val(S.enum_type(f["enums"])(v) if f.get("enums") else v)
        before = vals()
        del S.EV[:]
        outcome, exc = "ok", None
        args = [getattr(o, names[i]) for i in call["passed"]]
        try:
            with common.quiet():
                if call["inline"] is not None:
                    with vsc.randomize_with(*args, randstate=RandState.mkFromSeed(call["seed"])):
                        S.emit_stmts(o, names, call["inline"])
                else:
                    vsc.randomize(*args, randstate=RandState.mkFromSeed(call["seed"]))
        except S.SolveFailure:
            outcome = "solveFailure"
        except Exception as e:
            import traceback
            outcome = "exception"
            exc = "%s: %s | %s" % (type(e).__name__, str(e)[:200], traceback.format_exc().strip().split("\n")[-3].strip()[:160])
        S.check_budget()
        after = vals()
        rsets, uncon, bounds, btors, draws = S.split_events(list(S.EV))
        recs, obs = [], []
        for k, rs in enumerate(rsets):
            r = S.parse_btor(btors[k], rs["n_soft"]) if k < len(btors) else None
            obs.append({"rs": rs, "rec": r})
            if r is None:
                recs.append({"groups": [], "answers": []})
            else:
                recs.append({"groups": [[S.tree_json(c, fidx) for c in g] for g in r["groups"]],
                             "answers": [a if a == "unsat" else {"sat": [[fidx[kk], v] for kk, v in a["sat"].items() if kk in fidx]}
                                         for a in r["answers"]]})
        fields = [dict(f, val=before[i], rand=(i in call["passed"]), declRand=bool(f["rand"] and not f.get("attr"))) for i, f in enumerate(scn["fields"])]
        req = {"op": "z.call", "fields": fields, "tops": call["inline"] or [], "rec": recs, "enumLimit": 13,
               "implFinal": after if outcome == "ok" else None, "draws": [list(d) for d in draws], "implBounds": None, "order": [], "allF": list(call["passed"])}
        out.append({"call": call, "before": before, "after": after, "outcome": outcome, "exc": exc, "obs": obs, "uncon": uncon,
                    "bounds": bounds, "n_btors": len(btors), "req": req, "draws": draws, "used": dict(S.LAST_USED)})
    return out


def _worker(args):
    seed, lo, hi, extra = args
    import solvelib as S
    S.install()
    drv = Drv()
    res = {"counts": {}, "corr": [], "orc": []}

    def cnt(k, n=1):
        res["counts"][k] = res["counts"].get(k, 0) + n
    scns = extra if extra is not None else [gen(seed, i) for i in range(lo, hi)]
    for scn in scns:
        common.note_inflight(scn)
        try:
            calls = run_scenario(S, scn)
        except S.SolverBudget:
            cnt("abandoned_solver_budget")
            continue
        except Exception as e:
            import traceback
            res["orc"].append({"signature": "free:construction-exception:" + type(e).__name__, "case": scn,
                               "observed": traceback.format_exc()[-500:], "required": "the scenario constructs"})
            continue
        cnt("free_scenarios")
        ms = drv.batch([c["req"] for c in calls])
        names = [f["name"] for f in scn["fields"]]
        for ci, (c, m) in enumerate(zip(calls, ms)):
            case = {"free": True, "fields": scn["fields"], "calls": scn["calls"][:ci + 1]}
            cnt("free_calls")
            cnt("free_outcome_" + c["outcome"])
            # ---- the property: a field that is not passed keeps its value, whatever the outcome
            passed = set(c["call"]["passed"])
            moved = [names[i] for i in range(len(names)) if i not in passed and c["before"][i] != c["after"][i]]
            cnt("free_unpassed_fields", len(names) - len(passed))
            if moved:
                res["orc"].append({"signature": "free-standing-call-changed-field-not-passed", "case": case,
                                   "observed": {"fields": moved, "before": c["before"], "after": c["after"]},
                                   "required": "fields not passed to a free-standing randomize keep their values"})
            # used-as-random flags as the solver saw them
            wrong = [n for n, u in c["used"].items() if n in names and u != (names.index(n) in passed)]
            if wrong:
                res["corr"].append({"what": "free.used-as-random", "case": case, "model": sorted(names[i] for i in passed),
                                    "impl": sorted(n for n, u in c["used"].items() if u)})
                continue
            pseudo = {"fields": [dict(f, rand=(i in passed)) for i, f in enumerate(scn["fields"])], "blocks": [], "calls": [{}]}
            corr, orc, st = solvecheck.compare_call(S, pseudo, 0, c, m)
            for f in corr + orc:
                f["case"] = case
            for k, v in st.items():
                cnt(k, v)
            res["corr"].extend(corr)
            res["orc"].extend(orc)
            if c["outcome"] == "exception":
                break
    return res


def run(ck, n, extra=None):
    import multiprocessing
    if extra is not None:
        results = [_worker((ck.seed, 0, 0, extra))]
    else:
        jobs = min(16, max(1, n // 20))
        per = (n + jobs - 1) // jobs
        chunks = [(ck.seed, i, min(n, i + per), None) for i in range(0, n, per)]
        if len(chunks) == 1:
            results = [_worker(chunks[0])]
        else:
            results = common.pmap(_worker, chunks)
    for r in results:
        for k, v in r["counts"].items():
            ck.count(k, v)
        for f in r["corr"]:
            ck.corr_fail(f["what"], f["case"], f["model"], f["impl"])
        for f in r["orc"]:
            ck.oracle_fail(f["signature"], f["case"], f["observed"], f["required"])
