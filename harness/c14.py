"""C14 — no legal value is starved: inferred value ranges over-approximate the solutions."""
import os
import sys
sys.path.insert(0, os.path.dirname(os.path.abspath(__file__)))
import common
import solvecheck
from solvecheck import F, I, B

THEOREMS = ["Pyvsc.C14.maxProp_keeps", "Pyvsc.C14.capLast_sub", "Pyvsc.C14.minProp_keeps", "Pyvsc.C14.inProp_keeps",
            "Pyvsc.C14.bit_candidate", "Pyvsc.C14.target_returned", "Pyvsc.C14.untouched_full",
            "Pyvsc.C14.process_sound", "Pyvsc.C14.runProp_sound", "Pyvsc.C14.fixpoint_sound", "Pyvsc.C14.visitTop_sound",
            "Pyvsc.C14.good_maxProp", "Pyvsc.C14.good_minProp", "Pyvsc.C14.good_inProp"]
PROFILE = {"samesign": True, "relational": 0.6, "soft": 0.04, "big": 0.05, "maxstmts": 3, "calls": 3}
RULE = ("as C01, biased to what bound inference reads: top-level relational and in statements of a field against literals, non-random "
        "fields and small non-random expressions, and field-field relations; several calls per object so that old values stay in the "
        "fields; one signedness per scenario and no wrap-around (the region in which Python-int inference and the solver agree; "
        "known finding F21 outside it).  Compared per call: the inferred range of every field, the draws (bounds and order), the "
        "unconstrained values, every swizzle candidate in trial order.  Oracle: exhaustive enumeration of the solutions of every "
        "rand set (<= 13 random bits) - each value a field takes in some solution must lie in the range the library inferred; a "
        "field no statement mentions must keep its whole type")

def free_standing_ranges(ck, tier):
    """Free-standing calls (vsc.randomize_with(x, y)) on plain fields - some declared rand, some not, some passed, some not -
    with inline relations whose one side is a compound expression over another field.  What counts for the inference is
    whether a field is random *in this call* (passed), not how it was declared; a field that is not passed contributes the
    value it holds.  Inferred ranges are compared with the model's and judged by enumeration, as in the class scenarios."""
    import random
    import freecheck
    rng = random.Random("C14/free/%d" % ck.seed)
    scns = []
    for _ in range(300 if tier == "thorough" else 24):
        nf = rng.randint(2, 3)
        fields = [{"name": "f%d" % i, "w": rng.choice([3, 4]), "s": False, "rand": rng.random() < 0.4, "val": rng.randint(0, 7), "enums": None}
                  for i in range(nf)]
        calls = []
        for _c in range(rng.randint(1, 3)):
            passed = sorted(rng.sample(range(nf), rng.randint(2, nf)))
            a, b = rng.sample(passed, 2) if rng.random() < 0.7 else rng.sample(range(nf), 2)
            rhs = B(rng.choice(["add", "add", "mul"]), F(b), I(rng.randint(0, 2)))
            kind = rng.random()
            if kind < 0.75:
                st = {"k": "expr", "e": B(rng.choice(["lt", "le", "ge", "gt", "eq"]), F(a), rhs)}
            else:
                st = {"k": "expr", "e": {"k": "in", "e": F(a), "rl": [{"lo": I(0), "hi": rhs}]}}
            calls.append({"passed": passed, "inline": [st], "seed": rng.randrange(1 << 30),
                          "set": [[i, rng.randint(0, 7)] for i in range(nf) if rng.random() < 0.5]})
        scns.append({"fields": fields, "calls": calls, "free": True})
    freecheck.run(ck, 0, extra=scns)
    ck.sample({"kind": "free-standing calls: inferred ranges", "scenarios": len(scns)})


if __name__ == "__main__":
    common.run_main(lambda: solvecheck.standard_main(
        "C14", ["C14", "C14Fix", "C14Bridge"], THEOREMS, PROFILE, 300, 12000,
        ["as C01 for the solve itself", "uniformity of random.Random.randint is assumed for the probability reading of target_returned",
         "generator restricted to one signedness per scenario without wrap-around (F21 is replayed by its witness)"],
        RULE + "; plus free-standing calls on plain fields (declared rand or not, passed or not) with one inline relation against a "
        "compound expression over another field", bounds=True, extra=free_standing_ranges))
