"""C14 — no legal value is starved: inferred value ranges over-approximate the solutions."""
import os
import sys
sys.path.insert(0, os.path.dirname(os.path.abspath(__file__)))
import common
import solvecheck

THEOREMS = ["Pyvsc.C14.maxProp_keeps", "Pyvsc.C14.capLast_sub", "Pyvsc.C14.minProp_keeps", "Pyvsc.C14.inProp_keeps",
            "Pyvsc.C14.bit_candidate", "Pyvsc.C14.target_returned", "Pyvsc.C14.untouched_full",
            "Pyvsc.C14.process_sound", "Pyvsc.C14.runProp_sound", "Pyvsc.C14.fixpoint_sound", "Pyvsc.C14.visitTop_sound",
            "Pyvsc.C14.good_maxProp", "Pyvsc.C14.good_minProp", "Pyvsc.C14.good_inProp"]
PROFILE = {"samesign": True, "relational": 0.6, "soft": 0.04, "big": 0.05, "maxstmts": 3, "calls": 3}
RULE = ("as C01, biased to what bound inference reads: top-level relational and in statements of a field against literals, non-random "
        "fields and small non-random expressions, and field-field relations; several calls per object so that old values stay in the "
        "fields; one signedness per scenario and no wrap-around (the region in which Python-int inference and the solver agree; "
        "known finding F21 outside it).  Compared per call: the inferred range of every field, the draws (bounds and order), the "
        "unconstrained values, every swizzle candidate in trial order.  Oracle: exhaustive enumeration of the solutions of every "
        "rand set (<= 13 random bits) - each value a field takes in some solution must lie in the range the library inferred; a "
        "field no statement mentions must keep its whole type")

if __name__ == "__main__":
    common.run_main(lambda: solvecheck.standard_main(
        "C14", ["C14", "C14Fix", "C14Bridge"], THEOREMS, PROFILE, 300, 12000,
        ["as C01 for the solve itself", "uniformity of random.Random.randint is assumed for the probability reading of target_returned",
         "generator restricted to one signedness per scenario without wrap-around (F21 is replayed by its witness)"],
        RULE, bounds=True))
