"""Facade emission of solver-path scenarios without any recording or wrapping (used by the C09
subprocess runner; mirrors solvelib.build_class/emit_*)."""
import enum

_enum_cache = {}


def enum_type(vals):
    key = tuple(vals)
    if key not in _enum_cache:
        _enum_cache[key] = enum.IntEnum("E%d" % len(_enum_cache), {"m%d" % i: v for i, v in enumerate(vals)})
    return _enum_cache[key]


PYOPS = {
    "eq": lambda a, b: a == b, "ne": lambda a, b: a != b, "lt": lambda a, b: a < b, "le": lambda a, b: a <= b,
    "gt": lambda a, b: a > b, "ge": lambda a, b: a >= b, "add": lambda a, b: a + b, "sub": lambda a, b: a - b,
    "mul": lambda a, b: a * b, "div": lambda a, b: a / b, "mod": lambda a, b: a % b, "and": lambda a, b: a & b,
    "or": lambda a, b: a | b, "xor": lambda a, b: a ^ b, "sll": lambda a, b: a << b, "srl": lambda a, b: a >> b,
}


def mk_field(vsc, f):
    if f.get("enums"):
        et = enum_type(f["enums"])
        return (vsc.rand_enum_t if f["rand"] else vsc.enum_t)(et)
    if f["s"]:
        return (vsc.rand_int_t if f["rand"] else vsc.int_t)(f["w"])
    return (vsc.rand_bit_t if f["rand"] else vsc.bit_t)(f["w"])


def emit_expr(vsc, o, names, e):
    k = e["k"]
    if k == "int":
        return e["v"]
    if k == "lit":
        return (vsc.signed if e["s"] else vsc.unsigned)(e["v"], e["w"])
    if k == "enumlit":
        return getattr(enum_type(e["enums"]), "m%d" % e["m"])
    if k == "fld":
        return getattr(o, names[e["i"]])
    if k == "bin":
        l = emit_expr(vsc, o, names, e["l"])
        r = emit_expr(vsc, o, names, e["r"])
        return PYOPS[e["op"]](l, r)
    if k == "not":
        return ~emit_expr(vsc, o, names, e["e"])
    if k == "psel":
        f = emit_expr(vsc, o, names, e["e"])
        return f[e["hi"]] if e.get("bit") else f[e["hi"]:e["lo"]]
    if k in ("in", "notin"):
        lhs = emit_expr(vsc, o, names, e["e"])
        items = []
        for r in e["rl"]:
            if "single" in r:
                items.append(emit_expr(vsc, o, names, r["single"]))
            else:
                items.append((emit_expr(vsc, o, names, r["lo"]), emit_expr(vsc, o, names, r["hi"])))
        rl = vsc.rangelist(*items)
        return lhs.inside(rl) if k == "in" else lhs.not_inside(rl)
    raise Exception("emit_expr " + k)


def emit_stmts(vsc, o, names, stmts):
    for s in stmts:
        k = s["k"]
        if k == "expr":
            emit_expr(vsc, o, names, s["e"])
        elif k == "soft":
            vsc.soft(emit_expr(vsc, o, names, s["e"]))
        elif k == "unique":
            vsc.unique(*[emit_expr(vsc, o, names, x) for x in s["es"]])
        elif k == "implies":
            with vsc.implies(emit_expr(vsc, o, names, s["c"])):
                emit_stmts(vsc, o, names, s["b"])
        elif k == "if":
            with vsc.if_then(emit_expr(vsc, o, names, s["c"])):
                emit_stmts(vsc, o, names, s["t"])
            for ei in s["elifs"]:
                with vsc.else_if(emit_expr(vsc, o, names, ei["c"])):
                    emit_stmts(vsc, o, names, ei["t"])
            if s.get("else") is not None:
                with vsc.else_then:
                    emit_stmts(vsc, o, names, s["else"])
        elif k == "solve_order":
            with vsc.raw_mode():
                bl = [getattr(o, names[i]) for i in s["before"]]
                al = [getattr(o, names[i]) for i in s["after"]]
            vsc.solve_order(bl if len(bl) > 1 else bl[0], al if len(al) > 1 else al[0])
        elif k == "dist":
            ws = []
            for w in s["weights"]:
                wv = emit_expr(vsc, o, names, w["w"])
                if "single" in w:
                    ws.append(vsc.weight(emit_expr(vsc, o, names, w["single"]), wv))
                else:
                    ws.append(vsc.weight((emit_expr(vsc, o, names, w["lo"]), emit_expr(vsc, o, names, w["hi"])), wv))
            vsc.dist(emit_expr(vsc, o, names, s["e"]), ws)
        else:
            raise Exception("emit_stmts " + k)


_n = [0]


def build_class(vsc, scn, srcinfo=False):
    fields = scn["fields"]
    names = [f["name"] for f in fields]

    def __init__(self):
        for f in fields:
            setattr(self, f["name"], mk_field(vsc, f))
    d = {"__init__": __init__}
    for b in scn["blocks"]:
        def mk(stmts):
            def body(self):
                emit_stmts(vsc, self, names, stmts)
            return body
        fn = mk(b["stmts"])
        fn.__name__ = b["name"]
        d[b["name"]] = vsc.constraint(fn)
    _n[0] += 1
    cls = type("P%d" % _n[0], (object,), d)
    return vsc.randobj(srcinfo=True)(cls) if srcinfo else vsc.randobj(cls)


def set_values(o, scn):
    for f in scn["fields"]:
        if f.get("enums"):
            setattr(o, f["name"], enum_type(f["enums"])(f["val"]))
        else:
            setattr(o, f["name"], f["val"])


def get_values(o, scn):
    return [int(getattr(o, f["name"])) for f in scn["fields"]]
