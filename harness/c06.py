"""C06 — inline and dynamic constraints bind to exactly one call and to the right object."""
import os
import sys
sys.path.insert(0, os.path.dirname(os.path.abspath(__file__)))
import common
import solvecheck
from solvecheck import F, I, B

THEOREMS = ["Pyvsc.C06.dynE_truthy", "Pyvsc.C06.dyn_or", "Pyvsc.C06.dyn_and", "Pyvsc.C06.dyn_not", "Pyvsc.C06.inline_once"]


class DGen(solvecheck.Gen):
    def dyn_block(self, fs, name):
        r = self.r
        stmts = []
        for _ in range(r.randint(1, 3)):
            if r.random() < 0.25:
                e = {"k": "in", "e": F(r.randrange(len(fs))), "rl": self.rangelist(fs)}
            else:
                e = B(r.choice(solvecheck.CMP), self.fieldy(fs, 1), self.arith(fs, 1, False))
            stmts.append({"k": "expr", "e": e})
        return {"name": name, "dynamic": True, "stmts": stmts}

    def dyn_term(self, names, fs, d):
        r = self.r
        x = r.random()
        if d > 0 and x < 0.3:
            return B(r.choice(["or", "and"]), self.dyn_term(names, fs, d - 1), self.dyn_term(names, fs, d - 1))
        if d > 0 and x < 0.4:
            return {"k": "not", "e": self.dyn_term(names, fs, d - 1)}
        if x < 0.5:
            return B(r.choice(solvecheck.CMP), F(r.randrange(len(fs))), self.leaf_right(fs))
        return {"k": "dyn", "name": r.choice(names)}

    def inline(self, names, fs):
        r = self.r
        out = []
        for _ in range(r.randint(1, 3)):
            x = r.random()
            if x < 0.35:
                out.append({"k": "dyncall", "name": r.choice(names)})
            elif x < 0.65:
                t = self.dyn_term(names, fs, 2)
                if t.get("k") == "dyn":
                    out.append({"k": "dyncall", "name": t["name"]})
                else:
                    out.append({"k": "expr", "e": t})
            elif x < 0.8:
                body = [{"k": "expr", "e": {"k": "dyn", "name": r.choice(names)}}]
                if r.random() < 0.5:
                    body.append(self.stmt(fs, 0, allow_soft=False))
                out.append({"k": "if", "c": self.boolean(fs, 1), "t": body, "elifs": [],
                            "else": [{"k": "expr", "e": {"k": "dyn", "name": r.choice(names)}}] if r.random() < 0.4 else None})
            else:
                out.append(self.stmt(fs, 1))
        return out

    def scenario(self):
        r = self.r
        fs = self.fields()
        blocks = [{"name": "c%d" % i, "stmts": self.stmts(fs, 1, 1, 2)} for i in range(r.choice([1, 1, 2]))]
        dn = ["d%d" % i for i in range(r.randint(1, 3))]
        blocks += [self.dyn_block(fs, n) for n in dn]
        if r.random() < 0.4:
            # an always-on class block that refers to a dynamic block of the same object; its name sorts before or
            # after the dynamic block's (the blocks of a class are elaborated in name order)
            ref = r.choice(dn)
            body = [{"k": "dyncall", "name": ref}] if r.random() < 0.6 else \
                [{"k": "if", "c": self.boolean(fs, 1), "t": [{"k": "expr", "e": {"k": "dyn", "name": ref}}], "elifs": [], "else": None}]
            blocks.append({"name": r.choice(["b9", "e0"]), "stmts": body})
        ninst = r.choice([1, 2, 2, 3])
        calls = []
        for _ in range(r.randint(2, 5)):
            inline = self.inline(dn, fs) if r.random() < 0.7 else None
            calls.append({"inline": inline, "seed": r.randrange(1 << 30), "inst": r.randrange(ninst)})
        return {"fields": fs, "blocks": blocks, "calls": calls, "instances": ninst}


solvecheck.Gen = DGen
PROFILE = {"big": 0.03, "soft": 0.06, "maxstmts": 2, "depth": 1, "enum": 0.05}
RULE = ("generated classes with 1-2 always-on blocks and 1-3 @dynamic_constraint blocks, 1-3 live instances created up front, "
        "sequences of 2-5 randomize()/randomize_with() calls on varying instances; inline blocks mix ordinary statements with "
        "dynamic references as statements, as terms under |, & and ~, and nested under if/else; compared per call: which "
        "statements enter (class blocks + this call's inline block only, unreferenced dynamic blocks absent), rand sets, every "
        "lowered formula with variables named by field, values; oracles: the reference semantics on the returned values, "
        "exhaustive satisfiability, and 'no other instance changes'")

def dynamic_foreach_histories(ck, tier):
    """A dynamic constraint that holds a foreach (over a scalar list and over a list of objects), named only in inline
    blocks: it applies to the whole list as the list is at that call, it leaves no trace on calls that do not name it, and
    a history that names it early equals, from then on, the history that does not."""
    import random
    import solvelib as S
    S.install()
    import vsc
    from vsc.model.rand_state import RandState
    rng = random.Random("C06/dynforeach/%d" % ck.seed)

    def classes():
        @vsc.randobj
        class E:
            def __init__(self):
                self.x = vsc.rand_uint8_t()

        @vsc.randobj
        class P:
            def __init__(self):
                self.l = vsc.rand_list_t(vsc.uint8_t(), 2)
                self.o = vsc.rand_list_t(E())
                self.o.append(E())
                self.o.append(E())

            @vsc.dynamic_constraint
            def small(self):
                with vsc.foreach(self.l, idx=True) as i:
                    self.l[i] < 10

            @vsc.dynamic_constraint
            def osmall(self):
                with vsc.foreach(self.o) as e:
                    e.x < 5
        return E, P

    def history(early, seeds, refill):
        E, P = classes()
        p = P()
        out = []

        def call(kind, sd):
            p.set_randstate(RandState.mkFromSeed(sd))
            try:
                with common.quiet():
                    if kind == "plain":
                        p.randomize()
                    else:
                        with p.randomize_with() as it:
                            it.small()
                            it.osmall()
                return ["ok", kind, [int(v) for v in p.l], [int(e.x) for e in p.o]]
            except Exception as ex:
                return ["raised", kind, type(ex).__name__]
        if early:
            call("dyn", seeds[0])
        with common.quiet():
            if refill:
                p.o.clear()
                p.l.clear()
            for _ in range(3):
                p.o.append(E())
                p.l.append(0)
        for k, sd in enumerate(seeds[1:]):
            out.append(call("dyn" if k % 2 == 0 else "plain", sd))
        return out
    n = 60 if tier == "thorough" else 4
    for rnd in range(n):
        seeds = [rng.randrange(1 << 30) for _ in range(7)]
        for refill in (False, True):
            twin = history(False, seeds, refill)
            got = history(True, seeds, refill)
            ck.count("dynamic_foreach_histories")
            case = {"seeds": seeds, "refill": refill}
            for r in got:
                if r[0] != "ok":
                    ck.oracle_fail("dynamic-foreach:exception", case, r, "a normal return (the calls are satisfiable)")
                    break
                if r[1] == "dyn" and (any(v >= 10 for v in r[2]) or any(v >= 5 for v in r[3])):
                    ck.oracle_fail("dynamic-foreach-not-applied-to-current-list", case, r, "l[*] < 10 and o[*].x < 5 over the lists as they are now")
                    break
            else:
                # a plain call is not bound by the dynamic constraints: over the history some plain call exceeds them
                plain = [r for r in got if r[1] == "plain"]
                if plain and all(all(v < 10 for v in r[2]) and all(v < 5 for v in r[3]) for r in plain):
                    ck.oracle_fail("inline-dynamic-constraint-left-a-trace", case, plain[:2], "plain calls are not bound by small()/osmall()")
                if got != twin:
                    k = next(i for i in range(len(twin)) if got[i] != twin[i])
                    ck.oracle_fail("history-differs-after-early-inline-dynamic-call", dict(case, call=k), got[k], twin[k])


if __name__ == "__main__":
    common.run_main(lambda: solvecheck.standard_main(
        "C06", ["C06"], THEOREMS, PROFILE, 300, 12000,
        ["as C01 for the solve itself", "dynamic blocks hold 1-3 one-bit expression statements (comparisons / in); references through "
         "lists of objects (subscripts) are not generated in this revision", "instances are all created before the first call"],
        RULE + "; dynamic constraints holding a foreach over a scalar list and a list of objects, named only inline, on lists that "
        "grow or are refilled between the calls (applied to the current list, no trace on plain calls, history twins)",
        extra=dynamic_foreach_histories))
