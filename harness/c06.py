"""C06 — inline and dynamic constraints bind to exactly one call and to the right object."""
import os
import sys
sys.path.insert(0, os.path.dirname(os.path.abspath(__file__)))
import common
import solvecheck
from solvecheck import F, I, B

THEOREMS = ["Pyvsc.C06.dynE_truthy", "Pyvsc.C06.dyn_or", "Pyvsc.C06.dyn_and", "Pyvsc.C06.dyn_not", "Pyvsc.C06.inline_once"]


class DGen(solvecheck.Gen):
    def dyn_block(self, fs, name):
        r = self.r
        stmts = []
        for _ in range(r.randint(1, 3)):
            if r.random() < 0.25:
                e = {"k": "in", "e": F(r.randrange(len(fs))), "rl": self.rangelist(fs)}
            else:
                e = B(r.choice(solvecheck.CMP), self.fieldy(fs, 1), self.arith(fs, 1, False))
            stmts.append({"k": "expr", "e": e})
        return {"name": name, "dynamic": True, "stmts": stmts}

    def dyn_term(self, names, fs, d):
        r = self.r
        x = r.random()
        if d > 0 and x < 0.3:
            return B(r.choice(["or", "and"]), self.dyn_term(names, fs, d - 1), self.dyn_term(names, fs, d - 1))
        if d > 0 and x < 0.4:
            return {"k": "not", "e": self.dyn_term(names, fs, d - 1)}
        if x < 0.5:
            return B(r.choice(solvecheck.CMP), F(r.randrange(len(fs))), self.leaf_right(fs))
        return {"k": "dyn", "name": r.choice(names)}

    def inline(self, names, fs):
        r = self.r
        out = []
        for _ in range(r.randint(1, 3)):
            x = r.random()
            if x < 0.35:
                out.append({"k": "dyncall", "name": r.choice(names)})
            elif x < 0.65:
                t = self.dyn_term(names, fs, 2)
                if t.get("k") == "dyn":
                    out.append({"k": "dyncall", "name": t["name"]})
                else:
                    out.append({"k": "expr", "e": t})
            elif x < 0.8:
                body = [{"k": "expr", "e": {"k": "dyn", "name": r.choice(names)}}]
                if r.random() < 0.5:
                    body.append(self.stmt(fs, 0, allow_soft=False))
                out.append({"k": "if", "c": self.boolean(fs, 1), "t": body, "elifs": [],
                            "else": [{"k": "expr", "e": {"k": "dyn", "name": r.choice(names)}}] if r.random() < 0.4 else None})
            else:
                out.append(self.stmt(fs, 1))
        return out

    def scenario(self):
        r = self.r
        fs = self.fields()
        blocks = [{"name": "c%d" % i, "stmts": self.stmts(fs, 1, 1, 2)} for i in range(r.choice([1, 1, 2]))]
        dn = ["d%d" % i for i in range(r.randint(1, 3))]
        blocks += [self.dyn_block(fs, n) for n in dn]
        if r.random() < 0.4:
            # an always-on class block that refers to a dynamic block of the same object; its name sorts before or
            # after the dynamic block's (the blocks of a class are elaborated in name order)
            ref = r.choice(dn)
            body = [{"k": "dyncall", "name": ref}] if r.random() < 0.6 else \
                [{"k": "if", "c": self.boolean(fs, 1), "t": [{"k": "expr", "e": {"k": "dyn", "name": ref}}], "elifs": [], "else": None}]
            blocks.append({"name": r.choice(["b9", "e0"]), "stmts": body})
        ninst = r.choice([1, 2, 2, 3])
        calls = []
        for _ in range(r.randint(2, 5)):
            inline = self.inline(dn, fs) if r.random() < 0.7 else None
            calls.append({"inline": inline, "seed": r.randrange(1 << 30), "inst": r.randrange(ninst)})
        return {"fields": fs, "blocks": blocks, "calls": calls, "instances": ninst}


solvecheck.Gen = DGen
PROFILE = {"big": 0.03, "soft": 0.06, "maxstmts": 2, "depth": 1, "enum": 0.05}
RULE = ("generated classes with 1-2 always-on blocks and 1-3 @dynamic_constraint blocks, 1-3 live instances created up front, "
        "sequences of 2-5 randomize()/randomize_with() calls on varying instances; inline blocks mix ordinary statements with "
        "dynamic references as statements, as terms under |, & and ~, and nested under if/else; compared per call: which "
        "statements enter (class blocks + this call's inline block only, unreferenced dynamic blocks absent), rand sets, every "
        "lowered formula with variables named by field, values; oracles: the reference semantics on the returned values, "
        "exhaustive satisfiability, and 'no other instance changes'")

def dynamic_foreach_histories(ck, tier):
    """A dynamic constraint that holds a foreach (over a scalar list and over a list of objects), named only in inline
    blocks: it applies to the whole list as the list is at that call, it leaves no trace on calls that do not name it, and
    a history that names it early equals, from then on, the history that does not."""
    import random
    import solvelib as S
    S.install()
    import vsc
    from vsc.model.rand_state import RandState
    rng = random.Random("C06/dynforeach/%d" % ck.seed)

    def classes():
        @vsc.randobj
        class E:
            def __init__(self):
                self.x = vsc.rand_uint8_t()

        @vsc.randobj
        class P:
            def __init__(self):
                self.l = vsc.rand_list_t(vsc.uint8_t(), 2)
                self.o = vsc.rand_list_t(E())
                self.o.append(E())
                self.o.append(E())
                self.r = vsc.randsz_list_t(vsc.uint8_t())

            @vsc.constraint
            def rsize(self):
                self.r.size >= 1
                self.r.size <= 8

            @vsc.dynamic_constraint
            def rsmall(self):
                with vsc.foreach(self.r, idx=True) as i:
                    self.r[i] < 10

            @vsc.dynamic_constraint
            def small(self):
                with vsc.foreach(self.l, idx=True) as i:
                    self.l[i] < 10

            @vsc.dynamic_constraint
            def osmall(self):
                with vsc.foreach(self.o) as e:
                    e.x < 5
        return E, P

    def history(early, seeds, refill):
        E, P = classes()
        p = P()
        out = []

        def call(kind, sd):
            p.set_randstate(RandState.mkFromSeed(sd))
            try:
                with common.quiet():
                    if kind == "plain":
                        p.randomize()
                    elif kind == "dyn":
                        with p.randomize_with() as it:
                            it.small()
                            it.osmall()
                            it.rsmall()
                    else:
                        # the foreach written in the inline block itself, over a list of random size
                        with p.randomize_with() as it:
                            it.small()
                            it.osmall()
                            with vsc.foreach(it.r, idx=True) as i:
                                it.r[i] < 10
                return ["ok", kind, [int(v) for v in p.l], [int(e.x) for e in p.o], [int(v) for v in p.r]]
            except Exception as ex:
                return ["raised", kind, type(ex).__name__]
        if early:
            call("dyn", seeds[0])
        with common.quiet():
            if refill:
                p.o.clear()
                p.l.clear()
            for _ in range(3):
                p.o.append(E())
                p.l.append(0)
        for k, sd in enumerate(seeds[1:]):
            out.append(call(["dyn", "plain", "inl"][k % 3], sd))
        return out
    n = 60 if tier == "thorough" else 4
    for rnd in range(n):
        seeds = [rng.randrange(1 << 30) for _ in range(7)]
        for refill in (False, True):
            twin = history(False, seeds, refill)
            got = history(True, seeds, refill)
            ck.count("dynamic_foreach_histories")
            case = {"seeds": seeds, "refill": refill}
            for r in got:
                if r[0] != "ok":
                    ck.oracle_fail("dynamic-foreach:exception", case, r, "a normal return (the calls are satisfiable)")
                    break
                if r[1] != "plain" and (any(v >= 10 for v in r[2]) or any(v >= 5 for v in r[3]) or any(v >= 10 for v in r[4]) or not 1 <= len(r[4]) <= 8):
                    ck.oracle_fail("dynamic-foreach-not-applied-to-current-list", case, r, "l[*] < 10, o[*].x < 5 and r[*] < 10 over the lists as they are after the call, 1 <= len(r) <= 8")
                    break
            else:
                # a plain call is not bound by the dynamic constraints: over the history some plain call exceeds them
                plain = [r for r in got if r[1] == "plain"]
                if plain and all(all(v < 10 for v in r[2]) and all(v < 5 for v in r[3]) and all(v < 10 for v in r[4]) for r in plain):
                    ck.oracle_fail("inline-dynamic-constraint-left-a-trace", case, plain[:2], "plain calls are not bound by small()/osmall()")
                if got != twin:
                    k = next(i for i in range(len(twin)) if got[i] != twin[i])
                    ck.oracle_fail("history-differs-after-early-inline-dynamic-call", dict(case, call=k), got[k], twin[k])


def list_element_dynref_histories(ck, tier):
    """Dynamic constraints referenced through elements of a list of objects (it.l[k].small()), as statements and as terms
    under &, | and ~, with other instances of both classes created before and after.  Reference semantics computed here: the
    term is evaluated over the returned values of exactly the elements named; unsatisfiable terms (decided over the three
    possible truth pairs of (small, big) per element) must raise SolveFailure; elements the term does not name are free
    (checked by frequency over the history)."""
    import itertools
    import random
    import solvelib as S
    S.install()
    import vsc
    from vsc.model.rand_state import RandState
    from vsc.model.solve_failure import SolveFailure
    rng = random.Random("C06/elem-dynref/%d" % ck.seed)

    @vsc.randobj
    class Child:
        def __init__(self):
            self.a = vsc.rand_uint8_t()
            self.b = vsc.rand_uint8_t()

        @vsc.dynamic_constraint
        def big(self):
            self.a > 200

        @vsc.dynamic_constraint
        def small(self):
            self.a < 10
            self.b < 10

    @vsc.randobj
    class Parent:
        def __init__(self, n):
            self.l = vsc.rand_list_t(Child())
            for _ in range(n):
                self.l.append(Child())

    def gen(n, depth):
        x = rng.random()
        if depth == 0 or x < 0.4:
            return ["atom", rng.randrange(n), rng.choice(["small", "big"])]
        if x < 0.55:
            return ["not", gen(n, depth - 1)]
        return [rng.choice(["and", "or"]), gen(n, depth - 1), gen(n, depth - 1)]

    def build(it, t):
        if t[0] == "atom":
            return getattr(it.l[t[1]], t[2])()
        if t[0] == "not":
            return ~build(it, t[1])
        a, b = build(it, t[1]), build(it, t[2])
        return (a & b) if t[0] == "and" else (a | b)

    def ev(t, tv):
        if t[0] == "atom":
            return tv[(t[1], t[2])]
        if t[0] == "not":
            return not ev(t[1], tv)
        return (ev(t[1], tv) and ev(t[2], tv)) if t[0] == "and" else (ev(t[1], tv) or ev(t[2], tv))

    def elems(t):
        return {t[1]} if t[0] == "atom" else set().union(*[elems(x) for x in t[1:]])
    for h in range(60 if tier == "thorough" else 6):
        n = rng.randint(2, 5)
        others = [Parent(rng.randint(1, 5)) for _ in range(rng.randint(0, 2))]
        p = Parent(n)
        free_out = 0
        free_n = 0
        for c in range(rng.randint(4, 8)):
            if rng.random() < 0.3:
                others.append(Parent(rng.randint(1, 5)))
                others.append(Child())
            terms = [gen(n, rng.randint(0, 2)) for _ in range(rng.randint(1, 2))]
            sd = rng.randrange(1 << 30)
            p.set_randstate(RandState.mkFromSeed(sd))
            case = {"elements": n, "terms": terms, "seed": sd, "other_instances": len(others)}
            ck.count("eval_elem_dynref_calls")
            named = sorted(set().union(*[elems(t) for t in terms]))
            sat = False
            for combo in itertools.product([(False, False), (True, False), (False, True)], repeat=len(named)):
                tv = {}
                for k, (sm, bg) in zip(named, combo):
                    tv[(k, "small")], tv[(k, "big")] = sm, bg
                if all(ev(t, tv) for t in terms):
                    sat = True
                    break
            try:
                with common.quiet():
                    with p.randomize_with() as it:
                        for t in terms:
                            build(it, t)
                raised = None
            except SolveFailure:
                raised = "SolveFailure"
            except Exception as e:
                ck.oracle_fail("elem-dynref-call-raised:%s" % type(e).__name__, case, str(e)[:200], "SolveFailure or a normal return")
                break
            vals = [(int(e.a), int(e.b)) for e in p.l]
            if raised:
                if sat:
                    ck.oracle_fail("elem-dynref-spurious-SolveFailure", case, "SolveFailure", "the terms are satisfiable")
                    break
                continue
            if not sat:
                ck.oracle_fail("elem-dynref-unsatisfiable-returned-normally", case, vals, "SolveFailure")
                break
            tv = {}
            for k in range(n):
                tv[(k, "small")] = vals[k][0] < 10 and vals[k][1] < 10
                tv[(k, "big")] = vals[k][0] > 200
            if not all(ev(t, tv) for t in terms):
                ck.oracle_fail("dynamic-constraint-not-on-the-element-it-was-referenced-through", case, vals,
                               "each term holds over the fields of the elements it names")
                break
            for k in range(n):
                if k not in named:
                    free_n += 1
                    free_out += not (tv[(k, "small")] or tv[(k, "big")])
        if free_n >= 10 and free_out == 0:
            ck.oracle_fail("dynamic-constraint-applied-to-unnamed-elements", {"elements": n}, {"unnamed_element_draws": free_n, "outside_both": 0},
                           "elements no term names are free (P(inside small or big) ~ 0.22 per draw)")
    ck.sample({"kind": "list-element dynamic references"})


def outside_instance_histories(ck, tier):
    """Inline and dynamic constraints that mention a field of *another* live instance of the same class (never randomized,
    or randomized before): that field is a constant of the call - it keeps its value, and the object being randomized
    satisfies the constraint against that value; no value left = SolveFailure."""
    import random
    import solvelib as S
    S.install()
    import vsc
    from vsc.model.rand_state import RandState
    from vsc.model.solve_failure import SolveFailure
    rng = random.Random("C06/outside-instance/%d" % ck.seed)

    @vsc.randobj
    class P:
        def __init__(self, peer=None):
            self.a = vsc.rand_uint8_t()
            self.b = vsc.rand_uint8_t()
            # (a dynamic constraint is elaborated once, when the object is built: the peer it names is fixed then)
            self.peers = [peer if peer is not None else self]

        @vsc.constraint
        def c(self):
            self.b < 100

        @vsc.dynamic_constraint
        def above_peer(self):
            self.a > self.peers[0].a
    OPS = {"gt": lambda x, y: x > y, "lt": lambda x, y: x < y, "eq": lambda x, y: x == y, "ne": lambda x, y: x != y}
    for h in range(80 if tier == "thorough" else 10):
        others = [P() for _ in range(rng.randint(1, 3))]
        x = P(others[0])
        for o in others:
            if rng.random() < 0.4:
                o.set_randstate(RandState.mkFromSeed(rng.randrange(1 << 20)))
                with common.quiet():
                    o.randomize()
        for c in range(rng.randint(2, 5)):
            kind = rng.choice(["inline", "inline", "dynamic"])
            o = rng.choice(others) if kind == "inline" else others[0]
            if rng.random() < 0.6:
                o.a = rng.choice([0, 1, 7, 200, 254, 255, rng.randrange(256)])
                o.b = rng.randrange(256)
            before = [(int(q.a), int(q.b)) for q in others]
            op = rng.choice(sorted(OPS)) if kind == "inline" else "gt"
            fld = rng.choice(["a", "b"]) if kind == "inline" else "a"
            ref = int(getattr(o, fld))
            sd = rng.randrange(1 << 30)
            x.set_randstate(RandState.mkFromSeed(sd))
            case = {"kind": kind, "constraint": "it.a %s other.%s" % (op, fld), "other_value": ref, "seed": sd, "call": c,
                    "other_was_randomized_before": None}
            ck.count("eval_outside_instance_calls")
            sat = any(OPS[op](v, ref) for v in range(256))
            try:
                with common.quiet():
                    with x.randomize_with() as it:
                        if kind == "dynamic":
                            it.above_peer()
                        elif op == "gt":
                            it.a > getattr(o, fld)
                        elif op == "lt":
                            it.a < getattr(o, fld)
                        elif op == "eq":
                            it.a == getattr(o, fld)
                        else:
                            it.a != getattr(o, fld)
                raised = None
            except SolveFailure:
                raised = "SolveFailure"
            except Exception as e:
                ck.oracle_fail("outside-instance-call-raised:%s" % type(e).__name__, case, str(e)[:200], "SolveFailure or a normal return")
                break
            after = [(int(q.a), int(q.b)) for q in others]
            if after != before:
                ck.oracle_fail("other-instance-changed-by-call", case, {"before": before, "after": after},
                               "a field of another instance mentioned by the call is a constant of the call")
                break
            if raised:
                if sat:
                    ck.oracle_fail("outside-instance-spurious-SolveFailure", case, raised, "satisfiable against the other instance's value")
                    break
                continue
            if not sat:
                ck.oracle_fail("outside-instance-unsatisfiable-returned-normally", case, int(x.a), "SolveFailure")
                break
            if not OPS[op](int(x.a), ref) or int(x.b) >= 100:
                ck.oracle_fail("constraint-not-against-the-other-instance's-current-value", case, {"x.a": int(x.a), "x.b": int(x.b)},
                               "x.a %s %d and x.b < 100" % (op, ref))
                break
    ck.sample({"kind": "constraints over fields of other instances"})


def extras(ck, tier):
    dynamic_foreach_histories(ck, tier)
    list_element_dynref_histories(ck, tier)
    outside_instance_histories(ck, tier)


if __name__ == "__main__":
    common.run_main(lambda: solvecheck.standard_main(
        "C06", ["C06"], THEOREMS, PROFILE, 300, 12000,
        ["as C01 for the solve itself", "dynamic blocks hold 1-3 one-bit expression statements (comparisons / in); references through "
         "lists of objects (it.l[k].dyn()) are exercised by hand-written classes with generated terms, not by the scenario generator", "instances are all created before the first call"],
        RULE + "; dynamic constraints holding a foreach over a scalar list and a list of objects, named only inline, on lists that "
        "grow or are refilled between the calls (applied to the current list, no trace on plain calls, history twins)",
        extra=extras))
