"""setup step: build + axiom audit once, so that checks start from a warm cache."""
import sys, os
sys.path.insert(0, os.path.dirname(os.path.abspath(__file__)))
import common
try:
    a = common.lean_build_and_audit()
    n = sum(len(v) for v in a["modules"].values())
    print("lean build + audit ok: %d property theorems" % n)
except common.InfraError as e:
    print("INFRA-ERROR: " + str(e)); sys.exit(2)
