"""C15 — dist and weighted selection follow their weights; zero weight means never."""
import math
import os
import random
import sys
sys.path.insert(0, os.path.dirname(os.path.abspath(__file__)))
import common
import solvecheck
from common import Drv
from solvecheck import F, I, B

THEOREMS = ["Pyvsc.C15.walkPos_iff", "Pyvsc.C15.zero_weight_never", "Pyvsc.C15.walk_counts", "Pyvsc.C15.in_truthy", "Pyvsc.C15.dist_support"]


class XGen(solvecheck.Gen):
    """scenarios whose first block carries one or two dist statements"""

    def dist_stmt(self, fs, i):
        r = self.r
        f = fs[i]
        lo, hi = (-(1 << (f["w"] - 1)), (1 << (f["w"] - 1)) - 1) if f["s"] else (0, (1 << f["w"]) - 1)
        nr = [j for j, g in enumerate(fs) if not g["rand"] and not g["s"] and not g["enums"]]
        ws = []
        for _ in range(r.randint(2, 4)):
            w = I(r.choice([0, 1, 1, 2, 3, 5]))
            if nr and r.random() < 0.2:
                w = F(r.choice(nr))      # weight given by a non-random field
            if r.random() < 0.5:
                a = r.randint(lo, hi)
                ws.append({"single": I(a), "w": w})
            else:
                a = r.randint(lo, hi)
                b = r.randint(a, min(hi, a + 5))
                ws.append({"lo": I(a), "hi": I(b), "w": w})
        if all(x["w"].get("v", 1) == 0 for x in ws):
            ws[0]["w"] = I(2)
        return {"k": "dist", "e": F(i), "weights": ws}

    def scenario(self):
        scn = super().scenario()
        r = self.r
        fs = scn["fields"]
        rnd = [i for i, f in enumerate(fs) if f["rand"] and not f["enums"] and f["w"] >= 2]
        if rnd:
            picks = r.sample(rnd, min(len(rnd), r.choice([1, 1, 2])))
            extra = [self.dist_stmt(fs, i) for i in picks]
            if r.random() < 0.3:
                scn["blocks"][0]["stmts"] = extra        # nothing else constrains the dist fields' block
            else:
                scn["blocks"][0]["stmts"] = extra + scn["blocks"][0]["stmts"]
        return scn


solvecheck.Gen = XGen
PROFILE = {"samesign": True, "relational": 0.3, "soft": 0.04, "big": 0.0, "maxstmts": 2, "calls": 3, "enum": 0.0}


def walk_sweep(ck, tier):
    """next_target_range / distselect / randselect against the model and the property, for EVERY drawn value"""
    import solvelib as S
    S.install()
    vsc = S.vsc
    import vsc.methods as M
    from vsc.model.constraint_dist_scope_model import ConstraintDistScopeModel
    rng = random.Random(ck.seed + 99)
    drv = Drv()
    lists = [[1], [0, 1], [1, 0], [3, 0, 1], [2, 2], [1, 2, 3], [5, 0, 0, 1], [0, 0, 4]]
    for _ in range(400 if tier == "thorough" else 60):
        lists.append([rng.choice([0, 0, 1, 1, 2, 3, 4, 7]) for _ in range(rng.randint(1, 6))])
    lists = [l for l in lists if sum(l) > 0]
    models = drv.batch([{"op": "z.walk", "ws": l} for l in lists])

    class FakeRng(object):
        def __init__(self, v):
            self.v = v

        def randint(self, a, b):
            BOUNDS.append((a, b))
            return self.v

    class FakeState(object):
        def __init__(self, v):
            self.rng = FakeRng(v)
    BOUNDS = []
    real_random = M.random
    try:
        for ws, m in zip(lists, models):
            total = sum(ws)
            # the library's own preparation of the weight list (as DistConstraintBuilder does it)
            wl = sorted([(w, i) for i, w in enumerate(ws) if w > 0], key=lambda e: e[0])
            if [list(x) for x in wl] != m["weightList"]:
                ck.corr_fail("dist.weight_list", {"ws": ws}, m["weightList"], wl)
            nxt, sel, rsel = [], [], []
            for r in range(1, total + 1):
                sc = ConstraintDistScopeModel(None)
                sc.weight_list = wl
                sc.total_weight = total
                nxt.append(sc.next_target_range(FakeState(r)))
                M.random = FakeRng(r)
                sel.append(M.distselect(list(ws)))
                hit = []
                M.randselect([(w, (lambda k=k: hit.append(k))) for k, w in enumerate(ws)])
                rsel.append(hit[0] if len(hit) == 1 else None)
                ck.count("kernel_evals", 3)
            # the draw itself: one value out of 1..total, equally likely
            asked = sorted(set(BOUNDS))
            del BOUNDS[:]
            if asked != [(1, total)]:
                ck.corr_fail("dist.draw-range", {"ws": ws}, [[1, total]], [list(x) for x in asked])
                # what do the helpers do for the values they may now draw?  an entry of weight zero must never come out
                for a, b in asked:
                    for r in list(range(a, min(b, total + 2) + 1)):
                        M.random = FakeRng(r)
                        k = M.distselect(list(ws))
                        if ws[k] == 0:
                            ck.oracle_fail("zero-weight-entry-selected:distselect", {"weights": ws, "drawn": r, "draw_range": [a, b]},
                                           {"selected": k}, "an entry of weight zero is never selected")
                            break
                del BOUNDS[:]
            for name, got, want in (("next_target_range", nxt, m["next"]), ("distselect", sel, m["select"]), ("randselect", rsel, m["select"])):
                if got != want:
                    ck.corr_fail("dist." + name, {"ws": ws}, want, got)
                # the property: entry i is selected by exactly weight_i of the `total` equally likely draws
                for i, w in enumerate(ws):
                    if got.count(i) != w:
                        ck.oracle_fail("weighted-selection-count:" + name, {"weights": ws, "entry": i},
                                       {"selected_by": got.count(i), "of": total}, {"selected_by": w, "of": total})
                        break
    finally:
        M.random = real_random
    ck.cov["walk_sweep"] = {"weight_lists": len(lists), "exhaustive": True,
                            "domain": "every drawn value 1..total for each weight list; next_target_range, distselect, randselect"}


def foreach_dists(ck, tier):
    """dist statements inside a foreach whose weights depend on the iteration: non-random fields of the elements of a list of
    objects (items[j].w1), or elements of non-random scalar lists read at the index (wa[j]).  Each element gets its own
    weights, with zeros at generated positions.  Oracle (exact, every call): an element never takes a value whose weight
    *for that element* is zero, nor a value outside its listed entries; the user may change the weights between calls."""
    import solvelib as S
    S.install()
    import vsc
    from vsc.model.rand_state import RandState
    rng = random.Random("C15/foreach-dists/%d" % ck.seed)
    VALS = [1, 2, 5]

    def classes(n, through_objects):
        @vsc.randobj
        class Item:
            def __init__(self):
                self.x = vsc.rand_uint8_t()
                self.w = [vsc.uint8_t(1), vsc.uint8_t(1), vsc.uint8_t(1)]
                self.w0, self.w1, self.w2 = self.w

        @vsc.randobj
        class TopO:
            def __init__(self):
                self.items = vsc.rand_list_t(Item())
                for _ in range(n):
                    self.items.append(Item())

            @vsc.constraint
            def dist_c(self):
                with vsc.foreach(self.items, idx=True) as j:
                    vsc.dist(self.items[j].x, [vsc.weight(VALS[0], self.items[j].w0), vsc.weight(VALS[1], self.items[j].w1),
                                               vsc.weight(VALS[2], self.items[j].w2)])

        @vsc.randobj
        class TopS:
            def __init__(self):
                self.xs = vsc.rand_list_t(vsc.uint8_t(), n)
                self.wa = vsc.list_t(vsc.uint8_t(), n)
                self.wb = vsc.list_t(vsc.uint8_t(), n)
                self.wc = vsc.list_t(vsc.uint8_t(), n)

            @vsc.constraint
            def dist_c(self):
                with vsc.foreach(self.xs, idx=True) as j:
                    vsc.dist(self.xs[j], [vsc.weight(VALS[0], self.wa[j]), vsc.weight(VALS[1], self.wb[j]),
                                          vsc.weight(VALS[2], self.wc[j])])
        return TopO if through_objects else TopS
    for cno in range(40 if tier == "thorough" else 5):
        n = rng.randint(2, 4)
        through_objects = rng.random() < 0.5
        try:
            with common.quiet():
                t = classes(n, through_objects)()
        except Exception as e:
            ck.oracle_fail("foreach-dist:construction:%s" % type(e).__name__, {"objects": through_objects}, str(e)[:200], "the class builds")
            continue
        hist = []
        for rnd in range(3):
            ws = []
            for j in range(n):
                w = [rng.choice([0, 0, 1, 2, 4]) for _ in VALS]
                if sum(w) == 0:
                    w[rng.randrange(3)] = 3
                ws.append(w)
                with common.quiet():
                    if through_objects:
                        t.items[j].w0, t.items[j].w1, t.items[j].w2 = w
                    else:
                        t.wa[j], t.wb[j], t.wc[j] = w
            hist.append({"weights_per_element": ws})
            bad = None
            for call in range(25):
                sd = rng.randrange(1 << 30)
                t.set_randstate(RandState.mkFromSeed(sd))
                try:
                    with common.quiet():
                        t.randomize()
                except Exception as e:
                    bad = ("foreach-dist:call-raised:%s" % type(e).__name__, str(e)[:200], "a normal return")
                    break
                ck.count("eval_foreach_dist_calls")
                got = [int(e.x) for e in t.items] if through_objects else [int(v) for v in t.xs]
                for j, v in enumerate(got):
                    if v not in VALS:
                        bad = ("dist-value-outside-listed-entries:foreach", {"element": j, "value": v, "seed": sd}, "a listed value")
                    elif ws[j][VALS.index(v)] == 0:
                        bad = ("zero-weight-value-selected:foreach", {"element": j, "value": v, "weights_of_element": ws[j], "seed": sd},
                               "a value of weight zero for this element is never selected")
                if bad:
                    break
            if bad:
                ck.oracle_fail(bad[0], {"elements": n, "through_objects": through_objects, "values": VALS, "history": hist}, bad[1], bad[2])
                break
    ck.sample({"kind": "dist inside foreach with per-element weights"})


def dist_oracles(ck, tier):
    walk_sweep(ck, tier)
    foreach_dists(ck, tier)


RULE = ("as C14 with one or two dist statements per class (values, ranges, zero weights, weights given by non-random fields), alone and "
        "with other constraints on the same field; compared per call: the statements the dist is rewritten into (membership + "
        "zero-weight exclusions) as lowered formulas, the rand sets, the draws (build-time draw, entry draw 1..total, value draw in the "
        "chosen range), the requested equality, values; oracle: the reference semantics of the rewritten statements on the returned "
        "values (value in a non-zero-weight entry) and exhaustive satisfiability.  Walk sweep: for each weight list EVERY drawn value "
        "1..total is fed to next_target_range, distselect and randselect; entry i must be selected by exactly weight_i of them")

if __name__ == "__main__":
    common.run_main(lambda: solvecheck.standard_main(
        "C15", ["C15"], THEOREMS, PROFILE, 300, 12000,
        ["as C01/C14", "uniformity of random.Random.randint is assumed (P(entry i) = weight_i / total follows from walk_counts under it)",
         "dist statements are generated at the top level of a block on scalar fields (not nested under conditions); dist inside foreach over list elements with per-element weights is exercised by a hand-written family with an exact zero-weight oracle (foreach_dists), outside the model"],
        RULE, extra=dist_oracles, bounds=True))
