"""Solver-path correspondence: scenarios (fields + constraint statements), their execution on the
real pyvsc facade with a recording Boolector proxy, and the extraction of what the
implementation did per rand set (formulas, answers, soft decisions, swizzle candidates).

All observation is in-process wrapping from here; nothing in /repo is changed."""
import enum
import os
import random
import time
import sys

from common import setup_repo_path, quiet

vsc = setup_repo_path()
import pyboolector  # noqa: E402
from pyboolector import Boolector as RealBoolector  # noqa: E402
import vsc.model.randomizer as R  # noqa: E402
import vsc.model.rand_state as RS  # noqa: E402
from vsc.model.field_scalar_model import FieldScalarModel  # noqa: E402
from vsc.model.solve_failure import SolveFailure  # noqa: E402

EV = []          # event list of the current call


class Node:
    __slots__ = ("n", "tree", "width")

    def __init__(self, n, tree):
        self.n = n
        self.tree = tree
        self.width = n.width

    @property
    def assignment(self):
        return self.n.assignment


def U(x):
    return x.n if isinstance(x, Node) else x


class RecBoolector:
    """Recording proxy for pyboolector.Boolector: every node carries the term it denotes."""
    SAT = RealBoolector.SAT
    UNSAT = RealBoolector.UNSAT

    def __init__(self):
        self.b = RealBoolector()
        self.vars = []
        EV.append(("btor-new",))

    def Set_opt(self, o, v):
        self.b.Set_opt(o, v)

    def BitVecSort(self, w):
        return (self.b.BitVecSort(w), w)

    def Var(self, sort, name=None):
        n = self.b.Var(sort[0])
        r = Node(n, ["var", "?%d" % len(self.vars), sort[1]])
        self.vars.append(r)
        return r

    def Const(self, v, w=1):
        return Node(self.b.Const(v, w), ["const", int(v), int(w)])

    def Assume(self, *a):
        for x in a:
            EV.append(("assume", x.tree))
            self.b.Assume(U(x))

    def Assert(self, *a):
        for x in a:
            EV.append(("assert", x.tree))
            self.b.Assert(U(x))

    def Sat(self):
        # a single SAT call may run for hours on an unlucky wide product; it is given a budget, and a call that
        # exhausts it makes the harness abandon the scenario (counted in the evidence, judged in no way)
        deadline = time.time() + SAT_BUDGET_S
        self.b.Set_term(lambda _a: time.time() > deadline, None)
        r = self.b.Sat()
        if r != self.b.SAT and r != self.b.UNSAT:
            ABANDONED[0] = True
        if r == self.b.SAT:
            EV.append(("sat", "SAT", {v.tree[1]: int(v.n.assignment, 2) for v in self.vars}))
        else:
            EV.append(("sat", "UNSAT", None))
        return r

    def Slice(self, a, hi, lo):
        return Node(self.b.Slice(U(a), int(hi), int(lo)), ["slice", a.tree, int(hi), int(lo)])

    def Uext(self, a, n):
        return Node(self.b.Uext(U(a), n), ["uext", a.tree, int(n)])

    def Sext(self, a, n):
        return Node(self.b.Sext(U(a), n), ["sext", a.tree, int(n)])

    def Cond(self, c, a, b):
        return Node(self.b.Cond(U(c), U(a), U(b)), ["cond", c.tree, a.tree, b.tree])

    def Not(self, a, *r):
        return Node(self.b.Not(U(a)), ["not", a.tree])

    def __getattr__(self, name):
        f = getattr(self.b, name)

        def g(*args):
            return Node(f(*[U(a) for a in args]), [name.lower()] + [a.tree if isinstance(a, Node) else a for a in args])
        return g


_installed = False


class SolverBudget(Exception):
    """a SAT call exhausted its time budget: the scenario is abandoned"""
    pass


SAT_BUDGET_S = float(os.environ.get("PYVSC_VERIF_SAT_BUDGET", "20"))
ABANDONED = [False]


def check_budget():
    if ABANDONED[0]:
        ABANDONED[0] = False
        raise SolverBudget()


ON_SOLVE = []     # callbacks run when Randomizer.randomize is entered (the model is fully elaborated then)


def install():
    """Replace the solver class, name solver variables after their fields, wrap Randomizer.randomize."""
    global _installed
    if _installed:
        return
    _installed = True
    R.Boolector = RecBoolector
    orig_build = FieldScalarModel.build

    def build(self, btor):
        had = self.var
        r = orig_build(self, btor)
        v = self.var
        if had is None and isinstance(v, Node) and v.tree[0] == "var" and str(v.tree[1]).startswith("?"):
            nm = self.fullname if hasattr(self, "fullname") else self.name
            # a second field object of the same name in one solver instance (an element object that is no longer part of
            # its list but still reachable from a cached expression) must not shadow the first in the records
            taken = [o for o in getattr(btor, "vars", []) if o is not v and o.tree[1] == nm or str(o.tree[1]).startswith(nm + "#")]
            if taken:
                nm = "%s#%d" % (nm, len(taken) + 1)
            v.tree[1] = nm
        return r
    FieldScalarModel.build = build

    orig_rand = R.Randomizer.randomize

    def wrap(self, ri, bound_m):
        for cb in ON_SOLVE:
            cb()
        for i, rs in enumerate(ri.randsets()):
            EV.append(("randset", i, [f.fullname for f in rs.all_fields()], len(rs.constraints()),
                       len(rs.soft_constraints()),
                       None if rs.rand_order_l is None else [[f.fullname for f in g] for g in rs.rand_order_l]))
        used = {}
        for rs in ri.randsets():
            for f in rs.all_fields():
                used[f.fullname] = bool(f.is_used_rand)
        for f in ri.unconstrained():
            used[f.fullname] = bool(f.is_used_rand)
        EV.append(("used", used))
        EV.append(("unconstrained", [f.fullname for f in ri.unconstrained()]))
        EV.append(("bounds", {f.fullname: [list(r) for r in b.domain.range_l] for f, b in bound_m.items()
                              if hasattr(f, "fullname") and hasattr(b, "domain")}))
        return orig_rand(self, ri, bound_m)
    R.Randomizer.randomize = wrap

    class RecRandom(random.Random):
        def randint(self, a, b):
            r = super().randint(a, b)
            EV.append(("draw", a, b, r))
            return r

    class _M:
        Random = RecRandom
        randint = staticmethod(random.randint)
    RS.random = _M


def sexp(t, names=None):
    """canonical s-expression of a recorded term, in the vocabulary of Pyvsc.Bv.toSexp"""
    if not isinstance(t, list):
        return str(t)
    h = t[0]
    if h == "var":
        return str(t[1])
    if h == "const":
        return "(const %d %d)" % (t[1], t[2])
    return "(" + " ".join([h] + [sexp(x) for x in t[1:]]) + ")"


def tree_json(t, fidx):
    """recorded term -> JSON for Pyvsc.DrvSolve.bvOf (variables by field index)"""
    if not isinstance(t, list):
        return t
    if t[0] == "var":
        return ["var", fidx[t[1]], t[2]]
    return [t[0]] + [tree_json(x, fidx) for x in t[1:]]


# ----------------------------------------------------------------------------- facade emission

PYOPS = {
    "eq": lambda a, b: a == b, "ne": lambda a, b: a != b, "lt": lambda a, b: a < b, "le": lambda a, b: a <= b,
    "gt": lambda a, b: a > b, "ge": lambda a, b: a >= b, "add": lambda a, b: a + b, "sub": lambda a, b: a - b,
    "mul": lambda a, b: a * b, "div": lambda a, b: a / b, "mod": lambda a, b: a % b, "and": lambda a, b: a & b,
    "or": lambda a, b: a | b, "xor": lambda a, b: a ^ b, "sll": lambda a, b: a << b, "srl": lambda a, b: a >> b,
}


def emit_expr(o, names, e):
    k = e["k"]
    if k == "int":
        return e["v"]
    if k == "lit":
        return (vsc.signed if e["s"] else vsc.unsigned)(e["v"], e["w"])
    if k == "enumlit":
        return getattr(enum_type(e["enums"]), "m%d" % e["m"])
    if k == "fld":
        return getattr(o, names[e["i"]])
    if k == "bin":
        l = emit_expr(o, names, e["l"])
        r = emit_expr(o, names, e["r"])
        return PYOPS[e["op"]](l, r)
    if k in ("inrl", "notinrl"):
        lhs = emit_expr(o, names, e["e"])
        rl = getattr(o, "rl%d" % e["rl"])
        return lhs.inside(rl) if k == "inrl" else lhs.not_inside(rl)
    if k == "not":
        return ~emit_expr(o, names, e["e"])
    if k == "psel":
        f = emit_expr(o, names, e["e"])
        if e.get("bit"):
            return f[e["hi"]]
        return f[e["hi"]:e["lo"]]
    if k == "dyn":
        return getattr(o, e["name"])()
    if k in ("in", "notin"):
        lhs = emit_expr(o, names, e["e"])
        items = []
        for r in e["rl"]:
            if "single" in r:
                items.append(emit_expr(o, names, r["single"]))
            else:
                items.append((emit_expr(o, names, r["lo"]), emit_expr(o, names, r["hi"])))
        rl = vsc.rangelist(*items)
        return lhs.inside(rl) if k == "in" else lhs.not_inside(rl)
    raise Exception("emit_expr: " + k)


def emit_stmts(o, names, stmts):
    for s in stmts:
        k = s["k"]
        if k == "expr":
            emit_expr(o, names, s["e"])
        elif k == "soft":
            vsc.soft(emit_expr(o, names, s["e"]))
        elif k == "unique":
            vsc.unique(*[emit_expr(o, names, x) for x in s["es"]])
        elif k == "implies":
            with vsc.implies(emit_expr(o, names, s["c"])):
                emit_stmts(o, names, s["b"])
        elif k == "if":
            with vsc.if_then(emit_expr(o, names, s["c"])):
                emit_stmts(o, names, s["t"])
            for ei in s["elifs"]:
                with vsc.else_if(emit_expr(o, names, ei["c"])):
                    emit_stmts(o, names, ei["t"])
            if s.get("else") is not None:
                with vsc.else_then:
                    emit_stmts(o, names, s["else"])
        elif k == "dyncall":
            getattr(o, s["name"])()
        elif k == "solve_order":
            with vsc.raw_mode():
                bl = [getattr(o, names[i]) for i in s["before"]]
                al = [getattr(o, names[i]) for i in s["after"]]
            vsc.solve_order(bl if len(bl) > 1 else bl[0], al if len(al) > 1 else al[0])
        elif k == "dist":
            ws = []
            for w in s["weights"]:
                wv = emit_expr(o, names, w["w"])
                if "single" in w:
                    ws.append(vsc.weight(emit_expr(o, names, w["single"]), wv))
                else:
                    ws.append(vsc.weight((emit_expr(o, names, w["lo"]), emit_expr(o, names, w["hi"])), wv))
            vsc.dist(emit_expr(o, names, s["e"]), ws)
        else:
            raise Exception("emit_stmts: " + k)


_enum_cache = {}


def enum_type(vals):
    key = tuple(vals)
    if key not in _enum_cache:
        _enum_cache[key] = enum.IntEnum("E%d" % len(_enum_cache), {"m%d" % i: v for i, v in enumerate(vals)})
    return _enum_cache[key]


def mk_field(f):
    if f.get("enums"):
        et = enum_type(f["enums"])
        return (vsc.rand_enum_t if f["rand"] else vsc.enum_t)(et)
    if f.get("attr"):
        # the same declaration through the attribute decorators
        return (vsc.rand_attr if f["rand"] else vsc.attr)((vsc.int_t if f["s"] else vsc.bit_t)(f["w"]))
    if f["s"]:
        return (vsc.rand_int_t if f["rand"] else vsc.int_t)(f["w"])
    return (vsc.rand_bit_t if f["rand"] else vsc.bit_t)(f["w"])


_cls_n = [0]


def rl_item(x):
    """a literal item of a range list: a value or a (low, high) pair"""
    return x["single"]["v"] if "single" in x else (x["lo"]["v"], x["hi"]["v"])


def build_class(scn):
    """a real @vsc.randobj class whose constraint bodies call the real overloaded operators"""
    fields = scn["fields"]
    names = [f["name"] for f in fields]

    def __init__(self):
        for f in fields:
            setattr(self, f["name"], mk_field(f))
        # range lists held by the object: constraints refer to them, the user edits them between calls
        for k, rl in enumerate(scn.get("rangelists", [])):
            setattr(self, "rl%d" % k, vsc.rangelist(*[rl_item(x) for x in rl]))
    d = {"__init__": __init__}
    for bi, b in enumerate(scn.get("blocks", [])):
        def mk(stmts):
            def body(self):
                emit_stmts(self, names, stmts)
            return body
        fn = mk(b["stmts"])
        fn.__name__ = b["name"]
        d[b["name"]] = (vsc.dynamic_constraint if b.get("dynamic") else vsc.constraint)(fn)
    _cls_n[0] += 1
    cls = type("S%d" % _cls_n[0], (object,), d)
    return vsc.randobj(cls), names


def set_values(o, scn):
    for f in scn["fields"]:
        if f.get("enums"):
            et = enum_type(f["enums"])
            setattr(o, f["name"], et(f["val"]))
        else:
            setattr(o, f["name"], f["val"])


def get_values(o, scn):
    out = []
    for f in scn["fields"]:
        v = getattr(o, f["name"])
        out.append(int(v))
    return out


def run_call(o, scn, names, call):
    """one randomize / randomize_with on `o`; returns (outcome, exception text, events)"""
    del EV[:]
    outcome, exc = "ok", None
    try:
        with quiet():
            if call.get("inline") is not None:
                with o.randomize_with() as it:
                    emit_stmts(it, names, call["inline"])
            else:
                o.randomize()
    except SolveFailure:
        outcome = "solveFailure"
    except Exception as e:  # any other exception from inside the library
        import traceback
        outcome = "exception"
        exc = "%s: %s | %s" % (type(e).__name__, str(e)[:200], traceback.format_exc().strip().split("\n")[-3].strip()[:160])
    check_budget()
    return outcome, exc, list(EV)


LAST_USED = {}


def split_events(events):
    """events of one call -> {'randsets':[...recorded...], 'unconstrained':[...], 'bounds':{...}, 'btors':[{...}]}"""
    rsets, uncon, bounds, btors, draws = [], [], {}, [], []
    LAST_USED.clear()
    cur = None
    for e in events:
        if e[0] == "randset":
            rsets.append({"fields": e[2], "n_hard": e[3], "n_soft": e[4], "order": e[5]})
        elif e[0] == "used":
            LAST_USED.update(e[1])
        elif e[0] == "unconstrained":
            uncon = e[1]
        elif e[0] == "bounds":
            bounds = e[1]
        elif e[0] == "btor-new":
            cur = []
            btors.append(cur)
        elif e[0] in ("assume", "assert", "sat"):
            if cur is not None:
                cur.append(e)
        elif e[0] == "draw":
            draws.append(e[1:])
            if cur is not None:
                cur.append(e)
    return rsets, uncon, bounds, btors, draws


def parse_btor(evs, n_soft):
    """abstract record of one solver instance: the phases of Randomizer.randomize"""
    evs = [e for e in evs if e[0] != "draw"]
    i = 0
    rec = {"pre": [], "hard": [], "soft": [], "softKept": [], "groups": [], "answers": [], "shape_ok": True,
           "hardAsserted": [], "candKept": []}

    def ans(e):
        return "unsat" if e[1] == "UNSAT" else {"sat": e[2]}
    while i < len(evs) and evs[i][0] == "assert":
        rec["pre"].append(evs[i][1]); i += 1
    while i < len(evs) and evs[i][0] == "assume":
        rec["hard"].append(evs[i][1]); i += 1
    if i >= len(evs) or evs[i][0] != "sat":
        rec["shape_ok"] = False
        return rec
    rec["answers"].append(ans(evs[i]))
    if evs[i][1] == "UNSAT":
        rec["shape_ok"] = (i + 1 == len(evs))
        return rec
    i += 1
    while i < len(evs) and evs[i][0] == "assert" and len(rec["hardAsserted"]) < len(rec["hard"]):
        rec["hardAsserted"].append(evs[i][1]); i += 1
    if n_soft > 0:
        for _ in range(n_soft):
            if i < len(evs) and evs[i][0] == "assume":
                rec["soft"].append(evs[i][1]); i += 1
            else:
                rec["shape_ok"] = False
                return rec
        if i >= len(evs) or evs[i][0] != "sat":
            rec["shape_ok"] = False
            return rec
        rec["answers"].append(ans(evs[i]))
        allsat = evs[i][1] == "SAT"
        i += 1
        if allsat:
            for k in range(n_soft):
                if i < len(evs) and evs[i][0] == "assert":
                    rec["softKept"].append(k); i += 1
                else:
                    rec["shape_ok"] = False
        else:
            for k in range(n_soft):
                if not (i + 1 < len(evs) and evs[i][0] == "assume" and evs[i + 1][0] == "sat"):
                    rec["shape_ok"] = False
                    return rec
                if sexp(evs[i][1]) != sexp(rec["soft"][k]):
                    rec["shape_ok"] = False
                rec["answers"].append(ans(evs[i + 1]))
                sat = evs[i + 1][1] == "SAT"
                i += 2
                if sat:
                    if i < len(evs) and evs[i][0] == "assert":
                        rec["softKept"].append(k); i += 1
                    else:
                        rec["shape_ok"] = False
    # swizzle groups
    grp, kept = [], []
    while i < len(evs):
        if evs[i][0] == "assume":
            if not (i + 1 < len(evs) and evs[i + 1][0] == "sat"):
                rec["shape_ok"] = False
                break
            grp.append(evs[i][1])
            rec["answers"].append(ans(evs[i + 1]))
            sat = evs[i + 1][1] == "SAT"
            i += 2
            if sat:
                if i < len(evs) and evs[i][0] == "assert":
                    kept.append(len(grp) - 1); i += 1
                else:
                    rec["shape_ok"] = False
        elif evs[i][0] == "sat":
            rec["answers"].append(ans(evs[i]))
            rec["groups"].append(grp)
            rec["candKept"].append(kept)
            grp, kept = [], []
            i += 1
        else:
            rec["shape_ok"] = False
            break
    if grp:
        rec["shape_ok"] = False
    return rec
