"""Object-tree scenarios (nested randobj classes, inheritance, sub-objects random or not, per-instance
constraint_mode / rand_mode toggles, pre/post_randomize callbacks) on the real library."""
import json
import random

import common
import solvelib as S
from solvecheck import Gen, F, I, B, compare_call

vsc = S.vsc
CB_LOG = []


def members(scn, cname):
    """(name, kind, decl) most-derived per name, sorted by name: what dir()/getattr see"""
    chain = []
    c = cname
    while c is not None:
        chain.insert(0, scn["classes"][c])
        c = scn["classes"][c].get("base")
    d = {}
    for cd in chain:
        for f in cd["fields"]:
            d[f["name"]] = ("scalar", f)
        for s in cd["subs"]:
            d[s["name"]] = ("sub", s)
        for l in cd.get("olists", []):
            d[l["name"]] = ("olist", l)
    return [(n,) + d[n] for n in sorted(d)]


def elem_name(lname, k):
    """path component of element k of list `lname` (the element model's name)"""
    return "%s[%d]" % (lname, k)


def _size_decl(n, randsz=False):
    return {"name": "size", "w": 32, "s": False, "rand": randsz, "val": n, "enums": None, "is_size": True}


def blocks_of(scn, cname):
    chain = []
    c = cname
    while c is not None:
        chain.insert(0, scn["classes"][c])
        c = scn["classes"][c].get("base")
    d = {}
    for cd in chain:
        for b in cd["blocks"]:
            d[b["name"]] = b
    return [d[n] for n in sorted(d)]


def scalar_paths(scn, cname=None, path=()):
    """scalar paths in instantiation order (DFS over members sorted by name)"""
    cname = cname or scn["root"]
    out = []
    for n, kind, decl in members(scn, cname):
        if kind == "scalar":
            out.append((path + (n,), decl))
        elif kind == "olist":
            out.append((path + (n, "size"), _size_decl(decl["n"], decl.get("randsz", False))))
            for k in range(decl["n"]):
                out.extend(scalar_paths(scn, decl["cls"], path + (n, elem_name(n, k))))
        else:
            out.extend(scalar_paths(scn, decl["cls"], path + (n,)))
    return out


def object_paths(scn, cname=None, path=()):
    cname = cname or scn["root"]
    out = [(path, cname)]
    for n, kind, decl in members(scn, cname):
        if kind == "sub":
            out.extend(object_paths(scn, decl["cls"], path + (n,)))
        elif kind == "olist":
            out.append((path + (n,), None))                 # the list itself: a composite without class
            for k in range(decl["n"]):
                out.extend(object_paths(scn, decl["cls"], path + (n, elem_name(n, k))))
    return out


def step(x, n):
    """one path component: an attribute, or element k of a list for a component `name[k]`"""
    if n.endswith("]") and "[" in n:
        return x[int(n[n.index("[") + 1:-1])]
    return getattr(x, n)


def emit_expr(o, e):
    k = e["k"]
    if k == "fld":
        x = o
        for n in e["path"]:
            x = step(x, n)
        return x
    if k == "int":
        return e["v"]
    if k == "itfld":
        # inside a foreach over a list of objects: a field of the current element, through the iterator or by index
        if ITER[-1][1] is not None:
            return getattr(ITER[-1][1], e["name"])
        return getattr(ITER[-1][2]()[ITER[-1][0]], e["name"])
    if k == "idx":
        return ITER[-1][0]
    if k == "lit":
        return (vsc.signed if e["s"] else vsc.unsigned)(e["v"], e["w"])
    if k == "enumlit":
        return getattr(S.enum_type(e["enums"]), "m%d" % e["m"])
    if k == "bin":
        l = emit_expr(o, e["l"])
        r = emit_expr(o, e["r"])
        return S.PYOPS[e["op"]](l, r)
    if k == "not":
        return ~emit_expr(o, e["e"])
    if k == "psel":
        f = emit_expr(o, e["e"])
        if e.get("bit"):
            return f[e["hi"]]
        return f[e["hi"]:e["lo"]]
    if k in ("in", "notin"):
        lhs = emit_expr(o, e["e"])
        items = []
        for r in e["rl"]:
            if "single" in r:
                items.append(emit_expr(o, r["single"]))
            else:
                items.append((emit_expr(o, r["lo"]), emit_expr(o, r["hi"])))
        rl = vsc.rangelist(*items)
        return lhs.inside(rl) if k == "in" else lhs.not_inside(rl)
    raise Exception("emit_expr " + k)


ITER = []      # stack of (index term, iterator term or None, list facade) of the enclosing foreach statements


def emit_stmts(o, stmts):
    for s in stmts:
        k = s["k"]
        if k == "foreach_o":
            if s.get("rel"):
                # a list of the current element of the enclosing foreach: through its iterator, or by its index; a
                # list expression is consumed by the statement it is used in, so it is written out anew for every use
                outer = ITER[-1]

                def mk_lst(_s=s, _outer=outer):
                    x = _outer[1] if _outer[1] is not None else _outer[2]()[_outer[0]]
                    for n in _s["list"]:
                        x = step(x, n)
                    return x
            else:
                def mk_lst(_s=s):
                    x = o
                    for n in _s["list"]:
                        x = step(x, n)
                    return x
            lst = mk_lst()
            with vsc.foreach(lst, it=s["it"], idx=s["idx"]) as x:
                if s["it"] and s["idx"]:
                    ITER.append((x[0], x[1], mk_lst))
                elif s["it"]:
                    ITER.append((None, x, mk_lst))
                else:
                    ITER.append((x, None, mk_lst))
                try:
                    emit_stmts(o, s["body"])
                finally:
                    ITER.pop()
            continue
        if k == "expr":
            emit_expr(o, s["e"])
        elif k == "soft":
            vsc.soft(emit_expr(o, s["e"]))
        elif k == "unique":
            vsc.unique(*[emit_expr(o, x) for x in s["es"]])
        elif k == "implies":
            with vsc.implies(emit_expr(o, s["c"])):
                emit_stmts(o, s["b"])
        elif k == "if":
            with vsc.if_then(emit_expr(o, s["c"])):
                emit_stmts(o, s["t"])
            for ei in s["elifs"]:
                with vsc.else_if(emit_expr(o, ei["c"])):
                    emit_stmts(o, ei["t"])
            if s.get("else") is not None:
                with vsc.else_then:
                    emit_stmts(o, s["else"])
        else:
            raise Exception("emit_stmts " + k)


_n = [0]


PRESETS = []       # (object id, field, value) assigned by pre_randomize during the current call
POST_SNAPS = []    # (object id, values of every scalar of the tree) as seen by post_randomize
SNAP = [None]


def build_classes(scn):
    """real @vsc.randobj classes, bases before derived"""
    built = {}

    def build(cname):
        if cname in built:
            return built[cname]
        cd = scn["classes"][cname]
        base = build(cd["base"]) if cd.get("base") else object
        sub_cls = {s["name"]: s for s in cd["subs"]}
        for s in cd["subs"]:
            build(s["cls"])
        for l in cd.get("olists", []):
            build(l["cls"])

        def __init__(self, _cd=cd, _base=base):
            if _base is not object:
                _base.__init__(self)
            for f in _cd["fields"]:
                setattr(self, f["name"], S.mk_field(f))
            for s in _cd["subs"]:
                inst = built[s["cls"]]()
                setattr(self, s["name"], vsc.rand_attr(inst) if s["rand"] else vsc.attr(inst))
            for l in _cd.get("olists", []):
                if l.get("randsz"):
                    lst = vsc.randsz_list_t(built[l["cls"]]())
                else:
                    lst = (vsc.rand_list_t if l["rand"] else vsc.list_t)(built[l["cls"]]())
                for _ in range(l["n"]):
                    lst.append(built[l["cls"]]())
                setattr(self, l["name"], lst)
        d = {"__init__": __init__}
        for b in cd["blocks"]:
            def mk(stmts):
                def body(self):
                    emit_stmts(self, stmts)
                return body
            fn = mk(b["stmts"])
            fn.__name__ = b["name"]
            d[b["name"]] = vsc.constraint(fn)
        if cd.get("pre"):
            def pre(self, _ps=cd.get("preset")):
                CB_LOG.append(("pre", id(self)))
                if _ps is not None:
                    # a value assigned here to a non-random field is the one the solver has to see
                    setattr(self, _ps["field"], _ps["val"])
                    PRESETS.append((id(self), _ps["field"], _ps["val"]))
            d["pre_randomize"] = pre
        if cd.get("post"):
            def post(self):
                CB_LOG.append(("post", id(self)))
                if SNAP[0] is not None:
                    POST_SNAPS.append((id(self), SNAP[0]()))
            d["post_randomize"] = post
        _n[0] += 1
        if cd.get("plain"):
            # an ordinary Python class (no decorator, no fields) that only contributes constraint blocks to the
            # random-object classes derived from it
            d.pop("__init__")
            built[cname] = type("%s_%d" % (cname, _n[0]), (object,), d)
            return built[cname]
        cls = type("%s_%d" % (cname, _n[0]), (base,) if base is not object else (object,), d)
        built[cname] = vsc.randobj(cls)
        return built[cname]
    for c in scn["classes"]:
        build(c)
    return built


def obj_at(root, path):
    x = root
    for n in path:
        x = step(x, n)
    return x


def read_values(root, spaths):
    out = {}
    for p, decl in spaths:
        out[".".join(p)] = int(getattr(obj_at(root, p[:-1]), p[-1]))
    return out


def read_blocks(root, scn):
    out = []
    for p, cname in object_paths(scn):
        m = obj_at(root, p).get_model()
        for c in m.constraint_model_l:
            out.append((".".join(p), c.name, bool(c.enabled)))
    return out


def run_world(scn):
    """execute the ops; per randomize call return observation + pvdrv request"""
    from vsc.model.rand_state import RandState
    built = build_classes(scn)
    spaths = scalar_paths(scn)
    opaths = object_paths(scn)
    pidx = {".".join(p): i for i, (p, _) in enumerate(spaths)}
    roots = []
    idmap = {}

    def new_root():
        with common.quiet():
            r = built[scn["root"]]()
        for p, decl in spaths:
            if decl.get("is_size"):
                continue
            o = obj_at(r, p[:-1])
            if decl.get("enums"):
                setattr(o, p[-1], S.enum_type(decl["enums"])(decl["val"]))
            else:
                setattr(o, p[-1], decl["val"])
        for p, cn in opaths:
            if cn is None:
                # elements appended before the list got its name are called "<unknown-array>[k]"; names only label
                # the solver variables: give them the names later elements get (FieldArrayModel.name_elems)
                obj_at(r, p).get_model().name_elems()
        idmap.update({id(obj_at(r, p)): ".".join(p) for p, _ in opaths})
        roots.append(r)
    new_root()
    rm_hist, cm_hist, out = [], [], []
    for op in scn["ops"]:
        k = op["op"]
        inst = op.get("inst", 0)
        if k == "new":
            new_root()
            continue
        if inst >= len(roots):
            inst = 0
        root = roots[inst]
        if k == "set":
            o = obj_at(root, op["path"][:-1])
            setattr(o, op["path"][-1], op["val"])
        elif k == "rand_mode":
            o = obj_at(root, op["path"][:-1])
            with vsc.raw_mode():
                getattr(o, op["path"][-1]).rand_mode = op["val"]
            rm_hist.append([op["path"], op["val"], inst])
        elif k == "constraint_mode":
            o = obj_at(root, op["obj"])
            getattr(o, op["block"]).constraint_mode(op["val"])
            cm_hist.append([op["obj"], op["block"], op["val"], inst])
        elif k == "relist":
            # the user empties a list of objects and fills it with new objects of the same class: references by index
            # and foreach now denote the new elements, which start with default switches
            lp = list(op["path"])
            lst = obj_at(root, lp)
            n = len(lst)
            if n == 0:
                continue
            cls = type(lst[0])
            lst.clear()
            with common.quiet():
                for _ in range(n):
                    lst.append(cls())
            lst.get_model().name_elems()

            def under(p):
                return list(p[:len(lp)]) == lp and len(p) > len(lp) and p[len(lp)] != "size"
            for p, cn in opaths:
                if cn is None and under(p):
                    obj_at(root, p).get_model().name_elems()        # lists held by the new elements
            for p, decl in spaths:
                if under(p) and not decl.get("is_size"):
                    o = obj_at(root, p[:-1])
                    setattr(o, p[-1], S.enum_type(decl["enums"])(decl["val"]) if decl.get("enums") else decl["val"])
            idmap.update({id(obj_at(root, p)): ".".join(p) for p, _ in opaths if under(p)})
            rm_hist[:] = [h for h in rm_hist if not (h[2] == inst and under(h[0]))]
            cm_hist[:] = [h for h in cm_hist if not (h[3] == inst and under(h[0]))]
        elif k == "randomize":
            target = obj_at(root, op["target"])
            before = read_values(root, spaths)
            import treelib
            tree_before = treelib.shape(root.get_model())
            del CB_LOG[:]
            del S.EV[:]
            del PRESETS[:]
            del POST_SNAPS[:]
            SNAP[0] = lambda _r=root: read_values(_r, spaths)
            outcome, exc = "ok", None
            try:
                target.set_randstate(RandState.mkFromSeed(op["seed"]))
                with common.quiet():
                    if op.get("inline") is not None:
                        with target.randomize_with() as it:
                            emit_stmts(it, op["inline"])
                    else:
                        target.randomize()
            except S.SolveFailure:
                outcome = "solveFailure"
            except Exception as e:
                import traceback
                outcome = "exception"
                exc = "%s: %s | %s" % (type(e).__name__, str(e)[:200], traceback.format_exc().strip().split("\n")[-3].strip()[:160])
            S.check_budget()
            ev = list(S.EV)
            after = read_values(root, spaths)
            rsets, uncon, bounds, btors, draws = S.split_events(ev)
            used = dict(S.LAST_USED)
            recs, obs = [], []
            for kk, rs in enumerate(rsets):
                r = S.parse_btor(btors[kk], rs["n_soft"]) if kk < len(btors) else None
                obs.append({"rs": rs, "rec": r})
                if r is None:
                    recs.append({"groups": [], "answers": []})
                else:
                    recs.append({"groups": [[S.tree_json(c, pidx) for c in g] for g in r["groups"]],
                                 "answers": [a if a == "unsat" else {"sat": [[pidx[x], v] for x, v in a["sat"].items() if x in pidx]}
                                             for a in r["answers"]]})
            cbs = [(ph, idmap.get(i, "?")) for ph, i in CB_LOG]
            SNAP[0] = None
            # values assigned by pre_randomize are part of the state the call starts from
            for oid, fname, val in PRESETS:
                pth = idmap.get(oid, "?")
                key = (pth + "." if pth else "") + fname
                if key in before:
                    before[key] = val
            snaps = [(idmap.get(i, "?"), sv) for i, sv in POST_SNAPS]
            req = {"op": "o.call", "classes": scn["classes"], "root": scn["root"], "rand_mode": list(rm_hist), "cmode": list(cm_hist),
                   "inst": inst,
                   "target": op["target"], "inline": op.get("inline"), "values": before, "rec": recs, "enumLimit": 13,
                   "implFinal": after if outcome == "ok" else None}
            out.append({"op": op, "before": before, "after": after, "outcome": outcome, "exc": exc, "obs": obs, "uncon": uncon,
                        "used": used, "callbacks": cbs, "post_snaps": snaps, "blocks": read_blocks(root, scn), "req": req,
                        "names": [".".join(p) for p, _ in spaths],
                        "tree": [tree_before, treelib.shape(root.get_model())]})
    return out
