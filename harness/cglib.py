"""Covergroup-level scenarios (crosses, instances/types, coverage numbers, reports) executed on the
real library; shapes and op lists are shared with the Lean driver's `cg.run`."""
import io
import os
import re
import tempfile
from fractions import Fraction

import common
import covlib


def gen_shape(rng, idx, max_cps=3, cross_prob=0.7, opts=True, small=True):
    ncp = rng.randint(1, max_cps)
    cps = []
    for i in range(ncp):
        s = covlib.gen_cp_spec(rng, i)
        # keep crosses small: limit bins
        tries = 0
        while small and tries < 20:
            tries += 1
            w = s["type"].get("w", 3)
            if s["type"]["kind"] == "int" and w > 4:
                s = covlib.gen_cp_spec(rng, i)
                continue
            break
        s.pop("samples", None)
        s["name"] = "cp%d" % i
        s["at_least"] = rng.choice([1, 1, 1, 2, 3]) if opts else 1
        s["weight"] = rng.choice([1, 1, 1, 2, 0, 3]) if opts else 1
        cps.append(s)
    crosses = []
    if ncp >= 2 and rng.random() < cross_prob:
        for j in range(rng.randint(1, 2)):
            k = rng.randint(2, min(3, ncp))
            idxs = rng.sample(range(ncp), k)
            crosses.append({"name": "x%d" % j, "cps": idxs, "at_least": rng.choice([1, 1, 2]) if opts else 1, "weight": 1})
    if all(c["weight"] == 0 for c in cps) and not crosses:
        cps[0]["weight"] = 1
    return {"cps": cps, "crosses": crosses}


def near_variant(rng, sh, opts):
    """a parameterised variant that differs from `sh` in exactly one coverpoint (any position, biased
    away from the last) - or only in an option - and is otherwise identical"""
    import copy
    v = copy.deepcopy(sh)
    n = len(v["cps"])
    j = rng.randrange(n) if (n == 1 or rng.random() < 0.3) else rng.randrange(n - 1)
    old = v["cps"][j]
    if opts and rng.random() < 0.15:
        old["at_least"] = old["at_least"] + 1
        return v
    for _ in range(30):
        s = covlib.gen_cp_spec(rng, j)
        w = s["type"].get("w", 3)
        if s["type"]["kind"] == "int" and w > 4:
            continue
        s.pop("samples", None)
        s["name"] = old["name"]
        s["at_least"] = old["at_least"]
        s["weight"] = old["weight"]
        v["cps"][j] = s
        break
    if rng.random() < 0.6:
        v["crosses"] = [x for x in v["crosses"] if j not in x["cps"]]
    return v


def domain_of(ty):
    if ty["kind"] == "enum":
        return sorted(v for v, _ in ty["members"])
    w, s = ty["w"], ty["s"]
    return list(range(-(1 << (w - 1)), 1 << (w - 1))) if s else list(range(1 << w))


def strip_shape(sh):
    import c10
    out = {"cps": [], "crosses": sh["crosses"]}
    for c in sh["cps"]:
        d = c10.strip(dict(c, samples=[]))
        d.pop("samples", None)
        d.pop("op", None)
        out["cps"].append(d)
    return out


def gen_scenario(rng, idx, n_ops=None, with_save=False, opts=True, cross_prob=0.7):
    ntn = rng.choice([1, 1, 2])
    shapes = {}
    for t in range(ntn):
        tn = "T%d" % t
        shapes[tn] = [gen_shape(rng, idx, opts=opts, cross_prob=cross_prob)]
        if rng.random() < 0.6:
            if rng.random() < 0.6:
                shapes[tn].append(near_variant(rng, shapes[tn][0], opts))
            else:
                shapes[tn].append(gen_shape(rng, idx, opts=opts, cross_prob=cross_prob))
    ops = []
    insts = []   # (tname, shape)
    n_ops = n_ops or rng.randint(6, 30)
    # at least one instance first
    def new():
        tn = rng.choice(sorted(shapes))
        sh = rng.choice(shapes[tn])
        insts.append((tn, sh))
        ops.append({"op": "new", "tname": tn, "iname": tn, "shape": sh})
    new()
    for _ in range(n_ops):
        r = rng.random()
        if r < 0.15 and len(insts) < 5:
            new()
        elif r < 0.22:
            ops.append({"op": "state"})
        elif r < 0.27 and with_save:
            ops.append({"op": "save"})
        elif r < 0.36 and with_save:
            # the user renames an instance (covergroup.set_name), possibly after reports were already produced, possibly to
            # a name another instance carries
            i = rng.randrange(len(insts))
            ops.append({"op": "rename", "inst": i, "name": rng.choice(["front", "rear", "u_%d" % rng.randrange(3), insts[i][0],
                                                                               # names that collide with the suffixes the save adds to repeated names
                                                                               "x", "x", "x_1", "x_1_1", insts[i][0] + "_1"])})
        else:
            i = rng.randrange(len(insts))
            tn, sh = insts[i]
            inp = []
            for c in sh["cps"]:
                inp.append([rng.random() < 0.85, rng.choice(domain_of(c["type"]))])
            xiff = [rng.random() < 0.85 for _ in sh["crosses"]]
            ops.append({"op": "sample", "inst": i, "inp": inp, "xiff": xiff})
    # a sweep that hits every cross bin exactly once (every combination of values of the coverpoints' domains, conditions
    # on): bins then stand at one hit each, below any at_least of 2 or more
    import itertools
    for i, (tn, sh) in enumerate(insts):
        if sh["crosses"] and rng.random() < 0.45:
            doms = [domain_of(c["type"]) for c in sh["cps"]]
            n = 1
            for d_ in doms:
                n *= len(d_)
            if n <= 400:
                for combo in itertools.product(*doms):
                    ops.append({"op": "sample", "inst": i, "inp": [[True, v] for v in combo], "xiff": [True for _ in sh["crosses"]]})
                ops.append({"op": "state"})
    ops.append({"op": "state"})
    if with_save:
        ops.append({"op": "save"})
    return {"op": "cg.run", "ops": ops}


def model_request(scn):
    ops = []
    for o in scn["ops"]:
        if o["op"] == "new":
            ops.append(dict(o, shape=strip_shape(o["shape"])))
        else:
            ops.append(o)
    return {"op": "cg.run", "ops": ops}


# --------------------------------------------------------------------------- real side

class Impl:
    def __init__(self, vsc):
        self.vsc = vsc
        from vsc.impl.coverage_registry import CoverageRegistry
        CoverageRegistry.clear()
        self.classes = {}
        self.insts = []      # (cg object, shape, enum classes)
        self.types = []      # type CovergroupModel objects in creation order

    def _cls(self, tname):
        vsc = self.vsc
        if tname in self.classes:
            return self.classes[tname]

        def init(self, shape, holder):
            svars = {}
            enums = []
            for i, c in enumerate(shape["cps"]):
                mkT, E = covlib.make_type(vsc, c["type"])
                enums.append(E)
                svars["v%d" % i] = mkT()
                svars["e%d" % i] = vsc.bit_t(1)
            for j, x in enumerate(shape["crosses"]):
                svars["xe%d" % j] = vsc.bit_t(1)
            holder["enums"] = enums
            self.with_sample(svars)
            cpo = []
            for i, c in enumerate(shape["cps"]):
                kw = dict(bins=covlib.mk_bins(vsc, c["bins"]), ignore_bins=covlib.mk_xbins(vsc, c["ignore"]),
                          illegal_bins=covlib.mk_xbins(vsc, c["illegal"]), iff=getattr(self, "e%d" % i))
                o = {"at_least": c["at_least"], "weight": c["weight"]}
                if c.get("auto_bin_max") is not None and c["bins"] is None and c["type"]["kind"] != "enum":
                    o["auto_bin_max"] = c["auto_bin_max"]
                kw["options"] = o
                cp = vsc.coverpoint(getattr(self, "v%d" % i), **kw)
                setattr(self, c["name"], cp)
                cpo.append(cp)
            for j, x in enumerate(shape["crosses"]):
                setattr(self, x["name"], vsc.cross([cpo[k] for k in x["cps"]],
                                                   options={"at_least": x["at_least"], "weight": x["weight"]},
                                                   iff=getattr(self, "xe%d" % j)))
        cls = vsc.covergroup(type(tname, (object,), {"__init__": init}))
        self.classes[tname] = cls
        return cls

    def new(self, o):
        holder = {}
        cg = self._cls(o["tname"])(o["shape"], holder)
        m = cg.get_model()
        t = m.type_cg
        if not any(t is x for x in self.types):
            self.types.append(t)
        self.insts.append((cg, o["shape"], holder["enums"]))
        tidx = [i for i, x in enumerate(self.types) if x is t][0]
        return {"type": t.name, "tidx": tidx}

    def sample(self, o):
        cg, sh, enums = self.insts[o["inst"]]
        args = []
        for (iff, v), E in zip(o["inp"], enums):
            args.append(E(v) if E is not None else v)
            args.append(1 if iff else 0)
        for x in o["xiff"]:
            args.append(1 if x else 0)
        m = cg.get_model()
        before = [list(cr.hit_l) for cr in m.cross_l]
        cg.sample(*args)
        xd = []
        for b, cr in zip(before, m.cross_l):
            d = []
            for i, (x, y) in enumerate(zip(b, cr.hit_l)):
                d.extend([i] * (y - x))
            xd.append(d)
        return {"xdelta": xd}

    @staticmethod
    def read_model(m):
        cps = []
        for cp in m.coverpoint_l:
            r = covlib.read_cp(cp)
            cps.append({"name": cp.name, "hits": r["hits"], "ign": r["ign"], "ill": r["ill"], "names": r["names"],
                        "cov_f": cp.get_inst_coverage()})
        crs = []
        for cr in m.cross_l:
            n = cr.get_n_bins()
            crs.append({"name": cr.name, "hits": [cr.get_bin_hits(i) for i in range(n)],
                        "names": [cr.get_bin_name(i) for i in range(n)], "cov_f": cr.get_coverage()})
        return {"cp": cps, "cross": crs, "cov_f": m.get_inst_coverage()}

    def state(self):
        out = {"types": [], "insts": []}
        for t in self.types:
            out["types"].append({"name": t.name, "st": self.read_model(t)})
        for cg, sh, _ in self.insts:
            m = cg.get_model()
            tidx = [i for i, x in enumerate(self.types) if x is m.type_cg][0]
            st = self.read_model(m)
            st["facade_cov"] = cg.get_coverage()
            st["facade_inst_cov"] = cg.get_inst_coverage()
            # the name the instance holds in memory (CovergroupModel.instname when given, else .name) and the raw attributes
            out["insts"].append({"tidx": tidx, "st": st, "name": m.instname if m.instname is not None else m.name,
                                 "raw_names": [m.name, m.instname]})
        return out

    # ---- reports ------------------------------------------------------------------------
    @staticmethod
    def report_to_tree(report):
        def bins(bl, kind, use_goal=True):
            return [[b.name, b.goal, b.count, kind] for b in bl]
        def cg(c):
            return {"name": c.name,
                    "cps": [{"name": p.name, "weight": p.weight, "coverage": p.coverage,
                             "bins": bins(p.bins, "cvg") + bins(p.ignore_bins, "ignore") + bins(p.illegal_bins, "illegal")}
                            for p in c.coverpoints],
                    "crosses": [{"name": x.name, "weight": x.weight, "coverage": x.coverage, "bins": bins(x.bins, "cvg")} for x in c.crosses],
                    "coverage": c.coverage}
        return [{"cg": cg(t), "insts": [cg(i) for i in t.covergroups]} for t in report.covergroups]

    def save(self):
        vsc = self.vsc
        rep = vsc.get_coverage_report_model()
        tree = self.report_to_tree(rep)
        txt = vsc.get_coverage_report(details=True)
        fd, path = tempfile.mkstemp(suffix=".xml", prefix="pvcov")
        os.close(fd)
        try:
            vsc.write_coverage_db(path)
            from ucis.xml.xml_factory import XmlFactory
            from ucis.report.coverage_report_builder import CoverageReportBuilder
            db = XmlFactory.read(path)
            tree_xml = self.report_to_tree(CoverageReportBuilder.build(db))
        except Exception as e:
            tree_xml = {"exc": type(e).__name__ + ": " + str(e)[:200]}
        finally:
            os.unlink(path)
        return {"tree": tree, "text": txt, "xml": tree_xml}


def run_impl(vsc, scn):
    outs = []
    try:
        with common.quiet():
            im = Impl(vsc)
            for o in scn["ops"]:
                k = o["op"]
                if k == "new":
                    outs.append(im.new(o))
                elif k == "sample":
                    outs.append(im.sample(o))
                elif k == "rename":
                    im.insts[o["inst"]][0].set_name(o["name"])
                    outs.append(None)
                elif k == "state":
                    outs.append(im.state())
                elif k == "save":
                    before = im.state()
                    r = im.save()
                    r["state_before"] = before
                    r["state_after"] = im.state()
                    outs.append(r)
    except Exception as e:
        import traceback
        outs.append({"exc": type(e).__name__, "msg": str(e)[:300], "tb": traceback.format_exc()[-600:]})
    return outs


def cov_fraction(k, n):
    return Fraction(100 * k, n) if n else None


def cg_cov_fraction(items):
    """items: [(k, n, w)] -> exact weighted coverage (None when total weight is 0 / no items)"""
    if not items:
        return Fraction(100)
    tw = sum(w for _, _, w in items)
    if tw == 0:
        return None
    return sum(Fraction(100 * k, n) * w for k, n, w in items) / tw


def parse_text_report(txt):
    """TYPE/INST/CVP/CROSS lines with percentages; bins with counts"""
    out = []
    for line in txt.split("\n"):
        m = re.match(r"\s*(TYPE|INST|CVP|CROSS) (.*) : ([0-9.]+)%$", line)
        if m:
            out.append((m.group(1), m.group(2), float(m.group(3))))
            continue
        m = re.match(r"\s*(.+) : (\d+)$", line)
        if m:
            out.append(("BIN", m.group(1).strip(), int(m.group(2))))
    return out


# --------------------------------------------------------------------------- shared check driver

def spec_bins_for(drv, scns):
    """Spec-side bin value lists for every coverpoint of every `new` op: {id(cpspec): [[values]...]}"""
    import c10
    reqs, keys = [], []
    for scn in scns:
        for o in scn["ops"]:
            if o["op"] == "new":
                for c in o["shape"]["cps"]:
                    if id(c) in keys:
                        continue
                    r = c10.strip(dict(c, samples=[]))
                    r["op"] = "s.cp"
                    reqs.append(r)
                    keys.append(id(c))
    res = drv.batch(reqs)
    return {k: (r["bins"] if isinstance(r, dict) and "bins" in r else None) for k, r in zip(keys, res)}


def zero_bin_scenario(scn, sb):
    for o in scn["ops"]:
        if o["op"] == "new":
            for c in o["shape"]["cps"]:
                b = sb.get(id(c))
                if b is None or len(b) == 0:
                    return True
    return False


def gen_valid_scenarios(rng, drv, n, **kw):
    """scenarios none of whose coverpoints has zero bins (that region is the known finding F20)"""
    out, dropped = [], 0
    sbs = {}
    while len(out) < n:
        batch = [gen_scenario(rng, len(out) + i, **kw) for i in range(max(8, n - len(out)))]
        sb = spec_bins_for(drv, batch)
        for s in batch:
            if zero_bin_scenario(s, sb):
                dropped += 1
            elif len(out) < n:
                out.append(s)
        sbs.update(sb)
    return out, sbs, dropped


def scn_case(scn, upto=None):
    ops = scn["ops"] if upto is None else scn["ops"][:upto + 1]
    return {"ops": ops}


def compare_model(ck, scn, impl, model, what_prefix, fields=("new", "state", "save")):
    """event-by-event comparison of the implementation's observable outputs with the model's"""
    if impl and isinstance(impl[-1], dict) and "exc" in impl[-1] and "tb" in impl[-1]:
        ck.corr_fail(what_prefix + ": implementation raised " + impl[-1]["exc"], scn_case(scn), "no exception", impl[-1]["msg"])
        return False
    if not isinstance(model, list):
        ck.corr_fail(what_prefix + ": model error", scn_case(scn), model, "ok")
        return False
    ok = True
    for k, (o, a, b) in enumerate(zip(scn["ops"], impl, model)):
        if o["op"] == "new" and "new" in fields:
            if a != b:
                ck.corr_fail(what_prefix + ": Cg.Reg.newInst vs CoverageRegistry.register_cg (type name / grouping)", scn_case(scn, k), b, a)
                return False
        elif o["op"] == "state" and "state" in fields:
            for grp in ("types", "insts"):
                if len(a[grp]) != len(b[grp]):
                    ck.corr_fail(what_prefix + ": number of %s" % grp, scn_case(scn, k), len(b[grp]), len(a[grp]))
                    return False
                for x, y in zip(a[grp], b[grp]):
                    if grp == "types" and x["name"] != y["name"]:
                        ck.corr_fail(what_prefix + ": type name", scn_case(scn, k), y["name"], x["name"])
                        return False
                    if grp == "insts" and x["tidx"] != y["tidx"]:
                        ck.corr_fail(what_prefix + ": instance->type link", scn_case(scn, k), y["tidx"], x["tidx"])
                        return False
                    sx, sy = x["st"], y["st"]
                    for cx, cy in zip(sx["cp"], sy["cp"]):
                        for f in ("name", "hits", "ign", "ill", "names"):
                            if cx[f] != cy[f]:
                                ck.corr_fail(what_prefix + ": coverpoint %s (Cg.sampleSt vs CovergroupModel.sample)" % f, scn_case(scn, k), cy[f], cx[f])
                                return False
                        kk, nn = cy["cov"]
                        if nn and float(cov_fraction(kk, nn)) != cx["cov_f"]:
                            ck.corr_fail(what_prefix + ": coverpoint coverage (Cg.cpCov vs get_inst_coverage)", scn_case(scn, k), [kk, nn], cx["cov_f"])
                            return False
                    for cx, cy in zip(sx["cross"], sy["cross"]):
                        for f in ("name", "hits", "names"):
                            if cx[f] != cy[f]:
                                ck.corr_fail(what_prefix + ": cross %s (Cg.crossKey/flatIdx vs CoverpointCrossModel)" % f, scn_case(scn, k), cy[f], cx[f])
                                return False
                        kk, nn = cy["cov"]
                        if nn and float(cov_fraction(kk, nn)) != cx["cov_f"]:
                            ck.corr_fail(what_prefix + ": cross coverage", scn_case(scn, k), [kk, nn], cx["cov_f"])
                            return False
                    fr = cg_cov_fraction([tuple(i) for i in sy["items"]])
                    if fr is not None and abs(float(fr) - sx["cov_f"]) > 5.1e-5:
                        ck.corr_fail(what_prefix + ": covergroup coverage (Cg.cgItems vs get_inst_coverage)", scn_case(scn, k), float(fr), sx["cov_f"])
                        return False
        elif o["op"] == "save" and "save" in fields:
            t = a["tree"]
            def norm_impl(c):
                return {"name": c["name"],
                        "cps": [{"name": p["name"], "weight": p["weight"], "bins": [list(z) for z in p["bins"]]} for p in c["cps"]],
                        "crosses": [{"name": p["name"], "bins": [[z[0], z[2]] for z in p["bins"]]} for p in c["crosses"]]}
            def norm_model(c):
                return {"name": c["name"],
                        "cps": [{"name": p["name"], "weight": p["weight"], "bins": p["bins"]} for p in c["cps"]],
                        "crosses": [{"name": p["name"], "bins": [[z[0], z[2]] for z in p["bins"]]} for p in c["crosses"]]}
            ti = [{"cg": norm_impl(x["cg"]), "insts": [norm_impl(i) for i in x["insts"]]} for x in t]
            tm = [{"cg": norm_model(x["cg"]), "insts": [norm_model(i) for i in x["insts"]]} for x in b]
            if ti != tm:
                ck.corr_fail(what_prefix + ": Cg.Reg.save vs CoverageSaveVisitor (report model tree)", scn_case(scn, k), tm, ti)
                return False
    return ok
