"""Regenerates /verif/MANIFEST.json from the table below (kept valid at all times)."""
import json, os
VERIF = os.path.dirname(os.path.dirname(os.path.abspath(__file__)))
ALL = ["C%02d" % i for i in range(1, 21)]

TB = ("Trusted: Lean 4.33 kernel; axioms propext, Classical.choice, Quot.sound only (audited per theorem on every run, no sorry/native_decide/bv_decide); "
      "the hand-written model lean/Pyvsc/Model/*.lean is tied to /repo's working tree by the differential correspondence run of this check "
      "(harness/*.py executes the same cases on the real library and on the compiled model driver pvdrv and compares). ")

CHECKS = {
 "C10": dict(
   text="Lean theorems over the executable model of RangelistModel and the bin models: compact preserves the denoted value set for every input list and yields strictly separated ascending ranges (compact_denotes, compact_sorted); intersect removes exactly the exclusion values for every target list and every well-formed exclusion list (subtract_denotes, via trimOne/trimAll/subtractGo invariants); after any sample sequence each regular/ignore/illegal counter equals the number of samples taken while iff held that the bin models report for that flat index, iff-off samples and values outside every bin change nothing (sample_counts, sample_counts_ignore, by induction over the sample list); a leaf bin reports a hit exactly on its value set (leaf_hit_iff). The partition theorem for mk_collection is not proved yet; mk_collection is tied to the Spec (equal-size consecutive chunks, remainder last) by an exhaustive sweep over all sorted disjoint range lists on a small domain x 1..8 bins, and every generated coverpoint (bins, bin arrays, auto-bins, enum, ignore/illegal) is sampled with every value of its type and compared three ways: implementation vs model vs Spec.",
   note=TB + "Spec (Pyvsc/Spec/Bins.lean: specVals, chunks, countHits) is the property text as definitions. Bin specification forms exercised are listed in the evidence; the programmatic list-of-lists form of bin_array is not.",
   technique="Lean 4 proof over executable model + differential correspondence + exhaustive small-domain sweeps",
   design="6 C10"),
 "C19": dict(
   text="Lean theorems: str2bin means digit-wise matching for every accepted pattern string in all three bases with x/X/?/_ at any position (str2bin_spec, induction over the digit list with a bit-level combine lemma); a single wildcard bin is hit iff some pattern agrees on every care bit (wcHit_iff); merging expanded values into ranges and collapsing overlapping/adjacent expansions never loses or adds a value (pushVals_denotes, collapse_denotes). The scatter step of valmask2binlist (counter bits into wildcard groups) is not proved; it is tied to the Spec exhaustively over every (value, mask) pair up to 8 bits (thorough) and coverpoints with single/array wildcard bins are sampled with every value of their type.",
   note=TB + "F12 (leading wildcard digits are not expanded by wildcard_bin_array) is a recorded known finding; it is only accepted when implementation and model agree and the missing values are exactly those above the highest care bit.",
   technique="Lean 4 proof over executable model + exhaustive differential correspondence",
   design="6 C19"),
 "C18": dict(
   text="Lean theorems for all widths w>=1, both signs and all integers: every scalar write path followed by every scalar read path, and every list write path followed by every list read path, yields Spec.wrap w s v, which lies in the declared type (scalar_read_after_write, list_read_after_write, paths_agree, wrap_inType, wrap_of_inType, readBack_spec); part-select read returns bits[hi:lo], part-select/bit write sets exactly those bits and changes no bit below lo or above hi (partWrite_spec, bitWrite_spec, partWrite_inType); enum value<->enumerator round trip (enum_roundtrip). The model functions are compared with types.py / enum_info.py on every run: exhaustively for small widths over [-2^(w+1),2^(w+1)] x all write x read paths, boundary values up to width 64, all part-select bounds for widths <= 8.",
   note=TB + "Python's unbounded-int &, ~, <<, >> are modelled arithmetically (mod/div by powers of two); that identity is what the exhaustive sweep validates. Part-select writes wider than the field are outside the judged domain.",
   technique="Lean 4 proof over executable model + exhaustive differential correspondence",
   design="6 C18"),
}

def main():
    checks = []
    for pid in ALL:
        if pid not in CHECKS:
            continue
        c = CHECKS[pid]
        checks.append({
            "property_id": pid,
            "quick_cmd": "./check %s --tier quick" % pid,
            "thorough_cmd": "./check %s --tier thorough" % pid,
            "evidence_file": "evidence/%s.json" % pid,
            "replay_cmd_template": "./check %s --replay {path}" % pid,
            "engine": "lean+harness",
            "level_claimed": {"category": "proof", "text": c["text"], "design_ref": "DESIGN.md section " + c["design"]},
            "level_note": c["note"],
            "technique": c["technique"],
        })
    na = [{"property_id": p, "reason": NA.get(p, "not claimed yet: model, theorems and correspondence for this property are not built in this revision (no weaker technique is substituted)")}
          for p in ALL if p not in CHECKS]
    m = {
        "version": 1,
        "setup_cmd": "cd lean && lake build && cd .. && /venv/bin/python harness/setup_audit.py",
        "hooks": {"guard": "PYVSC_VERIF", "enable": "no source hooks: all observation is done by in-process wrapping from the harness (reserved guard, unused)",
                  "baseline_off_cmd": "cd /repo && /venv/bin/python -m pytest -ra -q -p no:cacheprovider --timeout=900 --continue-on-collection-errors",
                  "source_commits": [], "add_only": True},
        "engines": [
            {"name": "lean", "path": "lean", "serves_properties": [c["property_id"] for c in checks],
             "kind_free_text": "Lake project: executable model (Pyvsc/Model), reference semantics (Pyvsc/Spec), property theorems (Pyvsc/Props), compiled line-protocol driver pvdrv"},
            {"name": "harness", "path": "harness", "serves_properties": [c["property_id"] for c in checks],
             "kind_free_text": "Python: runs generated/exhaustive cases on the real library from /repo/src, pipes them to pvdrv, diffs, classifies, writes evidence/replays"}],
        "checks": checks,
        "not_applicable": na,
        "notes": "Technique family: machine-checked proof in Lean 4 with a checked correspondence between hand-written model and code. See DESIGN.md.",
    }
    json.dump(m, open(os.path.join(VERIF, "MANIFEST.json"), "w"), indent=1)

NA = {}
if __name__ == "__main__":
    main()
