"""Regenerates /verif/MANIFEST.json from the table below (kept valid at all times)."""
import json, os
VERIF = os.path.dirname(os.path.dirname(os.path.abspath(__file__)))
ALL = ["C%02d" % i for i in range(1, 21)]

TB = ("Trusted: Lean 4.33 kernel; axioms propext, Classical.choice, Quot.sound only (audited per theorem on every run, no sorry/native_decide/bv_decide); "
      "the hand-written model lean/Pyvsc/Model/*.lean is tied to /repo's working tree by the differential correspondence run of this check "
      "(harness/*.py executes the same cases on the real library and on the compiled model driver pvdrv and compares). ")

CHECKS = {
 "C10": dict(
   text="Lean theorems over the executable model of RangelistModel and the bin models: compact preserves the denoted value set for every input list and yields strictly separated ascending ranges (compact_denotes, compact_sorted); intersect removes exactly the exclusion values for every target list and every well-formed exclusion list (subtract_denotes, via trimOne/trimAll/subtractGo invariants); after any sample sequence each regular/ignore/illegal counter equals the number of samples taken while iff held that the bin models report for that flat index, iff-off samples and values outside every bin change nothing (sample_counts, sample_counts_ignore, by induction over the sample list); a leaf bin reports a hit exactly on its value set (leaf_hit_iff). The partition theorem for mk_collection is not proved yet; mk_collection is tied to the Spec (equal-size consecutive chunks, remainder last) by an exhaustive sweep over all sorted disjoint range lists on a small domain x 1..8 bins, and every generated coverpoint (bins, bin arrays, auto-bins, enum, ignore/illegal) is sampled with every value of its type and compared three ways: implementation vs model vs Spec.",
   note=TB + "Spec (Pyvsc/Spec/Bins.lean: specVals, chunks, countHits) is the property text as definitions. Bin specification forms exercised are listed in the evidence; the programmatic list-of-lists form of bin_array is not.",
   technique="Lean 4 proof over executable model + differential correspondence + exhaustive small-domain sweeps",
   design="6 C10"),
 "C19": dict(
   text="Lean theorems: str2bin means digit-wise matching for every accepted pattern string in all three bases with x/X/?/_ at any position (str2bin_spec, induction over the digit list with a bit-level combine lemma); a single wildcard bin is hit iff some pattern agrees on every care bit (wcHit_iff); merging expanded values into ranges and collapsing overlapping/adjacent expansions never loses or adds a value (pushVals_denotes, collapse_denotes). The scatter step of valmask2binlist (counter bits into wildcard groups) is not proved; it is tied to the Spec exhaustively over every (value, mask) pair up to 8 bits (thorough) and coverpoints with single/array wildcard bins are sampled with every value of their type.",
   note=TB + "F12 (leading wildcard digits are not expanded by wildcard_bin_array) is a recorded known finding; it is only accepted when implementation and model agree and the missing values are exactly those above the highest care bit.",
   technique="Lean 4 proof over executable model + exhaustive differential correspondence",
   design="6 C19"),
 "C11": dict(
   text="Lean theorems over the executable cross model: cross bins are in one-to-one row-major correspondence with the combinations of coverpoint bins (flatIdx_lt, keyOf_flatIdx: keyOf is the inverse of flatIdx on valid keys, and names are built from keyOf); the key of a sample exists exactly when every crossed coverpoint's iff holds and every one hit a bin (crossKey_spec); one sample changes at most one cross bin, by exactly one, and only if the cross's iff holds (cross_step_spec); after any sample sequence each cross bin holds the number of samples with cross iff, all coverpoint iffs and that combination of bins (cross_counts, induction over samples). Tied to CoverpointCrossModel/CovergroupModel by generated covergroup scenarios compared state-by-state with the model, and to the property text by a per-sample oracle on the implementation's cross increments.",
   note=TB + "Where a sampled value lies in several bins of one crossed coverpoint the Spec accepts any of them (the property defines the hit bin only for disjoint bins); zero-bin coverpoints are excluded (F20).",
   technique="Lean 4 proof over executable model + differential correspondence on generated covergroup scenarios",
   design="6 C11"),
 "C12": dict(
   text="Lean theorems: for any interleaving of samples over n instances of one shape the type covergroup's coverpoint and cross bins equal the bin-wise sum of the instances' bins and each instance holds only its own samples (type_is_sum, type_is_sum_cross, from the additivity of sampling); the number of covered bins is at most the number of bins, monotone in the hit vector, and equal to it iff every bin reached at_least (cov_range, cov_mono, cov_full_iff); the weight-averaged covergroup coverage over exact rationals lies in 0..100, never decreases, and is 100 iff every bin of every positively weighted item is covered (wavg_range, wavg_mono, wavg_full_iff). Registry behaviour (structural equality, variant naming, forwarding of cached values) is tied by generated multi-instance scenarios compared state-by-state with the model and checked against the property text (instance isolation, type = sum, different bins => different type, coverage values, range, monotonicity, 100-iff-covered).",
   note=TB + "Covergroup percentages are compared with the exact rational up to the library's round(.,4); IEEE division assumed correctly rounded. F20 (zero-bin coverpoint has no coverage value) is a recorded known finding. The registry-level statement 'instances with different bins form separate types' rests on the correspondence of Cg.shapeEq with the equals() methods, not on a theorem.",
   technique="Lean 4 proof over executable model + differential correspondence on generated covergroup scenarios",
   design="6 C12"),
 "C13": dict(
   text="Lean theorems over the save visitor as a pure function of the registry: every coverpoint is emitted once, in order, under its in-memory name; exactly n_bins bins are emitted per bin list, each with the in-memory name and hit count of its flat index; every cross is emitted with one bin per cross bin carrying its in-memory count (binsOf_spec, saveCg_cps, saveCg_cross_counts); save is a function (save_pure). Tied to CoverageSaveVisitor by comparing the report model tree with the model's tree at random points of generated histories; the implementation is checked against the property text: report model, text rendering and XML read-back contain every type/instance/coverpoint/cross/bin with the in-memory names and counts, percentages equal get_coverage()/get_inst_coverage(), and coverage state is identical before and after.",
   note=TB + "PARTIAL by nature: text formatting, XML writing and parsing are PyUCIS code, covered only by the differential check (XML read-back compared on names and counts because PyUCIS does not round-trip at_least; cross weights fixed to 1 because PyUCIS reports crosses with weight 1).",
   technique="Lean 4 proof over executable model + differential correspondence incl. PyUCIS report/XML round trip",
   design="6 C13"),
 "C18": dict(
   text="Lean theorems for all widths w>=1, both signs and all integers: every scalar write path followed by every scalar read path, and every list write path followed by every list read path, yields Spec.wrap w s v, which lies in the declared type (scalar_read_after_write, list_read_after_write, paths_agree, wrap_inType, wrap_of_inType, readBack_spec); part-select read returns bits[hi:lo], part-select/bit write sets exactly those bits and changes no bit below lo or above hi (partWrite_spec, bitWrite_spec, partWrite_inType); enum value<->enumerator round trip (enum_roundtrip). The model functions are compared with types.py / enum_info.py on every run: exhaustively for small widths over [-2^(w+1),2^(w+1)] x all write x read paths, boundary values up to width 64, all part-select bounds for widths <= 8.",
   note=TB + "Python's unbounded-int &, ~, <<, >> are modelled arithmetically (mod/div by powers of two); that identity is what the exhaustive sweep validates. Part-select writes wider than the field are outside the judged domain.",
   technique="Lean 4 proof over executable model + exhaustive differential correspondence",
   design="6 C18"),
}

CHECKS.update({
 "C01": dict(
   text="Lean theorems, for all expression trees, widths, signedness mixes, environments and solver behaviours: the term built by every Expr*Model.build evaluates, under the Boolector semantics Bv.eval, to the reference value of the expression at its computed width (lowerExpr_sound: 16 binary operators with context-width propagation and signed-iff-both-signed extension, ~, part-select, in/rangelist expansion); the formula built for every statement kind (expression, if/else-if/else, implies, unique, scope conjunction with None-skipping, soft) is true exactly when the statement holds in the reference semantics (lowerStmt_sound, via stmt_scope_sound); for any rand set, any soft formulas, any swizzle candidates and any answer stream whose answers are valid for the queries issued, a successful solve reads back values under which every hard statement holds, every random field is inside its declared width/signedness, non-random fields are unchanged (randomize_sound, on top of solve_spec for the hard/soft/swizzle loop); a random enum field reads back a declared enumerator (enum_readback). Tied to the code per call: rand-set membership and order, every hard/soft/enum formula as an s-expression, the Assume/Assert/Sat pattern, every solver answer re-validated under Bv.eval (UNSAT by enumeration on small sets), read-back values; the reference semantics are evaluated on the values the real library returned; kernel sweep of ExprBinModel.build through the real Boolector (three-way: circuit value, Bv.eval of the model's term, reference value).",
   note=TB + "Modelled, not verified: Boolector (answer stream; validated per answer on every run). Spec choices SC1-SC6 (DESIGN 5). The rand-set builder (RandSets.lean) is executable model + correspondence only: no partition theorem yet. Outside the proved region and generated inputs: statements that mention no field (known finding F17, C02), lists/foreach/dist/dynamic constraints (C04/C15/C06).",
   technique="Lean 4 proof (structural induction on expressions/statements; invariant over the answer stream) + trace-level differential correspondence + exhaustive kernel sweep",
   design="6 C01"),
 "C02": dict(
   text="Lean theorems: the hard formulas built for a rand set are satisfiable as bit-vector formulas iff the statements have a solution in the reference semantics that keeps non-random fields and stays inside the declared types (hard_sat_iff, both directions from lowering soundness); over any valid answer stream the solve raises SolveFailure iff there is no such solution (fails_iff_unsat, fails_iff_unsat_pre with enum assertions); with valid answers and enough of them the loop never ends in an internal error - the 'failed to add in randomization' raises are unreachable, soft and swizzle phases cannot fail after the hard phase - and a satisfiable system returns a model (no_internal_error); every lowered statement is a well-typed 1-bit term under every assignment, so no Boolector exception can come from node construction inside the well-formedness region (lowered_welltyped). Tied as C01; direct oracle: satisfiability of every enumerable rand set decided exhaustively over the reference semantics by the driver and compared with the outcome in both directions; any exception other than SolveFailure escaping randomize() is reported.",
   note=TB + "Known findings (recorded, replayed on every run): F17 a statement that mentions no field is dropped; F33 a non-random sub-expression dividing by zero / shifting by a negative amount raises from Python-side evaluation. Repaired during this work: F01, F02, F15, F34, F36, F37 (see known_findings.json).",
   technique="Lean 4 proof + trace-level differential correspondence + exhaustive satisfiability oracle on small domains",
   design="6 C02"),
 "C05": dict(
   text="Lean theorems over the solve loop with any valid answer stream: soft formulas never turn a satisfiable hard system into SolveFailure (soft_never_fatal); on success the model satisfies the hard formulas and every kept soft formula, and every rejected soft formula is unsatisfiable together with the hard formulas and the kept ones (soft_maximal); the kept/rejected split is exactly the one of the reference greedy procedure that walks the soft list in order and keeps a formula iff it is satisfiable with the hard formulas and the formulas kept before it (soft_exact via GreedyRef, also when the all-at-once attempt succeeds); the highest-priority soft formula wins whenever it is satisfiable with the hard system (first_wins); sorting by the priorities the builder assigns yields the reverse visit order, i.e. later statements and the inline block are tried first (sort_is_reverse); the soft-list entry of a soft constraint under guards means 'guards imply soft' and a plain entry means its expression, both normalised to one bit (soft_guard, soft_plain). Tied as C01 plus: priorities, soft list order, the fallback loop's Assume/Assert pattern and the kept set per rand set; oracle: exact greedy-by-priority reference over the exhaustively enumerated value space of the reference semantics, evaluated on the returned values.",
   note=TB + "The guard of an else branch is the bitwise complement of the condition (spec choice SC5). Repaired: F02, F18.",
   technique="Lean 4 proof (greedy invariant over the answer stream) + trace-level differential correspondence + exhaustive greedy reference on small domains",
   design="6 C05"),
})

CHECKS.update({
 "C03": dict(
   text="Lean theorems over the object-tree model (World.used = set_used_rand): the target of a call is used as random whatever its declaration (target_used); a scalar or sub-object below it is random in the call iff its parent is and it is declared random with rand_mode on (member_scalar, member_object); below a composite that is not random nothing is random (used_false, by induction over the tree); the solve writes only fields that are random in the call - the environment after read-back differs from the one before only there (writes_only_random, with C01.randomize_sound clause 3) - and the formulas depend on the environment only through the non-random fields, which enter as constants of their current value (nonrandom_as_constants). Tied per call on generated object trees and op histories (assignments, rand_mode toggles, constraint_mode toggles, calls on the root or on a sub-object): used flag of every field, rand sets, every lowered formula, values of every field before/after on success and on SolveFailure; Spec oracle: no field that is not random in the call changes.",
   note=TB + "Not generated in this revision: free-standing vsc.randomize(...) on field lists, mutable rangelist objects edited between calls, non-random lists (C04 not claimed). rand_mode toggles on scalars only.",
   technique="Lean 4 proof (structural induction over object trees) + trace-level differential correspondence on generated histories",
   design="6 C03"),
 "C07": dict(
   text="Lean theorems over the per-instance flag model: a toggle sets the flag of its (instance, block) pair (toggle_sets), leaves every other pair - other instances of the class, sub-objects, instances created later - unchanged (toggle_isolated), and after any toggle history the flag is the value of the last toggle on that pair, on by default (flag_is_last, induction over the history); a block enters a call iff its flag is on and its instance is random in the call (active_iff); of several definitions of a block name along the class chain the last (most-derived) one is kept (mostDerived_is_last). Tied on generated hierarchies with overridden block names and several instances per class: enabled flag of every block of every instance after every op, the formulas entering each call, rand sets, values.",
   note=TB + "Instances held in lists are not generated (C04 not claimed). The disabled-block skip in VariableBoundVisitor is covered only through its effect on swizzle candidates, which C07 does not compare.",
   technique="Lean 4 proof (induction over toggle histories) + trace-level differential correspondence on generated hierarchies",
   design="6 C07"),
 "C08": dict(
   text="Lean theorems: every scalar instance of the tree has exactly one used-as-random flag - structurally identical sub-objects never share one (one_flag_per_scalar, from used_scalars: the flag list enumerates the tree's scalars in visit order); a sub-object's own blocks are enforced exactly when the block is enabled on that instance and the sub-object is random in the call (sub_blocks_iff_rand); below a sub-object that is not random in the call every field is a constant of the call (nonrandom_subtree_constant). Member-path resolution (field_id_m chains, to_expr) is executable model + correspondence: solver variables are named by full member path in every compared formula, so a reference that resolved to the wrong sibling is a textual difference; instantiation order, rand-set membership by path, used flags and active blocks are compared per call.",
   note=TB + "Path resolution injectivity is not a theorem (the instantiation code lives in the driver); it is tied by the per-formula comparison. Lists of objects / foreach over objects are not generated (C04 not claimed).",
   technique="Lean 4 proof (structural induction over object trees) + trace-level differential correspondence on generated object trees",
   design="6 C08"),
 "C17": dict(
   text="Lean theorems over the callback model (pre-order over the composites that are random in the call): a callback fires on an object iff the object is random in the call (callback_iff); with unique object ids no object's callback fires twice (callbacks_once, via used_objects: the flag list enumerates the objects in pre-order); the top object of the call always gets its callbacks (callback_root); nothing fires for a non-random sub-object or anything below it (no_callback_below_nonrandom). Tied per call on generated trees whose classes define pre_randomize/post_randomize: the exact sequences of pre and post callbacks are compared with the model's; Spec oracle on the implementation's log (at most once each).",
   note=TB + "PARTIAL: 'pre_randomize runs before solving, so values it assigns to non-random fields are the ones the solver sees' and 'post_randomize runs after every field holds its final value' are not exercised by the generated callbacks in this revision (they only log); lists of objects are not generated.",
   technique="Lean 4 proof + trace-level differential correspondence on generated object trees",
   design="6 C17"),
})

CHECKS.update({
 "C14": dict(
   text="Lean theorems: the upper-bound propagator keeps every value of an ascending domain that satisfies the bound it was created for and only ever removes values (maxProp_keeps, capLast_sub); a field no statement mentions keeps its initial domain, i.e. its whole type (untouched_full); a per-bit swizzle candidate holds under a solver assignment iff the named bit of the variable has the drawn value (bit_candidate); and - for the whole loop - if some assignment satisfies what is asserted together with all candidates of a group (the drawn target is feasible) then, over any valid answer stream, no candidate is rejected and the model of the group's final Sat() satisfies every candidate: the returned value carries the drawn bits, so every feasible target is returned with the probability of its draw (target_returned, from greedy_all_accepted). The rest of bound inference (which statements create which propagator, IsNonRandExprVisitor, Python-int evaluation of the non-random side, the lower-bound / equality / variable-variable / in propagators with their list aliasing, the 100-round fixed point, unconstrained draws, range pick, d_width, bit/bit-group candidates, trial order) is an executable model (Bounds.lean) tied per call: the inferred range of every field, every draw with its bounds in order, unconstrained values and every swizzle candidate are compared. Direct oracle: every rand set with at most 13 random bits is enumerated exhaustively over the reference semantics and each value a field takes in some solution must lie in the range the library inferred.",
   note=TB + "PARTIAL: soundness of the lower-bound and in propagators and of the fixed point rests on correspondence + the exhaustive feasibility oracle, not on theorems. The generator stays in the region where Python-int inference and the solver's reading agree (one signedness, no wrap-around); outside it F21 is a recorded known finding (replayed by its witness). Repaired: F07, F08, F34 (see known_findings.json). Uniformity of randint is assumed for the probability reading.",
   technique="Lean 4 proof (propagator lemmas; greedy invariant over the answer stream) + trace-level differential correspondence + exhaustive feasibility oracle on small domains",
   design="6 C14"),
 "C20": dict(
   text="Lean theorems: with ordering directives every field of the rand set lies in some ordered group, the fields no directive mentions forming the last one (every_field_in_a_group, mem_withRest); the outcome class of the solve does not depend on how swizzle candidates are grouped or ordered - for any two groupings and valid answer streams SolveFailure is raised by both or by neither, namely iff the hard system is unsatisfiable (order_independent, from C02), and by C01.randomize_sound every constraint holds whatever the groups; the first ordered group is tried against the hard and soft constraints only, so a drawn target of the earlier variable that can be extended to a full solution is kept and returned however few values of the later variable accompany it (first_group_hits_target). The group construction (dependency map, toposort levels restricted to the set's fields in field order) is an executable model tied per call: ordered groups of every rand set, swizzle candidates group by group in trial order, draws.",
   note=TB + "PARTIAL: 'uniform over a's feasible values when these fill its inferred range' is carried by first_group_hits_target plus the assumed uniformity of randint; no frequency test is run. Several fields in one group interleave their bit equalities (only the per-group statement is proved). Repaired: F22.",
   technique="Lean 4 proof + trace-level differential correspondence on generated systems with ordering directives",
   design="6 C20"),
})

CHECKS.update({
 "C16": dict(
   text="Lean theorems over the model of the process-wide construction state (six stacks of ctor.py / expr_mode.py, leftover overrides, leftover solver variables) and of every push/pop site with its control-flow shape: any constraint body or with-body - any nesting of scoped statements, any number of expression statements, a raise at any position - leaves every stack as it found it (exec_balanced, structural induction over bodies); constructing an object with the user's __init__ or any constraint body raising anywhere leaves the state idle (construct_idle); do_randomize leaves no override and no solver variable after a normal return, a raising pre/post_randomize, SolveFailure or an exception inside the solve (doRandomize_idle); randomize_with with a body raising anywhere likewise (randomizeWith_idle); hence after any history of such calls with any fault positions the shared state equals that of a fresh session (history_idle, induction over the history). Tied by exhaustive fault enumeration on generated histories: every fault position is run on the real library, after every op the six stacks, the overrides in the model tree and the fields' solver variables are read and compared with the model, and the rest of the history is compared op by op (outcome, lowered hard formulas, values under identical explicit seeds) with a twin history in which the failing op never happened.",
   note=TB + "Holds on the tree after repair 2c22c50 (F06, F26); the check reports 5 distinct violations when that commit is reverted. Not fault-injected in this revision: covergroup construction, free-standing vsc.randomize_with, foreach/dist rewrites (the override count is 0 in every generated run).",
   technique="Lean 4 proof (structural induction over bodies, induction over histories) + exhaustive fault-position enumeration with twin-history comparison",
   design="6 C16"),
})

CHECKS.update({
 "C06": dict(
   text="Lean theorems: the statements entering call k of a history are the class blocks plus the inline block of that very call - replacing the inline blocks of all other calls leaves them unchanged (inline_once; that the with-block itself leaves no scope behind is C16.randomizeWith_idle); used as a term, a reference to a dynamic block denotes the conjunction of the block's statements (dynE_truthy) and composes as a Boolean: over one-bit terms a() & b() holds iff both hold, a() | b() iff one holds, ~a() iff it does not (dyn_and, dyn_or, dyn_not, from the reference semantics of the bitwise operators at width 1). Tied on generated classes with always-on and dynamic blocks, 1-3 live instances and call sequences mixing randomize()/randomize_with(): per call the statements that enter (unreferenced dynamic blocks absent, the previous call's inline block absent), rand sets, every lowered formula with variables named by field, values; oracles: reference semantics on the returned values, exhaustive satisfiability, no other instance changes.",
   note=TB + "Holds on the tree after repair 358ca34 (F05: references bound to the newest instance); the check reports violations when that commit is reverted. Which block a reference denotes is resolved by name in the harness (the class's block of that name) - the binding to the instance is tied through variable names in the compared formulas and the 'no other instance changes' oracle, not a theorem. Not generated: references through lists of objects, instances created between calls.",
   technique="Lean 4 proof + trace-level differential correspondence on generated call sequences over several instances",
   design="6 C06"),
})

CHECKS.update({
 "C09": dict(
   text="Lean theorems for the part that is logic: the model of a call is a function of the program, the non-random values, the draw stream and the answer stream and of nothing else - in particular the Python-side evaluation used by bound inference reads non-random fields only (pyEval_congr) and every lowered formula is identical for two environments that agree on the non-random fields, so the values random fields were left with by earlier calls cannot influence what is assumed or asserted (formulas_independent_of_old_random_values); over an abstract random stream, taking a snapshot, running calls, restoring the snapshot and running the same calls again replays the same outputs (restore_replays), advancing a snapshot object after it was handed out changes neither the object's state nor its outputs (snapshot_independent), and one snapshot seeds any number of identical replays (one_snapshot_many_replays). The runtime part is sampled, not proved: every generated scenario (several rand sets, solve_order over sets of fields, unconstrained fields, inline calls, snapshot/restore/re-seed histories, a default-state path after random.seed) runs in fresh subprocesses under PYTHONHASHSEED 0/1/7/99/4242/random, with and without interleaved unrelated activity (other objects randomized, global random used, garbage allocated), with VSC_DEBUG/debug=1, solve_fail_debug / VSC_SOLVEFAIL_DEBUG and source-info capture (environment variable and decorator); all value sequences and outcome classes must be identical and every restore must replay the calls that followed its snapshot. In-process, the draw discipline (which draws, with which bounds, in which order) is compared with the model as in C14.",
   note=TB + "PARTIAL by nature: CPython set/dict iteration order and id()-based hashing, MT19937 and Boolector's determinism are exhibited only by the sampled subprocess matrix (counts in the evidence); a theorem cannot carry them. Repaired while building this check: F39, F40, F41 (solve-failure diagnostics changed the outcome class), F08 (stale random values read by bound inference).",
   technique="Lean 4 proof (congruence and replay lemmas) + subprocess matrix differential runs + trace-level draw correspondence",
   design="6 C09"),
})

def main():
    checks = []
    for pid in ALL:
        if pid not in CHECKS:
            continue
        c = CHECKS[pid]
        checks.append({
            "property_id": pid,
            "quick_cmd": "./check %s --tier quick" % pid,
            "thorough_cmd": "./check %s --tier thorough" % pid,
            "evidence_file": "evidence/%s.json" % pid,
            "replay_cmd_template": "./check %s --replay {path}" % pid,
            "engine": "lean+harness",
            "level_claimed": {"category": "proof", "text": c["text"], "design_ref": "DESIGN.md section " + c["design"]},
            "level_note": c["note"],
            "technique": c["technique"],
        })
    na = [{"property_id": p, "reason": NA.get(p, "not claimed yet: model, theorems and correspondence for this property are not built in this revision (no weaker technique is substituted)")}
          for p in ALL if p not in CHECKS]
    m = {
        "version": 1,
        "setup_cmd": "cd lean && lake build && cd .. && /venv/bin/python harness/setup_audit.py",
        "hooks": {"guard": "PYVSC_VERIF", "enable": "no source hooks: all observation is done by in-process wrapping from the harness (reserved guard, unused)",
                  "baseline_off_cmd": "cd /repo && /venv/bin/python -m pytest -ra -q -p no:cacheprovider --timeout=900 --continue-on-collection-errors",
                  "source_commits": [], "add_only": True},
        "engines": [
            {"name": "lean", "path": "lean", "serves_properties": [c["property_id"] for c in checks],
             "kind_free_text": "Lake project: executable model (Pyvsc/Model), reference semantics (Pyvsc/Spec), property theorems (Pyvsc/Props), compiled line-protocol driver pvdrv"},
            {"name": "harness", "path": "harness", "serves_properties": [c["property_id"] for c in checks],
             "kind_free_text": "Python: runs generated/exhaustive cases on the real library from /repo/src, pipes them to pvdrv, diffs, classifies, writes evidence/replays"}],
        "checks": checks,
        "not_applicable": na,
        "notes": "Technique family: machine-checked proof in Lean 4 with a checked correspondence between hand-written model and code. See DESIGN.md.",
    }
    json.dump(m, open(os.path.join(VERIF, "MANIFEST.json"), "w"), indent=1)

NA = {}
if __name__ == "__main__":
    main()
