"""C09 — random stability: results depend only on seed, model and call history.

Each generated scenario (several rand sets, solve_order groups over sets of fields, unconstrained
fields, snapshot / restore points, a default-state path seeded through Python's global random) is
executed in fresh subprocesses under different PYTHONHASHSEED values, with and without unrelated
activity interleaved, with debug / solve-failure debug / source-info capture on; all value
sequences must be identical.  The same scenario is run in-process with the recording harness: the
model's draw discipline (which draws, with which bounds, in which order) must match."""
import json
import multiprocessing
import os
import random
import subprocess
import sys
import tempfile

sys.path.insert(0, os.path.dirname(os.path.abspath(__file__)))
import common
import solvecheck
from solvecheck import F, I, B

THEOREMS = ["Pyvsc.C09.pyEval_congr", "Pyvsc.C09.formulas_independent_of_old_random_values",
            "Pyvsc.C09.restore_replays", "Pyvsc.C09.snapshot_independent", "Pyvsc.C09.one_snapshot_many_replays"]

CONFIGS = [
    {"name": "hash0", "env": {"PYTHONHASHSEED": "0"}},
    {"name": "hash1+noise", "env": {"PYTHONHASHSEED": "1"}, "noise": True},
    {"name": "hashrandom+debug", "env": {"PYTHONHASHSEED": "random", "VSC_DEBUG": "1"}, "debug": True},
    {"name": "hash4242+sfd+srcinfo+noise", "env": {"PYTHONHASHSEED": "4242", "VSC_CAPTURE_SRCINFO": "1"}, "sfd": True, "srcinfo": True, "noise": True},
    {"name": "hash7+solvefail-env", "env": {"PYTHONHASHSEED": "7", "VSC_SOLVEFAIL_DEBUG": "1"}},
    {"name": "hash99+noise+srcinfo-deco", "env": {"PYTHONHASHSEED": "99"}, "srcinfo": True, "noise": True},
]


def _dist_stmt(r, fs, i):
    f = fs[i]
    lo, hi = (-(1 << (f["w"] - 1)), (1 << (f["w"] - 1)) - 1) if f["s"] else (0, (1 << f["w"]) - 1)
    ws = []
    for _ in range(r.randint(2, 4)):
        a = r.randint(lo, hi)
        if r.random() < 0.5:
            ws.append({"single": I(a), "w": I(r.choice([1, 1, 2, 3, 5]))})
        else:
            ws.append({"lo": I(a), "hi": I(r.randint(a, min(hi, a + 5))), "w": I(r.choice([1, 1, 2, 3, 5]))})
    return {"k": "dist", "e": F(i), "weights": ws}


def gen(rng):
    g = solvecheck.Gen(rng, {"samesign": True, "relational": 0.4, "soft": 0.08, "big": 0.05, "maxstmts": 3, "enum": 0.0})
    scn = g.scenario()
    fs = scn["fields"]
    rnd = [i for i, f in enumerate(fs) if f["rand"]]
    # ordering directives over several fields per group (set-valued toposort output)
    if len(rnd) >= 3 and rng.random() < 0.7:
        a, b, c = rng.sample(rnd, 3)
        st = scn["blocks"][0]["stmts"]
        st.append({"k": "solve_order", "before": [a, b], "after": [c]})
        st.append({"k": "expr", "e": B("le", F(a), F(c))})
        st.append({"k": "expr", "e": B("ne", F(b), F(c))})
    # dist statements, sometimes two over one field (the swizzler then draws which of them steers the call)
    dr = [i for i in rnd if not fs[i]["enums"] and fs[i]["w"] >= 2]
    if dr and rng.random() < 0.4:
        i = rng.choice(dr)
        for _ in range(rng.choice([1, 2, 2])):
            rng.choice(scn["blocks"])["stmts"].insert(0, _dist_stmt(rng, fs, i))
    scn.pop("calls")
    ops = [{"op": "new"}]
    explicit = rng.random() < 0.75
    if explicit:
        ops.append({"op": "seed", "obj": 0, "k": rng.randrange(1 << 20),
                    "s": rng.choice([None, "top.env.agent0", "u_%d" % rng.randrange(100)])})
    else:
        ops.insert(0, {"op": "seed_global", "k": rng.randrange(1 << 20)})
    nsnap = 0
    live = []
    for _ in range(rng.randint(3, 8)):
        x = rng.random()
        if x < 0.55:
            inline = g.stmts(fs, 1, 1, 1) if rng.random() < 0.25 else None
            ops.append({"op": "with", "obj": 0, "inline": inline} if inline else {"op": "randomize", "obj": 0})
        elif x < 0.72:
            ops.append({"op": "snap", "obj": 0})
            live.append(nsnap)
            nsnap += 1
        elif x < 0.9 and live:
            i = rng.choice(live)
            ops.append({"op": "restore", "obj": 0, "i": i})
            ops.append({"op": "randomize", "obj": 0})
            if rng.random() < 0.5:
                # set_randstate copied its argument: advancing the snapshot object now must not affect the replay
                ops.append({"op": "mutate_snap", "i": i})
                live.remove(i)
            ops.append({"op": "randomize", "obj": 0})
        elif explicit:
            ops.append({"op": "seed", "obj": 0, "k": rng.randrange(1 << 20), "s": rng.choice([None, None, "top.a[3]"])})
    if rng.random() < 0.4:
        # one RandState object seeds several replays, on this object and on a second one, with calls interleaved: every
        # set_randstate copies its argument, so each of them starts the same sequence
        ops.append({"op": "mkstate", "k": rng.randrange(1 << 20)})
        i = nsnap
        nsnap += 1
        ops.append({"op": "restore", "obj": 0, "i": i})
        ops += [{"op": "randomize", "obj": 0} for _ in range(rng.randint(1, 2))]
        if rng.random() < 0.6:
            ops.append({"op": "new"})
            ops.append({"op": "restore", "obj": 1, "i": i})
            ops.append({"op": "randomize", "obj": 1})
            ops.append({"op": "randomize", "obj": 0})
            ops.append({"op": "randomize", "obj": 1})
        ops.append({"op": "restore", "obj": 0, "i": i})
        ops += [{"op": "randomize", "obj": 0} for _ in range(rng.randint(1, 2))]
    if not explicit:
        # an object that was never given a state keeps the one it drew at its first use: a snapshot taken now replays
        ops += [{"op": "snap", "obj": 0}, {"op": "randomize", "obj": 0}, {"op": "randomize", "obj": 0},
                {"op": "restore", "obj": 0, "i": nsnap}, {"op": "randomize", "obj": 0}]
    ops.append({"op": "randomize", "obj": 0})
    scn["ops"] = ops
    scn["explicit"] = explicit
    return scn


def run_cfg(scn, cfg, tmpdir, tag):
    cin = os.path.join(tmpdir, "in_%s.json" % tag)
    cout = os.path.join(tmpdir, "out_%s.json" % tag)
    json.dump({"repo": common.REPO, "scn": scn, "noise": cfg.get("noise", False), "debug": cfg.get("debug", False),
               "sfd": cfg.get("sfd", False), "srcinfo": cfg.get("srcinfo", False), "global_seeded": not scn["explicit"]}, open(cin, "w"))
    env = dict(os.environ)
    for k in ("VSC_DEBUG", "VSC_SOLVEFAIL_DEBUG", "VSC_CAPTURE_SRCINFO", "PYTHONHASHSEED"):
        env.pop(k, None)
    env.update(cfg["env"])
    p = subprocess.run(["/venv/bin/python", "-W", "ignore", os.path.join(os.path.dirname(os.path.abspath(__file__)), "c09_runner.py"), cin, cout],
                       env=env, stdout=subprocess.DEVNULL, stderr=subprocess.PIPE, text=True, timeout=600)
    if p.returncode != 0 or not os.path.exists(cout):
        return {"error": p.stderr[-400:]}
    return json.load(open(cout))


def replay_spec(scn, seq):
    """the property's snapshot clauses, on one observed value sequence: after set_randstate(snapshot i) an object's calls
    replay the calls that followed the point the snapshot stands for - the get_randstate() that took it or, for a state the
    user made with mkFromSeed, the first set_randstate of it - as long as those followed it on one object without an
    intervening re-seed or restore of that object, and the replayed call is the same call (same kind, same inline block)"""
    bad = []
    calls = [o for o in scn["ops"] if o["op"] in ("randomize", "with")]

    def same_call(a, b):
        return json.dumps({k: v for k, v in a.items() if k != "obj"}) == json.dumps({k: v for k, v in b.items() if k != "obj"})
    seg = {}                 # object -> its current segment (changes at every re-seed / restore of that object)
    nseg = [0]
    call_seg = []            # (object, segment) of each call
    snap_at = {}             # snapshot -> ((object, segment), index of the next call) or None (not yet anchored)
    nsn = 0
    ci = 0
    pending = {}             # object -> (snapshot, offset)

    def new_seg(o):
        nseg[0] += 1
        seg[o] = nseg[0]
    for op in scn["ops"]:
        t = op["op"]
        o = op.get("obj", 0)
        if t == "snap":
            snap_at[nsn] = ((o, seg.get(o, 0)), ci)
            nsn += 1
        elif t == "mkstate":
            snap_at[nsn] = None
            nsn += 1
        elif t == "seed_global":
            for x in list(seg) + [0]:
                new_seg(x)
            pending.clear()
        elif t == "seed":
            new_seg(o)
            pending.pop(o, None)
        elif t == "restore":
            new_seg(o)
            if snap_at[op["i"]] is None:
                snap_at[op["i"]] = ((o, seg[o]), ci)       # the reference sequence starts here
                pending.pop(o, None)
            else:
                pending[o] = (op["i"], 0)
        elif t in ("randomize", "with"):
            call_seg.append((o, seg.get(o, 0)))
            if o in pending:
                i, off = pending[o]
                sseg, sci = snap_at[i]
                # the off-th call of the reference object's segment at or after sci
                refs = [k for k in range(sci, ci) if call_seg[k] == sseg]
                ok = off < len(refs) and same_call(calls[refs[off]], calls[ci])
                if ok and refs[off] < len(seq) and ci < len(seq):
                    ref = refs[off]
                    # (a failed call leaves the values the object held before it, which are not part of what is replayed)
                    if seq[ref][0] != seq[ci][0] or (seq[ref][0] == "ok" and seq[ref] != seq[ci]):
                        bad.append({"restore_of_snapshot": i, "call": ci, "replayed": seq[ci], "original_call": ref, "original": seq[ref]})
                    pending[o] = (i, off + 1)
                else:
                    pending.pop(o, None)
            ci += 1
    return bad


def _worker(args):
    seed, lo, hi, ncfg = args
    res = {"counts": {}, "orc": [], "samples": []}

    def cnt(k, n=1):
        res["counts"][k] = res["counts"].get(k, 0) + n
    with tempfile.TemporaryDirectory(prefix="c09") as td:
        for i in range(lo, hi):
            rng = random.Random("C09/%d/%d" % (seed, i))
            scn = gen(rng)
            cfgs = [CONFIGS[0]] + rng.sample(CONFIGS[1:], ncfg - 1)
            runs = [(c["name"], run_cfg(scn, c, td, "%d_%d" % (i, j))) for j, c in enumerate(cfgs)]
            cnt("eval_scenarios")
            cnt("subprocess_runs", len(runs))
            cnt("default_state_scenarios", 0 if scn["explicit"] else 1)
            ref_name, ref = runs[0]
            if isinstance(ref, dict):
                res["orc"].append({"signature": "runner-error", "case": scn, "observed": ref, "required": "the scenario runs"})
                continue
            cnt("calls", len(ref))
            for name, r in runs[1:]:
                if r != ref:
                    first = next((k for k in range(min(len(r), len(ref))) if r[k] != ref[k]), None) if isinstance(r, list) else None
                    res["orc"].append({"signature": "values-differ-across-configurations", "case": {"scenario": scn, "configs": [ref_name, name]},
                                       "observed": {"call": first, name: r[first] if first is not None and isinstance(r, list) else r,
                                                    ref_name: ref[first] if first is not None else None},
                                       "required": "identical value sequences for a given seed, model and call history"})
            bad = replay_spec(scn, ref)
            if bad:
                res["orc"].append({"signature": "restore-does-not-replay", "case": {"scenario": scn}, "observed": bad[0],
                                   "required": "restoring a snapshot replays exactly the values that followed it"})
            cnt("restores", sum(1 for o in scn["ops"] if o["op"] == "restore"))
            if len(res["samples"]) < 1:
                res["samples"].append({"ops": [o["op"] for o in scn["ops"]], "configs": [c["name"] for c in cfgs], "values": ref[:3]})
    return res


def replay_families(ck, tier):
    """Hand-written classes built from constructs that keep per-call bookkeeping on the model (soft priorities, also inside a
    dynamic constraint a class block refers to; dist scopes; in-place foreach expansion over a list of random size; solve
    order): seed, N calls, restore the snapshot taken before them, N calls - the second run must replay the first; a fresh
    object given the same seed must produce the same run as well, whatever the first object did before."""
    import vsc
    from vsc.model.rand_state import RandState
    rng = random.Random("C09/replay-families/%d" % ck.seed)

    def mk_classes():
        @vsc.randobj
        class SoftDyn:
            def __init__(self):
                self.a = vsc.rand_uint8_t()
                self.b = vsc.rand_uint8_t()

            @vsc.dynamic_constraint
            def low_c(self):
                vsc.soft(self.a < 16)

            @vsc.constraint
            def c1_c(self):
                self.low_c()

            @vsc.constraint
            def c2_c(self):
                vsc.soft(self.a >= 128)
                self.b != self.a

        @vsc.randobj
        class DistRel:
            def __init__(self):
                self.a = vsc.rand_uint8_t()
                self.b = vsc.rand_uint8_t()

            @vsc.constraint
            def c(self):
                vsc.dist(self.a, [vsc.weight((10, 60), 3), vsc.weight(200, 1)])
                self.b < self.a
                vsc.soft(self.b > 5)

        @vsc.randobj
        class ListOrder:
            def __init__(self):
                self.n = vsc.rand_bit_t(3)
                self.l = vsc.randsz_list_t(vsc.uint8_t())
                self.k = vsc.rand_bit_t(4)

            @vsc.constraint
            def c(self):
                self.l.size <= 5
                with vsc.foreach(self.l, idx=True) as i:
                    self.l[i] < 40
                with vsc.if_then(self.n > 3):
                    self.k < 4
                with vsc.else_then:
                    self.k >= 4
                vsc.solve_order(self.n, self.k)
        return [SoftDyn, DistRel, ListOrder]

    def view(o):
        return [int(getattr(o, f)) for f in ("a", "b", "n", "k") if hasattr(o, f)] + ([[int(v) for v in o.l]] if hasattr(o, "l") else [])

    def run(o, n):
        out = []
        for _ in range(n):
            try:
                with common.quiet():
                    o.randomize()
                out.append(view(o))
            except Exception as e:
                out.append("raised:" + type(e).__name__)
        return out
    for rnd in range(12 if tier == "thorough" else 2):
        for cls in mk_classes():
            sd = rng.randrange(1 << 20)
            n = rng.randint(3, 6)
            o = cls()
            if rng.random() < 0.5:
                run(o, rng.randint(1, 3))                    # earlier activity on the object
            o.set_randstate(RandState.mkFromSeed(sd))
            snap = o.get_randstate()
            first = run(o, n)
            o.set_randstate(snap)
            again = run(o, n)
            fresh = cls()
            fresh.set_randstate(RandState.mkFromSeed(sd))
            other = run(fresh, n)
            ck.count("eval_replay_family_runs")
            case = {"class": cls.__name__, "seed": sd, "calls": n}
            if again != first:
                k = next(i for i in range(n) if again[i] != first[i])
                ck.oracle_fail("restore-does-not-replay:" + cls.__name__, case, {"call": k, "replayed": again[k], "original": first[k]},
                               "restoring a snapshot replays exactly the values that followed it")
            elif other != first:
                k = next(i for i in range(n) if other[i] != first[i])
                ck.oracle_fail("same-seed-different-values:" + cls.__name__, case, {"call": k, "fresh_object": other[k], "used_object": first[k]},
                               "for a given seed, class and call sequence the values are the same")
    ck.sample({"kind": "replay families"})


def main():
    tier, seed, replay = common.parse_args(sys.argv[1:])
    ck = common.Check("C09", tier, seed, ["C09"])
    obligations = common.obligations_for(["C09"])
    common.setup_repo_path()
    n, ncfg = (1500, 6) if tier == "thorough" else (40, 4)
    jobs = 16
    per = (n + jobs - 1) // jobs
    chunks = [(seed, i, min(n, i + per), ncfg) for i in range(0, n, per)]
    results = common.pmap(_worker, chunks)
    for r in results:
        for k, v in r["counts"].items():
            ck.count(k, v)
        for f in r["orc"]:
            ck.oracle_fail(f["signature"], f["case"], f["observed"], f["required"])
        for s in r["samples"]:
            ck.sample(s)
    replay_families(ck, tier)
    # in-process: the model's draw discipline on the same kind of scenarios (draw bounds and order, candidates)
    solvecheck.OPTS["bounds"] = True
    d = solvecheck.run(ck, "C09", 150 if tier != "thorough" else 6000,
                       {"samesign": True, "relational": 0.4, "soft": 0.08, "big": 0.05, "maxstmts": 3, "calls": 3})
    ck.cov.update({"programs": ck.counts.get("eval_scenarios", 0), "evaluations": ck.counts.get("subprocess_runs", 0),
                   "distinct_nontrivial": ck.counts.get("eval_scenarios", 0),
                   "rule": "per scenario: fresh subprocesses under PYTHONHASHSEED 0 plus %d of {1+noise, random+VSC_DEBUG+debug=1, 4242+solve_fail_debug+srcinfo+noise, "
                           "7+VSC_SOLVEFAIL_DEBUG, 99+noise+srcinfo decorator}; noise = other objects randomized, global random used, garbage allocated "
                           "between ops; histories of 4-12 ops with set_randstate/get_randstate/set_randstate(snapshot)/snapshot mutated after use; 25%% of the "
                           "scenarios use no explicit state after random.seed(k).  Plus the in-process draw-discipline correspondence of C14." % (ncfg - 1),
                   "configurations": [c["name"] for c in CONFIGS]})
    rc = ck.finish(obligations=obligations,
                   assumptions=["CPython set/dict iteration order and id()-based hashing are exercised only through the sampled PYTHONHASHSEED / noise matrix",
                                "Boolector is assumed deterministic per fresh instance (its models are compared across processes by this check)",
                                "MT19937 state copy semantics of random.Random.getstate/setstate are assumed"],
                   theorems_lost=THEOREMS)
    sys.exit(rc)


if __name__ == "__main__":
    common.run_main(main)
