"""C17 — pre_randomize / post_randomize run once each, before and after the solve."""
import os
import sys
sys.path.insert(0, os.path.dirname(os.path.abspath(__file__)))
import common
import worldcheck

THEOREMS = ["Pyvsc.C17.callback_iff", "Pyvsc.C17.callbacks_once", "Pyvsc.C17.callback_root", "Pyvsc.C17.no_callback_below_nonrandom"]
RULE = ("as C03; classes define pre_randomize / post_randomize (inherited by derived classes) that log (phase, object); compared per "
        "call: the exact sequence of pre callbacks and of post callbacks with the model's pre-order over the composites that are "
        "random in the call; Spec oracle: no object twice, none for a non-random sub-object or below it, root always")

if __name__ == "__main__":
    common.run_main(lambda: worldcheck.standard_main(
        "C17", ["C17"], THEOREMS, {"nops": 6, "deep": 0.6}, 150, 6000,
        ["callbacks are observed through user methods that append to a log, assign a fixed value to a non-random field of their "
         "class (pre) and read every scalar of the tree (post)",
         "lists of objects are generated (1-2 elements, random or non-random list)"],
        RULE + "; pre_randomize of about half of the classes assigns a value to a non-random field: every formula of the call must "
        "carry that value as its constant and the field must still hold it afterwards; post_randomize reads every scalar of the tree: "
        "what it sees must equal the values after the call",
        keep=lambda w: w.startswith("callback") or w.startswith("used_rand") or w.startswith("instantiation") or w.startswith("world")
        or w.startswith("post_randomize") or w.startswith("randset") or w.startswith("nonrandom-field-changed")
        or w.startswith("hard-constraint-violated")))
