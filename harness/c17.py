"""C17 — pre_randomize / post_randomize run once each, before and after the solve."""
import os
import sys
sys.path.insert(0, os.path.dirname(os.path.abspath(__file__)))
import common
import worldcheck

THEOREMS = ["Pyvsc.C17.callback_iff", "Pyvsc.C17.callbacks_once", "Pyvsc.C17.callback_root", "Pyvsc.C17.no_callback_below_nonrandom"]
RULE = ("as C03; classes define pre_randomize / post_randomize (inherited by derived classes) that log (phase, object); compared per "
        "call: the exact sequence of pre callbacks and of post callbacks with the model's pre-order over the composites that are "
        "random in the call; Spec oracle: no object twice, none for a non-random sub-object or below it, root always")

def list_views_in_post(ck, tier, cases):
    """What post_randomize sees of the lists of its object and of the objects around it (random-size scalar lists, fixed
    lists, lists of objects; read through len(), iteration, indexing, sum and size) must be what the user sees once the
    call has returned; pre_randomize sees what the user saw before the call.  Both callbacks once per call."""
    if cases is not None:
        return
    import random
    import solvelib as S
    S.install()
    import vsc
    from vsc.model.rand_state import RandState
    rng = random.Random("C17/list-views/%d" % ck.seed)
    LOG = []

    def view(o):
        return {"rs": [int(v) for v in o.rs], "rs_len": len(o.rs), "rs_size": int(o.rs.size), "rs_sum": int(o.rs.sum),
                "rs_last": int(o.rs[len(o.rs) - 1]) if len(o.rs) else None,
                "fx": [int(v) for v in o.fx], "x": int(o.x)}

    @vsc.randobj
    class Leaf:
        def __init__(self):
            self.x = vsc.rand_uint8_t()
            self.rs = vsc.randsz_list_t(vsc.uint8_t())
            self.fx = vsc.rand_list_t(vsc.uint8_t(), 3)

        @vsc.constraint
        def c(self):
            self.rs.size >= 1
            self.rs.size <= 6
            with vsc.foreach(self.rs) as e:
                e < 50

        def pre_randomize(self):
            LOG.append(("pre", id(self), view(self)))

        def post_randomize(self):
            LOG.append(("post", id(self), view(self)))

    @vsc.randobj
    class Top:
        def __init__(self):
            self.y = vsc.rand_uint8_t()
            self.leaf = vsc.rand_attr(Leaf())
            self.items = vsc.rand_list_t(Leaf())
            for _ in range(2):
                self.items.append(Leaf())

        def pre_randomize(self):
            LOG.append(("pre", id(self), [view(l) for l in [self.leaf] + list(self.items)]))

        def post_randomize(self):
            LOG.append(("post", id(self), [view(l) for l in [self.leaf] + list(self.items)]))
    for h in range(40 if tier == "thorough" else 5):
        t = Top()
        for c in range(rng.randint(2, 5)):
            sd = rng.randrange(1 << 30)
            t.set_randstate(RandState.mkFromSeed(sd))
            leaves = [t.leaf] + list(t.items)
            before = {id(l): view(l) for l in leaves}
            before[id(t)] = [view(l) for l in leaves]
            del LOG[:]
            case = {"history": h, "call": c, "seed": sd}
            try:
                with common.quiet():
                    if rng.random() < 0.3:
                        with t.randomize_with() as it:
                            it.leaf.rs.size <= 2
                    else:
                        t.randomize()
            except Exception as e:
                ck.oracle_fail("list-views:call-raised:%s" % type(e).__name__, case, str(e)[:200], "a normal return")
                break
            ck.count("eval_list_view_calls")
            after = {id(l): view(l) for l in leaves}
            after[id(t)] = [view(l) for l in leaves]
            bad = None
            for ph, ref in (("pre", before), ("post", after)):
                seen = [(i, v) for p_, i, v in LOG if p_ == ph]
                if sorted(i for i, _ in seen) != sorted(ref):
                    bad = ("callback-%s-not-exactly-once-per-random-object:lists" % ph, {"calls": len(seen)}, {"objects": len(ref)})
                    break
                for i, v in seen:
                    if v != ref[i]:
                        bad = ("%s_randomize-saw-%s-list-values" % (ph, "non-final" if ph == "post" else "other-than-current"),
                               {"seen": v, "owner_is_top": i == id(t)}, {"user_sees_%s_the_call" % ("after" if ph == "post" else "before"): ref[i]})
                        break
                if bad:
                    break
            if bad:
                ck.oracle_fail(bad[0], case, bad[1], bad[2])
                break
    ck.sample({"kind": "list views inside callbacks"})


if __name__ == "__main__":
    common.run_main(lambda: worldcheck.standard_main(
        "C17", ["C17"], THEOREMS, {"nops": 6, "deep": 0.6}, 150, 6000,
        ["callbacks are observed through user methods that append to a log, assign a fixed value to a non-random field of their "
         "class (pre) and read every scalar of the tree (post)",
         "lists of objects are generated (1-2 elements, random or non-random list)"],
        RULE + "; pre_randomize of about half of the classes assigns a value to a non-random field: every formula of the call must "
        "carry that value as its constant and the field must still hold it afterwards; post_randomize reads every scalar of the tree: "
        "what it sees must equal the values after the call",
        keep=lambda w: w.startswith("callback") or w.startswith("used_rand") or w.startswith("instantiation") or w.startswith("world")
        or w.startswith("post_randomize") or w.startswith("randset") or w.startswith("nonrandom-field-changed")
        or w.startswith("hard-constraint-violated") or w.startswith("list-views") or w.startswith("pre_randomize"),
        extra_run=list_views_in_post))
