"""Subprocess side of C09: runs one scenario history under one configuration and writes the
observable value sequence.  No recording proxy, no wrapping: the library as a user sees it."""
import gc
import json
import os
import random
import sys

cfg = json.load(open(sys.argv[1]))
sys.path.insert(0, os.path.join(cfg["repo"], "src"))
sys.path.insert(0, os.path.dirname(os.path.abspath(__file__)))
import io
import contextlib

import vsc  # noqa: E402
from vsc.model.rand_state import RandState  # noqa: E402

import solvelib_plain as P  # noqa: E402  (facade emission without any wrapping)

scn = cfg["scn"]
names = [f["name"] for f in scn["fields"]]
out = []
sink = io.StringIO()


def noise(k):
    """unrelated activity: other objects randomized, global random used, garbage allocated"""
    @vsc.randobj
    class N(object):
        def __init__(self):
            self.p = vsc.rand_bit_t(7)
            self.q = vsc.rand_bit_t(5)

        @vsc.constraint
        def c(self):
            self.p > self.q
    n = N()
    # the other objects carry their own explicit random state (without one they would take a seed from
    # Python's global random, which is part of the history the property fixes)
    n.set_randstate(RandState.mkFromSeed(1000 + k))
    for _ in range(1 + k % 3):
        n.randomize()
    if not cfg.get("global_seeded"):
        random.random()
        random.randint(0, 99)
    junk = [object() for _ in range(100 + 37 * (k % 5))]
    del junk
    gc.collect()


with contextlib.redirect_stdout(sink):
    cls = P.build_class(vsc, scn, srcinfo=cfg.get("srcinfo", False))
    kw = {}
    if cfg.get("debug"):
        kw["debug"] = 1
    if cfg.get("sfd"):
        kw["solve_fail_debug"] = 1
    objs = []
    snaps = []
    k = 0
    for op in scn["ops"]:
        k += 1
        if cfg.get("noise"):
            noise(k)
        t = op["op"]
        if t == "new":
            o = cls()
            P.set_values(o, scn)
            objs.append(o)
        elif t == "seed_global":
            random.seed(op["k"])
        elif t == "seed":
            # the documented seed-plus-string form as well (e.g. an instance path)
            if op.get("s") is not None:
                objs[op["obj"]].set_randstate(RandState.mkFromSeed(op["k"], op["s"]))
            else:
                objs[op["obj"]].set_randstate(RandState.mkFromSeed(op["k"]))
        elif t == "mkstate":
            snaps.append(RandState.mkFromSeed(op["k"]))
        elif t == "snap":
            snaps.append(objs[op["obj"]].get_randstate())
        elif t == "restore":
            objs[op["obj"]].set_randstate(snaps[op["i"]])
        elif t == "mutate_snap":
            # advancing a snapshot after it was taken / used must not affect any object
            snaps[op["i"]].randint(0, 1000)
        elif t in ("randomize", "with"):
            o = objs[op["obj"]]
            res = "ok"
            try:
                if t == "with":
                    with o.randomize_with(**kw) as it:
                        P.emit_stmts(vsc, it, names, op["inline"])
                else:
                    o.randomize(**kw)
            except vsc.model.solve_failure.SolveFailure:
                res = "solveFailure"
            except Exception as e:
                res = "exception:" + type(e).__name__
            out.append([res] + P.get_values(o, scn))
json.dump(out, open(sys.argv[2], "w"))
