"""C01 — returned values satisfy every active hard constraint and their declared type."""
import os
import random
import sys
sys.path.insert(0, os.path.dirname(os.path.abspath(__file__)))
import common
import solvecheck
from common import Drv

THEOREMS = ["Pyvsc.C01.lowerExpr_sound", "Pyvsc.C01.lowerStmt_sound", "Pyvsc.C01.randomize_sound",
            "Pyvsc.C01.readback_inType", "Pyvsc.C01.enum_readback", "Pyvsc.C01.randsets_disjoint", "Pyvsc.C01.randsets_closed"]

OPS = ["eq", "ne", "gt", "ge", "lt", "le", "add", "sub", "div", "mul", "mod", "and", "or", "sll", "srl", "xor"]


def kernel_sweep(ck, tier):
    """Every binary operator x operand widths x signedness x context, every pair of operand values:
    the term built by the real ExprBinModel.build, evaluated by the real Boolector, against the Lean
    bit-vector semantics of the model's lowering and against the reference value (three-way)."""
    import solvelib as S
    S.install()
    from vsc.model.expr_bin_model import ExprBinModel
    from vsc.model.expr_fieldref_model import ExprFieldRefModel
    from vsc.model.expr_literal_model import ExprLiteralModel
    from vsc.model.field_scalar_model import FieldScalarModel
    from vsc.model.bin_expr_type import BinExprType
    BT = {"eq": BinExprType.Eq, "ne": BinExprType.Ne, "gt": BinExprType.Gt, "ge": BinExprType.Ge, "lt": BinExprType.Lt,
          "le": BinExprType.Le, "add": BinExprType.Add, "sub": BinExprType.Sub, "div": BinExprType.Div, "mul": BinExprType.Mul,
          "mod": BinExprType.Mod, "and": BinExprType.And, "or": BinExprType.Or, "sll": BinExprType.Sll, "srl": BinExprType.Srl,
          "xor": BinExprType.Xor}
    widths = [1, 2, 3] if tier == "thorough" else [1, 2, 3]
    rng = random.Random(ck.seed + 5)
    combos = [(op, wl, wr, sl, sr, ctx) for op in OPS for wl in widths for wr in widths for sl in (False, True)
              for sr in (False, True) for ctx in (0, 3)]
    if tier != "thorough":
        combos = rng.sample(combos, 160)
    drv = Drv()
    reqs, impl = [], []
    for (op, wl, wr, sl, sr, ctx) in combos:
        fl = FieldScalarModel("x", wl, sl, True)
        fr = FieldScalarModel("y", wr, sr, True)
        e = ExprBinModel(ExprFieldRefModel(fl), BT[op], ExprFieldRefModel(fr))
        btor = S.RecBoolector()
        import pyboolector
        btor.Set_opt(pyboolector.BtorOption.BTOR_OPT_INCREMENTAL, True)
        btor.Set_opt(pyboolector.BtorOption.BTOR_OPT_MODEL_GEN, True)
        fl.build(btor)
        fr.build(btor)
        cw = (max(wl, wr) + ctx) if ctx else -1
        try:
            node = e.build(btor, cw)
        except Exception as ex:
            ck.oracle_fail("operator-build-exception:" + type(ex).__name__,
                           dict(zip(("op", "wl", "wr", "signed_l", "signed_r", "ctx_extra"), (op, wl, wr, sl, sr, ctx))),
                           "%s: %s" % (type(ex).__name__, str(ex)[:200]), "a bit-vector term for the operator")
            continue
        sx = S.sexp(node.tree).replace("?0", "x").replace("?1", "y")
        for x in range(1 << wl):
            for y in range(1 << wr):
                btor.Assume(btor.Eq(fl.var, btor.Const(x, wl)))
                btor.Assume(btor.Eq(fr.var, btor.Const(y, wr)))
                btor.Sat()
                got = int(node.assignment, 2)
                vx = x - (1 << wl) if sl and x >= (1 << (wl - 1)) else x
                vy = y - (1 << wr) if sr and y >= (1 << (wr - 1)) else y
                reqs.append({"op": "z.expr", "W": max(cw, 0),
                             "fields": [{"name": "x", "w": wl, "s": sl, "rand": True, "val": vx, "enums": None},
                                        {"name": "y", "w": wr, "s": sr, "rand": True, "val": vy, "enums": None}],
                             "e": {"k": "bin", "op": op, "l": {"k": "fld", "i": 0}, "r": {"k": "fld", "i": 1}}})
                impl.append((sx, node.width, got, (op, wl, wr, sl, sr, ctx, vx, vy)))
    models = drv.batch(reqs)
    for m, (sx, w, got, case) in zip(models, impl):
        ck.count("kernel_evals")
        case_d = dict(zip(("op", "wl", "wr", "signed_l", "signed_r", "ctx_extra", "x", "y"), case))
        if "__err__" in m:
            ck.corr_fail("kernel.model-error", case_d, m["__err__"], None)
            continue
        if m["sexp"] != sx:
            ck.corr_fail("kernel.term", case_d, m["sexp"], sx)
        if m["eval"] != [w, got]:
            ck.corr_fail("kernel.boolector-semantics", case_d, m["eval"], [w, got])
        if m["sval"] != got or m["cw"] != w:
            # the real circuit, evaluated by the real solver, contradicts the reference semantics
            ck.oracle_fail("operator-meaning", case_d, {"width": w, "value": got}, {"width": m["cw"], "value": m["sval"]})
    ck.cov["kernel_sweep"] = {"combinations": len(combos), "evaluations": len(impl), "exhaustive": tier == "thorough",
                              "domain": "16 operators x widths {1,2,3}^2 x signedness^2 x context {own, own+3} x all operand values"}


RULE = ("generated randobj classes (2-5 scalar/enum fields, widths 1..6 and 8..64, both signs, random/non-random), 1-2 constraint "
        "blocks + 30% inline blocks of 1-4 statements (expressions over all 16 operators, ~, part-select, in/not-in rangelists, "
        "if/else-if/else, implies, unique, soft), 1-2 calls; every call compared event-wise with the model; "
        "non-trivial = distinct lists of lowered hard formulas")

if __name__ == "__main__":
    common.run_main(lambda: solvecheck.standard_main(
        "C01", ["C01"], THEOREMS, {}, 300, 12000,
        ["solver answers are taken from the real Boolector and each one is re-validated under the Lean bit-vector semantics "
         "(SAT models re-evaluated, UNSAT re-derived by enumeration when the rand set has <= 13 random bits)",
         "spec choices SC1-SC6 of DESIGN.md section 5 (unsigned / and %, logical >>, per-node signedness)",
         "generator stays inside the well-formedness region of the theorems (statements mention a field; "
         "non-random divisors are non-zero and shift amounts non-negative: known finding F33)"],
        RULE, extra=kernel_sweep))
