"""C16 — a failed or aborted call does not poison later calls.

For every generated history every fault position is tried in turn (not sampled): a raise at each
statement position of each constraint body during construction, in the user's __init__, at each
position of a randomize_with body, in pre_randomize / post_randomize, an unsatisfiable call, an
exception inside the solve.  After every op the six process-wide stacks, the leftover overrides
and the leftover solver variables are read and compared with the model (which proves them idle);
the rest of the history is compared with a twin history in which the failing op never happened."""
import copy
import json
import multiprocessing
import os
import random
import sys

sys.path.insert(0, os.path.dirname(os.path.abspath(__file__)))
import common
import solvecheck
from common import Drv
from solvecheck import F, I, B

THEOREMS = ["Pyvsc.C16.exec_balanced", "Pyvsc.C16.construct_idle", "Pyvsc.C16.doRandomize_idle",
            "Pyvsc.C16.randomizeWith_idle", "Pyvsc.C16.history_idle"]


FaultInjected = common.FaultInjected


FAULT = {"pre": None, "post": None}


def read_stacks(vsc, objs):
    from vsc.impl import ctor, expr_mode
    from vsc.model.constraint_override_model import ConstraintOverrideModel
    n_over, stale = 0, 0

    def walk_c(c):
        nonlocal n_over
        if isinstance(c, ConstraintOverrideModel):
            n_over += 1
        for a in ("constraint_l",):
            for x in getattr(c, a, []) or []:
                walk_c(x)
        for a in ("true_c", "false_c"):
            x = getattr(c, a, None)
            if x is not None:
                walk_c(x)

    def walk_f(m):
        nonlocal stale
        if getattr(m, "var", None) is not None:
            stale = 1
        for f in getattr(m, "field_l", []) or []:
            walk_f(f)
        for c in getattr(m, "constraint_model_l", []) or []:
            walk_c(c)
    for o in objs:
        try:
            walk_f(o.get_model())
        except Exception:
            pass
    return [len(ctor.constraint_scope_stack), len(ctor.expr_l), len(ctor.foreach_arr_s), len(ctor.srcinfo_mode_s),
            len(expr_mode._expr_mode), len(expr_mode._raw_mode), n_over, stale]


def reset_globals():
    from vsc.impl import ctor, expr_mode
    dirty = bool(ctor.constraint_scope_stack or ctor.expr_l or ctor.foreach_arr_s or ctor.srcinfo_mode_s
                 or expr_mode._expr_mode or expr_mode._raw_mode)
    del ctor.constraint_scope_stack[:]
    del ctor.expr_l[:]
    del ctor.foreach_arr_s[:]
    del ctor.srcinfo_mode_s[:]
    del expr_mode._expr_mode[:]
    del expr_mode._raw_mode[:]
    return dirty


def body_shape(stmts):
    """model-side shape of a list of statements (for `t.ctor`)"""
    out = []
    for s in stmts:
        k = s["k"]
        if k == "raise":
            out.append("raise")
            return out
        if k in ("expr",):
            out.append("s")
        elif k in ("soft", "unique", "solve_order"):
            # these pop their operands and push a statement: pending expressions are flushed, none is left
            out.append({"block": []}) if False else out.append("s0")
        elif k == "implies":
            out.append({"block": body_shape(s["b"])})
        elif k == "foreach":
            out.append({"block": body_shape(s["body"])})
            if _has_raise(s["body"]):
                return out
        elif k == "if":
            out.append({"block": body_shape(s["t"])})
            if _has_raise(s["t"]):
                return out
            for ei in s["elifs"]:
                out.append({"block": body_shape(ei["t"])})
                if _has_raise(ei["t"]):
                    return out
            if s.get("else") is not None:
                out.append({"block": body_shape(s["else"])})
                if _has_raise(s["else"]):
                    return out
    return out


def _has_raise(stmts):
    for s in stmts:
        if s["k"] == "raise":
            return True
        for key in ("t", "b", "else", "body"):
            if isinstance(s.get(key), list) and _has_raise(s[key]):
                return True
        for ei in s.get("elifs", []) or []:
            if _has_raise(ei["t"]):
                return True
    return False


def shape_json(shape):
    """'s0' (a statement that leaves nothing pending) is modelled as an empty scoped statement"""
    out = []
    for x in shape:
        if x == "s0":
            out.append({"block": []})
        elif isinstance(x, dict):
            out.append({"block": shape_json(x["block"])})
        else:
            out.append(x)
    return out


def positions(stmts, prefix=()):
    """all insertion points for a raise: (path of indices)"""
    out = []
    for i, s in enumerate(stmts):
        out.append(prefix + (i,))
        if s["k"] == "implies":
            out.extend(positions(s["b"], prefix + (i, "b")))
        elif s["k"] == "foreach":
            out.extend(positions(s["body"], prefix + (i, "body")))
        elif s["k"] == "if":
            out.extend(positions(s["t"], prefix + (i, "t")))
            for j, ei in enumerate(s["elifs"]):
                out.extend(positions(ei["t"], prefix + (i, "elifs", j, "t")))
            if s.get("else") is not None:
                out.extend(positions(s["else"], prefix + (i, "else")))
    out.append(prefix + (len(stmts),))
    return out


def insert_raise(stmts, pos):
    st = copy.deepcopy(stmts)
    cur = st
    for p in pos[:-1]:
        cur = cur[p]
    cur.insert(pos[-1], {"k": "raise"})
    return st


def make_class(S, scn, vsc, init_raises=False):
    fields = scn["fields"]
    names = [f["name"] for f in fields]

    def emit(o, stmts):
        for s in stmts:
            if s["k"] == "raise":
                raise FaultInjected()
            if s["k"] == "if":
                with vsc.if_then(S.emit_expr(o, names, s["c"])):
                    emit(o, s["t"])
                for ei in s["elifs"]:
                    with vsc.else_if(S.emit_expr(o, names, ei["c"])):
                        emit(o, ei["t"])
                if s.get("else") is not None:
                    with vsc.else_then:
                        emit(o, s["else"])
            elif s["k"] == "implies":
                with vsc.implies(S.emit_expr(o, names, s["c"])):
                    emit(o, s["b"])
            else:
                S.emit_stmts(o, names, [s])

    def __init__(self):
        for f in fields:
            setattr(self, f["name"], S.mk_field(f))
        if init_raises:
            raise FaultInjected()
    d = {"__init__": __init__}
    for b in scn["blocks"]:
        def mk(stmts):
            def body(self):
                emit(self, stmts)
            return body
        fn = mk(b["stmts"])
        fn.__name__ = b["name"]
        d[b["name"]] = vsc.constraint(fn)

    def pre_randomize(self):
        if FAULT["pre"] is self:
            raise FaultInjected()

    def post_randomize(self):
        if FAULT["post"] is self:
            raise FaultInjected()
    d["pre_randomize"] = pre_randomize
    d["post_randomize"] = post_randomize
    solvecheck_n[0] += 1
    cls = type("K%d" % solvecheck_n[0], (object,), d)
    return vsc.randobj(cls), names, emit


solvecheck_n = [0]


def run_history(S, vsc, ops, scns):
    """execute ops; returns per op {raised, exc, stacks, values, hard}"""
    from vsc.model.rand_state import RandState
    objs = {}
    emits = {}
    out = []
    for op in ops:
        k = op["op"]
        rec = {"op": k, "raised": False, "exc": None}
        del S.EV[:]
        try:
            with common.quiet():
                if k == "construct" and op["scn"].get("lists") is not None:
                    import listlib as LL
                    lscn = op["scn"]

                    def pre_randomize(self):
                        if FAULT["pre"] is self:
                            raise FaultInjected()

                    def post_randomize(self):
                        if FAULT["post"] is self:
                            raise FaultInjected()
                    cls = LL.build_class(lscn, {"pre_randomize": pre_randomize, "post_randomize": post_randomize})
                    o = cls()
                    S.set_values(o, lscn)
                    names = lscn["_names"]
                    emit = (lambda it, stmts, _scn=lscn: LL.emit_stmts(it, _scn, stmts, {}))
                    objs[op["id"]] = (o, lscn, names)
                    emits[op["id"]] = emit
                elif k == "construct":
                    cls, names, emit = make_class(S, op["scn"], vsc, op.get("init", False))
                    o = cls()
                    S.set_values(o, op["scn"])
                    objs[op["id"]] = (o, op["scn"], names)
                    emits[op["id"]] = emit
                elif k in ("randomize", "with"):
                    o, scn, names = objs[op["obj"]]
                    o.set_randstate(RandState.mkFromSeed(op["seed"]))
                    import treelib
                    rec["tree"] = [treelib.shape(o.get_model()), None]
                    FAULT["pre"] = o if op.get("fault") == "pre" else None
                    FAULT["post"] = o if op.get("fault") == "post" else None
                    try:
                        if k == "with":
                            with o.randomize_with() as it:
                                emits[op["obj"]](it, op["inline"])
                        else:
                            o.randomize()
                    finally:
                        FAULT["pre"] = FAULT["post"] = None
        except FaultInjected:
            rec["raised"], rec["exc"] = True, "FaultInjected"
        except S.SolveFailure:
            rec["raised"], rec["exc"] = True, "SolveFailure"
        except Exception as e:
            rec["raised"], rec["exc"] = True, type(e).__name__ + ":" + str(e)[:100]
        rec["stacks"] = read_stacks(vsc, [x[0] for x in objs.values()])
        if k in ("randomize", "with") and op["obj"] in objs:
            o, scn, names = objs[op["obj"]]
            if rec.get("tree"):
                rec["tree"][1] = treelib.shape(o.get_model())
            rec["values"] = S.get_values(o, scn) + [[int(x) for x in getattr(o, l["name"])] for l in scn.get("lists") or []]
            rsets, uncon, bounds, btors, draws = S.split_events(list(S.EV))
            rec["hard"] = [[S.sexp(t) for t in S.parse_btor(bt, rs["n_soft"])["hard"]] for rs, bt in zip(rsets, btors)]
        elif k == "construct" and op["id"] in objs:
            rec["values"] = S.get_values(objs[op["id"]][0], op["scn"])
        out.append(rec)
    return out


def model_ops(ops):
    out = []
    for op in ops:
        if op["op"] == "construct":
            blocks = [shape_json(body_shape(b["stmts"])) for b in sorted(op["scn"]["blocks"], key=lambda b: b["name"])]
            # blocks after the one that raises are not elaborated; the model stops at the first raise itself
            out.append({"op": "construct", "init": bool(op.get("init")), "blocks": blocks})
        elif op["op"] == "randomize":
            out.append({"op": "randomize", "fault": op.get("fault", "none"), "n": 0})
        else:
            out.append({"op": "with", "body": shape_json(body_shape(op["inline"])), "fault": op.get("fault", "none"), "n": 0})
    return out


def gen_history(rng):
    g = solvecheck.Gen(rng, {"big": 0.0, "soft": 0.1, "maxstmts": 3, "enum": 0.0})
    k1 = g.scenario()
    k1.pop("calls", None)
    # second class: uses solve_order (needs a clean scope stack) and a plain constraint
    k2f = [solvecheck.fld("x", 4), solvecheck.fld("y", 4), solvecheck.fld("z", 3, rand=False, val=2)]
    k2 = {"fields": k2f, "blocks": [{"name": "c0", "stmts": [
        {"k": "expr", "e": B("lt", F(0), F(1))}, {"k": "solve_order", "before": [0], "after": [1]},
        {"k": "expr", "e": B("gt", F(1), F(2))}]}]}
    # third class: a list with foreach / sum / unique, so that the array constraint builder installs overrides
    # (rolled back when the call ends, however it ends)
    k3 = {"fields": [solvecheck.fld("x", 4), solvecheck.fld("n", 3, rand=False, val=5)],
          "lists": [{"name": "l0", "w": 3, "s": False, "rand": True, "randsz": False, "init": [0] * rng.randint(2, 3)}],
          "blocks": [{"name": "c0", "stmts": [
              {"k": "foreach", "l": 0, "it": True, "idx": True, "body": [
                  {"k": "expr", "e": B("le", {"k": "it"}, F(1))},
                  {"k": "if", "c": B("gt", {"k": "idx"}, I(0)), "elifs": [], "else": None,
                   "t": [{"k": "expr", "e": B("ne", {"k": "elem", "l": 0, "idx": {"k": "idx"}},
                                                   {"k": "elem", "l": 0, "idx": B("sub", {"k": "idx"}, I(1))})}]}]},
              {"k": "expr", "e": B("eq", {"k": "sum", "l": 0}, F(0))}]}]}
    inline3 = [{"k": "expr", "e": B("lt", F(0), I(9))},
               {"k": "foreach", "l": 0, "it": True, "idx": False, "body": [{"k": "expr", "e": B("gt", {"k": "it"}, I(0))}]}]
    fs = k1["fields"]
    inline = g.stmts(fs, 1, 1, 2)
    rnd = [i for i, f in enumerate(fs) if f["rand"] and not f["enums"]]
    base = [{"op": "construct", "id": "o1", "scn": k1},
            {"op": "randomize", "obj": "o1", "seed": rng.randrange(1 << 30)},
            {"op": "construct", "id": "o4", "scn": k3},
            {"op": "randomize", "obj": "o4", "seed": rng.randrange(1 << 30)}]
    tail = [{"op": "construct", "id": "o2", "scn": k2},
            {"op": "randomize", "obj": "o2", "seed": rng.randrange(1 << 30)},
            {"op": "randomize", "obj": "o1", "seed": rng.randrange(1 << 30)},
            {"op": "with", "obj": "o1", "inline": inline, "seed": rng.randrange(1 << 30)},
            {"op": "construct", "id": "o3", "scn": k1},
            {"op": "randomize", "obj": "o3", "seed": rng.randrange(1 << 30)},
            {"op": "randomize", "obj": "o4", "seed": rng.randrange(1 << 30)},
            {"op": "with", "obj": "o4", "inline": inline3, "seed": rng.randrange(1 << 30)},
            {"op": "construct", "id": "o5", "scn": k3},
            {"op": "randomize", "obj": "o5", "seed": rng.randrange(1 << 30)}]
    faults = []
    # (a) construction faults: every position of every block, and the user's __init__
    for bi, b in enumerate(sorted(k1["blocks"], key=lambda b: b["name"])):
        for pos in positions(b["stmts"]):
            bad = copy.deepcopy(k1)
            for bb in bad["blocks"]:
                if bb["name"] == b["name"]:
                    bb["stmts"] = insert_raise(bb["stmts"], pos)
            faults.append({"op": "construct", "id": "bad", "scn": bad, "what": "constraint-body:%s:%s" % (b["name"], list(pos))})
    faults.append({"op": "construct", "id": "bad", "scn": k1, "init": True, "what": "user-init"})
    # (b) with-body faults
    for pos in positions(inline):
        faults.append({"op": "with", "obj": "o1", "inline": insert_raise(inline, pos), "seed": rng.randrange(1 << 30),
                       "what": "with-body:%s" % list(pos)})
    # (c) callbacks
    faults.append({"op": "randomize", "obj": "o1", "seed": 5, "fault": "pre", "what": "pre_randomize"})
    faults.append({"op": "randomize", "obj": "o1", "seed": 5, "fault": "post", "what": "post_randomize"})
    # (d) unsatisfiable, (e) exception inside the solve (a part-select beyond the field's width)
    if rnd:
        i = rnd[0]
        faults.append({"op": "with", "obj": "o1", "seed": 5, "fault": "unsat", "what": "unsat",
                       "inline": [{"k": "expr", "e": B("eq", F(i), I(0))}, {"k": "expr", "e": B("eq", F(i), I(1))}]})
        w = fs[i]["w"]
        faults.append({"op": "with", "obj": "o1", "seed": 5, "fault": "internal", "what": "exception-in-solve",
                       "inline": [{"k": "expr", "e": B("eq", {"k": "psel", "e": F(i), "hi": w + 1, "lo": w}, I(1))}]})
    # (f) the list class: construction faults at every position (foreach bodies included), with-body faults, callbacks,
    # an unsatisfiable call and an exception inside the solve — while overrides installed by the array builder exist
    for b in k3["blocks"]:
        for pos in positions(b["stmts"]):
            bad = copy.deepcopy(k3)
            bad["blocks"][0]["stmts"] = insert_raise(bad["blocks"][0]["stmts"], pos)
            faults.append({"op": "construct", "id": "bad", "scn": bad, "what": "list-constraint-body:%s" % list(pos)})
    for pos in positions(inline3):
        faults.append({"op": "with", "obj": "o4", "inline": insert_raise(inline3, pos), "seed": rng.randrange(1 << 30),
                       "what": "list-with-body:%s" % list(pos)})
    faults.append({"op": "randomize", "obj": "o4", "seed": 5, "fault": "pre", "what": "list-pre_randomize"})
    faults.append({"op": "randomize", "obj": "o4", "seed": 5, "fault": "post", "what": "list-post_randomize"})
    faults.append({"op": "with", "obj": "o4", "seed": 5, "fault": "unsat", "what": "list-unsat",
                   "inline": [{"k": "foreach", "l": 0, "it": True, "idx": False, "body": [{"k": "expr", "e": B("gt", {"k": "it"}, I(6))}]},
                              {"k": "expr", "e": B("lt", F(0), I(3))}]})
    faults.append({"op": "with", "obj": "o4", "seed": 5, "fault": "internal", "what": "list-exception-in-solve",
                   "inline": [{"k": "expr", "e": B("eq", {"k": "psel", "e": F(0), "hi": 5, "lo": 4}, I(1))}]})
    # an exception while the expanded model is analysed (a bit-select written on a list element): after the array builder
    # installed its overrides, before the solve
    faults.append({"op": "with", "obj": "o4", "seed": 5, "fault": "analysis", "what": "list-exception-in-analysis",
                   "inline": [{"k": "expr", "e": B("eq", {"k": "psel", "e": {"k": "elem", "l": 0, "idx": I(1)}, "hi": 0, "lo": 0, "bit": True}, I(1))}]})
    return base, faults, tail


def _worker(args):
    seed, lo, hi = args
    import solvelib as S
    S.install()
    vsc = S.vsc
    drv = Drv()
    res = {"counts": {}, "corr": [], "orc": [], "samples": []}

    def cnt(k, n=1):
        res["counts"][k] = res["counts"].get(k, 0) + n
    for i in range(lo, hi):
        rng = random.Random("C16/%d/%d" % (seed, i))
        base, faults, tail = gen_history(rng)
        common.note_inflight({"base": base, "faults": faults, "tail": tail})
        reset_globals()
        try:
            twin = run_history(S, vsc, base + tail, None)
        except Exception:
            continue
        cnt("eval_histories")
        if any(r["stacks"] != [0] * 8 for r in twin):
            res["orc"].append({"signature": "stacks-not-idle-without-any-fault", "case": {"ops": base + tail},
                               "observed": [r["stacks"] for r in twin], "required": "all zero"})
        for fo in faults:
            ops = base + [fo] + tail
            reset_globals()
            run = run_history(S, vsc, ops, None)
            cnt("eval_fault_runs")
            cnt("fault:" + fo["what"].split(":")[0])
            model = drv.batch([{"op": "t.ctor", "ops": model_ops(ops)}])[0]
            case = {"fault": fo["what"], "ops": ops}
            fr = run[len(base)]
            if not fr["raised"]:
                cnt("fault_did_not_raise")
            for k, (r, m) in enumerate(zip(run, model if isinstance(model, list) else [])):
                if r["stacks"] != m["stacks"]:
                    res["corr"].append({"what": "stacks-after-op[%d]" % k, "case": case, "model": m["stacks"], "impl": r["stacks"]})
                    # the Spec: idle after every call
                    if r["stacks"] != [0] * 8:
                        res["orc"].append({"signature": "shared-state-not-idle-after:" + fo["what"].split(":")[0], "case": case,
                                           "observed": dict(zip(["scope", "exprs", "foreach", "srcinfo", "expr_mode", "raw_mode", "overrides", "stale_vars"], r["stacks"])),
                                           "required": "all stacks empty, no override, no solver variable"})
                    break
            if isinstance(model, dict) and "__err__" in model:
                res["corr"].append({"what": "ctor-model-error", "case": case, "model": model["__err__"], "impl": None})
            # the statement tree of the object around every call, the failed one included, against the override/rollback model
            tr = [(k, r["tree"]) for k, r in enumerate(run) if r.get("tree") and r["tree"][1] is not None]
            for (k, (tb, ta)), tm in zip(tr, drv.batch([{"op": "t.rollback", "tree": t[0]} for _, t in tr])):
                cnt("tree_checks")
                if "__err__" in tm:
                    res["corr"].append({"what": "override-model-error", "case": case, "model": tm["__err__"], "impl": None})
                elif not tm["clean"] or tm["after"] != ta:
                    res["corr"].append({"what": "statement-tree-after-op[%d] (Ovr.Stmt.call; C16R.calls_restore)" % k, "case": case,
                                        "model": tm["after"] if tm["clean"] else "no override outside a call", "impl": ta if tm["clean"] else tb})
                    break
            if isinstance(model, list) and model[len(base)]["raised"] != fr["raised"]:
                res["corr"].append({"what": "fault-op-raised", "case": case, "model": model[len(base)]["raised"], "impl": fr["raised"]})
            # later calls behave as if the failed call never happened
            for k in range(len(tail)):
                a, b = run[len(base) + 1 + k], twin[len(base) + k]
                same = a["raised"] == b["raised"] and a.get("hard") == b.get("hard") and (a["exc"] == b["exc"])
                # values of o1 may differ only where the failed call itself (a with-block that ran its solve) moved
                # random fields; the calls compared here re-randomize with an explicit seed, so they must agree
                if same and a.get("values") != b.get("values"):
                    same = False
                if not same:
                    res["orc"].append({"signature": "later-call-differs-after:" + fo["what"].split(":")[0], "case": case,
                                       "observed": {"op": k, "raised": a["raised"], "exc": a["exc"], "values": a.get("values"), "hard": a.get("hard")},
                                       "required": {"raised": b["raised"], "exc": b["exc"], "values": b.get("values"), "hard": b.get("hard")}})
                    break
        if len(res["samples"]) < 1:
            res["samples"].append({"faults_tried": [f["what"] for f in faults][:12], "n_faults": len(faults)})
    reset_globals()
    return res


def growth_twins(ck, seed, n_rounds):
    """A failed or aborted call, then the user grows the object's lists, then more calls - against the twin history
    without the failed call.  The array builder rewrites list constraints in place for the duration of a call and adds a
    size cap for lists of objects; whatever a failed call leaves of that shows once the lists have grown."""
    import vsc
    from vsc.model.rand_state import RandState
    from vsc.model.solve_failure import SolveFailure
    rng = random.Random("C16/growth/%d" % seed)

    def classes():
        @vsc.randobj
        class Item:
            def __init__(self):
                self.a = vsc.rand_uint8_t()
                self.boom_pre = False
                self.boom_post = False
                self.calls = [0, 0]

            def pre_randomize(self):
                self.calls[0] += 1
                if self.boom_pre:
                    self.boom_pre = False
                    raise common.FaultInjected("element pre_randomize")

            def post_randomize(self):
                self.calls[1] += 1
                if self.boom_post:
                    self.boom_post = False
                    raise common.FaultInjected("element post_randomize")

        @vsc.randobj
        class Pkt:
            def __init__(self):
                self.k = vsc.uint8_t(0)
                self.x = vsc.rand_uint8_t()
                self.boom = False
                self.items = vsc.randsz_list_t(Item())
                for _ in range(2):
                    self.items.append(Item())
                self.objs = vsc.rand_list_t(Item())
                for _ in range(2):
                    self.objs.append(Item())
                self.l = vsc.rand_list_t(vsc.uint8_t(), 2)

            def pre_randomize(self):
                if self.boom:
                    self.boom = False
                    raise common.FaultInjected("pre_randomize")

            @vsc.constraint
            def c(self):
                self.items.size <= 8
                self.x > self.k
                with vsc.foreach(self.objs) as e:
                    e.a < 20
                with vsc.foreach(self.l, idx=True) as i:
                    self.l[i] < 30

            @vsc.dynamic_constraint
            def small(self):
                with vsc.foreach(self.l, idx=True) as i:
                    self.l[i] < 10
        return Item, Pkt

    def fault_unsat_plain(p):
        p.k = 255
        try:
            p.randomize()
        finally:
            p.k = 0

    def fault_unsat_with(p):
        with p.randomize_with() as it:
            it.x < 5
            it.x > 9

    def fault_analysis(p):
        with p.randomize_with() as it:
            it.objs[1].a[1] == 1          # raises inside the library while the expanded model is analysed

    def fault_pre(p):
        p.boom = True
        p.randomize()

    def fault_elem_pre(p):
        p.objs[1].boom_pre = True
        p.randomize()

    def fault_elem_post(p):
        p.items[0].boom_post = True
        p.randomize()

    def call_dyn(p):
        with p.randomize_with() as it:
            it.small()

    def call_plain(p):
        p.randomize()
    firsts = [("unsat-plain", fault_unsat_plain, True), ("unsat-with", fault_unsat_with, True), ("exception-in-analysis", fault_analysis, True),
              ("pre_randomize-raises", fault_pre, True), ("element-pre_randomize-raises", fault_elem_pre, True),
              ("element-post_randomize-raises", fault_elem_post, True), ("dynamic-foreach-inline", call_dyn, False), ("plain-success", call_plain, False)]

    def history(Item, Pkt, first, seeds):
        p = Pkt()
        if first is not None:
            p.set_randstate(RandState.mkFromSeed(seeds[0]))
            try:
                with common.quiet():
                    first(p)
            except (SolveFailure, common.FaultInjected, Exception):
                pass
        with common.quiet():
            for _ in range(4):
                p.items.append(Item())
            for _ in range(2):
                p.objs.append(Item())
            p.l.append(0)
            p.l.append(0)
        out = []
        for k, sd in enumerate(seeds[1:]):
            p.set_randstate(RandState.mkFromSeed(sd))
            for e in list(p.items) + list(p.objs):
                e.calls = [0, 0]
            try:
                with common.quiet():
                    if k % 3 == 2:
                        with p.randomize_with() as it:
                            it.small()
                    else:
                        p.randomize()
                out.append(["ok", len(p.items), [int(e.a) for e in p.items], [int(e.a) for e in p.objs], [int(v) for v in p.l], int(p.x),
                            k % 3 == 2, [list(e.calls) for e in p.objs], [list(e.calls) for e in p.items]])
            except Exception as e:
                out.append(["raised", type(e).__name__])
        return out
    for rnd in range(n_rounds):
        seeds = [rng.randrange(1 << 30) for _ in range(8)]
        for name, first, is_fault in firsts:
            Item, Pkt = classes()
            twin = history(Item, Pkt, None, seeds)
            Item, Pkt = classes()
            got = history(Item, Pkt, first, seeds)
            ck.count("eval_growth_twins")
            # the constraints the user wrote hold over the grown lists
            for r in got:
                if r[0] == "ok" and (any(a >= 20 for a in r[3]) or any(v >= 30 for v in r[4]) or r[1] > 8 or
                                     (r[6] and any(v >= 10 for v in r[4]))):
                    ck.oracle_fail("list-constraint-not-applied-to-grown-list:after:" + name, {"first": name, "seeds": seeds}, r,
                                   "objs[*].a < 20, l[*] < 30 (< 10 in a call that names the dynamic constraint), items.size <= 8 "
                                   "over the lists as they are now")
                    break
            if got != twin:
                k = next(i for i in range(len(twin)) if got[i] != twin[i])
                ck.oracle_fail("later-call-differs-after-failed-call:" + name, {"first": name, "seeds": seeds, "call": k},
                               got[k], twin[k])
    ck.sample({"kind": "growth twins", "first_ops": [f[0] for f in firsts], "rounds": n_rounds})


def outside_twins(ck, seed, n_rounds):
    """A call that fails while its inline block mentions a field of another object, then calls that mention that field
    again (inline on the first object, a class constraint of the second) - against the history without the failed call."""
    import vsc
    from vsc.model.rand_state import RandState
    rng = random.Random("C16/outside/%d" % seed)

    def classes():
        @vsc.randobj
        class B:
            def __init__(self):
                self.y = vsc.uint8_t(5)
                self.w = vsc.rand_uint8_t()

            @vsc.constraint
            def c(self):
                self.w > self.y

        @vsc.randobj
        class A:
            def __init__(self):
                self.x = vsc.rand_uint8_t()
        return A, B

    def unsat_outside(a, b):
        with a.randomize_with() as it:
            it.x == b.y
            it.x != 5

    def unsat_outside_rand(a, b):
        with a.randomize_with() as it:
            it.x == b.w
            it.x != b.w
    firsts = [("unsat-inline-mentions-outside-nonrandom-field", unsat_outside), ("unsat-inline-mentions-outside-random-field", unsat_outside_rand)]

    def history(first, seeds):
        A, B = classes()
        a, b = A(), B()
        if first is not None:
            a.set_randstate(RandState.mkFromSeed(seeds[0]))
            try:
                with common.quiet():
                    first(a, b)
            except Exception:
                pass
        out = []
        for k, sd in enumerate(seeds[1:]):
            try:
                with common.quiet():
                    if k % 2 == 0:
                        a.set_randstate(RandState.mkFromSeed(sd))
                        with a.randomize_with() as it:
                            it.x == b.y
                        out.append(["ok", int(a.x)])
                    else:
                        b.set_randstate(RandState.mkFromSeed(sd))
                        b.randomize()
                        out.append(["ok", int(b.w)])
            except Exception as e:
                out.append(["raised", type(e).__name__])
        return out
    for rnd in range(n_rounds):
        seeds = [rng.randrange(1 << 30) for _ in range(5)]
        twin = history(None, seeds)
        for name, first in firsts:
            got = history(first, seeds)
            ck.count("eval_outside_twins")
            if got != twin:
                k = next(i for i in range(len(twin)) if got[i] != twin[i])
                ck.oracle_fail("later-call-differs-after-failed-call:" + name, {"first": name, "seeds": seeds, "call": k}, got[k], twin[k])


def soft_twins(ck, seed, n_rounds):
    """Calls that fail or are aborted while soft constraints are in play (class level, inline, both), then calls whose result
    depends on the precedence among soft constraints (an inline soft constraint that contradicts a class one, two class ones
    that contradict each other) - against the history without the failed calls."""
    import vsc
    from vsc.model.rand_state import RandState
    rng = random.Random("C16/soft/%d" % seed)

    def classes():
        @vsc.randobj
        class P:
            def __init__(self):
                self.a = vsc.rand_uint8_t()
                self.b = vsc.rand_uint8_t()
                self.boom = False

            def post_randomize(self):
                if self.boom:
                    self.boom = False
                    raise common.FaultInjected("post_randomize")

            @vsc.constraint
            def c(self):
                vsc.soft(self.a == 1)
                vsc.soft(self.a == 3)
                self.b < 10
        return P

    def unsat_with_soft(p):
        with p.randomize_with() as it:
            vsc.soft(it.a == 2)
            it.b > 20

    def unsat_plain(p):
        with p.randomize_with() as it:
            it.b > 20

    def post_raises_with_soft(p):
        p.boom = True
        with p.randomize_with() as it:
            vsc.soft(it.a == 2)

    def two_failures(p):
        for _ in range(2):
            try:
                unsat_plain(p)
            except Exception:
                pass
        unsat_with_soft(p)
    firsts = [("unsat-with-inline-soft", unsat_with_soft), ("unsat-plain", unsat_plain), ("post_randomize-raises-with-inline-soft", post_raises_with_soft),
              ("several-failures", two_failures)]

    def history(first, seeds):
        p = classes()()
        if first is not None:
            p.set_randstate(RandState.mkFromSeed(seeds[0]))
            try:
                with common.quiet():
                    first(p)
            except Exception:
                pass
        out = []
        for k, sd in enumerate(seeds[1:]):
            p.set_randstate(RandState.mkFromSeed(sd))
            try:
                with common.quiet():
                    if k % 2 == 0:
                        with p.randomize_with() as it:
                            vsc.soft(it.a == 2)
                    else:
                        p.randomize()
                out.append(["ok", int(p.a), int(p.b) < 10])
            except Exception as e:
                out.append(["raised", type(e).__name__])
        return out
    for rnd in range(n_rounds):
        seeds = [rng.randrange(1 << 30) for _ in range(5)]
        twin = history(None, seeds)
        for name, first in firsts:
            got = history(first, seeds)
            ck.count("eval_soft_twins")
            if got != twin:
                k = next(i for i in range(len(twin)) if got[i] != twin[i])
                ck.oracle_fail("later-call-differs-after-failed-call:soft:" + name, {"first": name, "seeds": seeds, "call": k}, got[k], twin[k])


def multi_object_twins(ck, seed, n_rounds):
    """Free-standing calls on several objects (vsc.randomize_with(a, b)) that fail - an unsatisfiable inline block, an
    exception raised by the library while the call is elaborated - then calls on each object alone: against the history
    without the failed call, and the objects must be idle after the failure (no solver handle on a field, random-size
    lists hold as many element models as their size, sum equals the sum of the exposed elements)."""
    import vsc
    from vsc.model.rand_state import RandState
    rng = random.Random("C16/multi/%d" % seed)

    def classes():
        @vsc.randobj
        class Item:
            def __init__(self):
                self.x = vsc.rand_uint8_t()
                self.y = vsc.rand_uint8_t()
                self.l1 = vsc.rand_list_t(vsc.uint8_t(), sz=2)
                self.l2 = vsc.rand_list_t(vsc.uint8_t(), sz=3)
                self.dyn = vsc.randsz_list_t(vsc.uint8_t())

            @vsc.constraint
            def c(self):
                self.x < self.y
                self.y < 50
                self.dyn.size.inside(vsc.rangelist((1, 6)))
        return Item

    def unsat(objs, sd):
        with vsc.randomize_with(*objs, randstate=RandState.mkFromSeed(sd)):
            objs[-1].y > 200

    def unsat_first(objs, sd):
        with vsc.randomize_with(*objs, randstate=RandState.mkFromSeed(sd)):
            objs[0].y > 200

    def lib_exception(objs, sd):
        with vsc.randomize_with(*objs, randstate=RandState.mkFromSeed(sd)):
            objs[0].x < objs[-1].x
            vsc.unique_vec(objs[0].l1, objs[0].l2)          # sizes differ: rejected while the call is built
    firsts = [("unsat-on-last-object", unsat), ("unsat-on-first-object", unsat_first), ("library-exception-while-building", lib_exception)]

    def handles(o):
        out = []

        def walk(m):
            for f in m.field_l:
                if hasattr(f, "field_l"):
                    if getattr(f, "size", None) is not None and getattr(f.size, "var", None) is not None:
                        out.append(f.name + ".size")
                    walk(f)
                elif getattr(f, "var", None) is not None:
                    out.append(f.name)
        walk(o.get_model())
        return out

    def history(first, seeds, n_objs):
        Item = classes()
        objs = [Item() for _ in range(n_objs)]
        idle = None
        if first is not None:
            try:
                with common.quiet():
                    first(objs, seeds[0])
            except Exception:
                pass
            idle = []
            for k, o in enumerate(objs):
                lm = o.get_model().find_field("dyn")
                idle.append({"object": k, "solver_handles": handles(o), "dyn_models": len(lm.field_l), "dyn_size": int(o.dyn.size),
                             "dyn_sum": int(o.dyn.sum), "sum_of_exposed": sum(int(v) for v in o.dyn)})
        out = []
        for k, sd in enumerate(seeds[1:]):
            o = objs[k % n_objs]
            o.set_randstate(RandState.mkFromSeed(sd))
            try:
                with common.quiet():
                    o.randomize()
                out.append(["ok", int(o.x), int(o.y), [int(v) for v in o.dyn], [int(v) for v in o.l1]])
            except Exception as e:
                out.append(["raised", type(e).__name__])
        return out, idle
    for rnd in range(n_rounds):
        seeds = [rng.randrange(1 << 30) for _ in range(6)]
        n_objs = rng.choice([2, 2, 3])
        twin, _ = history(None, seeds, n_objs)
        for name, first in firsts:
            got, idle = history(first, seeds, n_objs)
            ck.count("eval_multi_object_twins")
            for st in idle or []:
                if st["solver_handles"] or st["dyn_models"] != st["dyn_size"] or st["dyn_sum"] != st["sum_of_exposed"]:
                    ck.oracle_fail("object-not-idle-after-failed-multi-object-call:" + name, {"first": name, "seeds": seeds, "objects": n_objs}, st,
                                   "no solver handle, as many element models as the size, sum over the exposed elements")
                    break
            if got != twin:
                k = next(i for i in range(len(twin)) if got[i] != twin[i])
                ck.oracle_fail("later-call-differs-after-failed-call:multi-object:" + name, {"first": name, "seeds": seeds, "call": k, "objects": n_objs},
                               got[k], twin[k])


def main():
    tier, seed, replay = common.parse_args(sys.argv[1:])
    ck = common.Check("C16", tier, seed, ["C16", "C16Rollback"])
    obligations = common.obligations_for(["C16", "C16Rollback"])
    common.setup_repo_path()
    n = 600 if tier == "thorough" else 24
    jobs = 16 if tier == "thorough" else 8
    per = (n + jobs - 1) // jobs
    chunks = [(seed, i, min(n, i + per)) for i in range(0, n, per)]
    results = common.pmap(_worker, chunks)
    import solvelib as S_
    S_.install()
    growth_twins(ck, seed, 40 if tier == "thorough" else 3)
    outside_twins(ck, seed, 40 if tier == "thorough" else 3)
    soft_twins(ck, seed, 40 if tier == "thorough" else 3)
    multi_object_twins(ck, seed, 40 if tier == "thorough" else 3)
    for r in results:
        for k, v in r["counts"].items():
            ck.count(k, v)
        for f in r["corr"]:
            ck.corr_fail(f["what"], f["case"], f["model"], f["impl"])
        for f in r["orc"]:
            ck.oracle_fail(f["signature"], f["case"], f["observed"], f["required"])
        for s in r["samples"]:
            ck.sample(s)
    ck.cov.update({"programs": ck.counts.get("eval_histories", 0), "evaluations": ck.counts.get("eval_fault_runs", 0),
                   "distinct_nontrivial": ck.counts.get("eval_fault_runs", 0),
                   "rule": "generated class + fixed second class (with solve_order) + a list class (foreach with index guard and neighbour relation, sum) "
                           "and a history construct/randomize/randomize_with over them; "
                           "for each history EVERY fault position is run: a raise before/after/inside every statement of every constraint "
                           "body during construction (nested if/else-if/else/implies included), in the user's __init__, at every position "
                           "of the randomize_with body, in pre_randomize and post_randomize, an unsatisfiable inline block, an exception "
                           "inside the solve; after every op the six stacks + leftover overrides + leftover solver variables are read; "
                           "the ops after the fault are compared with the twin history without the failing op (outcome, lowered hard "
                           "formulas, values under identical explicit seeds); growth twins: a failing first call (unsatisfiable plain / "
                           "inline, an exception while the expanded model is analysed, a raising pre_randomize) or a call through a dynamic "
                           "constraint holding a foreach, then the user appends to a random-size list of objects, a list of objects and a "
                           "scalar list, then calls under explicit seeds - compared with the history without the first call, and the list "
                           "constraints must hold over the grown lists"})
    rc = ck.finish(obligations=obligations,
                   assumptions=["the twin history runs first in the same process (a clean history leaves the shared state clean: checked)",
                                "covergroup construction and free-standing vsc.randomize_with are not fault-injected in this revision",
                                "dist rewrites are not fault-injected"],
                   theorems_lost=THEOREMS)
    sys.exit(rc)


if __name__ == "__main__":
    common.run_main(main)
