"""C10 — coverpoint bins count exactly the samples whose value they contain.

Three-way comparison per generated coverpoint specification and sample sequence:
  implementation (real @vsc.covergroup, public getters)  vs  Lean model (Pyvsc.Bins, Pyvsc.Ranges)
  implementation                                           vs  Lean Spec (Pyvsc.Spec.specVals/chunks/countHits)
plus kernel sweeps of RangelistModel.compact / intersect and mk_collection.
"""
import itertools
import os
import sys
sys.path.insert(0, os.path.dirname(os.path.abspath(__file__)))
import common
import covlib
from common import Check, Drv, quiet

THEOREMS = ["Pyvsc.C10.compact_denotes", "Pyvsc.C10.compact_sorted", "Pyvsc.C10.subtract_denotes",
            "Pyvsc.C10.sample_counts", "Pyvsc.C10.sample_counts_ignore", "Pyvsc.C10.leaf_hit_iff",
            "Pyvsc.C10.mkCollection_partition"]


def strip(spec):
    """the request as sent to the driver (api_* keys dropped)"""
    def sb(b):
        return {k: v for k, v in b.items() if not k.startswith("api_")}
    s = dict(spec)
    s["bins"] = None if spec["bins"] is None else [sb(b) for b in spec["bins"]]
    s["ignore"] = [sb(b) for b in spec["ignore"]]
    s["illegal"] = [sb(b) for b in spec["illegal"]]
    if s.get("auto_bin_max") is None:
        s["auto_bin_max"] = 64
    return s


def features(spec):
    f = set()
    f.add("type:" + spec["type"]["kind"] + (":signed" if spec["type"].get("s") else ""))
    if spec["bins"] is None:
        f.add("auto")
    else:
        for b in spec["bins"]:
            f.add(b["kind"] + (":count" if b.get("nbins", -1) != -1 else ""))
    if spec["ignore"]:
        f.add("ignore")
    if spec["illegal"]:
        f.add("illegal")
    return f


def compare_cp(ck, spec, impl, model, sp, tag="cp"):
    """returns True when everything agrees"""
    ok = True
    case = {k: spec[k] for k in ("type", "auto_bin_max", "bins", "ignore", "illegal")}
    case["n_samples"] = len(spec["samples"])
    if "exc" in impl:
        if model != "error":
            ck.corr_fail("Bins.cp.run vs coverage.py (implementation raised)", case, model if not isinstance(model, dict) else {k: model[k] for k in ("nbins", "names")}, impl)
            ok = False
        # a specification the Spec gives bins to must not raise
        if isinstance(sp, dict) and sp["nbins"] > 0:
            ck.oracle_fail("cp:exception:" + impl["exc"], case, impl, {"nbins": sp["nbins"]})
        return ok
    if model == "error" or isinstance(model, dict) and "__err__" in model:
        ck.corr_fail("Bins.cp.run vs coverage.py (model error)", case, model, {k: impl[k] for k in ("nbins", "names")})
        return False
    for k in ("nbins", "names", "n_ign", "ign_names", "n_ill", "ill_names", "hits", "ign", "ill", "events"):
        if k in impl and impl[k] != model[k]:
            ck.corr_fail("Bins.cp.run[%s] vs coverage.py/coverpoint_model.py" % k, case, model[k], impl[k])
            ok = False
            break
    # Spec oracle
    if impl["nbins"] != sp["nbins"] or impl["hits"] != sp["hits"]:
        ck.oracle_fail("cp:bin-hits:" + ",".join(sorted(features(spec))), dict(case, samples=spec["samples"]),
                       {"nbins": impl["nbins"], "hits": impl["hits"], "names": impl["names"]},
                       {"nbins": sp["nbins"], "hits": sp["hits"], "bin_values": sp["bins"]})
        ok = False
    elif impl["ign"] != sp["ign"] or impl["ill"] != sp["ill"]:
        ck.oracle_fail("cp:ignore-illegal-counters", dict(case, samples=spec["samples"]),
                       {"ign": impl["ign"], "ill": impl["ill"]}, {"ign": sp["ign"], "ill": sp["ill"]})
        ok = False
    return ok


def main():
    tier, seed, replay = common.parse_args(sys.argv[1:])
    ck = Check("C10", tier, seed, ["C10", "C10Part"])
    try:
        obligations = common.obligations_for(["C10", "C10Part"])
        vsc = common.setup_repo_path()
        from vsc.model.rangelist_model import RangelistModel
        from vsc.model.coverpoint_bin_collection_model import CoverpointBinCollectionModel
        drv = Drv()
        rng = ck.rng
        distinct = set()

        # ---- kernel sweep 1: compact / intersect --------------------------------------
        reqs, metas = [], []
        def rl_cases():
            if tier == "thorough":
                dom = range(0, 7)
                pairs = [[a, b] for a in dom for b in dom if a <= b]
                for k in (1, 2):
                    for c in itertools.product(pairs, repeat=k):
                        yield [list(x) for x in c]
                for _ in range(20000):
                    yield [list(rng.choice(pairs)) for _ in range(rng.randint(3, 5))]
            else:
                dom = range(0, 5)
                pairs = [[a, b] for a in dom for b in dom if a <= b]
                for k in (1, 2):
                    for c in itertools.product(pairs, repeat=k):
                        yield [list(x) for x in c]
                for _ in range(1500):
                    yield [list(rng.choice(pairs)) for _ in range(rng.randint(3, 5))]
        for l in rl_cases():
            r = RangelistModel([list(x) for x in l])
            try:
                r.compact()
                impl = [list(x) for x in r.range_l]
            except Exception as e:
                impl = "exc:" + type(e).__name__
            metas.append(("compact", {"l": l}, impl))
            reqs.append({"op": "r.compact", "l": l})
        # subtract: compacted target, arbitrary exclusion lists
        sub_n = 30000 if tier == "thorough" else 2500
        dom_hi = 12
        for _ in range(sub_n):
            def rand_rl(n):
                out = []
                for _ in range(n):
                    a = rng.randint(0, dom_hi)
                    b = rng.randint(a, min(dom_hi, a + rng.choice([0, 0, 1, 2, 4, 8])))
                    out.append([a, b])
                return out
            t = RangelistModel(rand_rl(rng.randint(1, 4)))
            t.compact()
            l = [list(x) for x in t.range_l]
            ex = rand_rl(rng.randint(1, 4))
            if rng.random() < 0.5:
                e2 = RangelistModel([list(x) for x in ex]); e2.compact(); ex = [list(x) for x in e2.range_l]
            try:
                t.intersect(RangelistModel([list(x) for x in ex]))
                impl = [list(x) for x in t.range_l]
            except Exception as e:
                impl = "exc:" + type(e).__name__
            metas.append(("subtract", {"l": l, "ex": ex}, impl))
            reqs.append({"op": "r.subtract", "l": l, "ex": ex})
        res = drv.batch(reqs)
        for (kind, case, impl), model in zip(metas, res):
            ck.count("eval_rangelist")
            ck.count("rangelist:" + kind)
            distinct.add((kind, str(case)))
            if impl != model:
                ck.corr_fail("Ranges.%s vs RangelistModel" % kind, case, model, impl)
            # Spec: value sets
            def vals(rl):
                s = set()
                for a, b in rl:
                    s.update(range(a, b + 1))
                return s
            if isinstance(impl, list):
                if kind == "compact":
                    want = vals(case["l"])
                    srt = all(impl[i][1] < impl[i + 1][0] for i in range(len(impl) - 1))
                    if vals(impl) != want or not srt:
                        ck.oracle_fail("rangelist:compact", case, impl, "sorted, disjoint, same value set %s" % sorted(want))
                else:
                    want = vals(case["l"]) - vals(case["ex"])
                    srt = all(impl[i][1] < impl[i + 1][0] for i in range(len(impl) - 1))
                    if vals(impl) != want or not srt:
                        ck.oracle_fail("rangelist:subtract", case, impl, "sorted, disjoint, value set %s" % sorted(want))
            else:
                ck.oracle_fail("rangelist:%s:exception" % kind, case, impl, "no exception")
        ck.sample({"kind": "rangelist", "case": metas[-1][1], "impl": metas[-1][2], "model": res[-1]})

        # ---- kernel sweep 2: mk_collection -------------------------------------------
        reqs, metas = [], []
        def coll_cases():
            hi = 15 if tier == "thorough" else 9
            pts = range(0, hi + 1)
            # all sorted disjoint range lists with <= 3 (thorough) / 2 (quick) ranges
            maxr = 3 if tier == "thorough" else 2
            def rec(start, k):
                if k == 0:
                    yield []
                    return
                for a in range(start, hi + 1):
                    for b in range(a, hi + 1):
                        for rest in rec(b + 1, k - 1):
                            yield [[a, b]] + rest
            for k in range(1, maxr + 1):
                for rl in rec(0, k):
                    if tier != "thorough" and k == 2 and rng.random() < 0.6:
                        continue
                    if tier == "thorough" and k == 3 and rng.random() < 0.9:
                        continue
                    for nb in range(1, 9):
                        yield rl, nb
            # longer lists (3..6 ranges, many of them single values): leftovers spanning several ranges
            for _ in range(6000 if tier == "thorough" else 500):
                k = rng.randint(3, min(6, (hi + 1) // 2))
                cuts = sorted(rng.sample(range(0, hi + 1), 2 * k)) if hi + 1 >= 2 * k else None
                if cuts is None:
                    continue
                rl = []
                for i in range(k):
                    a, b = cuts[2 * i], cuts[2 * i + 1]
                    if rng.random() < 0.5:
                        b = a
                    if rl and a <= rl[-1][1]:
                        continue
                    rl.append([a, b])
                if len(rl) >= 3:
                    for nb in rng.sample(range(1, 9), 3):
                        yield rl, nb
        for rl, nb in coll_cases():
            try:
                c = CoverpointBinCollectionModel.mk_collection("a", RangelistModel([list(x) for x in rl]), nb)
                # finalize needs a parent coverpoint; emulate get_n_bins/name through a coverpoint model
                from vsc.model.coverpoint_model import CoverpointModel
                from vsc.model.covergroup_model import CovergroupModel
                cgm = CovergroupModel("cg")
                cp = CoverpointModel(None, "cp", None)
                cgm.add_coverpoint(cp)
                cp.add_bin_model(c)
                cp.finalize()
                impl = {"nbins": cp.get_n_bins(), "names": [cp.get_bin_name(i) for i in range(cp.get_n_bins())]}
                # value sets per bin by sampling every value
                sets = [[] for _ in range(cp.get_n_bins())]
                for v in range(0, 18):
                    before = list(cp.hit_l)
                    cp.set_target_value_cache(v)
                    cp.sample()
                    cp.reset()
                    for i, (x, y) in enumerate(zip(before, cp.hit_l)):
                        if y != x:
                            sets[i].append(v)
                impl["sets"] = sets
            except Exception as e:
                impl = {"exc": type(e).__name__}
            metas.append(({"rl": rl, "nbins": nb}, impl))
            reqs.append({"op": "cp.run", "name": "a", "type": {"kind": "int", "w": 5, "s": False}, "auto_bin_max": 64,
                         "bins": [{"name": "a", "kind": "bin_array", "nbins": nb, "ranges": rl}], "ignore": [], "illegal": [],
                         "samples": [[True, v] for v in range(0, 18)]})
        res = drv.batch(reqs)
        sreqs = [dict(r, op="s.cp") for r in reqs]
        sres = drv.batch(sreqs)
        for (case, impl), model, sp in zip(metas, res, sres):
            ck.count("eval_mk_collection")
            distinct.add(("mkc", str(case)))
            if "exc" in impl:
                ck.oracle_fail("mk_collection:exception:" + impl["exc"], case, impl, sp["bins"])
                continue
            msets = [[] for _ in range(impl["nbins"])] if isinstance(model, dict) else None
            if isinstance(model, dict):
                for (iff, v), ev in zip([[True, v] for v in range(0, 18)], model["events"]):
                    for i in ev[0]:
                        if i < len(msets):
                            msets[i].append(v)
            if not isinstance(model, dict) or model["nbins"] != impl["nbins"] or model["names"] != impl["names"] or msets != impl["sets"]:
                ck.corr_fail("Bins.mkCollection vs mk_collection", case, model if not isinstance(model, dict) else {"nbins": model["nbins"], "names": model["names"], "sets": msets}, impl)
            if impl["sets"] != sp["bins"]:
                ck.oracle_fail("mk_collection:partition", case, impl["sets"], sp["bins"])
        ck.sample({"kind": "mk_collection", "case": metas[len(metas) // 2][0], "impl": metas[len(metas) // 2][1]})

        # ---- coverpoint specifications --------------------------------------------------
        n_specs = 6000 if tier == "thorough" else 300
        specs = [covlib.gen_cp_spec(rng, i) for i in range(n_specs)]
        impls = []
        for i, spec in enumerate(specs):
            impls.append(covlib.run_impl(vsc, spec, iff_mode=("field", "lambda")[i % 2]))
        reqs = [strip(s) for s in specs]
        res = drv.batch(reqs)
        sres = drv.batch([dict(r, op="s.cp") for r in reqs])
        feats = {}
        for spec, impl, model, sp in zip(specs, impls, res, sres):
            ck.count("eval_cp")
            for f in features(spec):
                feats[f] = feats.get(f, 0) + 1
            ck.count("cp_samples", len(spec["samples"]))
            if "exc" in impl:
                ck.count("cp_impl_exceptions")
            compare_cp(ck, spec, impl, model, sp)
            distinct.add(("cp", str(spec["type"]), str(spec["bins"]), str(spec["ignore"]), str(spec["illegal"]), spec["auto_bin_max"]))
        ck.sample({"kind": "coverpoint", "spec": {k: specs[0][k] for k in ("type", "auto_bin_max", "bins", "ignore", "illegal")},
                   "impl": {k: impls[0].get(k) for k in ("nbins", "names", "hits", "ign", "ill", "exc")}, "spec_bins": sres[0].get("bins") if isinstance(sres[0], dict) else sres[0]})

        ck.cov.update({
            "distinct_nontrivial": len(distinct),
            "rule": "distinct (kernel, input) tuples: range lists for compact/intersect (all 1- and 2-range lists over a small domain + random 3-5 range lists), "
                    "mk_collection over all sorted disjoint range lists x 1..8 bins on a small domain, and generated coverpoint specifications "
                    "(explicit bins, bin arrays with/without count, auto-bins, enum, ignore/illegal) each sampled with EVERY value of its type once plus a random iff-mixed sequence; "
                    "non-trivial = reaches compact/intersect/mk_collection/sample code (all do)",
            "feature_distribution": feats,
            "programs": ck.counts.get("eval_cp", 0) + ck.counts.get("eval_mk_collection", 0) + ck.counts.get("eval_rangelist", 0),
            "exhaustive": True,
            "exhaustive_note": "every value of each generated coverpoint type (<= 8 bits) is sampled; kernel sweeps enumerate the small domains named in rule",
        })
        rc = ck.finish(obligations=obligations,
                       assumptions=["bin specification forms exercised: vsc.bin(values/tuples), vsc.bin_array([n]|[], values/[lo,hi] lists); the single-argument 'programmatic' list-of-lists form of bin_array is not exercised",
                                    "ignore/illegal ranges are given as tuples (the form coverage.py recognises as ranges)"],
                       theorems_lost=THEOREMS)
        sys.exit(rc)
    except common.InfraError as e:
        print("INFRA-ERROR: " + str(e))
        sys.exit(common.EXIT_INFRA)


if __name__ == "__main__":
    common.run_main(main)
