"""C18 — field values stay within their declared type on every access path.

Correspondence: every (width, sign, value, write path, read path) case is executed on the real
library and on the Lean model (`Pyvsc.Values`), and against the Spec (`Pyvsc.Spec.wrap`) evaluated
by the Lean driver.  Part-select reads/writes and enum maps likewise.
"""
import enum
import itertools
import sys
import os
sys.path.insert(0, os.path.dirname(os.path.abspath(__file__)))
import common
from common import Check, Drv, quiet

SCALAR_W = ["set_val", "val_setter", "attr_assign", "ctor_init", "ctor_init_obj"]
SCALAR_R = ["get_val", "val", "attr"]
LIST_W = ["append", "setitem", "init", "attr_assign", "extend"]
LIST_R = ["getitem", "iter", "sum", "product"]   # (of a one-element list: the element's value)


def make_classes(vsc, w, s):
    T = vsc.int_t if s else vsc.bit_t

    @vsc.randobj
    class O(object):
        def __init__(self, i=0, li=None):
            self.f = T(w, i=i)
            if li is None:
                self.l = vsc.list_t(T(w), sz=1)
            else:
                self.l = vsc.list_t(T(w), init=li)
    return T, O


def scalar_case(vsc, T, O, o, t, wp, rp, v):
    """write v through wp, read through rp"""
    if wp == "set_val":
        obj, kind = t, "t"
        t.set_val(v)
    elif wp == "val_setter":
        obj, kind = t, "t"
        t.val = v
    elif wp == "attr_assign":
        obj, kind = o, "o"
        o.f = v
    elif wp == "ctor_init":
        obj, kind = T(w=t.width, i=v), "t"
    elif wp == "ctor_init_obj":
        obj, kind = O(i=v), "o"
    if kind == "t":
        if rp == "get_val":
            return int(obj.get_val())
        if rp == "val":
            return int(obj.val)
        return None
    else:
        if rp == "attr":
            return int(obj.f)
        with vsc.raw_mode():
            fo = obj.f
        if rp == "get_val":
            return int(fo.get_val())
        if rp == "val":
            return int(fo.val)


def list_case(vsc, T, O, o, wp, rp, v):
    obj = o
    if wp == "append":
        o.l.clear()
        o.l.append(v)
    elif wp == "setitem":
        o.l.clear()
        o.l.append(0)
        o.l[0] = v
    elif wp == "init":
        obj = O(li=[v])
    elif wp == "attr_assign":
        o.l = [v]
    elif wp == "extend":
        o.l.clear()
        o.l.extend([v])
    if rp == "getitem":
        return int(obj.l[0])
    if rp == "sum":
        return int(obj.l.sum)
    if rp == "product":
        return int(obj.l.product)
    r = [int(x) for x in obj.l]
    assert len(r) == 1, r
    return r[0]


def values_for(w, exhaustive, rng):
    if exhaustive:
        return list(range(-(1 << (w + 1)), (1 << (w + 1)) + 1))
    b = {0, 1, -1, 2, -2, (1 << w) - 1, 1 << w, (1 << w) + 1, -(1 << w), -(1 << w) - 1, -(1 << w) + 1,
         (1 << (w - 1)), (1 << (w - 1)) - 1, -(1 << (w - 1)), -(1 << (w - 1)) - 1, (1 << (w - 1)) + 1,
         (1 << (w + 1)) + 5, -(1 << (w + 3)) - 7, 3 * (1 << w) + 2}
    for _ in range(8):
        b.add(rng.randint(-(1 << (w + 2)), 1 << (w + 2)))
    return sorted(b)


def main():
    tier, seed, replay = common.parse_args(sys.argv[1:])
    ck = Check("C18", tier, seed, ["C18"])
    try:
        obligations = common.obligations_for(["C18"])
        vsc = common.setup_repo_path()
        drv = Drv()
        rng = ck.rng
        cases = []  # (kind, descr, impl_value, model_req, spec_req/oracle)
        if tier == "thorough":
            widths_ex = list(range(1, 11))
            widths_b = [16, 31, 32, 33, 63, 64]
        else:
            widths_ex = [1, 2, 3, 4]
            widths_b = [7, 8, 9, 16, 31, 32, 33, 63, 64]
        reqs, metas = [], []
        for w in widths_ex + widths_b:
            ex = w in widths_ex
            for s in (False, True):
                T, O = make_classes(vsc, w, s)
                o = O()
                t = T(w)
                vals = values_for(w, ex, rng)
                for v in vals:
                    for wp in SCALAR_W:
                        if wp.startswith("ctor") and ex and tier == "thorough" and w > 6 and (v % 7):
                            continue  # constructing objects is slow: subsample in the big sweep
                        for rp in SCALAR_R:
                            try:
                                r = scalar_case(vsc, T, O, o, t, wp, rp, v)
                            except Exception as e:  # an exception on a plain write/read is a violation
                                r = "exc:" + type(e).__name__
                            if r is None:
                                continue
                            metas.append(("scalar", {"w": w, "s": s, "v": v, "write": wp, "read": rp}, r))
                            reqs.append({"op": "v.scalarRW", "w": w, "s": s, "v": v})
                    for wp in LIST_W:
                        if wp == "init" and ex and tier == "thorough" and w > 6 and (v % 7):
                            continue
                        for rp in LIST_R:
                            try:
                                r = list_case(vsc, T, O, o, wp, rp, v)
                            except Exception as e:
                                r = "exc:" + type(e).__name__
                            metas.append(("list", {"w": w, "s": s, "v": v, "write": wp, "read": rp}, r))
                            reqs.append({"op": "v.listRW", "w": w, "s": s, "v": v})
        res = drv.batch(reqs)
        distinct = set()
        for (kind, case, impl), m in zip(metas, res):
            ck.count("eval_rw")
            ck.count("path:%s->%s" % (case["write"], case["read"]))
            model, spec, intype = m["model"], m["spec"], m["inType"]
            distinct.add((case["w"], case["s"], case["v"] % (1 << case["w"]), case["write"], case["read"]))
            if impl != spec or not intype:
                ck.oracle_fail("rw:%s:%s:%s" % (kind, case["write"], "signed" if case["s"] else "unsigned"),
                               case, impl, spec)
            if impl != model:
                ck.corr_fail("Values.%sWrite/Read vs types.py" % kind, case, model, impl)
        ck.sample({"kind": "read-after-write", "case": metas[len(metas) // 2][1], "impl": metas[len(metas) // 2][2],
                   "model_spec": res[len(metas) // 2]})

        # ---- solver write-back (FieldScalarModel.post_randomize) followed by every read path --
        class _Var(object):
            def __init__(self, bits):
                self.assignment = bits
        reqs, metas = [], []
        for w in ([1, 2, 3, 4, 5] if tier == "thorough" else [1, 2, 3]) + [8, 16, 32, 33, 64]:
            for s in (False, True):
                T, O = make_classes(vsc, w, s)
                o = O()
                pats = range(1 << w) if w <= 5 else sorted({0, 1, (1 << w) - 1, 1 << (w - 1), (1 << (w - 1)) - 1,
                                                             (1 << (w - 1)) + 1} | {rng.randrange(1 << w) for _ in range(6)})
                for p in pats:
                    bits = format(p, "0%db" % w)
                    with vsc.raw_mode():
                        fo = o.f
                    fm = fo.get_model()
                    em = o.l.get_model().field_l[0]
                    got = {}
                    try:
                        for m in (fm, em):
                            m.var = _Var(bits)
                            m.post_randomize([])
                            m.var = None
                        got["scalar.attr"] = int(o.f)
                        got["scalar.get_val"] = int(fo.get_val())
                        got["list.getitem"] = int(o.l[0])
                        got["list.iter"] = [int(x) for x in o.l][0]
                    except Exception as e:
                        got = {"exc": type(e).__name__}
                    metas.append(({"w": w, "s": s, "pattern": p}, got))
                    reqs.append({"op": "v.readBack", "w": w, "s": s, "v": p})
        res = drv.batch(reqs)
        for (case, got), model in zip(metas, res):
            ck.count("eval_writeback")
            for path, v in got.items():
                ck.count("path:writeback->" + path)
                if v != model:
                    # the Spec value of a w-bit pattern is its two's complement reading = the model's readBack (readBack_spec)
                    ck.oracle_fail("writeback:" + path + (":signed" if case["s"] else ":unsigned"), dict(case, read=path), v, model)
        ck.sample({"kind": "write-back", "case": metas[-1][0], "impl": metas[-1][1], "model": res[-1]})

        # ---- part-select --------------------------------------------------------
        reqs, metas = [], []
        pw = list(range(1, 9)) if tier == "thorough" else [1, 3, 5, 8]
        for w in pw:
            for s in (False, True):
                T = vsc.int_t if s else vsc.bit_t
                a = T(w)
                lo_v = -(1 << (w - 1)) if s else 0
                hi_v = (1 << (w - 1)) - 1 if s else (1 << w) - 1
                curs = range(lo_v, hi_v + 1)
                if tier != "thorough" and w == 8:
                    curs = sorted(set(rng.randint(lo_v, hi_v) for _ in range(24)) | {lo_v, hi_v, 0})
                for cur in curs:
                    for hi in range(w):
                        for lo in range(hi + 1):
                            a.set_val(cur)
                            try:
                                r = int(a[hi:lo])
                            except Exception as e:
                                r = "exc:" + type(e).__name__
                            metas.append(("pread", {"w": w, "s": s, "cur": cur, "hi": hi, "lo": lo}, r))
                            reqs.append({"op": "v.partRead", "cur": cur, "hi": hi, "lo": lo})
                            n = hi - lo + 1
                            vs = range(0, 1 << n) if (w <= 4 or tier == "thorough" and n <= 4) else \
                                sorted({0, 1, (1 << n) - 1, rng.randint(0, (1 << n) - 1)})
                            vs = list(vs) + [(1 << n) + 1, (3 << n) | 1]   # wider than the slice: must be truncated
                            for val in vs:
                                a.set_val(cur)
                                try:
                                    a[hi:lo] = val
                                    r = int(a.get_val())
                                except Exception as e:
                                    r = "exc:" + type(e).__name__
                                metas.append(("pwrite", {"w": w, "s": s, "cur": cur, "hi": hi, "lo": lo, "val": val}, r))
                                reqs.append({"op": "v.partWriteField", "w": w, "s": s, "cur": cur, "hi": hi, "lo": lo, "val": val})
                    for k in range(w):
                        a.set_val(cur)
                        try:
                            r = int(a[k])
                        except Exception as e:
                            r = "exc:" + type(e).__name__
                        metas.append(("bread", {"w": w, "s": s, "cur": cur, "k": k}, r))
                        reqs.append({"op": "v.bitRead", "cur": cur, "k": k})
                        for val in (0, 1, 2, 3):
                            a.set_val(cur)
                            try:
                                a[k] = val
                                r = int(a.get_val())
                            except Exception as e:
                                r = "exc:" + type(e).__name__
                            metas.append(("bwrite", {"w": w, "s": s, "cur": cur, "k": k, "val": val}, r))
                            reqs.append({"op": "v.bitWriteField", "w": w, "s": s, "cur": cur, "k": k, "val": val})
        # the same reads on the values the other access paths hand out: attribute of an object, get_val() of the field,
        # element of a list (these go through the value classes, not through type_base.__getitem__)
        for w in pw:
            for s in (False, True):
                T = vsc.int_t if s else vsc.bit_t

                def _init(self, _T=T, _w=w):
                    self.f = _T(_w)
                    self.l = vsc.list_t(_T(_w), 2)
                H = vsc.randobj(type("PartSelHolder_%d_%s" % (w, "s" if s else "u"), (object,), {"__init__": _init}))
                with common.quiet():
                    o = H()
                lo_v = -(1 << (w - 1)) if s else 0
                hi_v = (1 << (w - 1)) - 1 if s else (1 << w) - 1
                curs = range(lo_v, hi_v + 1)
                if tier != "thorough" and w == 8:
                    curs = sorted(set(rng.randint(lo_v, hi_v) for _ in range(24)) | {lo_v, hi_v, 0, -1 if s else 1})
                for cur in curs:
                    o.f = cur
                    o.l[1] = cur
                    with vsc.raw_mode():
                        fobj = o.f
                    paths = {"attr": lambda: o.f, "get_val": lambda: fobj.get_val(), "list": lambda: o.l[1]}
                    for pname, rd in paths.items():
                        for hi in range(w):
                            for lo in range(hi + 1):
                                try:
                                    r = int(rd()[hi:lo])
                                except Exception as e:
                                    r = "exc:" + type(e).__name__
                                metas.append(("pread", {"w": w, "s": s, "cur": cur, "hi": hi, "lo": lo, "path": pname}, r))
                                reqs.append({"op": "v.partRead", "cur": cur, "hi": hi, "lo": lo})
                        for k in range(w):
                            try:
                                r = int(rd()[k])
                            except Exception as e:
                                r = "exc:" + type(e).__name__
                            metas.append(("bread", {"w": w, "s": s, "cur": cur, "k": k, "path": pname}, r))
                            reqs.append({"op": "v.bitRead", "cur": cur, "k": k})
        res = drv.batch(reqs)
        for (kind, case, impl), model in zip(metas, res):
            ck.count("eval_partsel")
            ck.count("partsel:" + kind)
            if impl != model:
                ck.corr_fail("Values.part/bit Read/Write vs type_base.__getitem__/__setitem__", case, model, impl)
            # Spec oracle, straight from the property text
            cur = case["cur"]
            if kind in ("pread", "bread"):
                hi, lo = (case["hi"], case["lo"]) if kind == "pread" else (case["k"], case["k"])
                req = (cur >> lo) % (1 << (hi - lo + 1))
                if impl != req:
                    ck.oracle_fail("partsel-read", case, impl, req)
            else:
                hi, lo = (case["hi"], case["lo"]) if kind == "pwrite" else (case["k"], case["k"])
                n = hi - lo + 1
                W, sg = case["w"], case["s"]
                ok = isinstance(impl, int) and ((impl >> lo) % (1 << n) == case["val"] % (1 << n)
                                                and impl % (1 << lo) == cur % (1 << lo)
                                                and (impl % (1 << W)) >> (hi + 1) == (cur % (1 << W)) >> (hi + 1))
                if not ok:
                    ck.oracle_fail("partsel-write", case, impl,
                                   "bits[hi:lo]=val mod 2^n, all other bits of the field unchanged")
                elif not ((-(1 << (W - 1)) <= impl < (1 << (W - 1))) if sg else (0 <= impl < (1 << W))):
                    ck.oracle_fail("partsel-write-out-of-type", case, impl, "a value of the declared type")
            distinct.add((kind,) + tuple(sorted(case.items())))
        ck.sample({"kind": "part-select", "case": metas[len(metas) // 3][1], "impl": metas[len(metas) // 3][2],
                   "model": res[len(metas) // 3]})

        # ---- enums --------------------------------------------------------------
        reqs, metas = [], []
        n_enum = 200 if tier == "thorough" else 40
        for i in range(n_enum):
            k = rng.randint(1, 6)
            # distinct enum types may carry the same name (a class statement executed twice, a factory function): every third
            # type reuses one of a few names
            tname = "E%d" % (i if i % 3 else i % 4)
            if rng.random() < 0.5:
                vals = rng.sample(range(-20, 40), k)
                E = enum.IntEnum(tname, [("m%d" % j, v) for j, v in enumerate(vals)])
                members = vals
            else:
                E = enum.Enum(tname, [("m%d" % j, "x%d" % j) for j in range(k)])
                members = [None] * k
            from vsc.impl.enum_info import EnumInfo
            try:
                ei = EnumInfo.get(E)
                f = vsc.enum_t(E)
                f.get_model()
                rt = []
                for m in E:
                    f.set_val(m)
                    rt.append(f.get_val() is m)
                lst = vsc.list_t(vsc.enum_t(E))
                for m in E:
                    lst.append(m)
                rt_l = [lst[j] is m for j, m in enumerate(E)]
                # index assignment: every position takes every member and returns it
                ms = list(E)
                for j in range(len(ms)):
                    for m in ms:
                        lst[j] = m
                        rt_l.append(lst[j] is m)
                    lst[j] = ms[j]
                rt_l.append([x for x in lst] == ms)
                impl = {"vals": list(ei.enums), "e2v": [ei.e2v(m) for m in E], "v2e": [list(E).index(ei.v2e(v)) for v in ei.enums]}
            except Exception as ex:
                ck.oracle_fail("enum-exception:" + type(ex).__name__, {"members": members, "type_name": tname},
                               "%s: %s" % (type(ex).__name__, str(ex)[:160]), "enum fields hold and return declared enumerators")
                continue
            metas.append(({"members": members}, impl, rt, rt_l))
            reqs.append({"op": "v.enum", "members": members})
        res = drv.batch(reqs)
        for (case, impl, rt, rt_l), model in zip(metas, res):
            ck.count("eval_enum")
            if impl != model:
                ck.corr_fail("Values.enumValues/e2v/v2e vs EnumInfo", case, model, impl)
            if not all(rt) or not all(rt_l):
                ck.oracle_fail("enum-roundtrip", case, {"scalar": rt, "list": rt_l}, "get_val(set_val(e)) is e")
            distinct.add(("enum", tuple(case["members"])))
        ck.sample({"kind": "enum", "case": metas[0][0], "impl": metas[0][1], "model": res[0]})

        ck.cov.update({
            "distinct_nontrivial": len(distinct),
            "rule": "read-after-write cases (width, sign, value, write path, read path): widths %s exhaustively over [-2^(w+1), 2^(w+1)], widths %s on boundary+random values; part-select reads/writes over all hi>=lo for widths %s; random IntEnum/Enum types. distinct = distinct (width, sign, value mod 2^w, paths) / (case) tuples; all are non-trivial (each exercises masking or sign conversion code)" % (widths_ex, widths_b, pw),
            "exhaustive": True,
            "exhaustive_note": "complete over the finite grids named in rule; the theorems cover all widths and values",
            "programs": ck.counts.get("eval_rw", 0) + ck.counts.get("eval_partsel", 0) + ck.counts.get("eval_enum", 0),
        })
        rc = ck.finish(obligations=obligations,
                       assumptions=["Python int semantics of &, ~, <<, >> are modelled arithmetically (x & (2^w-1) = x mod 2^w, ~x = -x-1); validated by this sweep",
                                    "part-select writes are judged for hi < width only (the API gives no meaning to wider slices)"],
                       theorems_lost=["Pyvsc.C18.scalar_read_after_write", "Pyvsc.C18.list_read_after_write",
                                      "Pyvsc.C18.partWrite_spec", "Pyvsc.C18.partWriteField_spec", "Pyvsc.C18.bitWrite_spec", "Pyvsc.C18.readBack_spec",
                                      "Pyvsc.C18.enum_roundtrip"])
        sys.exit(rc)
    except common.InfraError as e:
        print("INFRA-ERROR: " + str(e))
        sys.exit(common.EXIT_INFRA)


if __name__ == "__main__":
    common.run_main(main)
