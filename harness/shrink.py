"""Delta-debugging shrinker for solver-path scenarios.  `pred(scn) -> bool` says whether the
scenario still shows the behaviour of interest; every candidate is re-run by the caller's
predicate (on the real library and, where needed, the model)."""
import copy
import json


def _stmt_lists(scn):
    """all statement lists in the scenario, as (container, key) pairs"""
    out = []

    def rec(lst_holder, key):
        out.append((lst_holder, key))
        for s in lst_holder[key]:
            if s["k"] == "if":
                rec(s, "t")
                for ei in s["elifs"]:
                    rec(ei, "t")
                if s.get("else") is not None:
                    rec(s, "else")
            elif s["k"] == "implies":
                rec(s, "b")
    for b in scn["blocks"]:
        rec(b, "stmts")
    for c in scn["calls"]:
        if c.get("inline") is not None:
            rec(c, "inline")
    return out


def _expr_slots(scn):
    """all (holder, key) positions holding an expression"""
    out = []

    def rec_e(h, k):
        out.append((h, k))
        e = h[k]
        if not isinstance(e, dict):
            return
        kk = e.get("k")
        if kk == "bin":
            rec_e(e, "l"); rec_e(e, "r")
        elif kk in ("not", "psel"):
            rec_e(e, "e")
        elif kk in ("in", "notin"):
            rec_e(e, "e")
            for r in e["rl"]:
                if "single" in r:
                    rec_e(r, "single")
                else:
                    rec_e(r, "lo"); rec_e(r, "hi")

    def rec_s(lst):
        for s in lst:
            k = s["k"]
            if k in ("expr", "soft"):
                rec_e(s, "e")
            elif k == "unique":
                for i in range(len(s["es"])):
                    rec_e(s["es"], i)
            elif k == "implies":
                rec_e(s, "c"); rec_s(s["b"])
            elif k == "if":
                rec_e(s, "c"); rec_s(s["t"])
                for ei in s["elifs"]:
                    rec_e(ei, "c"); rec_s(ei["t"])
                if s.get("else") is not None:
                    rec_s(s["else"])
    for b in scn["blocks"]:
        rec_s(b["stmts"])
    for c in scn["calls"]:
        if c.get("inline") is not None:
            rec_s(c["inline"])
    return out


def _candidates(scn):
    """smaller variants of the scenario, most aggressive first"""
    # drop calls / blocks / inline
    if len(scn["calls"]) > 1:
        for i in range(len(scn["calls"]) - 1):
            c = copy.deepcopy(scn); del c["calls"][i]; yield c
    for i in range(len(scn["blocks"])):
        if len(scn["blocks"]) > 0:
            c = copy.deepcopy(scn); del c["blocks"][i]; yield c
    for i, call in enumerate(scn["calls"]):
        if call.get("inline") is not None:
            c = copy.deepcopy(scn); c["calls"][i]["inline"] = None; yield c
    # drop statements, hoist branches
    n = len(_stmt_lists(scn))
    for li in range(n):
        c0 = copy.deepcopy(scn)
        h, k = _stmt_lists(c0)[li]
        for si in range(len(h[k])):
            c = copy.deepcopy(scn)
            h2, k2 = _stmt_lists(c)[li]
            s = h2[k2][si]
            del h2[k2][si]
            yield c
            if s["k"] in ("if", "implies"):
                for branch in ([s["t"]] + [e["t"] for e in s["elifs"]] + ([s["else"]] if s.get("else") else [])) if s["k"] == "if" else [s["b"]]:
                    c = copy.deepcopy(scn)
                    h3, k3 = _stmt_lists(c)[li]
                    h3[k3][si:si + 1] = copy.deepcopy(branch)
                    yield c
                if s["k"] == "if" and (s["elifs"] or s.get("else")):
                    c = copy.deepcopy(scn)
                    h3, k3 = _stmt_lists(c)[li]
                    h3[k3][si]["elifs"] = []
                    h3[k3][si]["else"] = None
                    yield c
            if s["k"] == "unique" and len(s["es"]) > 2:
                for j in range(len(s["es"])):
                    c = copy.deepcopy(scn)
                    h3, k3 = _stmt_lists(c)[li]
                    del h3[k3][si]["es"][j]
                    yield c
    # simplify expressions
    m = len(_expr_slots(scn))
    for ei in range(m):
        c0 = copy.deepcopy(scn)
        h, k = _expr_slots(c0)[ei]
        e = h[k]
        if not isinstance(e, dict):
            continue
        subs = []
        if e["k"] == "bin":
            subs = [e["l"], e["r"]]
        elif e["k"] in ("not",):
            subs = [e["e"]]
        elif e["k"] in ("in", "notin") and len(e["rl"]) > 1:
            for j in range(len(e["rl"])):
                c = copy.deepcopy(scn)
                h2, k2 = _expr_slots(c)[ei]
                del h2[k2]["rl"][j]
                yield c
        for sub in subs:
            if isinstance(sub, dict) and sub.get("k") == "int":
                continue
            c = copy.deepcopy(scn)
            h2, k2 = _expr_slots(c)[ei]
            h2[k2] = copy.deepcopy(sub)
            yield c
        if e["k"] == "int" and e["v"] not in (0, 1):
            for v in (0, 1):
                c = copy.deepcopy(scn)
                h2, k2 = _expr_slots(c)[ei]
                h2[k2] = {"k": "int", "v": v}
                yield c
    # narrow fields
    for i, f in enumerate(scn["fields"]):
        if not f.get("enums") and f["w"] > 1:
            for w in (1, f["w"] // 2, f["w"] - 1):
                if 1 <= w < f["w"]:
                    c = copy.deepcopy(scn)
                    g = c["fields"][i]
                    g["w"] = w
                    lo, hi = (-(1 << (w - 1)), (1 << (w - 1)) - 1) if g["s"] else (0, (1 << w) - 1)
                    g["val"] = min(max(g["val"], lo), hi)
                    yield c
        if f.get("enums") is None and f["val"] != 0:
            c = copy.deepcopy(scn); c["fields"][i]["val"] = 0; yield c


def shrink(scn, pred, budget=400):
    """greedy first-improvement descent"""
    cur = scn
    size = len(json.dumps(cur))
    tries = 0
    improved = True
    while improved and tries < budget:
        improved = False
        for cand in _candidates(cur):
            tries += 1
            if tries > budget:
                break
            s = len(json.dumps(cand))
            if s >= size:
                continue
            try:
                ok = pred(cand)
            except Exception:
                ok = False
            if ok:
                cur, size, improved = cand, s, True
                break
    return cur
